"""C06 Rule checking accepts exactly the well-formed expressions, context-free."""
import re, random
import common, gen
from common import hexs, unhex
from props import lib


def run(rep, tier, seed, replay):
    rep.rule = ("grammar-directed expressions with branches nested to depth 4 plus every concatenation of <= 3 branch atoms (pairs / triples of "
                "sibling branches) plus a malformed stream; Glob::new's verdict is compared with the structural checker model (checkS) and with "
                "the declarative rules evaluated over all flat expansions (wfSpec, exponential, small trees only); non-trivial = parses and "
                "contains a branch")
    exprs = lib.inputs(rep, "C06", tier, seed, 3000, 40000, replay, max_depth=4)
    if replay is None:
        import gen as _gin
        exprs += [e for e in _gin.inherited_neighbour_family() if e not in set(exprs)]
    if replay is None:
        atoms = ["a", "/", "*", "**", "{a,b}", "{a/,b}", "{/a,b}", "{*,a}", "{a,**/b}", "<a:1,>", "<a/:1,>", "</a:1,>", "<a/:0,1>", "</a:0,1>", "<*a:2>", "{{/a,b}c,d}", "<{/a,b}c/:2>", "x", "</a/:1>", "</a/:0,1>", "<a/**:1>"]
        k = 2 if tier == "quick" else 3
        exprs += [e for e in gen.small_scope(k, atoms) if e not in set(exprs)]
        # what repeating a body makes adjacent: every kind of token at either end of the body x bounds x neighbours
        exprs += [e for e in gen.rep_body_family() if e not in set(exprs)]
        exprs += [e for e in gen.sole_boundary_family() if e not in set(exprs)]
        exprs += [e for e in gen.both_edges_family() if e not in set(exprs)]
        # three and four levels of nesting with an edge terminal at every level: the context each level hands down
        n4 = gen.nest3_family(4)
        exprs += [e for e in gen.nest3_family(3) + (random.Random(seed + 11).sample(n4, 2000) if tier == "quick" else n4) if e not in set(exprs)]
        # the size rule (R7): invariants of 0x10000 bytes or more assembled from one token or from siblings
        big = ["<a:33000>", "<b:33000>", "<a:65535>", "<a:65536>", "<ab:32768>", "<<a:300>:300>", "<<a:256>:256>", "b", "/", "*", "{<a:33000><b:33000>,c}", "<a:32768><b:32767>", "<é:32768>"]
        exprs += [e for e in gen.small_scope(2, big) + ["<<a:33000><b:33000>:0,1>", "*/{c,x<a:65535>}", "x{<a:65535>b,c}"] if e not in set(exprs)]
    if replay is None:
        # the size rule at its boundary with EVERY kind of token inside the repeated text (each kind has its own size term:
        # literals by bytes, classes, ?, alternatives of equal and of different size, flags)
        toks = ["[a]", "[!a]", "[a-c]", "[!a-c]", "?", "(?i)a", "{a,b}", "{ab,cd}", "{a,bc}", "é", "[é]", "[!é]", "<c:2>", "<c:1,2>", "a"]
        sz = []
        for t in toks:
            sz += ["<%s<b:60>:1024>" % t, "<%s<b:61>:1024>" % t, "<%s<b:59>:1024>" % t, "<%s:16384>" % t, "<%s:16383>" % t, "<%s:8192><b:32768>" % t,
                   "<%s:65535>" % t, "<%s:65536>" % t, "x/<{%s<b:60>,%s<c:60>}:1024>" % (t, t)]
        exprs += [e for e in sz if e not in set(exprs)]
    P = lib.Pair(exprs)
    h, m = P.h, P.m
    rep.evaluations = len(exprs)
    idx = [k for k in range(len(exprs)) if P.impl[k]["ok"] or P.impl[k].get("err", "").startswith("rule:")]
    mc = P.model_cmd("C", idx)
    wf = P.model_cmd("WF", idx)
    findings, _ = common.load_findings("C06")
    finding_ids = {f["id"] for f in findings}
    for k in range(len(exprs)):
        i = P.impl[k]
        e = exprs[k]
        if k not in mc:
            rep.stats["not-parsed-or-panic:" + i.get("err", "?")] += 1
            # the parser's verdict is part of the tie
            if i.get("err") == "parse" and P.model[k]["ok"]:
                rep.violation("correspondence", "parse: the crate rejects an expression the parser model accepts", {"expr": e}, impl=i["raw"][:200], model=P.model[k]["raw"][:200])
            continue
        rep.traces += 1
        mo = P.model[k]
        # R7: the size rule. The model's size rule is the documented limit transcribed (invariant size of every sub-tree < 0x10000)
        if i.get("err") == "rule:oversized" or mo.get("err") == "rule:oversized":
            rep.stats["size-rule:" + ("rejected" if i.get("err") == "rule:oversized" else "accepted")] += 1
            if i.get("err") != mo.get("err") or (not i["ok"] and i.get("spans") != mo.get("spans")):
                kind = "oracle" if (i["ok"] or mo["ok"]) else "correspondence"
                rep.violation(kind, "size rule: Glob::new %s an expression whose invariant size the rule model says is %s the limit" % ("builds" if i["ok"] else "rejects (%s)" % i.get("err"), "at or above" if mo.get("err") == "rule:oversized" else "below"), {"expr": e}, impl=i["raw"][:120], model=mo["raw"][:120])
            continue
        iv = "accept" if i["ok"] else "reject"
        rep.stats[iv if i["ok"] else i["err"]] += 1
        if any(c in e for c in "{<"):
            rep.distinct.add(e)
        if mc[k] not in ("accept", "reject"):
            rep.violation("correspondence", "parse: the crate parses an expression the parser model rejects", {"expr": e}, impl=i["raw"][:200], model=mc[k])
            continue
        mo = P.model[k]
        if not i["ok"] and (mo.get("err") != i.get("err") or mo.get("spans") != i.get("spans")):
            rep.stats["correspondence-broken"] += 1
            rep.violation("correspondence", "rule check: kind and span of the reported rule error vs the queue model (check)", {"expr": e}, impl=i["raw"][:200], model=mo["raw"][:200])
        elif not i["ok"]:
            rep.stats["rule-error-identity-equals-model"] += 1
        if mc[k] != iv:
            rep.stats["correspondence-broken"] += 1
            rep.violation("correspondence", "rule check: accept/reject verdict of Glob::new vs the structural checker checkS", {"expr": e}, impl=i["raw"][:200], model=mc[k])
        # a built glob is always rooted or never rooted
        if i["ok"] and i.get("root") == "sometimes":
            rep.violation("oracle", "build_root_certain: a built glob reports has_root = Sometimes", {"expr": e}, impl="sometimes")
        s = wf[k]
        if s == "skip":
            rep.stats["spec-skipped(too many expansions)"] += 1
            continue
        if s == iv:
            rep.stats["verdict-equals-declarative-rules"] += 1
            if i["ok"]:
                rep.sample({"expr": e, "verdict": "accepted; no rule violated in any flat expansion"})
            continue
        rep.stats["verdict-differs-from-declarative-rules"] += 1
        inp = {"expr": e}
        # the only listed deviation: self-adjacency of a repetition through a branch terminal
        f = m.ask(["F06 " + hexs(e)])[0]
        tags = f[4:].split(",") if f.startswith("out:") else []
        want = "K-RULE-REP-NESTED" if iv == "accept" else "K-RULE-ONCE-REP"
        if mc[k] != iv:
            rep.violation("oracle", "Glob::new %ss an expression that the documented rules %s, and the checker model does not reproduce it" % (iv, s), inp, impl=iv, spec=s, model=mc[k])
        elif f == "in":
            rep.violation("oracle", "build_eq_wfSpec_partial applies (repsSafe and onceOpen) but Glob::new %ss an expression that the documented rules %s" % (iv, s), inp, impl=iv, spec=s)
        elif want in tags and want in finding_ids:
            rep.known_hits[want] += 1
        else:
            rep.violation("oracle", "Glob::new %ss an expression that the documented rules %s (fragment %s)" % (iv, s, f), inp, impl=iv, spec=s)

    def ask(wit):
        b = lib.parse_impl_build(h.ask(["B " + hexs(wit["expr"])])[0])
        return b["ok"] == wit["impl_accepts"], "%r is %s" % (wit["expr"], "accepted" if b["ok"] else "rejected")
    lib.replay_findings(rep, "C06", ask)
