"""C02 Walking a glob yields exactly the files whose relative path matches."""
import re
import common, walkgen
from props import walklib, lib
from props.walklib import hx, unhx


def dotted_prefix(expr):
    """does the literal prefix of the glob contain a `.` or `..` component"""
    parts = expr.replace("@ROOT", "").split("/")
    for p in parts:
        if any(ch in p for ch in "*?[{<$("):
            break
        if p in (".", ".."):
            return True
    return False


def run(rep, tier, seed, replay):
    rep.rule = ("generated trees (pattern-like, hidden, non-ASCII, newline names; links) x bases (the root, a subdirectory, trailing separator, relative "
                "after chdir, `..`-containing) x globs (unrooted, literal prefix of 1-3 components, rooted at the tree, `.`/`..` in the prefix, tree "
                "wildcards, alternations) x link behaviours; the glob walk is compared with the walk model and with an independent reference: the "
                "plain path walk of the same base filtered by is_match on each entry's relative path; non-trivial = walks whose reference has at "
                "least one matching and one non-matching entry")
    n = 420 if tier == "quick" else 6000
    cases = walklib.gen_cases(seed, n, stack=lambda r, v, d: ("-", "-", []), bounds="none", mode="g")
    if replay is None:
        # expressions OUTSIDE the syntax that become buildable if the parser grows an escape: a separator or a backslash written
        # as an escape inside a literal (a parse error today; if such an expression builds, it is a glob like any other and
        # its walk is judged like any other)
        extra = []
        for c in cases:
            if len(extra) >= (40 if tier == "quick" else 400):
                break
            if "/" in c.expr and not c.expr.startswith(("/", "@ROOT")) and "\\" not in c.expr:
                i = c.expr.index("/")
                extra.append(c.clone(expr=c.expr[:i] + "\\/" + c.expr[i + 1:]))
        cases += extra
    if replay is not None:
        cases = [walklib.case_from(replay["input"])]
    twins = []
    for c in cases:
        rooted = c.expr.startswith("/") or c.expr.startswith("@ROOT")
        # the empty relative path cannot be walked as a path (lstat("") fails) although a glob joins its prefix to it: use `.`
        twins.append(c.clone(mode="p", expr="", base=("" if rooted else ("~." if c.base == "~" else c.base))))
    walklib.run_cases(cases)
    walklib.run_cases(twins, with_model=False)
    rep.evaluations = len(cases)
    walklib.correspondence_step(rep, cases, "glob walks")
    findings, _ = common.load_findings("C02")
    finding_ids = {f["id"] for f in findings}
    h = common.harness()
    # ---- where the walk starts: "the glob replaces the base directory, as with path joining". For a family of bases x
    # globs (no file system access) the root of the walk must be the base joined with the prefix that partition()
    # reports, and root, pivot and component programs must be the model's
    if replay is None:
        import random as _r
        rng = _r.Random(seed + 2)
        bases = ["", "x", "x/", "/x", "/", ".", "..", "x/y", "/x/y/", "./x"]
        globs = ["/**", "/**/a", "/a/**", "/a/b/*.txt", "a/**", "a/b/*", "**", "*", "", "a", "../a/*", "./a/*", "a/../b/*", "/", "/a", "{a}/b/*",
                 "<a/:2>*", "(?i)a/b*", "a/**/b/*", "/**/{a,b}", "a/b", "/a/{b,c}/**", "[a]/b/*"]
        globs += [c.expr for c in rng.sample(cases, min(len(cases), 120)) if "@ROOT" not in c.expr]
        pairs = [(b, g) for g in dict.fromkeys(globs) for b in (bases if len(g) < 14 else rng.sample(bases, 3))]
        m = common.model()
        wi = h.ask(["WP %s %s" % (hx(b), hx(g)) for b, g in pairs])
        wm = m.ask(["WP %s %s" % (hx(b), hx(g)) for b, g in pairs])
        rep.evaluations += len(pairs)
        for (b, g), a, mo in zip(pairs, wi, wm):
            if a in ("globerr",) or not a.startswith("root="):
                rep.stats["anchor:" + a.split(" ")[0]] += 1
                continue
            fa = dict(x.split("=", 1) for x in a.split(" ") if "=" in x)
            rep.traces += 1
            if not a.startswith(mo):
                rep.stats["correspondence-broken"] += 1
                rep.violation("correspondence", "anchor: root of the walk, pivot and component programs vs the walk model", {"base": b, "glob": g, "what": "anchor"}, impl=a[:300], model=mo[:300])
            if fa.get("joined") != "same":
                rep.violation("oracle", "the walk of glob %r from base %r starts at %r, not at the base joined with the glob's prefix %r" % (
                    g, b, unhx(fa.get("root", "-")), unhx(fa.get("joined", "DIFF<->")[5:-1])), {"base": b, "glob": g, "what": "anchor"}, impl=a[:200])
            else:
                rep.stats["anchor: root = base joined with the partition prefix"] += 1
        # a rooted tree wildcard walks the REAL file system from its root, whatever the base: compared (to a small depth)
        # with the path walk of `/` filtered by is_match
        real = [("/**", "/nonexistent-base", 0), ("/**", "", 1), ("/**/tmp", "x", 1), ("/**/*.d", "", 1), ("/**/{tmp,etc}", "/tmp", 1)]
        for (g, b, mx), line in zip(real, h.ask(["WR %s %s %d" % (hx(g), hx(b), mx) for g, b, mx in real])):
            if line.startswith("same"):
                rep.stats["rooted tree wildcard: real walk from / = path walk of / filtered"] += 1
            else:
                rep.violation("oracle", "walking the rooted glob %r from base %r does not yield the matching entries beneath / (to depth %d): %s" % (g, b, mx, line), {"base": b, "glob": g, "max": mx, "what": "real-rooted-walk"}, impl=line[:200])
    reqs, owner = [], []
    for k, (c, t) in enumerate(zip(cases, twins)):
        walklib.stats_for(rep, c)
        if not (c.head.startswith("root=") and t.head.startswith("root=")):
            rep.stats["outcome:" + c.head] += 1
            continue
        rooted = c.expr.startswith("/") or c.expr.startswith("@ROOT")
        real = unhx(c.f.get("root_real", "-"))
        treal = unhx(t.f.get("root_real", "-"))
        expr = c.expr.replace("@ROOT", real)
        for it in walklib.ok_items(t.f.get("items")):
            path, _rs, rel = it[0], it[1], it[2]
            cand = path.replace("@R", real) if rooted else rel
            reqs.append("M %s %s" % (hx(expr), hx(cand)))
            owner.append((k, path))
    res = h.ask(reqs)
    want = {}
    total = {}
    for (k, path), line in zip(owner, res):
        total[k] = total.get(k, 0) + 1
        if line.startswith("match"):
            want.setdefault(k, []).append(path)
    for k, (c, t) in enumerate(zip(cases, twins)):
        if not (c.head.startswith("root=") and t.head.startswith("root=")):
            continue
        got = [x[0] for x in walklib.ok_items(c.f.get("items"))]
        exp = want.get(k, [])
        kinds = {p: kd for p, kd, _d in walklib.rec_paths(c.f.get("rec", "-"), "@R")}
        if c.base == "~":
            # the empty path is not a directory that can be opened; what a walk of it does is held by the model only
            rep.stats["reference not comparable (empty base path)"] += 1
            continue
        if c.link == "t" and any(kd in ("lt", "lc") for kd in kinds.values()):
            # walkdir detects re-entrant links against the ancestors of the WALK ROOT: a walk that starts below the base
            # (at the glob's prefix) and the plain walk of the base legitimately differ behind such links; held by the model only
            rep.stats["reference not comparable (directory links under ReadTarget)"] += 1
            continue
        # the base itself may be yielded only if the glob matches the empty path; it need not be
        tbase = unhx(t.f.get("base", "-"))
        if tbase in exp and tbase not in got:
            exp = [p for p in exp if p != tbase]
        if exp and len(exp) < total.get(k, 0):
            rep.distinct.add(c.req())
        # the glob walk reports paths below its own root; compare as component lists
        norm = lambda p: [x for x in p.split("/") if x not in ("", ".")]
        if [norm(p) for p in got] == [norm(p) for p in exp]:
            rep.stats["glob walk = path walk filtered by is_match"] += 1
            if exp:
                rep.sample({"walk": c.describe(), "entries_beneath_base": total.get(k, 0), "matching": len(exp)})
            continue
        gotn, expn = [norm(p) for p in got], [norm(p) for p in exp]
        extra = [p for p, q in zip(got, gotn) if q not in expn]
        missing = [p for p, q in zip(exp, expn) if q not in gotn]
        what = ("loses %r, whose relative path the glob matches" % missing[0]) if missing else \
               ("yields %r, which is not an entry beneath the base whose relative path matches" % extra[0] if extra else "yields the matches in a different order or more than once")
        tag = None
        wroot = None
        w = h.ask(["WP %s %s" % (c.f.get("base", "-").replace("40.52", c.f.get("root_real", "-")), hx(c.expr.replace("@ROOT", unhx(c.f.get("root_real", "-")))))])[0]
        wroot = unhx(walklib.parse_answer(w)[1].get("root", "-")).replace(unhx(c.f.get("root_real", "-")), "@R")
        def kind_of(path):
            q = norm(path)
            q = q[1:] if q and q[0] == "@R" else q
            return kinds.get("@R/" + "/".join(q), "") if q else ""
        if kind_of(wroot).startswith("l"):
            # the glob's invariant prefix names a link: it becomes the walk root, which walkdir follows
            tag = "K-WALK-ROOT-LINK"
        elif dotted_prefix(c.expr) or ".." in c.base or c.base.startswith(("./", "~./")) or c.base in (".", "~."):
            tag = "K-WALK-DOT-PREFIX"
        if tag in finding_ids and walklib.corresponds(c):
            rep.known_hits[tag] += 1
        else:
            rep.violation("oracle", "the glob walk %s" % what, c.describe(), impl=c.impl[:300], expected=exp[:5])

    # ---- a base that is itself a link to a directory is walked (walkdir follows the ROOT of a walk whatever the link
    # behaviour): the entries below it are those below the directory it names
    if replay is None or replay["input"].get("what") == "link-base":
        lb, twins2 = [], []
        pool = walklib.gen_cases(seed + 9, 700 if tier == "quick" else 8000, stack=lambda r, v, d: ("-", "-", []), bounds="none", mode="g", link="f")
        if replay is not None:
            pool = [walklib.case_from(replay["input"])]
        for c in pool:
            links = [pth for pth, k in c.fs.nodes.items() if k[0] == "l"]
            cands = []
            for pth in links:
                can = c.fs.canon(walkgen.ABS + pth)
                if can is not None and can[:3] == walkgen.ABS and c.fs.kind(can) == ("d",) and can[3:] != pth[:len(can[3:])]:
                    cands.append((pth, can[3:]))
            if not cands or c.expr.startswith(("/", "@ROOT", ".")):
                continue
            pth, target = cands[0]
            c.base = "/".join(pth)
            if not walkgen.admissible(c.fs, walkgen.base_path(c.base), False):
                continue
            t2 = c.clone(base="/".join(target))
            if not walkgen.admissible(c.fs, walkgen.base_path(t2.base), False):
                continue
            lb.append(c)
            twins2.append(t2)
        walklib.run_cases(lb)
        walklib.run_cases(twins2, with_model=False)
        walklib.correspondence_step(rep, lb, "glob walks from a link to a directory")
        rep.evaluations += len(lb)
        for c, t2 in zip(lb, twins2):
            if not (c.head.startswith("root=") and t2.head.startswith("root=")):
                continue
            a = [(x[2], x[4]) for x in walklib.ok_items(c.f.get("items"))]
            b = [(x[2], x[4]) for x in walklib.ok_items(t2.f.get("items"))]
            # the walk root itself is a link in one walk and a directory in the other
            a = [("" if r == "" else r, "d" if r == "" else k) for r, k in a]
            b = [("" if r == "" else r, "d" if r == "" else k) for r, k in b]
            if a == b:
                rep.stats["link-base: same entries as the walk of the directory the link names"] += 1
                if len(a) > 1:
                    rep.distinct.add(c.req())
            else:
                missing = [x for x in b if x not in a]
                extra = [x for x in a if x not in b]
                d = dict(c.describe(), what="link-base")
                rep.violation("oracle", ("the glob walk from a base that is a link to a directory loses %r, which the walk of the directory itself yields" % (missing[0][0],)) if missing else
                              ("the glob walk from a link base yields %r, which the walk of the directory does not" % (extra[0][0],) if extra else "order differs"), d, impl=c.impl[:300])

    # ---- an INDEPENDENT reference for trees with directory links and mount points: the tree as recorded by the harness's
    # own read_dir recursion (it follows links to directories that do not re-enter an ancestor). Under ReadTarget every recorded
    # entry whose relative path the glob matches must be yielded ("never loses a match"), whatever file system the directory
    # behind a link lives on; under ReadFile nothing beneath a link may be. The walk model is run on the same recording.
    if replay is None or replay["input"].get("what") == "recorded-reference":
        from walkgen import T
        m = common.model()
        trees = [
            ("link to a directory on another file system", T("f:docs/readme.md", "x:a.md", "x:sub/b.md", "x:sub/c.txt", "l:data:@XDEV")),
            ("link to a nested directory on another file system", T("f:top.md", "x:p/q/r.md", "x:p/s.txt", "d:in", "l:in/far:@XDEV/p")),
            ("two links into the same directory on another file system", T("x:a.md", "x:k/b.md", "l:one:@XDEV", "l:two:@XDEV/k", "f:z.md")),
            ("link to a directory on the same file system", T("f:docs/readme.md", "f:store/a.md", "f:store/sub/b.md", "l:data:store")),
            ("chain of links across file systems", T("x:a.md", "x:sub/b.md", "l:hop:@XDEV/sub", "l:data:@XDEV", "f:here.md")),
        ]
        globs = ["**/*.md", "**", "*/sub/*.md", "data/**", "*/*", "**/sub/**"]
        # (a glob whose invariant prefix names a link makes the link the walk root, which walkdir follows whatever the link
        # behaviour: the listed finding K-WALK-ROOT-LINK; `data/**` is therefore walked with links read as targets only)
        rr = [(lbl, tr, g, lk) for lbl, tr in trees for g in globs for lk in ("t", "f") if not (lk == "f" and g.startswith("data/"))]
        if replay is not None:
            rr = [(replay["input"]["label"], replay["input"]["tree"], replay["input"]["glob"], replay["input"]["link"])]
        answers = h.ask(["W g - %s %s - - - %s" % (hx(g), lk, tr) for _l, tr, g, lk in rr])
        rep.evaluations += len(rr)
        mreqs, keep = [], []
        for (lbl, tr, g, lk), ans in zip(rr, answers):
            head, f = walklib.parse_answer(ans)
            if not head.startswith("root="):
                rep.stats["recorded-reference:" + head] += 1
                continue
            keep.append((lbl, tr, g, lk, f))
            mreqs.append("W g %s %s %s - - - %s %s" % (f.get("base", "-"), hx(g), lk, f.get("root", "-"), f.get("rec", "-")))
        manswers = m.ask(mreqs)
        mm, counts = [], []
        for (lbl, tr, g, lk, f) in keep:
            root = unhx(f["root"])
            rp = walklib.rec_paths(f.get("rec", "-"), root)
            counts.append(len(rp))
            for pth, kd, dep in rp:
                mm.append("M %s %s" % (hx(g), hx(pth[len(root) + 1:])))
        flat = h.ask(mm)
        per_case, pos = [], 0
        for cnt in counts:
            per_case.append(flat[pos:pos + cnt])
            pos += cnt
        per_case = iter(per_case)
        for (lbl, tr, g, lk, f), mans in zip(keep, manswers):
            rep.traces += 1
            inp = {"what": "recorded-reference", "label": lbl, "tree": tr, "glob": g, "link": lk}
            mhead, mf = walklib.parse_answer(mans)
            if mf.get("items") != f.get("items"):
                rep.stats["correspondence-broken"] += 1
                rep.violation("correspondence", "walk: ordered items of the real walk vs the walk model (trees with links across file systems)", inp, impl=(f.get("items") or "")[:300], model=(mf.get("items") or mhead)[:300])
            root = unhx(f["root"])
            got = {x[0] for x in walklib.ok_items(f.get("items"))}
            behind = []
            mres = iter(next(per_case))
            for pth, kd, dep in walklib.rec_paths(f.get("rec", "-"), root):
                matches = next(mres).startswith("match")
                under_link = any(pth.startswith(b + "/") for b in behind)
                if kd.startswith("l"):
                    behind.append(pth)
                if not matches:
                    continue
                if lk == "t" and pth not in got:
                    rep.violation("oracle", "the glob walk (links read as their targets) loses %r, an entry of the recorded tree whose relative path the glob matches (%s)" % (pth[len(root) + 1:], lbl), inp, impl=(f.get("items") or "")[:300])
                    break
                if lk == "f" and under_link and pth in got:
                    rep.violation("oracle", "the glob walk (links read as files) yields %r, which lies beneath a link (%s)" % (pth[len(root) + 1:], lbl), inp, impl=(f.get("items") or "")[:300])
                    break
                if lk == "f" and not under_link and pth not in got:
                    rep.violation("oracle", "the glob walk loses %r, an entry of the recorded tree whose relative path the glob matches (%s)" % (pth[len(root) + 1:], lbl), inp, impl=(f.get("items") or "")[:300])
                    break
            else:
                rep.stats["recorded-reference: every recorded match is yielded"] += 1
                continue

    def ask(wit):
        a = walklib.case_from(wit["walk"])
        walklib.run_cases([a], with_model=False)
        got = [x[0] for x in walklib.ok_items(a.f.get("items"))]
        return wit["missing"] not in got, "glob %r from the tree root does not yield %r" % (a.expr, wit["missing"])
    lib.replay_findings(rep, "C02", ask)
