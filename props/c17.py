"""C17 Spans reported for errors and captures index the expression safely."""
import re
import common
from common import hexs, unhex
from props import lib


def sexp(s):
    """parse the token dump into nested lists"""
    toks = re.findall(r"\(|\)|[^\s()]+", s)
    pos = 0

    def go():
        nonlocal pos
        out = []
        while pos < len(toks):
            t = toks[pos]
            pos += 1
            if t == "(":
                out.append(go())
            elif t == ")":
                return out
            else:
                out.append(t)
        return out
    return go()[0]


def top_tokens(dump):
    t = sexp(dump)
    head = t[0]
    if head.startswith("cat"):
        return [x for x in t[1:] if isinstance(x, list)]
    return [t]


def kind_span(tok):
    m = re.match(r"([a-z]+)@(\d+)\+(\d+)", tok[0])
    return m.group(1), int(m.group(2)), int(m.group(3))


CAPTURING = {"alt", "rep", "cls", "one", "zom", "tree"}


def char_width_at(e, loc):
    b = e.encode("utf-8")
    if loc >= len(b):
        return 0
    # loc must be a boundary for this to be meaningful
    try:
        rest = b[loc:].decode("utf-8")
    except UnicodeDecodeError:
        return -1
    return len(rest[0].encode("utf-8"))


def run(rep, tier, seed, replay):
    rep.rule = ("grammar-directed expressions plus a malformed stream with multi-byte characters next to the fault and faults at the end of "
                "input; every span the crate reports (error locations, capture spans, capture spans of the partitioned postfix) is sliced out "
                "of the expression under catch_unwind exactly as the documentation does; parse-error locations and token spans are compared "
                "with the parser model; non-trivial = has at least one reported span and a multi-byte character or a branch")
    exprs = lib.inputs(rep, "C17", tier, seed, 3000, 40000, replay, malformed_share=0.45)
    if replay is None:
        import gen as _gin
        exprs += [e for e in _gin.inherited_neighbour_family() if e not in set(exprs)]
    if replay is None:
        # expressions with outer whitespace (ordinary literal text in a glob): spans index the string the caller passed,
        # whichever route builds it
        import random as _r
        rw = _r.Random(seed + 17)
        ws = [" ", "\t", "\u3000", "\u00a0", "  ", "\n"]
        exprs += [rw.choice(ws) + e for e in rw.sample(exprs, min(len(exprs), 150))] + [e + rw.choice(ws) for e in rw.sample(exprs, min(len(exprs), 60))]
        exprs += ["\u3000a{", "\u00a0é*", " */?.txt", "  a//b", " é\\", "\té{"]
        exprs += [e for e in ["é\\", "(?i)", "a(?i)", "日本{", "{日本", "a/**/{é,ǅ}/*", "é*é", "<é:1,2>日", "a//b", "é//b", "{a,/b}", "日{**}", "<日:3,1>", "é<*>", "日**", "a{", "日本\\"] if e not in set(exprs)]
    P = lib.Pair(exprs)
    h, m = P.h, P.m
    rep.evaluations = len(exprs)
    sl = h.ask(["S " + hexs(e) for e in exprs])
    standalone = []
    for k, e in enumerate(exprs):
        i, mo, s = P.impl[k], P.model[k], sl[k]
        rep.traces += 1
        nonascii = any(ord(c) > 127 for c in e)
        if "PANIC" in s:
            rep.violation("oracle", "slicing the expression by a reported span panics", {"expr": e}, impl=s[:300])
            continue
        if " routes=" in s and not s.endswith(" routes=same"):
            rep.violation("oracle", "the spans reported for the same string differ between Glob::new, FromStr and TryFrom (they index the string the caller passed)",
                          {"expr": e, "what": "routes"}, impl=s[s.index(" routes=") + 1:][:300])
        elif " routes=" in s:
            rep.stats["spans: new = from_str = try_from"] += 1
        s = s.split(" routes=")[0]
        if s.startswith("err"):
            kind = i.get("err", "?")
            rep.stats["error:" + kind] += 1
            spans = re.findall(r"(\d+)\+(\d+)=", s)
            if spans and (nonascii or any(c in e for c in "{<")):
                rep.distinct.add(e)
            # error identity: kind and every location with its width, from the parser model (two error shapes)
            # and from the rule checker model (queue order decides which violation is reported first)
            if kind == "parse" or kind.startswith("rule:"):
                if mo["ok"] or mo.get("err") != kind or mo.get("spans") != i.get("spans"):
                    if kind == "rule:oversized" and mo.get("err") == kind:
                        pass
                    rep.violation("correspondence", "error identity: kind and spans of the build error differ from the parser / rule checker model", {"expr": e}, impl=i["raw"][:200], model=mo["raw"][:200])
                else:
                    rep.stats["error-kind-and-spans-equal-model"] += 1
                # every reported location is a character boundary inside the expression (decided here, proved for parse errors)
                eb = e.encode("utf-8")
                for a, b in spans:
                    a, b = int(a), int(b)
                    ok = a + b <= len(eb)
                    try:
                        eb[:a].decode("utf-8"); eb[a:a + b].decode("utf-8")
                    except UnicodeDecodeError:
                        ok = False
                    if not ok:
                        rep.violation("oracle", "a reported error span does not lie on character boundaries inside the expression", {"expr": e, "span": [a, b]}, impl=i["raw"][:200])
            continue
        if not s.startswith("ok"):
            rep.stats["other:" + s.split()[0]] += 1
            continue
        rep.stats["built"] += 1
        # token spans: the model's tree, spans included
        if not (mo["ok"] and mo["tokens"] == i["tokens"]):
            rep.violation("correspondence", "parse: token tree with every span", {"expr": e}, impl=i["raw"][:300], model=mo["raw"][:300])
        # captures are the capturing top-level tokens, in order, with their spans
        tops = [kind_span(t) for t in top_tokens(i["tokens"])]
        want = ["%d:%d+%d" % (n + 1, a, b) for n, (kd, a, b) in enumerate([t for t in tops if t[0] in CAPTURING])]
        got = i.get("caps", "[]").strip("[]").split(",") if i.get("caps", "[]") != "[]" else []
        if want != got:
            rep.violation("oracle", "captures() does not enumerate the capturing top-level sub-expressions with their spans", {"expr": e}, impl=got, spec=want)
        caps = re.findall(r"(\d+)\+(\d+)=(\S*?)(?:,|\])", s.split(" post=")[0])
        if caps and (nonascii or any(c in e for c in "{<")):
            rep.distinct.add(e)
        for (a, b, hx), (kd, _, _) in zip(caps, [t for t in tops if t[0] in CAPTURING]):
            standalone.append((e, unhex(hx), kd, "expression"))
        post = s.split(" post=")[1]
        if post != "none":
            ptext = unhex(post.split("[")[0])
            pcaps = re.findall(r"(\d+)\+(\d+)=(\S*?)(?:,|\])", "[" + post.split("[", 1)[1])
            for a, b, hx in pcaps:
                standalone.append((e, unhex(hx), None, "postfix " + ptext))
            rep.stats["partitioned-with-captures"] += 1 if pcaps else 0
        rep.sample({"expr": e, "spans": s[:160]})
    # a capture's span delimits exactly the text of its sub-expression: the slice, built alone, is one
    # capturing token of the same kind
    # leading flags belong to the span of the token they precede; a tree wildcard cannot follow a flag at
    # the very start of an expression, so flags are stripped before the slice is built alone
    strip = lambda t: re.sub(r"^(?:\(\?(?:-?i)+\))+", "", t)
    res = h.ask(["B " + hexs(strip(t)) for _, t, _, _ in standalone])
    findings, _ = common.load_findings("C17")
    finding_ids = {f["id"] for f in findings}
    pcache = {}
    for (e, t, kd, where), line in zip(standalone, res):
        b = lib.parse_impl_build(line)
        ok = False
        if b["ok"]:
            tt = [kind_span(x)[0] for x in top_tokens(b["tokens"])]
            ok = len(tt) == 1 and tt[0] in CAPTURING and (kd is None or tt[0] == kd)
        elif b.get("err", "").startswith("rule:"):
            # a sub-expression need not be a valid glob of its own (a rooted branch, for example); its delimiters are what is checked
            ok = True
        if ok:
            rep.stats["capture-span-delimits-its-sub-expression"] += 1
        else:
            inp = {"expr": e, "slice": t, "where": where}
            # listed site: the partition point is a rooted tree wildcard whose span begins with a flag, so
            # removing "the root separator" removes the first byte of the flag instead
            if e not in pcache:
                pcache[e] = (h.ask(["P " + hexs(e)])[0], m.ask(["P " + hexs(e)])[0])
            pi, pm = pcache[e]
            reproduced = pi.startswith(pm)
            eb = e.encode("utf-8")
            k = exprs.index(e)
            flagged_tree = any(kd2 == "tree" and tok[1] == "1" and eb[a:a + 1] != b"/" for tok in top_tokens(P.impl[k]["tokens"]) for kd2, a, _ in [kind_span(tok)])
            if where.startswith("postfix") and reproduced and flagged_tree and "K-PART-FLAG-ROOTED-TREE" in finding_ids:
                rep.known_hits["K-PART-FLAG-ROOTED-TREE"] += 1
            else:
                rep.violation("oracle", "a capture span does not delimit the text of a capturing sub-expression (%s)" % where, inp, impl=line[:200])
    def ask(wit):
        line = h.ask(["S " + hexs(wit["expr"])])[0]
        post = line.split(" post=")[1] if " post=" in line else "none"
        return post.startswith(hexs(wit["postfix"])), "%r partitions into the postfix %r, whose spans do not delimit sub-expressions" % (wit["expr"], wit["postfix"])
    lib.replay_findings(rep, "C17", ask)
