"""C19 Re-expressing or re-owning a pattern does not change its behaviour."""
import random
import common, gen
from common import hexs, unhex
from props import lib
from props.c08 import fields


def run(rep, tier, seed, replay):
    rep.rule = ("grammar-directed expressions; for each built glob every conversion route (Display+new, Clone, into_owned, FromStr, TryFrom, any() of "
                "text / compiled / nested) is compared on the token tree, the compiled program, every query and the captures of candidate paths "
                "sampled from the glob's own language (automaton) and perturbed; the partitioned postfix is re-expressed too; non-trivial = built, "
                "has a pattern token and at least one sampled path matches")
    exprs = lib.inputs(rep, "C19", tier, seed, 1200, 15000, replay)
    P = lib.Pair(exprs)
    h, m = P.h, P.m
    rep.evaluations = len(exprs)
    built = [k for k in range(len(exprs)) if P.impl[k]["ok"]]
    # building a pattern from its TEXT is the first route of all: a text the model builds (every limit respected) and the crate
    # rejects, on this thread with its history of earlier builds, is a route that changed the behaviour
    import re as _re
    for k, e in enumerate(exprs):
        i, mo = P.impl[k], P.model[k]
        nums = [int(x) for x in _re.findall(r"\d+", e)]
        small = len(e) < 200 and all(x < 50 for x in nums) and (max(nums) if nums else 1) ** min(len(nums), 3) < 3000 and not _re.search(r"[{<]{12,}", e)
        if mo["ok"] and not i["ok"] and small and (i.get("err") in ("parse", "compile") or str(i.get("err", "")).startswith("rule:")):
            rep.violation("oracle", "Glob::new rejects the text %r (%s), which the model of the committed code builds: the same text builds or not depending on what this thread built before" % (e, i.get("err")),
                          {"expr": e, "what": "text-route"}, impl=i["raw"][:200], model=mo["raw"][:200])
            break
    r = random.Random(seed)
    words = h.ask(["WD %s 6" % hexs(P.impl[k]["pattern"]) for k in built])
    reqs = []
    npaths = {}
    for k, wl in zip(built, words):
        ws = [unhex(x) for x in wl.split()[1:]] if wl.startswith("words") else []
        ps = gen.paths_for(r, exprs[k], ws, extra=3)[:10]
        npaths[k] = (len(ps), len(ws))
        reqs.append("V %s %s" % (P.hx[k], " ".join(hexs(p) for p in ps)))
    res = h.ask(reqs)
    parts = h.ask(["P " + P.hx[k] for k in built])
    pm = m.ask(["P " + P.hx[k] for k in built])
    # the model of Token::fold_map (token::any, into_owned): the rebuilt tree, annotations dropped
    fm_i = h.ask(["A 1 " + P.hx[k] for k in built])
    fm_m = m.ask(["FM " + P.hx[k] for k in built])
    for k, a, b in zip(built, fm_i, fm_m):
        if a.startswith("ok ") and a[3:].split(" | ")[0] != b[3:]:
            rep.violation("correspondence", "fold_map: the tree rebuilt by token::any vs the fold_map model", {"expr": exprs[k]}, impl=a[:300], model=b[:300])
        elif a.startswith("ok "):
            rep.stats["fold_map-tree-equals-model"] += 1
    findings, _ = common.load_findings("C19")
    finding_ids = {f["id"] for f in findings}
    for k, line, pl, pml in zip(built, res, parts, pm):
        e = exprs[k]
        rep.traces += 1
        if line.startswith("panic") or line == "err":
            rep.violation("oracle", "a conversion route panics or fails", {"expr": e}, impl=line[:200])
            continue
        # converting to an owned value (into_owned, FromStr) does not change what partition() returns
        om = [x for x in pl.split(" ") if x.startswith("owned=")]
        if om and om[0] != "owned=same":
            rep.violation("oracle", "the partition of an owned glob (into_owned / FromStr) differs from the partition of the borrowed glob (prefix, displayed postfix, tokens, program or capture spans)",
                          {"expr": e, "what": "owned-partition"}, impl=om[0][:300])
        elif om:
            rep.stats["owned partition = borrowed partition"] += 1
        f = dict(x.split("=", 1) for x in line.split(" ") if "=" in x and not x.startswith("DIFF"))
        # the model: Display prints the expression the glob was built from
        if unhex(f.get("display", "-")) != e:
            rep.violation("correspondence", "Display: the displayed text is not the expression", {"expr": e}, impl=unhex(f.get("display", "-")), model=e)
        bad = [x.split("=", 1)[0] for x in line.split(" ") if "=DIFF<" in x]
        if "DIFF<" in line and not bad:
            bad = ["?"]
        if bad == ["any-vs-glob"]:
            # the combinator's tree nests the glob one branch deeper: the superposition finding of C01 / C07
            fa = m.ask(["FA 1 " + P.hx[k]])[0]
            ma = lib.parse_model_build(m.ask(["A 1 " + P.hx[k]])[0]).get("pattern")
            ia = lib.parse_impl_build(h.ask(["A 1 " + P.hx[k]])[0]).get("pattern")
            tags = fa[4:].split(",") if fa.startswith("out:") else []
            known = [t for t in tags if t in finding_ids]
            if known and ma == ia:
                for t in known:
                    rep.known_hits[t] += 1
                bad = []
        if bad:
            rep.violation("oracle", "conversion route(s) %s change the pattern's behaviour" % ",".join(bad), {"expr": e}, impl=line[:600])
        else:
            rep.stats["all-routes-identical"] += 1
            if lib.nontrivial(e) and npaths[k][1] > 0:
                rep.distinct.add(e)
            rep.sample({"expr": e, "paths_compared": npaths[k][0], "verdict": "8 routes identical on tree, program, queries and captures"})
        # the partitioned postfix re-expressed
        pf = fields(pl)
        if pf.get("post", "none") != "none":
            want = "%s|%s" % (pf["pattern"], pf.get("caps", "[]").strip("[]"))
            if pf.get("rebuilt") == want:
                rep.stats["postfix-display-rebuilds-identically"] += 1
            else:
                from props.c08 import classify
                tag = classify(e, pf, P.impl[k], "rebuild")
                if pl.startswith(pml) and tag in finding_ids:
                    rep.known_hits[tag] += 1
                else:
                    rep.violation("oracle", "the displayed postfix of the partition does not rebuild into the same program (%s)" % tag, {"expr": e, "postfix": unhex(pf["post"])}, impl=pl[:300])

    # ---- HISTORY: a value that has answered its queries and matched a path, and is THEN re-owned, combined or partitioned,
    # gives the same new value as one that was never asked (harness `XH`)
    if replay is None or replay["input"].get("what") == "history":
        subj = [exprs[k] for k in built]
        for e, line in zip(subj, h.ask(["XH " + hexs(e) for e in subj])):
            rep.evaluations += 1
            bad = [x.split("=", 1)[0] for x in line.split(" ") if "=DIFF<" in x]
            if line.startswith("panic"):
                continue
            if bad:
                rep.violation("oracle", "after answering its queries the value converts differently (%s): program, queries or both differ from the same conversion of a fresh value" % ",".join(bad),
                              {"expr": e, "what": "history"}, impl=line[:600])
            else:
                rep.stats["history: queried-then-converted = converted (partition, into_owned, any, owned partition, postfix re-owned)"] += 1

    # ---- owned matched text on LONG candidate paths (offsets beyond 16 and near 32 bits of bytes are the same offsets)
    if replay is None:
        longs = [("**/{*.{go,rs}}", "component/" * 7000 + "lib.rs"), ("*/*.{log,txt}", "d" * 40000 + "/" + "f" * 40000 + ".log"),
                 ("**/*", "a/" * 33000 + "b"), ("<*/:1,>*.rs", "é/" * 22000 + "x.rs"), ("*", "x" * 70000), ("**/a/**", "b/" * 20000 + "a/" + "c/" * 20000 + "d")]
        for (e, pth), line in zip(longs, h.ask(["M %s %s" % (hexs(e), hexs(pth)) for e, pth in longs], timeout=120)):
            if line.startswith("match") and " owned=same " in line + " ":
                rep.stats["long candidate path (%d KiB): owned captures = borrowed captures" % (len(pth.encode()) // 1024)] += 1
            elif line.startswith("nomatch"):
                rep.stats["long candidate path: no match"] += 1
            else:
                rep.violation("oracle", "on a candidate path of %d bytes the owned matched text does not return the captures of the borrowed text it was made from (or the conversion panics)" % len(pth.encode()),
                              {"expr": e, "path_bytes": len(pth.encode()), "path_unit": pth[:12], "what": "long-owned"}, impl=line[:200])
        rep.evaluations += len(longs)
    # ---- the constant constructors (Glob::empty, Glob::tree) and `any` over build results instead of text
    if replay is None:
        import random as _r
        rng = _r.Random(seed + 19)
        groups = [[rng.choice(exprs) for _ in range(rng.randint(1, 3))] for _ in range(300 if tier == "quick" else 3000)]
        for g, line in zip(groups, h.ask(["K " + " ".join(hexs(e) for e in g) for g in groups])):
            if line == "empty=same tree=same any-results=same":
                rep.stats["Glob::empty = new(\"\"), Glob::tree = new(\"**\"), any(results) = any(text)"] += 1
            elif line.startswith("panic"):
                rep.stats["constructors: a member panics while building (C05's subject)"] += 1
            else:
                rep.violation("oracle", "a constant constructor differs from building its text, or any() over build results differs from any() over text",
                              {"any": g, "what": "constructors"}, impl=line[:300])
        rep.evaluations += len(groups)

    def ask(wit):
        if "route" in wit:
            line = h.ask(["V %s %s" % (hexs(wit["expr"]), hexs(wit["path"]))])[0]
            return (wit["route"] + "=DIFF") in line, "%r and any([%r]) disagree on the path %r" % (wit["expr"], wit["expr"], wit["path"])
        line = h.ask(["P " + hexs(wit["expr"])])[0]
        return wit["expect"] in line, "%r: the displayed postfix does not rebuild into the same program" % wit["expr"]
    lib.replay_findings(rep, "C19", ask)
