"""C03 Negated walks discard exactly the entries that match the negation."""
import common, walkgen
from props import walklib, lib
from props.walklib import hx, unhx


def not_stack(rng, vocab, dirs):
    n = rng.choice([1, 1, 1, 2])
    layers, shape, kinds = [], "", []
    for _ in range(n):
        k = rng.choices([1, 2, 3], [70, 22, 8])[0]
        exprs = []
        for _ in range(k):
            e, kind = walkgen.gen_not(rng, vocab, dirs)
            exprs.append(e)
            kinds.append(kind)
        # as an expression, or as compiled values (Glob / any of Globs)
        layers.append(("n:" if rng.random() < 0.6 else "nc:") + "+".join(hx(e) for e in exprs))
        shape += "n" if k == 1 else "N"
    return ";".join(layers), shape, kinds


def run(rep, tier, seed, replay):
    rep.rule = ("generated trees x underlying walks (path walks and glob walks) x 1-2 negations (single expressions and any() of several: exhaustive "
                "like b/**, non-exhaustive like *.txt, mixed alternations, alternations and repetitions after a tree wildcard, the empty pattern); the "
                "negated walk is compared with the walk model (incl. the text of the exhaustive / nonexhaustive programs each negation compiles to) "
                "and with the underlying walk filtered entry by entry with is_match on the root-relative path; non-trivial = walks in which the "
                "negation discards at least one entry and keeps at least one")
    n = 420 if tier == "quick" else 6000
    cases = walklib.gen_cases(seed, n, stack=not_stack, bounds="none")
    # witnesses of repaired defects and of seeded changes run first
    cases = [walklib.case_from(w) for w in common.load_corpus("C03")] + cases
    if replay is not None:
        cases = [walklib.case_from(replay["input"])]
    twins = [c.clone(stack="-") for c in cases]
    walklib.run_cases(cases)
    walklib.run_cases(twins, with_model=False)
    rep.evaluations = len(cases)
    walklib.correspondence_step(rep, cases, "negated walks")
    findings, _ = common.load_findings("C03")
    finding_ids = {f["id"] for f in findings}
    h, m = common.harness(), common.model()
    # the programs a negation compiles to: a wrong exhaustiveness verdict is visible as a regex in the wrong bucket
    npreq = []
    for c in cases:
        for layer in c.stack.split(";"):
            es = layer.split(":", 1)[1].split("+")
            npreq.append("NP %d %s" % (len(es), " ".join(es)))
    npreq = list(dict.fromkeys(npreq))
    for q, a, b in zip(npreq, h.ask(npreq), m.ask(npreq)):
        if a != b:
            rep.violation("correspondence", "negation programs: text of the exhaustive / nonexhaustive programs", {"negation": [unhx(x) for x in q.split(" ")[2:]]}, impl=a[:300], model=b[:300])
        else:
            rep.stats["negation-programs-equal-model"] += 1
    # ... and their LANGUAGE: exhaustive | nonexhaustive program = the union of the negation's patterns (the crate's own
    # program texts, all paths; into_alternatives / into_non_trivial must not change what is matched)
    nplang, npown = [], []
    impl_np = dict(zip(npreq, h.ask(npreq)))
    member_pat = {}
    allmem = sorted({x for q in npreq for x in q.split(" ")[2:]})
    for x, line in zip(allmem, h.ask(["B " + x for x in allmem])):
        d = lib.parse_impl_build(line)
        member_pat[x] = d["pattern"] if d["ok"] else None
    for q in npreq:
        a = impl_np[q]
        f = dict(y.split("=", 1) for y in a.split(" ") if "=" in y)
        progs = [unhx(f[k2]) for k2 in ("ex", "nx") if f.get(k2, "none") not in ("none", "-")]
        mem = [member_pat.get(x) for x in q.split(" ")[2:]]
        if not progs or any(m0 is None for m0 in mem):
            continue
        strip = lambda pt: pt[5:-1] if pt.startswith("(?s)^") and pt.endswith("$") else pt
        nplang.append("L %s %s" % (hx("(?s)^(?:%s)$" % "|".join("(?:%s)" % strip(x) for x in progs)), hx("(?s)^(?:%s)$" % "|".join("(?:%s)" % strip(x) for x in mem))))
        npown.append(q)
    for q, line in zip(npown, h.ask(nplang)):
        pats_q = [unhx(x) for x in q.split(" ")[2:]]
        if line == "EQUAL":
            rep.stats["negation programs match exactly what the patterns match"] += 1
        elif line.startswith("DIFF"):
            w = unhx(line.split()[1])
            by_members = any(l2.startswith("match") for l2 in h.ask(["M %s %s" % (x, hx(w)) for x in q.split(" ")[2:]]))
            fa = m.ask(["FA %d %s" % (len(pats_q), " ".join(q.split(" ")[2:]))])[0]
            tags = fa[4:].split(",") if fa.startswith("out:") else []
            c01ids = {f0["id"] for f0 in common.load_findings("C01")[0]} | {f0["id"] for f0 in common.load_findings("C07")[0]}
            if tags and all(t0 in c01ids for t0 in tags) and impl_np[q] == dict(zip(npreq, [None] * 0)).get(q, impl_np[q]):
                rep.stats["negation programs deviate at a listed encoder finding (%s)" % ",".join(tags)] += 1
            else:
                rep.violation("oracle", "the programs a negation compiles to %s %r, which its pattern%s %s" % (
                    "do not match" if by_members else "match", w, "s" if len(pats_q) > 1 else "", "match" if by_members else "do not match"),
                    {"negation": pats_q, "path": w, "what": "negation-programs"}, impl=impl_np[q][:300], fragment=fa)
    reqs, owner = [], []
    for k, (c, t) in enumerate(zip(cases, twins)):
        if not (c.head.startswith("root=") and t.head.startswith("root=")):
            continue
        pats = [unhx(x) for layer in c.stack.split(";") for x in layer.split(":", 1)[1].split("+")]
        for it in walklib.ok_items(t.f.get("items")):
            rel = it[2].replace("@R", unhx(t.f.get("root_real", "-")))
            for p in pats:
                reqs.append("M %s %s" % (hx(p), hx(rel)))
                owner.append((k, it[0]))
    res = h.ask(reqs)
    dropped = {}
    for (k, path), line in zip(owner, res):
        if line.startswith("match"):
            dropped.setdefault(k, set()).add(path)
    for k, (c, t) in enumerate(zip(cases, twins)):
        walklib.stats_for(rep, c)
        if not (c.head.startswith("root=") and t.head.startswith("root=")):
            rep.stats["outcome:" + c.head] += 1
            continue
        under = [x[0] for x in walklib.ok_items(t.f.get("items"))]
        exp = [p for p in under if p not in dropped.get(k, set())]
        got = [x[0] for x in walklib.ok_items(c.f.get("items"))]
        if exp and len(exp) < len(under):
            rep.distinct.add(c.req())
        if got == exp:
            rep.stats["negated walk = underlying walk filtered per entry"] += 1
            if len(exp) < len(under):
                rep.sample({"walk": c.describe(), "underlying": len(under), "kept": len(exp)})
            continue
        missing = [p for p in exp if p not in got]
        extra = [p for p in got if p not in exp]
        what = ("drops %r, which does not match the negation" % missing[0]) if missing else ("keeps %r, which matches the negation" % extra[0] if extra else "changes the order")
        tag = None
        if missing:
            # pruned as a tree below a directory that matches (or because the walk root itself, the empty path, matches)
            anc = [d for d in dropped.get(k, set()) if missing[0].startswith(d.rstrip("/") + "/") or d == unhx(t.f.get("base", "-"))]
            pivot = 0
            if c.mode == "g":
                w = h.ask(["WP %s %s" % (c.f.get("base", "-").replace("40.52", c.f.get("root_real", "-")), hx(c.expr.replace("@ROOT", unhx(c.f.get("root_real", "-")))))])[0]
                try:
                    pivot = int(walklib.parse_answer(w)[1].get("pivot", "0"))
                except ValueError:
                    pivot = 0
            if not anc:
                # a directory that the underlying walk does not YIELD (the glob does not match it) is still fed to the
                # negation as residue: any directory above the lost entry that a pattern claiming Always matches
                pats = [x for layer in c.stack.split(";") for x in layer.split(":", 1)[1].split("+")]
                claims = [x for x, line in zip(pats, h.ask(["B " + x for x in pats])) if lib.parse_impl_build(line).get("exh") == "always"]
                root_t = unhx(t.f.get("root_real", "-"))
                sample = walklib.ok_items(t.f.get("items"))
                lost = missing[0].replace("@R", root_t)
                # the relative segment of the lost entry, as the twin reports it
                rel = next((x[2] for x in sample if x[0] == missing[0]), None)
                if rel is not None and claims:
                    parts = rel.replace("@R", root_t).split("/")
                    ancestors = ["/".join(parts[:i]) for i in range(0, len(parts))]
                    hits = h.ask(["M %s %s" % (x, hx(a)) for x in claims for a in ancestors])
                    if any(line.startswith("match") for line in hits):
                        anc = ["(residue)"]
            if anc:
                tag = "K-NOT-FALSE-ALWAYS"
            elif pivot > 0:
                tag = "K-NOT-RESIDUE-PIVOT"
        if tag in finding_ids and walklib.corresponds(c):
            rep.known_hits[tag] += 1
        else:
            rep.violation("oracle", "the negated walk %s" % what, c.describe(), impl=c.impl[:300])

    def ask(wit):
        a = walklib.case_from(wit["walk"])
        walklib.run_cases([a], with_model=False)
        got = [x[0] for x in walklib.ok_items(a.f.get("items"))]
        return wit["missing"] not in got, "walk of %r with the negation %r drops %r" % (a.expr or "the tree", [unhx(x) for l in a.stack.split(";") for x in l.split(":", 1)[1].split("+")], wit["missing"])
    lib.replay_findings(rep, "C03", ask)
