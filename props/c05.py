"""C05 Building and querying a glob is total."""
import random, re
import common, gen
from common import hexs, unhex
from props import lib

HUGE = ["<a:9223372036854775808>", "<aa:9223372036854775808>", "<a*:4294967296,>", "<a:1,4294967296>", "<a:0,2><b:1,>", "<a:18446744073709551615>",
        "<a:18446744073709551616>", "<<a:4294967295>:4294967295>", "<a:0,18446744073709551615>", "<?:9223372036854775808>", "<$?:9223372036854775808>",
        "<a/:9223372036854775808>", "<a:1,><b:18446744073709551615>", "{<a:4294967295>,b}", "<[ab]:65536>", "<a:65536>", "<a:65535>", "<ab:32768>",
        "<{[a],a}:18446744073709551615>", "<a:1,2><b:2,3><c:0,9223372036854775807><d:0,9223372036854775807>"]


def nested(n, kind):
    if kind == 0:
        return "{" * n + "a" + "}" * n
    if kind == 1:
        return "<" * n + "a" + ">" * n
    return "".join("{a," for _ in range(n)) + "b" + "}" * n


def run(rep, tier, seed, replay):
    rep.rule = ("all strings: grammar-directed expressions, a malformed stream (unbalanced delimiters, arbitrary scalars), bounds up to and beyond the "
                "machine word, nesting to 150 levels (thousands in the thorough tier, in a child process); every public operation runs under "
                "catch_unwind: new, depth, text, has_root, is_exhaustive, has_semantic_literals, captures, Display, the three partitions (also of the owned glob, and re-partition / captures of the postfix), into_owned, "
                "any of text / compiled, not, the walker's programs, is_match / matched / get on sampled paths; non-trivial = distinct expressions "
                "that build, or that have a bound or nesting beyond the ordinary")
    exprs = lib.inputs(rep, "C05", tier, seed, 2500, 30000, replay, malformed_share=0.35)
    long_siblings = []
    if replay is None:
        # LENGTH without nesting or large numbers: many sibling alternations / optional repetitions / tree wildcards in one
        # concatenation (whatever a fold accumulates per sibling must not multiply), every query asked of each
        exprs += [e for e in ["{a,b/c}" * 24, "{a,b/c}" * 40, "{a,b}" * 40, "x{a,b/c}y/" * 20 + "z", "<a:0,1>" * 30 + "b", "{a,b/c,d/e/f}" * 16,
                              "<a/:0,1>" * 24 + "b", "{a,<b/:1,2>}" * 20, "{a/,b/c/}" * 24 + "*", "{*,?a}/" * 20 + "x", "a{b,c/d}" * 32]
                  if e not in set(exprs)]
        long_siblings = exprs[-11:]
        exprs = exprs[:-11]
    if replay is None:
        exprs += HUGE + [nested(n, k) for k in range(3) for n in (10, 60, 100, 124, 125, 150)]
        if tier != "quick":
            exprs += [nested(n, k) for k in range(3) for n in (500, 2000, 5000, 20000)]
        r = random.Random(seed)
        for _ in range(200 if tier == "quick" else 3000):
            b = r.choice(["4294967295", "4294967296", "9223372036854775807", "9223372036854775808", "18446744073709551615", "18446744073709551616", "65535", "65536", "0", "1"])
            c = r.choice(["4294967295", "1", "0", "", "18446744073709551615", "2"])
            body = r.choice(["a", "ab", "?", "*a", "a/", "[ab]", "{a,b}", "<a:2>", "$?", "é"])
            exprs.append(r.choice(["x", "", "/"]) + "<%s:%s%s>" % (body, b, ("," + c) if r.random() < 0.5 else "") + r.choice(["", "y", "/z", "<b:1,>"]))
        # invariant prefixes spelled longer than their text (escapes, flags, classes, exact repetitions, single-branch
        # alternations) around multi-byte characters, before a variant postfix: the byte arithmetic of partition
        pres = ["{é}é", "[é]/é", "\\*\\*愛", "(?-i)愛é", "<é:1>é", "é{愛}", "(?i)1é", "<é/:2>愛", "[愛]愛", "{é/愛}", "(?i)中", "<<é:1>:1>é", "愛\\[é\\]", "/{é}", "/<愛:2>é"]
        posts = ["/*", "/**/*.rs", "/x/**", "*", "/{a,b}*", "/**", "/é*", "/<a:1,>"]
        exprs += [a + b for a in pres for b in posts]
        # input that ENDS anywhere: every prefix of a sample of expressions and of expressions with bounds
        rp = random.Random(seed + 5)
        base_e = rp.sample([e for e in exprs if 2 <= len(e) <= 40], min(150, len(exprs))) + ["<a:1,2>b", "src/<*/:0,3>x", "{a,<b:2>}", "<<a:1,2>:3>", "(?i)<a/:1>", "a/**/{b,c}", "[a-z]*", "\\*a", "<a:12,345>"]
        exprs += [e[:j] for e in base_e for j in range(1, len(e))]
        exprs = list(dict.fromkeys(exprs))
    h, m = common.harness(), common.model()
    rep.evaluations = len(exprs)
    paths = ["", "a", "a/b", "/a", "aa", "a\nb", "é", "x/y/z.txt"]
    res = h.ask(["T %s %s" % (hexs(e), " ".join(hexs(p) for p in paths)) for e in exprs])
    # the long sibling sequences are asked on their own, under a short time limit (an operation that is exponential in their
    # length neither returns nor stops allocating: the child is killed by the limit on its address space or by the clock)
    if long_siblings:
        for e, line in zip(long_siblings, h.ask(["T %s %s" % (hexs(e), " ".join(hexs(p) for p in paths)) for e in long_siblings], timeout=25)):
            rep.evaluations += 1
            bad = [x for x in line.split(" ") if "=panic" in x]
            if line.startswith("died") or line.startswith("new=panic") or bad:
                rep.violation("oracle", "an operation on %d sibling groups in one concatenation does not return (or panics): %s" % (e.count("{") + e.count("<"), line[:120]),
                              {"expr": e, "what": "long-siblings"}, impl=line[:300])
            else:
                rep.stats["long sibling sequences: every operation returns"] += 1
    big = [e for e in exprs if len(e) > 2000]
    mod = dict(zip([e for e in exprs if len(e) <= 2000], m.ask(["B " + hexs(e) for e in exprs if len(e) <= 2000])))
    findings, _ = common.load_findings("C05")
    finding_ids = {f["id"] for f in findings}
    for e, line in zip(exprs, res):
        rep.traces += 1
        inp = {"expr": e if len(e) < 300 else e[:80] + "...(%d chars)" % len(e)}
        if len(e) >= 300:
            inp["generator"] = "nested delimiters"
        if line.startswith("died"):
            # abort (stack exhaustion): runtime behaviour no model exhibits; a listed finding for deep nesting only
            if "K-TOTAL-STACK" in finding_ids and len(e) > 3000:
                rep.known_hits["K-TOTAL-STACK"] += 1
            else:
                rep.violation("oracle", "the process aborts (%s)" % line, inp, impl=line)
            continue
        ops = dict(x.split("=", 1) for x in line.split(" ") if "=" in x)
        new = ops.get("new", "?")
        ml = mod.get(e)
        mnew_panic = ml is not None and ml.startswith("panic")
        if ml is None and len(e) > 2000:
            # too deep for the model driver's own stack: the nesting model (Re.nest, limit 250) is evaluated by hand:
            # 2 levels per nested alternation, 3 per nested repetition or two-branch alternation
            depth = max((len(m0.group(0)) for m0 in re.finditer(r"(?:\{a,)+|[{<]+", e)), default=0)
            depth = depth // 3 if e.startswith("{a,") else depth
            # beyond the regex parser's nesting limit the build fails with a compile error (repair 13; a panic before)
            mnew_panic = False
            if depth >= 125 and new.startswith("panic"):
                mnew_panic = True
        if new.startswith("panic"):
            rep.stats["new:" + new] += 1
            site = new.split(":", 1)[1]
            tag = "K-TOTAL-" + site
            if mnew_panic and tag in finding_ids:
                rep.known_hits[tag] += 1
            elif not mnew_panic:
                rep.violation("oracle", "Glob::new panics at %s and the model of the committed code does not predict a panic" % site, inp, impl=line[:200], model=(ml or "")[:100])
            else:
                rep.violation("oracle", "Glob::new panics at a site no listed finding names: %s" % site, inp, impl=line[:200])
            continue
        if mnew_panic:
            rep.violation("correspondence", "totality: the model predicts a panic in Glob::new that does not happen", inp, impl=line[:200], model=ml[:100])
        nums = [int(x) for x in re.findall(r"\d+", e)]
        small = len(e) < 200 and all(x < 50 for x in nums) and (max(nums) if nums else 1) ** min(len(nums), 3) < 3000 and not re.search(r"[{<]{12,}", e)
        if new.startswith("err_compile") and ml is not None and not ml.startswith("err compile") and small:
            # "a compile error is reported only for an oversized program": the model knows the limits of the regex PARSER (bounds
            # beyond u32, nesting); the size limit of the compiled program is not modelled, so only small expressions (short, small
            # bounds, shallow) are judged: a compile error on one of them is an expression that should have built
            rep.violation("oracle", "Glob::new reports a compile error for an expression that is within every limit (the model builds it)", inp, impl=line[:200], model=ml[:120])
            continue
        if new != "ok":
            kind = new.split("_")[1] if "_" in new else new
            rep.stats["new:err-" + kind] += 1
            if not (new.startswith("err_parse") or new.startswith("err_rule:") or new.startswith("err_compile")):
                rep.violation("oracle", "Glob::new returns something other than a parse, rule or compile error", inp, impl=new)
            if re.search(r"\d{6,}|[{<]{20,}", e):
                rep.distinct.add(e)
            continue
        rep.stats["new:ok"] += 1
        rep.distinct.add(e)
        mq = lib.parse_model_build(ml) if ml else {}
        bad = [(k, v) for k, v in ops.items() if v.startswith("panic")]
        for k, v in bad:
            site = v.split(":", 1)[1]
            tag = "K-TOTAL-" + site
            predicted = mq.get({"depth": "depth", "text": "text", "exh": "exh", "root": "root"}.get(k, "?"), "").startswith("panic")
            if k in ("any", "any-compiled") and len(e) <= 2000:
                # the combinator nests the tree one level deeper: the model of its own tree
                predicted = m.ask(["A %d %s" % ((2, hexs(e) + " " + hexs(e)) if k == "any" else (1, hexs(e)))])[0].startswith("panic")
            if k == "any-empty" and len(e) <= 2000:
                # any([any([]), any([e])]) nests the tree two levels deeper, like any([any([e]), any([e])])
                predicted = m.ask(["AN 2 %s %s" % (hexs(e), hexs(e))])[0].startswith("panic")
            if predicted and tag in finding_ids:
                rep.known_hits[tag] += 1
            else:
                rep.violation("oracle", "%s panics at %s on a successfully built glob%s" % (k, site, "" if predicted else " and the model does not predict it"), inp, impl=line[:300])
        if not bad:
            rep.stats["every-operation-returns"] += 1
            rep.sample({"expr": inp["expr"], "operations": len(ops), "verdict": "all return"})
        for q in ("depth", "text", "exh", "root"):
            if mq.get(q, "").startswith("panic") and not ops.get({"exh": "exh"}.get(q, q), "").startswith("panic"):
                rep.violation("correspondence", "totality: the model predicts a panic in %s that does not happen" % q, inp, impl=line[:200], model=ml[:200])

    # ---- combinators over DIFFERENT members, built from text, from compiled values and nested, then queried: every pair of a
    # pool of small patterns (no large bounds: no checked operation can overflow, so no panic is excused here)
    if replay is None or "any" in replay["input"]:
        pool = ["/", "", "a", "/a", "<a/:1,2>", "/usr/**", "/**/*", "a/b", "*", "**", "<a:0,2>", "{a,<b:0,1>}", "<a/:0,2>", "/a/b", "<*/:1,>", "$",
                "[ab]", "<a:1,><b:2>", "<a/:2>", "/<a/:0,1>b", "(?i)a", "a/**/b", "<a:3,>", "{/a,/b/c}"]
        groups = [[x, y] for x in pool for y in pool] + [["/", "/a", "/a/b"], ["/", "<a/:1,2>", "**"], ["", "/", "a"]]
        if replay is not None:
            groups = [replay["input"]["any"]]
        reqs2 = []
        for g0 in groups:
            for cmd in ("A", "AC", "AN", "AO"):
                reqs2.append((cmd, g0))
        ans2 = h.ask(["%s %d %s" % (cmd, len(g0), " ".join(hexs(e) for e in g0)) for cmd, g0 in reqs2])
        rep.evaluations += len(reqs2)
        seen_bad = set()
        for (cmd, g0), line in zip(reqs2, ans2):
            rep.traces += 1
            if "panic" in line or line.startswith("died"):
                if tuple(g0) in seen_bad:
                    continue
                seen_bad.add(tuple(g0))
                what = " ".join(x for x in line.split(" ") if "panic" in x)[:160] or line[:80]
                rep.violation("oracle", "a query on the combinator any(%r) (built as %s) panics: %s" % (g0, {"A": "text", "AC": "compiled globs", "AN": "nested combinators", "AO": "owned globs"}[cmd], what),
                              {"any": g0, "route": cmd}, impl=line[:300])
            else:
                rep.stats["combinator-queries-return"] += 1

    def ask(wit):
        if wit["expr"].startswith("@NESTED:"):
            if tier == "quick":
                return False, ""
            line = h.ask(["T %s -" % hexs(nested(int(wit["expr"].split(":")[1]), 0))])[0]
            return wit["expect"] in line, "%s nested braces: the process aborts" % wit["expr"].split(":")[1]
        line = h.ask(["T %s -" % hexs(wit["expr"])])[0]
        return wit["expect"] in line, "%r: %s" % (wit["expr"], " ".join(x for x in line.split(" ") if "panic" in x)[:120])
    lib.replay_findings(rep, "C05", ask)
