"""C08 Partitioning preserves meaning: prefix joined with postfix is the glob."""
import re
import common
from common import hexs, unhex
from props import lib
from props.c11 import rx_escape


def fields(line):
    d = {}
    for kv in re.split(r" (?=[a-z]+=)", line.replace(" | ", " ")):
        if "=" in kv:
            k, v = kv.split("=", 1)
            d[k] = v
    return d


def joined_pattern(prefix, post_pattern, bare=False):
    """the paths `prefix joined with r` (Path::join: a separator is inserted unless the prefix is empty or already
    ends with one, also when r is empty) for r in the language of the postfix; the prefix itself when there is no postfix"""
    if post_pattern is None:
        return "(?s)^(?-i:%s)$" % rx_escape(prefix)
    assert post_pattern.startswith("(?s)^") and post_pattern.endswith("$")
    body = post_pattern[5:-1]
    pre = prefix if prefix == "" or prefix.endswith("/") else prefix + "/"
    joined = "(?-i:%s)(?:%s)" % (rx_escape(pre), body)
    if bare:
        # `P/**`: the bare prefix is the one matched path that is not of the joined form (partition_tree_last)
        joined += "|(?-i:%s)" % rx_escape(prefix)
    return "(?s)^(?:%s)$" % joined


def run(rep, tier, seed, replay):
    rep.rule = ("grammar-directed expressions biased to literal / flagged / rooted prefixes, invariant alternations and repetitions in the prefix and "
                "wholly invariant globs; prefix, postfix text, postfix token tree with every span, postfix pattern are compared with the partition "
                "model; the language equation 'glob = prefix joined with postfix' is decided on ALL canonical paths by an automata product on the "
                "crate's compiled patterns; non-trivial = built and the partition is a real split (non-empty prefix)")
    exprs = lib.inputs(rep, "C08", tier, seed, 2500, 30000, replay, lits=["a", "b", "ab", "A", "x.y", "..", ".", "é", "c", "1"])
    if replay is None:
        import gen as _ger
        exprs += [e for e in _ger.exact_repetition_family() if e not in set(exprs)]
    if replay is None:
        import gen as _gfc
        exprs += [e for e in _gfc.flag_class_family() if e not in set(exprs)]
    if replay is None:
        exprs += [e for e in ["a/b/*.rs", "src/{x,y}/**", "/a/*", "</a:1,>", "(?i)1/b*", "[/]/a/*", "a/b", "/", "/**", "a/**/b", "{a}/b/*", "<a/:2>*", "a/{b}/c*", "(?i)a/b*", "a/(?i)b/c*", "../*", "./a/*", "a/./*", "/**/a", "a/[b]/c*", "(?i)1/2/*"] if e not in set(exprs)]
    if replay is None:
        pres = ["a", "a/b", "x/a", "(?i)1", "{a}", "<a:2>"]
        rooted = ["</b:1,>", "{/b,/c}", "</b/*:1,2>", "{/b,/c*}", "</b:1,>c", "</b:2>*", "{/b*,/c}", "</**/b:1,>", "{/b,/c}/d*", "<{/b,/c}:1,>"]
        exprs += [a + b for a in pres for b in rooted if a + b not in set(exprs)]
    P = lib.Pair(exprs)
    h, m = P.h, P.m
    rep.evaluations = len(exprs)
    built = [k for k in range(len(exprs)) if P.impl[k]["ok"]]
    pi = dict(zip(built, h.ask(["P " + P.hx[k] for k in built])))
    pm = dict(zip(built, m.ask(["P " + P.hx[k] for k in built])))
    EMPTY_PATTERN = lib.parse_impl_build(h.ask(["B -"])[0])["pattern"]
    TREE_PATTERN = lib.parse_impl_build(h.ask(["B " + hexs("**")])[0])["pattern"]
    findings, _ = common.load_findings("C08")
    finding_ids = {f["id"] for f in findings}
    jobs = []
    for k in built:
        e = exprs[k]
        rep.traces += 1
        a, b = pi[k], pm[k]
        if a.startswith("panic"):
            rep.violation("oracle", "partition panics", {"expr": e}, impl=a)
            continue
        # partition_or_empty / partition_or_tree: the same prefix, and the postfix or else the empty glob / `**`
        fa = fields(a)
        if "ore" in fa and "ort" in fa:
            want_pre = fa.get("prefix", "?")
            post_pat = fa.get("pattern")
            exp_e = "%s/%s" % (want_pre, post_pat if fa.get("post") != "none" else hexs(EMPTY_PATTERN))
            exp_t = "%s/%s" % (want_pre, post_pat if fa.get("post") != "none" else hexs(TREE_PATTERN))
            if fa["ore"] != exp_e or fa["ort"] != exp_t:
                rep.violation("oracle", "partition_or_empty / partition_or_tree do not return the prefix with the postfix (or else the empty glob / the tree glob)",
                              {"expr": e, "what": "wrappers"}, impl="ore=%s ort=%s" % (fa["ore"][:120], fa["ort"][:120]), spec="%s | %s" % (exp_e[:120], exp_t[:120]))
            else:
                rep.stats["wrappers agree with partition"] += 1
        # a glob that owns its expression (into_owned, FromStr) partitions like the borrowed one: the same prefix and a
        # postfix that displays as the same suffix, with the same tokens, program and capture spans
        if "owned" in fa:
            if fa["owned"] == "same":
                rep.stats["owned globs partition like borrowed ones"] += 1
            else:
                rep.violation("oracle", "a glob that owns its expression partitions differently from the borrowed glob (the postfix must display as the corresponding suffix of the expression)",
                              {"expr": e, "what": "owned"}, impl=fa["owned"][:300])
        reproduced = a.startswith(b) and b != "err"
        if not reproduced:
            rep.stats["correspondence-broken"] += 1
            rep.violation("correspondence", "partition: prefix, postfix text, postfix tokens and spans, postfix pattern", {"expr": e}, impl=a[:400], model=b[:400])
        f = fields(a)
        prefix = unhex(f["prefix"])
        if prefix:
            rep.distinct.add(e)
        rep.stats["split" if prefix and f["post"] != "none" else ("no-prefix" if not prefix else "wholly-invariant")] += 1
        jobs.append((k, f, prefix, reproduced))
    # language equation on canonical paths
    reqs = []
    for (k, f, prefix, _) in jobs:
        postp = unhex(f["pattern"]) if f["post"] != "none" else None
        bare = f["post"] != "none" and re.fullmatch(r"\(cat@\d+\+\d+ \(tree@\d+\+\d+ 0\)\)", f.get("tokens", "")) is not None
        reqs.append("LC %s %s" % (hexs(P.impl[k]["pattern"]), hexs(joined_pattern(prefix, postp, bare))))
    frag = P.model_cmd("F", [k for k, _, _, _ in jobs])
    # the postfix is a glob of its own: its compiled program may deviate from the documented language too
    fpost = dict(zip([k for k, _, _, _ in jobs], m.ask(["F " + (f["post"] if f["post"] != "none" else "-") for _, f, _, _ in jobs])))
    # the hypothesis of partition_lang_all_partial (partOk) with F01 of the glob and of the postfix
    fp = P.model_cmd("FP", [k for k, _, _, _ in jobs])
    res = h.ask(reqs)
    for (k, f, prefix, reproduced), line in zip(jobs, res):
        e = exprs[k]
        problems = []
        if line.startswith("DIFF"):
            w = unhex(line.split()[1])
            got = h.ask(["M %s %s" % (hexs(e), hexs(w))])[0].startswith("match")
            if got == (line.split()[2] == "first"):
                problems.append(("language", "the glob %s the canonical path %r but prefix %r joined with the postfix %s" % ("matches" if got else "does not match", w, prefix, "does not" if got else "does"), w))
        elif line != "EQUAL":
            rep.stats["dfa-" + line.split()[0]] += 1
        if f["post"] != "none":
            post = unhex(f["post"])
            if f.get("root") != "never":
                problems.append(("rooted-postfix", "the postfix reports has_root = %s" % f.get("root"), None))
            if f.get("re") != "(-,%s)" % f["post"]:
                problems.append(("repartition", "partitioning the postfix again gives %s" % f.get("re"), None))
            if not e.endswith(post):
                problems.append(("suffix", "the postfix %r is not a suffix of the expression" % post, None))
            want = "%s|%s" % (f["pattern"], f.get("caps", "[]").strip("[]"))
            if f.get("rebuilt") != want:
                problems.append(("rebuild", "the displayed postfix %r does not rebuild into the same program and capture spans" % post, None))
        if not problems:
            rep.stats["partition-preserves-meaning"] += 1
            if prefix:
                rep.sample({"expr": e, "prefix": prefix, "postfix": unhex(f["post"]) if f["post"] != "none" else None, "verdict": "equal on all canonical paths; idempotent; rebuilds"})
            continue
        for kind, text, w in problems:
            rep.stats["deviation:" + kind] += 1
            inp = {"expr": e, "what": kind}
            if w is not None:
                inp["path"] = w
            tag = classify(e, f, P.impl[k], kind)
            enc = [t for fr in (frag[k], fpost[k]) if fr.startswith("out:") for t in fr[4:].split(",")]
            if kind == "language" and fp[k] == "in":
                rep.violation("oracle", "partition_lang_all_partial applies (partOk, F01 of the glob and of the postfix) but %s" % text, inp, impl=pi[k][:300], fragment="in")
                continue
            if kind == "language" and tag != "K-PART-FLAG-ROOTED-TREE" and fp[k].startswith("out:"):
                tags = fp[k][4:].split(",")
                known = [t for t in tags if t in finding_ids]
                tag = known[0] if known else ",".join(tags)
            elif kind == "language" and tag != "K-PART-FLAG-ROOTED-TREE" and enc:
                # the compiled program of the glob itself, or of the postfix, deviates from the documented language (C01's findings)
                known = [t for t in enc if t in finding_ids]
                tag = known[0] if known else ",".join(enc)
            if not reproduced:
                rep.violation("oracle", "partition deviates (%s) and the partition model does not reproduce it" % text, inp, impl=pi[k][:300])
            elif tag in finding_ids:
                rep.known_hits[tag] += 1
            else:
                rep.violation("oracle", "partition deviates (%s) at a site no listed finding names: %s" % (text, tag), inp, impl=pi[k][:300])

    def ask(wit):
        line = h.ask(["P " + hexs(wit["expr"])])[0]
        return wit["expect"] in line, "%r partitions into %s" % (wit["expr"], " ".join(x for x in line.split(" ") if x.startswith(("prefix=", "post=", "root=", "re=")))[:160])
    lib.replay_findings(rep, "C08", ask)


def classify(e, f, impl, kind):
    from props.c17 import top_tokens, kind_span
    eb = e.encode("utf-8")
    tops = top_tokens(impl["tokens"])
    if any(kd == "tree" and tok[1] == "1" and eb[a:a + 1] != b"/" for tok in tops for kd, a, _ in [kind_span(tok)]):
        return "K-PART-FLAG-ROOTED-TREE"
    if kind == "rebuild" and "(?" in e:
        return "K-PART-FLAG-LOSS"
    if re.search(r"\[[^\]]*/[^\]]*\]", e):
        return "K-PART-SEPCLASS"
    if kind in ("rooted-postfix", "repartition") or (kind == "language" and tops and kind_span(tops[0])[0] in ("rep", "alt")):
        return "K-PART-ROOTED-BRANCH"
    if kind in ("rebuild", "language") and "(?" in e:
        return "K-PART-FLAG-LOSS"
    return "UNATTRIBUTED"
