"""Walk cases: generation (tools/walkgen.py), batch execution on the real crate and on the Lean walk model, parsing."""
import random
import common, walkgen
from common import hexs, unhex
from walkgen import hx, unhx, parse_answer, admissible, base_path


class Case:
    __slots__ = ("mode", "base", "expr", "link", "mn", "mx", "stack", "spec", "fs", "labels", "impl", "model", "skip",
                 "head", "f", "mf", "mhead", "faults", "owned")

    def req(self):
        # an owned glob (FromStr) is walked through mode `o`; to the model it is the same glob
        mode = "o" if self.mode == "g" and getattr(self, "owned", False) else self.mode
        return "W %s %s %s %s %s %s %s %s" % (mode, hx(self.base), hx(self.expr) if self.mode == "g" else "-", self.link,
                                            self.mn, self.mx, self.stack, self.spec)

    def clone(self, **kw):
        c = Case()
        for k in ("mode", "base", "expr", "link", "mn", "mx", "stack", "spec", "fs", "labels", "faults"):
            setattr(c, k, getattr(self, k))
        c.owned = getattr(self, "owned", False)
        for k, v in kw.items():
            setattr(c, k, v)
        c.skip = False
        return c

    def describe(self):
        d = {"mode": self.mode, "base": self.base, "glob": self.expr, "link": self.link, "min": self.mn, "max": self.mx,
             "stack": self.stack, "tree": self.spec}
        if getattr(self, "owned", False):
            d["owned"] = True
        return d


def gen_cases(seed, n, faults=False, stack=None, bounds=None, mode=None, link=None, glob_share=0.8):
    """n cases, deterministic in the arguments. stack: None (generated) | callable(rng, vocab, dirs) -> (stack, shape, kinds);
    bounds: None (generated) | 'none'."""
    rng = random.Random(seed)
    out = []
    guard = 0
    while len(out) < n and guard < n * 5:
        guard += 1
        vocab = rng.sample(walkgen.PLAIN, rng.randint(3, 5)) + rng.sample(walkgen.ODD, rng.randint(1, 4))
        fs, spec, dirs = walkgen.gen_tree(rng, vocab, faults, uid_root=not faults)
        reldirs = [d for d in dirs if d != ()]
        m = mode or ("g" if rng.random() < glob_share else "p")
        lk = link or rng.choice("ft")
        ok = False
        for _attempt in range(30):
            base, blabel, basedir = walkgen.gen_base(rng, dirs, fs)
            targets = [p for p in fs.nodes if basedir is not None and len(p) > len(basedir) and p[:len(basedir)] == basedir]
            if m == "g" and targets and rng.random() < 0.82:
                expr, gshape = walkgen.gen_glob_for(rng, vocab, reldirs, basedir, targets)
            elif m == "g":
                expr, gshape = walkgen.gen_glob(rng, vocab, reldirs)
            else:
                expr, gshape = "", "path-walk"
            if admissible(fs, base_path(base), lk == "t"):
                ok = True
                break
        if not ok:
            continue
        r = rng.random()
        if bounds == "none" or r < 0.40:
            mn, mx = "-", "-"
        elif r < 0.86:
            a, b = sorted([rng.choice([1, 1, 2, 2, 3, 4]), rng.choice([1, 2, 2, 3, 3, 4])])
            mn, mx = rng.choice([("-", str(rng.randint(0, 4))), (str(a), "-"), (str(a), str(b)), (str(a), str(b))])
        else:
            mn, mx = rng.choice("-01234"), rng.choice("-01234")
        if stack is None:
            st, sshape, nkinds = walkgen.gen_stack(rng, vocab, reldirs)
        else:
            st, sshape, nkinds = stack(rng, vocab, reldirs)
        c = Case()
        c.mode, c.base, c.expr, c.link, c.mn, c.mx, c.stack, c.spec, c.fs = m, base, expr, lk, mn, mx, st, spec, fs
        c.labels = {"base": blabel, "glob": gshape, "stack": sshape, "negations": nkinds, "basedir": basedir, "vocab": vocab}
        c.faults = faults
        c.skip = False
        # a quarter of the glob walks use a glob that OWNS its expression (str::parse); the anchor and the component
        # programs are derived from its token tree at walk time
        c.owned = (m == "g" and rng.random() < 0.25)
        out.append(c)
    return out


def normalise(fields, root_hex):
    """paths are reported below a fresh temporary root per request: the root is replaced by @R so that runs compare"""
    import re
    if not root_hex or root_hex == "-":
        return fields
    pat = re.compile(r"(?<![0-9a-f.])" + re.escape(root_hex) + r"(?=[.:;|]|$)")
    out = dict(fields)
    for k in ("items", "logs", "base"):
        if k in out:
            out[k] = pat.sub("40.52", out[k])
    if "root" in out:
        out["root_real"] = out["root"]
        out["root"] = "40.52"
    return out


def run_cases(cases, as_nobody=False, with_model=True):
    """fills impl / model answers; marks cases a recorded tree cannot express as skipped"""
    h = common.harness(as_nobody=as_nobody)
    m = common.model()
    ans = h.ask([c.req() for c in cases])
    for c, a in zip(cases, ans):
        c.impl = a
        c.head, c.f = parse_answer(a)
        c.model, c.mhead, c.mf = None, None, {}
    if not with_model:
        for c in cases:
            c.f = normalise(c.f, c.f.get("root"))
        return cases
    # admissibility of the walk root for globs with a prefix (through the model's own anchor)
    idx = [k for k, c in enumerate(cases) if c.mode == "g" and "base" in c.f]
    wp = m.ask(["WP %s %s" % (cases[k].f["base"], hx(cases[k].expr.replace("@ROOT", unhx(cases[k].f.get("root", "-"))))) for k in idx])
    for k, w in zip(idx, wp):
        c = cases[k]
        _wh, wf = parse_answer(w)
        if "root" in wf:
            rootp = unhx(c.f.get("root", "-"))
            wroot = unhx(wf["root"]).replace(rootp, "/tmp/W/r")
            wroot = wroot.replace(rootp.rsplit("/", 1)[0], "/tmp/W")
            if not admissible(c.fs, wroot, c.link == "t"):
                c.skip = True
    todo = [k for k, c in enumerate(cases) if not c.skip]
    reqs = []
    for k in todo:
        c = cases[k]
        root = c.f.get("root", "-")
        expr2 = c.expr.replace("@ROOT", unhx(root))
        # a negation given as compiled values is the same negation to the model
        mstack = ";".join(("n:" + l[3:]) if l.startswith("nc:") else l for l in c.stack.split(";"))
        # bounded_at_depth_variance: the lower depth of the pattern as the crate reports it (the query itself is C10's subject)
        mmn = c.mn + ("@" + c.f.get("lower", "0") if c.mn.startswith("v") else "")
        reqs.append("W %s %s %s %s %s %s %s %s %s s" % (c.mode, c.f.get("base", "-"), hx(expr2) if c.mode == "g" else "-", c.link, mmn, c.mx,
                                                      mstack, root, c.f.get("rec", "-")))
    mans = m.ask(reqs, timeout=120)
    for k, a in zip(todo, mans):
        c = cases[k]
        c.model = a
        c.mhead, c.mf = parse_answer(a)
        c.mf = normalise(c.mf, c.f.get("root"))
        if c.mhead == "unsupported":
            # the walk root itself is a re-entrant link: a recorded tree cannot express what lies behind it
            c.skip = True
    for c in cases:
        if "root_real" not in c.f:
            c.f = normalise(c.f, c.f.get("root"))
    return cases


def documented_bounds(c):
    """what the documentation of the constructor named by the minimum field says the bounds are:
    ('refused', None, None) or ('ok', lowest depth, highest depth or None)"""
    route = c.mn[0] if c.mn[:1] in "xmv" else "b"
    mn_t = c.mn[1:] if route != "b" else c.mn
    mn = None if mn_t == "-" else int(mn_t)
    mx = None if c.mx == "-" else int(c.mx)
    if route == "x":                       # DepthMinMax::from_depths_or_max: "the depths need not be ordered"
        if mn is None or mx is None:
            return ("refused", None, None)
        return ("ok", min(mn, mx), max(mn, mx))
    if route == "m":                       # DepthMin::from_min_or_unbounded
        if mn is None:
            return ("refused", None, None)
        return ("ok", mn, None)
    if route == "v":                       # DepthBehavior::bounded_at_depth_variance: shifted by the lower depth of the pattern
        if "lower" not in c.f:
            return ("refused", None, None)
        low = int(c.f["lower"])
        mn = None if mn is None else mn + low
        mx = None if mx is None else mx + low
        if mn is None and mx is None:
            return ("refused", None, None)
    elif mn is None and mx is None:
        return ("ok", 0, None)             # DepthBehavior::Unbounded
    # DepthBehavior::bounded: refuses a zero minimum (NonZeroUsize) and misordered closed depths
    if mn == 0 or (mn is not None and mx is not None and mn > mx):
        return ("refused", None, None)
    return ("ok", mn or 0, mx)


def model_undecided(c):
    """the model driver did not answer this request in time (its matcher is a plain backtracker): counted, never judged"""
    return (c.mhead or "").startswith("died")


def corresponds(c):
    if c.skip or model_undecided(c):
        return True
    if c.head.startswith("root="):
        return c.mhead is not None and c.mhead.startswith("items=") and c.mf.get("items") == c.f.get("items") and c.mf.get("logs") == c.f.get("logs")
    return c.mhead == c.head


def items(field):
    return [] if field in (None, "-", "") else field.split(";")


def ok_items(field):
    """(path, root segment, relative segment, depth, kind[, matched, candidate]) with the temp root kept as is"""
    out = []
    for it in items(field):
        p = it.split(":")
        if p[0] == "ok":
            out.append(tuple([unhx(p[1]), unhx(p[2]), unhx(p[3]), int(p[4]), p[5]] + [unhx(x) for x in p[6:]]))
    return out


def err_items(field):
    return [(None if p.split(":")[1] == "-" else unhx(p.split(":")[1]), int(p.split(":")[2])) for p in items(field) if p.startswith("err:")]


def rec_entries(rec):
    """recorded tree as a list of (depth, kind, name) in pre-order"""
    return [(int(e.split(":")[0]), e.split(":")[1], unhx(e.split(":")[2])) for e in items(rec)]


def rec_paths(rec, root):
    """pre-order (path, kind, depth) of every recorded node, paths below `root`"""
    out = []
    stack = []
    for d, k, n in rec_entries(rec):
        stack = stack[:d - 1] + [n]
        out.append((root + "/" + "/".join(stack), k, d))
    return out


def stats_for(rep, c):
    rep.stats["mode:" + c.mode] += 1
    rep.stats["link:" + c.link] += 1
    rep.stats["base:" + c.labels["base"]] += 1
    rep.stats["stack:" + c.labels["stack"]] += 1
    if c.mode == "g":
        rep.stats["glob:" + c.labels["glob"]] += 1
    rep.stats["bounds:" + ("unbounded" if (c.mn, c.mx) == ("-", "-") else "min" if c.mx == "-" else "max" if c.mn == "-" else "minmax")] += 1


def correspondence_step(rep, cases, what):
    """the tie: ordered items and filter logs of the real walk vs the Lean model on the recorded tree"""
    n = 0
    for c in cases:
        if c.skip or c.model is None:
            rep.stats["skipped(not expressible by a recorded tree)"] += 1
            continue
        if model_undecided(c):
            rep.stats["model-timeout (undecided, not judged)"] += 1
            continue
        n += 1
        rep.traces += 1
        if (c.head or "").startswith("panic") and not (c.mhead or "").startswith("panic"):
            # the walk itself is the failing input: a panic unwinds out of the iterator, no error ITEM is produced for
            # whatever went wrong and nothing after it is delivered (C05 for walks, C20 for faults)
            rep.stats["walk-panics"] += 1
            rep.violation("oracle", "the walk panics (%s) where the model of the committed code yields items: no error item is produced and nothing after that point is delivered" % c.head[:80],
                          c.describe(), impl=c.head[:200], model=(c.mf.get("items", c.mhead) or "")[:400])
            continue
        if "rootnone" in c.f and not (c.link == "t" and any(k == "lu" for _p, k, _d in rec_paths(c.f.get("rec", "-"), "@R"))):
            # an error for the root of the walk names the root, also when the root is the empty path (`Some("")`). Exempt: under
            # ReadTarget a root that is a LINK to a directory that cannot be opened gets walkdir's path-less error (its loop
            # check fails before the entry exists); the recording shows such links as `lu`
            rep.violation("oracle", "the error item for the root of the walk names no path at all (%s item(s) at depth 0 with path() = None)" % c.f["rootnone"],
                          c.describe(), impl=c.impl[:300])
            continue
        if not corresponds(c):
            rep.stats["correspondence-broken"] += 1
            rep.violation("correspondence", "walk: ordered items and filter logs of the real walk vs the walk model (%s)" % what, c.describe(),
                          impl=(c.f.get("items", c.head) or "")[:400], model=(c.mf.get("items", c.mhead) or "")[:400])
    return n


def case_from(desc):
    """rebuild a case from a replay description"""
    c = Case()
    c.mode, c.base, c.expr, c.link, c.mn, c.mx, c.stack, c.spec = desc["mode"], desc["base"], desc["glob"], desc["link"], desc["min"], desc["max"], desc["stack"], desc["tree"]
    nodes = {}
    for item in desc["tree"].split(","):
        if item in ("", "-"):
            continue
        p = item.split(":")
        rel = tuple(unhx(p[1]).split("/"))
        nodes[rel] = ("l", unhx(p[2])) if p[0] == "l" else (p[0],)
    c.fs = walkgen.FS(nodes, True)
    c.labels = {"base": "replay", "glob": "replay", "stack": "replay", "negations": [], "basedir": None, "vocab": []}
    c.faults = any(v[0] == "u" for v in nodes.values())
    c.skip = False
    c.owned = bool(desc.get("owned"))
    return c
