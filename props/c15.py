"""C15 Depth and link behaviours bound the walk as documented."""
import common, walkgen
from props import walklib, lib
from props.walklib import hx, unhx


def run(rep, tier, seed, replay):
    rep.rule = ("generated trees with links (to files, directories, nothing, ancestors) x globs with prefixes of any length and path walks x all "
                "(min, max) pairs drawn from {-,0..4} x both link behaviours; each bounded walk is compared with the same walk unbounded, filtered "
                "by the depth of its entries; link clauses are checked against the recorded tree; the item sequences are compared with the walk "
                "model (walkdir as a stack machine with min/max); non-trivial = bounded walks whose unbounded twin yields an entry outside the bounds")
    n = 450 if tier == "quick" else 6000
    base = walklib.gen_cases(seed, n, stack=lambda r, v, d: ("-", "-", []))
    if replay is not None:
        base = [walklib.case_from(replay["input"])]
    pairs = []
    cases = []
    for c in base:
        import random
        r = random.Random(hash(c.req()) & 0xffff)
        if (c.mn, c.mx) == ("-", "-"):
            c.mn, c.mx = r.choice("-0123"), r.choice("-01234")
        # every public constructor of the depth behaviour, not only DepthBehavior::bounded
        z = r.random()
        if z < 0.25:
            p, q = r.choice("01234"), r.choice("01234")
            if r.random() < 0.6 and p < q:
                p, q = q, p                                    # from_depths_or_max: "the depths need not be ordered"
            c.mn, c.mx = "x" + p, q
        elif z < 0.32:
            c.mn, c.mx = "m" + r.choice("0123"), "-"
        elif z < 0.45 and c.mode == "g":
            c.mn = "v" + c.mn
        u = c.clone(mn="-", mx="-")
        cases += [c, u]
        pairs.append((c, u))
    walklib.run_cases(cases)
    rep.evaluations = len(cases)
    walklib.correspondence_step(rep, cases, "depth and link behaviours")
    findings, _ = common.load_findings("C15")
    finding_ids = {f["id"] for f in findings}
    h = common.harness()
    for c, u in pairs:
        walklib.stats_for(rep, c)
        rep.stats["constructor:" + {"x": "from_depths_or_max", "m": "from_min_or_unbounded", "v": "bounded_at_depth_variance"}.get(c.mn[:1], "bounded")] += 1
        if not (c.head == "depthnone" or c.head.startswith("root=")):
            rep.stats["outcome:" + c.head] += 1
            continue
        if c.mn[:1] == "v" and "lower" not in c.f:
            rep.stats["outcome:depth query of the pattern panics"] += 1
            continue
        verdict, lo, hi = walklib.documented_bounds(c)
        if (c.head == "depthnone") != (verdict == "refused"):
            rep.violation("oracle", "the constructor of the depth behaviour %s bounds the documentation says it %s" % (
                ("refuses", "accepts") if c.head == "depthnone" else ("accepts", "refuses")), c.describe(), impl=c.impl[:200])
            continue
        if c.head == "depthnone":
            rep.stats["bounds refused by the constructor, as documented"] += 1
            continue
        if not (c.head.startswith("root=") and u.head.startswith("root=")):
            rep.stats["outcome:" + c.head] += 1
            continue
        all_ = walklib.ok_items(u.f.get("items"))
        want = [it for it in all_ if it[3] >= lo and (hi is None or it[3] <= hi)]
        got = walklib.ok_items(c.f.get("items"))
        if len(want) != len(all_):
            rep.distinct.add(c.req())
        if [x[0] for x in got] == [x[0] for x in want]:
            rep.stats["bounded-walk = unbounded walk filtered by depth"] += 1
            rep.sample({"walk": c.describe(), "unbounded": len(all_), "within_bounds": len(want)})
        else:
            extra = [x for x in got if x[0] not in [w[0] for w in want]]
            missing = [x for x in want if x[0] not in [g[0] for g in got]]
            what = ("yields %r at depth %d, outside [%s, %s]" % (extra[0][0], extra[0][3], c.mn, c.mx)) if extra else \
                   ("does not yield %r at depth %d, inside [%s, %s]" % (missing[0][0], missing[0][3], c.mn, c.mx) if missing else "yields in a different order")
            pivot = 0
            if c.mode == "g":
                w = h.ask(["WP %s %s" % (c.f.get("base", "-").replace("40.52", c.f.get("root_real", "-")), hx(c.expr.replace("@ROOT", unhx(c.f.get("root_real", "-")))))])[0]
                try:
                    pivot = int(walklib.parse_answer(w)[1].get("pivot", "0"))
                except ValueError:
                    pivot = 0
            tag = None
            rooted = c.expr.startswith("/") or c.expr.startswith("@ROOT")
            import re as _re
            dotted = c.mode == "g" and _re.search(r"(^|/)\.\.?(/|$)", c.expr.split("*")[0].split("{")[0].split("<")[0].split("[")[0].split("?")[0]) is not None
            if dotted and not rooted:
                tag = "K-WALK-DOT-PREFIX"
            elif hi is not None and hi < pivot:
                tag = "K-DEPTH-SATURATE"
            elif rooted:
                tag = "K-ENTRY-ROOTED-DEPTH"
            if tag in finding_ids and walklib.corresponds(c) and walklib.corresponds(u):
                rep.known_hits[tag] += 1
            else:
                rep.violation("oracle", "a walk with depth bounds %s" % what, c.describe(), impl=c.impl[:300])
        # under ReadTarget an error item below the root names a re-entrant or dangling link (or an unreadable directory), never
        # a plain entry, a link to a file, or a link to a directory that is not one of its ancestors (two links may well lead
        # to the same directory): judged on every walk, bounded or not, glob or path
        if u.link == "t":
            for w in (u, c):
                wn = walklib.rec_paths(w.f.get("rec", "-"), "@R")
                cn = lambda p: "/".join(x for x in (p or "").split("/") if x)
                wk = {cn(p): k for p, k, _d in wn}
                wrong = [cn(p) for p, d in walklib.err_items(w.f.get("items")) if p is not None and d > 0 and wk.get(cn(p)) in ("d", "f", "lt", "lf")]
                if wrong:
                    rep.violation("oracle", "reading link targets reports %r as an error although it is %s" % (wrong[0], {"lt": "a link to a directory that is not one of its ancestors", "lf": "a link to a file"}.get(wk.get(wrong[0]), "a plain entry")),
                                  w.describe(), impl=w.impl[:300])
                    break
            else:
                rep.stats["ReadTarget: error items name only re-entrant or dangling links"] += 1
        # link clauses, on the unbounded path walks (no pruning by a glob)
        if u.mode == "p":
            root = "@R"
            nodes = walklib.rec_paths(u.f.get("rec", "-"), root)
            base_p = unhx(u.f.get("base", "-"))
            if base_p.rstrip("/") in ("@R",) or base_p == "@R":
                links = [p for p, k, _d in nodes if k.startswith("l")]
                ypaths = [x[0] for x in all_]
                canon = lambda p: "/".join(x for x in (p or "").split("/") if x)
                errs = [canon(p) for p, _d in walklib.err_items(u.f.get("items"))]
                ypaths = [canon(p) for p in ypaths]
                links = [canon(p) for p in links]
                nodes = [(canon(p), k, d) for p, k, d in nodes]
                if u.link == "f":
                    inside = [y for y in ypaths if any(y.startswith(l + "/") for l in links)]
                    if inside:
                        rep.violation("oracle", "reading links as files descends into a linked directory: %r" % inside[0], u.describe(), impl=u.impl[:300])
                    else:
                        rep.stats["ReadFile never descends into links"] += 1
                else:
                    # every re-entrant link that is reached is an error item; links to directories are descended into
                    visible = lambda p: not any(p.startswith(l + "/") for l, k, _ in nodes if k in ("lc", "ld", "lu", "lf"))
                    want_err = [p for p, k, _d in nodes if k in ("lc", "ld") and visible(p)]
                    miss = [p for p in want_err if p not in errs]
                    # ... and ONLY they: an error item below the root never names a plain entry or a link whose target is a
                    # file or a directory that is not one of its ancestors (two links may well lead to the same directory)
                    kinds = {p: k for p, k, _d in nodes}
                    wrong = [canon(p) for p, d in walklib.err_items(u.f.get("items")) if p is not None and d > 0 and kinds.get(canon(p)) in ("d", "f", "lt", "lf")]
                    if wrong:
                        rep.violation("oracle", "reading link targets reports %r as an error although it is %s" % (wrong[0], {"lt": "a link to a directory that is not one of its ancestors", "lf": "a link to a file"}.get(kinds.get(wrong[0]), "a plain entry")),
                                      u.describe(), impl=u.impl[:300])
                    elif miss:
                        rep.violation("oracle", "reading link targets does not report the %s link %r as an error" % ("re-entrant or dangling", miss[0]), u.describe(), impl=u.impl[:300])
                    else:
                        rep.stats["ReadTarget reports re-entrant and dangling links as errors"] += 1

    def ask(wit):
        a = walklib.case_from(wit["walk"])
        if wit.get("kind") == "dot-prefix":
            b = a.clone(mn="-", mx="-")
            walklib.run_cases([a, b], with_model=False)
            ya = [x[0] for x in walklib.ok_items(a.f.get("items"))]
            yb = [x[0] for x in walklib.ok_items(b.f.get("items"))]
            return (wit["entry"] in ya and wit["entry"] not in yb), "glob %r with min depth %s yields %r, which the same walk without bounds does not yield" % (a.expr, a.mn, wit["entry"])
        walklib.run_cases([a], with_model=False)
        oks = walklib.ok_items(a.f.get("items"))
        hi = int(a.mx)
        bad = [(p, d) for p, _rs, _r, d, *_ in oks if d > hi]
        return bool(bad), "glob %r with max depth %s yields %r at depth %d" % ((a.expr, a.mx) + (bad[0] if bad else ("", 0)))
    lib.replay_findings(rep, "C15", ask)
