"""C10 Reported depth bounds contain the depth of every match."""
import common
from common import hexs, unhex
from props import lib

CAP = 6


def contains(depth, k):
    """does the reported variance contain component count k (k == CAP means 'CAP or more')"""
    if depth.startswith("inv_"):
        n = int(depth[4:])
        return k == n if k < CAP else n >= CAP
    if depth == "unb":
        return True
    _, lo, hi = depth.split("_")
    lo = 0 if lo == "-" else int(lo)
    if hi == "-":
        return k >= lo or k == CAP
    hi = int(hi)
    return (lo <= k <= hi) if k < CAP else hi >= CAP


def run(rep, tier, seed, replay):
    rep.rule = ("grammar-directed expressions; for every built glob the set of component counts (capped at %d) of the canonical "
                "paths its compiled pattern matches, of the rootedness it claims, is computed by an automata product and must "
                "lie within depth(); non-trivial = built and (variant depth or has a pattern token)" % CAP)
    exprs = lib.inputs(rep, "C10", tier, seed, 2500, 30000, replay)
    if replay is None:
        import random as _random, gen as _gen
        fam = _gen.exh_family(_random.Random(seed), 4000 if tier == "quick" else None)
        known = set(exprs)
        exprs += [e for e in fam if e not in known]
        known = set(exprs)
        exprs += [e for e in _gen.nested_tree_edge_family() + _gen.tree_position_family() + _gen.nested_middle_family() + _gen.nest3_family(3)[::3] if e not in known]
        sr = _gen.sibling_ranges_family()
        known = set(exprs)
        exprs += [e for e in (_random.Random(seed + 4).sample(sr, 600) if tier == "quick" else sr) if e not in known]
        # the conjunction table of terminations, cell by cell, through computed terms
        tf = _gen.termination_family()
        known = set(exprs)
        exprs += [e for e in (_random.Random(seed + 3).sample(tf, 2500) if tier == "quick" else tf) if e not in known]
    P = lib.Pair(exprs)
    h, m = P.h, P.m
    rep.evaluations = len(exprs)
    # ---- the variance ALGEBRA itself, exhaustively at small scope and at the edges of the machine word, through the hook
    # `verif_variance_op`: conjunction, disjunction and product with a repetition range, on every pair of a grid of invariant,
    # unbounded, lower-, upper- and doubly-bounded values (the operations the depth, size and exhaustiveness folds are made of).
    # The model's operations are the ones its theorems are about (conjFixed_sound, NVar.conj_mem, ...): same value or the same
    # panic message.
    if replay is None or replay["input"].get("what") == "algebra":
        Bw, Hw = 2 ** 64 - 1, 2 ** 63
        vals = ["inv:0", "inv:1", "inv:2", "inv:3", "inv:5", "inv:%d" % Bw, "inv:%d" % Hw, "unb", "lower:1", "lower:2", "lower:3", "lower:%d" % Bw,
                "upper:1", "upper:2", "upper:3", "upper:5", "upper:%d" % Hw, "both:1:1", "both:1:2", "both:2:1", "both:3:2", "both:2:3",
                "both:%d:%d" % (Hw, Hw - 1), "both:1:%d" % (Bw - 1)]
        areqs = ["NV %s %s %s" % (op, a, b) for op in ("conj", "disj", "prod") for a in vals for b in vals] + ["NV upper %s inv:0" % a for a in vals]
        if replay is not None:
            areqs = [replay["input"]["request"]]

        def norm(x):
            return ("panic:" + x[6:].replace("-", " ").replace("determining ", "").strip()) if x.startswith("panic") else x
        ai, am = h.ask(areqs), m.ask(areqs)
        rep.evaluations += len(areqs)
        nbad = 0
        for rq, x, y in zip(areqs, ai, am):
            rep.traces += 1
            if norm(x) == norm(y):
                rep.stats["algebra:" + x.split(":")[0]] += 1
            else:
                nbad += 1
                if nbad <= 5:
                    rep.violation("correspondence", "variance algebra: %s of the crate vs the model (exhaustive small scope)" % rq.split()[1], {"what": "algebra", "request": rq}, impl=x, model=y)
        if nbad:
            rep.stats["correspondence-broken"] += nbad
    built = [k for k in range(len(exprs)) if P.impl[k]["ok"]]
    md = P.model_cmd("DG", built)
    findings, _ = common.load_findings("C10")
    finding_ids = {f["id"] for f in findings}
    todo = []
    for k in built:
        i = P.impl[k]
        rep.traces += 1
        iv = i.get("depth", "?")
        mv = md[k].replace(" ", "_")
        rep.stats["depth:" + iv.split("_")[0].split(":")[0]] += 1
        if not (iv == mv or (iv.startswith("panic") and mv == "panic")):
            rep.stats["correspondence-broken"] += 1
            rep.violation("correspondence", "depth(): result of the depth variance fold", {"expr": exprs[k]}, impl=iv, model=mv)
        if iv.startswith("panic") or i.get("root") not in ("always", "never"):
            continue
        todo.append(k)
        if lib.nontrivial(exprs[k]):
            rep.distinct.add(exprs[k])
    res = h.ask(["N %s %s" % (hexs(P.impl[k]["pattern"]), "1" if P.impl[k]["root"] == "always" else "0") for k in todo])
    bad = []
    for k, line in zip(todo, res):
        if not line.startswith("counts"):
            rep.stats["dfa-" + line.split()[0]] += 1
            continue
        counts = [int(x) for x in line[len("counts "):].strip("[]").split(",") if x != ""]
        outside = [c for c in counts if not contains(P.impl[k]["depth"], c)]
        if not outside:
            rep.stats["depth-contains-all-counts"] += 1
            rep.sample({"expr": exprs[k], "depth": P.impl[k]["depth"], "component_counts_of_matches(capped)": counts})
        else:
            bad.append((k, outside[0]))
    frag = P.model_cmd("F10", [k for k, _ in bad])
    # concrete witnesses: a shortest word with that many components
    for k, c in bad:
        rep.stats["depth-misses-a-match"] += 1
        words = h.ask(["WD %s 400" % hexs(P.impl[k]["pattern"])])[0]
        rooted = P.impl[k]["root"] == "always"
        wit = None
        for w in words.split()[1:]:
            w = unhex(w)
            canon = "//" not in w and (w == "/" or not w.endswith("/"))
            comps = len([x for x in w.split("/") if x])
            if canon and w.startswith("/") == rooted and (comps == c or (c == CAP and comps >= CAP)):
                wit = w
                break
        inp = {"expr": exprs[k], "path": wit, "components": c}
        confirmed = wit is not None and h.ask(["M %s %s" % (hexs(exprs[k]), hexs(wit))])[0].startswith("match")
        f = frag[k]
        if f == "in":
            rep.violation("oracle" if confirmed else "correspondence", "depth_sound_partial applies (F10 and F01) but a match has a component count outside depth()", inp, impl=P.impl[k]["depth"], fragment=f)
        elif md[k].replace(" ", "_") != P.impl[k]["depth"] or P.model[k].get("pattern") != P.impl[k]["pattern"]:
            rep.violation("oracle" if confirmed else "correspondence", "depth deviation that the model of the committed fold does not reproduce", inp, impl=P.impl[k]["depth"], model=md[k], fragment=f)
        else:
            tags = f[4:].split(",")
            known = [t for t in tags if t in finding_ids]
            if not known:
                rep.violation("oracle" if confirmed else "correspondence", "depth deviation at a site no listed finding names: %s" % f, inp, impl=P.impl[k]["depth"], fragment=f)
            else:
                for t in known:
                    rep.known_hits[t] += 1

    # ---- combinators: any([e]) and any([a, b]) report a depth too
    if replay is None or "any" in replay["input"]:
        combos = lib.combinator_pairs(P, exprs, built, seed, 900 if tier == "quick" else 9000)
        if replay is not None:
            d = lib.parse_impl_build(h.ask(["A %d %s" % (len(replay["input"]["any"]), " ".join(hexs(e) for e in replay["input"]["any"]))])[0])
            combos = [(replay["input"]["any"], d)] if d["ok"] else []
        rep.evaluations += len(combos)
        mdep = lib.any_model(m, "DGA", [ms for ms, _ in combos])
        mpat = lib.any_model(m, "A", [ms for ms, _ in combos])
        todo2 = []
        for (ms, d), dv, pl in zip(combos, mdep, mpat):
            rep.traces += 1
            iv = d.get("depth", "?")
            rep.stats["combinator-depth:" + iv.split("_")[0].split(":")[0]] += 1
            mp = unhex(pl.split(" | ")[1]) if pl.startswith("ok ") and " | " in pl else None
            if not (iv == dv.replace(" ", "_") or (iv.startswith("panic") and dv == "panic")) or (mp != d["pattern"] and dv != "panic"):
                rep.stats["correspondence-broken"] += 1
                rep.violation("correspondence", "combinator: depth() and compiled pattern", {"any": ms}, impl="%s %s" % (iv, d["pattern"][:160]), model="%s %s" % (dv, (mp or "")[:160]))
                continue
            if iv.startswith("panic") or d.get("root") not in ("always", "never"):
                continue
            todo2.append((ms, d))
            rep.distinct.add("any:" + "|".join(ms))
        res2 = h.ask(["N %s %s" % (hexs(d["pattern"]), "1" if d["root"] == "always" else "0") for ms, d in todo2])
        bad2 = []
        for (ms, d), line in zip(todo2, res2):
            if not line.startswith("counts"):
                rep.stats["dfa-" + line.split()[0]] += 1
                continue
            counts = [int(x) for x in line[len("counts "):].strip("[]").split(",") if x != ""]
            outside = [c for c in counts if not contains(d["depth"], c)]
            if not outside:
                rep.stats["combinator:depth-contains-all-counts"] += 1
            else:
                bad2.append((ms, d, outside[0]))
        frag2 = lib.any_model(m, "F10A", [ms for ms, _d, _c in bad2])
        for (ms, d, c), f in zip(bad2, frag2):
            rep.stats["combinator:depth-misses-a-match"] += 1
            words = h.ask(["WD %s 400" % hexs(d["pattern"])])[0]
            rooted = d["root"] == "always"
            wit = None
            for w in words.split()[1:]:
                w = unhex(w)
                canon = "//" not in w and (w == "/" or not w.endswith("/"))
                comps = len([x for x in w.split("/") if x])
                if canon and w.startswith("/") == rooted and (comps == c or (c == CAP and comps >= CAP)):
                    wit = w
                    break
            inp = {"any": ms, "path": wit, "components": c}
            confirmed = wit is not None and h.ask(["MA %s %d %s" % (hexs(wit), len(ms), " ".join(hexs(e) for e in ms))])[0].startswith("match")
            kind = "oracle" if confirmed else "correspondence"
            if f == "in":
                rep.violation(kind, "a combinator inside the proved fragment matches a path whose component count lies outside depth()", inp, impl=d["depth"], fragment=f)
            else:
                tags = f[4:].split(",")
                known = [t for t in tags if t in finding_ids]
                if not known:
                    rep.violation(kind, "combinator depth deviation at a site no listed finding names: %s" % f, inp, impl=d["depth"], fragment=f)
                else:
                    for t in known:
                        rep.known_hits[t] += 1

    # ---- the same pattern obtained another way (into_owned, FromStr): depth() judged like the glob's when it says or
    # runs something else (the any-of-one routes are covered by the combinators above)
    if replay is None:
        subjects = [sj for sj in lib.conversion_routes(P, exprs, built) if sj["route"] in ("into-owned", "from-str")]
        todo3 = []
        for sj in subjects:
            i = P.impl[sj["k"]]
            rep.stats["route-depth:%s:%s" % (sj["route"], "same" if sj["depth"] == i.get("depth") and sj["pattern"] == i["pattern"] else "differs")] += 1
            if (sj["depth"] != i.get("depth") or sj["pattern"] != i["pattern"]) and not sj["depth"].startswith("panic") and sj["root"] in ("always", "never"):
                todo3.append(sj)
        for sj, line in zip(todo3, h.ask(["N %s %s" % (hexs(sj["pattern"]), "1" if sj["root"] == "always" else "0") for sj in todo3])):
            if not line.startswith("counts"):
                continue
            counts = [int(x) for x in line[len("counts "):].strip("[]").split(",") if x != ""]
            outside = [c for c in counts if not contains(sj["depth"], c)]
            i = P.impl[sj["k"]]
            borrowed_ok = all(contains(i.get("depth", "unb"), c) for c in counts) if not i.get("depth", "").startswith("panic") else True
            if outside and borrowed_ok:
                rep.violation("oracle", "the glob obtained by %s reports depth %s but its program matches a path of %d components (the glob built by Glob::new reports %s)" % (
                    sj["route"], sj["depth"], outside[0], i.get("depth")), {"expr": sj["expr"], "route": sj["route"], "components": outside[0]}, impl=sj["depth"])

    # ---- HISTORY: a glob that has answered depth() (and the other queries) and is then partitioned, re-owned or combined
    # reports, for the new value, a depth judged on the new value's own program (a remembered answer must not travel)
    import random as _r41
    r = _r41.Random(seed + 41)
    if replay is None or replay["input"].get("what") == "history":
        hk = built if replay is not None else (built if len(built) <= (1500 if tier == "quick" else 20000) else r.sample(built, 1500 if tier == "quick" else 20000))
        direct = ["a/b/*", "src/lib/**/*.rs", "a/**", "x/y/z/{a,b/c}", "a/b/<c/:1,3>d", "/a/**/b"] if replay is None else []
        subj = [exprs[k] for k in hk] + direct
        todo4 = []
        for e, line in zip(subj, h.ask(["XH " + hexs(e) for e in subj])):
            rep.evaluations += 1
            if "=DIFF<" not in line:
                rep.stats["history: queried-then-converted = converted"] += 1
                continue
            for item in line.split(" "):
                if "=DIFF<" in item:
                    name, rest = item.split("=", 1)
                    f = dict(x.split("=", 1) for x in rest[5:-1].split("|") if "=" in x)
                    pat = rest[5:-1].split("|")[-1]
                    todo4.append((e, name, f, pat, rest))
        for (e, name, f, pat, rest), line in zip(todo4, h.ask(["N %s %s" % (pat, "1" if f.get("root") == "always" else "0") for (_, _, f, pat, _) in todo4])):
            counts = [int(x) for x in line[len("counts "):].strip("[]").split(",") if x != ""] if line.startswith("counts") else []
            outside = [c for c in counts if not contains(f.get("depth", "unb"), c)]
            if outside and not f.get("depth", "").startswith("panic"):
                rep.violation("oracle", "the value obtained by %s reports depth %s but its own program matches a path of %d components (the same conversion of a glob that was never queried reports something else)" % (
                    name, f.get("depth"), outside[0]), {"expr": e, "route": name, "components": outside[0], "what": "history"}, impl=rest[:300])
            else:
                rep.stats["history: differs, depth still contains the counts"] += 1

    def ask(wit):
        if "any" in wit:
            ms = wit["any"]
            b = lib.parse_impl_build(h.ask(["A %d %s" % (len(ms), " ".join(hexs(e) for e in ms))])[0])
            a = h.ask(["MA %s %d %s" % (hexs(wit["path"]), len(ms), " ".join(hexs(e) for e in ms))])[0].startswith("match")
            comps = len([x for x in wit["path"].split("/") if x])
            return (a and b.get("depth") == wit["depth"] and not contains(b.get("depth"), comps)), "any(%r) reports depth %s and matches %r (%d components)" % (ms, b.get("depth"), wit["path"], comps)
        b = lib.parse_impl_build(h.ask(["B " + hexs(wit["expr"])])[0])
        a = h.ask(["M %s %s" % (hexs(wit["expr"]), hexs(wit["path"]))])[0].startswith("match")
        comps = len([x for x in wit["path"].split("/") if x])
        return (a and b.get("depth") == wit["depth"] and not contains(b.get("depth"), comps)), "%r reports depth %s and matches %r (%d components)" % (wit["expr"], b.get("depth"), wit["path"], comps)
    lib.replay_findings(rep, "C10", ask)
