"""C01 Matching conforms to the documented glob semantics (DESIGN.md section 5, C01)."""
import common
from common import hexs, unhex
from props import lib


def classify(rep, e, w, impl_match, frag, corresponds, model_match, finding_ids):
    """section 2.1: i != s on (e, w)"""
    inp = {"expr": e, "path": w}
    if frag == "in":
        rep.violation("oracle", "encode_eq_spec_partial applies (F01) but the real crate deviates from the documented language",
                      inp, impl=impl_match, spec=not impl_match, fragment=frag)
        return
    if not corresponds or model_match != impl_match:
        rep.violation("oracle", "deviation outside F01 that the model of the committed code does not reproduce",
                      inp, impl=impl_match, spec=not impl_match, model=model_match, fragment=frag)
        return
    tags = frag[4:].split(",")
    unknown = [t for t in tags if t not in finding_ids]
    if unknown:
        rep.violation("oracle", "deviation at a site no listed finding names: %s" % ",".join(unknown),
                      inp, impl=impl_match, spec=not impl_match, fragment=frag)
        return
    for t in tags:
        rep.known_hits[t] += 1


def run(rep, tier, seed, replay):
    rep.rule = ("corpus and finding witnesses first, then grammar-directed expressions (token trees printed with the "
                "rule constraints built in, 15% malformed/mutated) from one PRNG; per built glob the crate's own "
                "compiled pattern and the proved oracle's pattern are compared over ALL paths by a DFA product; "
                "non-trivial = built, contains a pattern token, and decided (equal, or attributed to a listed finding)")
    exprs = lib.inputs(rep, "C01", tier, seed, 1500, 20000, replay)
    if replay is None:
        import gen as _ger
        exprs += [e for e in _ger.exact_repetition_family() if e not in set(exprs)]
    if replay is None:
        import gen as _gfc
        exprs += [e for e in _gfc.flag_class_family() if e not in set(exprs)]
    if replay is None:
        import gen as _gfs
        exprs += [e for e in _gfs.flag_scope_family() if e not in set(exprs)]
    if replay is None:
        import gen as _gen
        exprs += [e for e in _gen.nested_tree_edge_family() + _gen.tree_position_family() + _gen.nested_middle_family() if e not in set(exprs)]
    P = lib.Pair(exprs)
    h, m = P.h, P.m
    rep.evaluations = len(exprs)
    built = [k for k in range(len(exprs)) if P.impl[k]["ok"]]
    frag = P.model_cmd("F", built)
    spec = P.model_cmd("S2", built)
    findings, _ = common.load_findings("C01")
    finding_ids = {f["id"] for f in findings}
    lang_reqs, idx = [], []
    corr = {}
    for k in range(len(exprs)):
        i, mo = P.impl[k], P.model[k]
        if not i["ok"]:
            rep.stats["not-built:" + i.get("err", "?")] += 1
            continue
        rep.stats["built"] += 1
        rep.traces += 1
        corr[k] = mo["ok"] and mo["tokens"] == i["tokens"] and mo["pattern"] == i["pattern"]
        if not corr[k]:
            rep.stats["correspondence-broken"] += 1
            what = "parse" if not mo["ok"] or mo["tokens"] != i["tokens"] else "encode"
            rep.violation("correspondence", "%s: text equality of the %s" % (what, "token tree" if what == "parse" else "emitted regular expression"),
                          {"expr": exprs[k]}, impl=i["raw"][:400], model=mo["raw"][:400])
        if spec[k].startswith("ok "):
            lang_reqs.append("L %s %s" % (hexs(i["pattern"]), spec[k].split()[1]))
            idx.append(k)
    res = h.ask(lang_reqs)
    diffs = []
    for k, line in zip(idx, res):
        e = exprs[k]
        if line == "EQUAL":
            rep.stats["language-equal"] += 1
            if lib.nontrivial(e):
                rep.distinct.add(e)
            rep.sample({"expr": e, "fragment": frag[k], "verdict": "compiled program = documented language over all paths"})
        elif line.startswith("DIFF"):
            p = line.split()
            diffs.append((k, unhex(p[1]), p[2] == "first"))
        else:
            rep.stats["dfa-" + line.split()[0]] += 1
    # confirm every distinguishing path through the public API and through the verified oracle
    conf = h.ask(["M %s %s" % (hexs(exprs[k]), hexs(w)) for k, w, _ in diffs])
    sm = m.ask(["SM %s %s" % (hexs(exprs[k]), hexs(w)) for k, w, _ in diffs], timeout=40)
    mm = m.ask(["MM %s %s" % (hexs(exprs[k]), hexs(w)) for k, w, _ in diffs], timeout=40)
    for (k, w, in_impl), c, s, mline in zip(diffs, conf, sm, mm):
        impl_match = c.startswith("match")
        if impl_match != in_impl or s not in ("0", "1") or (s == "1") == impl_match:
            # the automata tool alone never produces a verdict
            rep.stats["witness-not-confirmed"] += 1
            continue
        rep.stats["language-differs"] += 1
        if lib.nontrivial(exprs[k]):
            rep.distinct.add(exprs[k])
        # a model request that ran out of time says nothing: the emitted regex TEXT being equal is then the reproduction
        model_match = impl_match if mline not in ("0", "1") else (mline == "1")
        if mline not in ("0", "1"):
            rep.stats["model membership undecided in time (text correspondence used)"] += 1
        classify(rep, exprs[k], w, impl_match, frag[k], corr.get(k, False), model_match, finding_ids)
    # validation of the regex assumption: matchB on the emitted text vs the regex crate
    rx = [(k, w) for k, w, _ in diffs[:200]]
    # listed witnesses, replayed on the real code
    # ---- the candidate path however it is given: &str, &Path, &OsStr, owned; bytes that are not UTF-8 are read
    # lossily (documented on CandidatePath). Paths: words of the pattern's own language and near misses.
    if replay is None:
        import random as _r
        rng = _r.Random(seed + 101)
        builtk = [k for k in range(len(exprs)) if P.impl[k]["ok"]]
        sample = rng.sample(builtk, min(len(builtk), 250 if tier == "quick" else 3000))
        wd = h.ask(["WD %s 4" % hexs(P.impl[k]["pattern"]) for k in sample])
        reqs, owner = [], []
        for k, line in zip(sample, wd):
            words = [unhex(w) for w in line.split()[1:]] if line.startswith("words") else []
            for w in words[:3] + [w + "x" for w in words[:1]] + ["", "/", "a/b"]:
                reqs.append("CP %s %s" % (hexs(exprs[k]), hexs(w)))
                owner.append((k, w))
        for (k, w), line in zip(owner, h.ask(reqs)):
            if line == "routes=same raw=same":
                rep.stats["candidate path: str = Path = OsStr = owned; non-UTF-8 read lossily"] += 1
            elif line.startswith("routes="):
                rep.violation("oracle", "the same candidate path given as &str, &Path, &OsStr or owned (or raw bytes vs. their lossy text) is matched differently",
                              {"expr": exprs[k], "path": w, "what": "candidate-routes"}, impl=line[:300])
        rep.evaluations += len(reqs)

    def ask(wit):
        got = h.ask(["M %s %s" % (hexs(wit["expr"]), hexs(wit["path"]))])[0].startswith("match")
        return got == wit["impl"], "%r %s %r" % (wit["expr"], "matches" if got else "does not match", wit["path"])
    lib.replay_findings(rep, "C01", ask)
    rep.extra["exact_language_decisions"] = rep.stats["language-equal"] + rep.stats["language-differs"]
    rep.extra["decision_note"] = "per-expression DFA equivalence is a decision for one expression over all paths; it is a search aid and model validation, not the proof"
