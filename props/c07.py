"""C07 Branches compose: alternation is union, repetition is iteration, `any` is union."""
import random, re
import common, gen
from common import hexs, unhex
from props import lib


def families(seed, n):
    """families built by construction: (law, whole, parts) where L(whole) must equal the union of L(parts)"""
    r = random.Random(seed)
    g = gen.ExprGen(r, max_depth=2, flags=False)
    gp = gen.ExprGen(r, max_depth=1, flags=True)
    out = []
    seen = set()
    while len(out) < n:
        pre = gp.text(gp.seq(0, False, True, True, True, 2)) if r.random() < 0.7 else ""
        post = gp.text(gp.seq(0, True, False, True, False, 2)) if r.random() < 0.7 else ""
        if pre.endswith(("(?i)", "(?-i)", "(?i-i)")) and r.random() < 0.5:
            pre += ""
        law = r.choice(["alt", "alt", "rep", "wrap-alt", "wrap-rep", "any", "any-compiled", "any-owned", "any-nested"])
        lb = pre.endswith(("/", "**")) or pre == ""
        rb = post.startswith(("/", "**")) or post == ""
        edge = r.random() < 0.3
        TREE_EDGE = ["/**", "/**/b", "**/b", "a/**", "<**/b:1,2>", "<a/**:1,2>", "{**/b,c}", "{a/**,c}", "<**/b:2>", "<a/**/:1,2>", "a/**/b", "<<**/b:1,2>:1,2>", "x<**/b:1,2>", "<a/**:1,2>y", "**/<b:1,2>"]
        tree_edge = r.random() < 0.22
        def branch():
            if tree_edge and r.random() < 0.7:
                return r.choice(TREE_EDGE)
            return g.text(g.seq(1, True if not edge else (pre.endswith(("/", "**"))), True if not edge else post.startswith(("/", "**")), edge, pre == "", 3))
        if law == "alt":
            bs = [branch() for _ in range(r.randint(2, 3))]
            whole = pre + "{" + ",".join(bs) + "}" + post
            parts = [pre + b + post for b in bs]
        elif law == "rep":
            b = branch()
            lo = r.randint(0, 2)
            hi = lo + r.randint(0, 2)
            if hi == 0:
                hi = 1
            whole = "%s<%s:%d,%d>%s" % (pre, b, lo, hi, post)
            parts = [pre + b * k + post for k in range(lo, hi + 1)]
        elif law == "wrap-alt":
            b = branch()
            whole, parts = pre + "{" + b + "}" + post, [pre + b + post]
        elif law == "wrap-rep":
            b = branch()
            whole, parts = pre + "<" + b + r.choice([":1", ":1,1"]) + ">" + post, [pre + b + post]
        else:
            # members given as OWNED compiled globs carry their flags in the token tree only: generate flags there
            parts = [(gp if law == "any-owned" else g).expr() for _ in range(r.randint(1, 3))]
            whole = None
        if whole is None and r.random() < 0.12:
            # the empty pattern is a pattern too: the only one that matches the empty path
            parts = list(parts)
            parts.insert(r.randrange(len(parts) + 1), "")
        key = (law, whole, tuple(parts))
        if key in seen or (whole is not None and any(p == "" for p in parts)):
            continue
        seen.add(key)
        out.append((law, whole, parts))
    return out


def systematic():
    """a tree wildcard at either edge of a branch x what precedes and follows the group x every law: the form of the wildcard
    depends on the position of the GROUP in its concatenation and on the position of the wildcard in the branch"""
    branches = ["a/**/", "**/a", "a/**", "a/**/b", "/**/a", "**/", "a/**/b/**/", "**/a/**"]
    pres = ["", "x", "x/", "x/y"]
    posts = ["", "c", "/c", "c/y", "/**/c"]
    out = []
    for b in branches:
        for pre in pres:
            for post in posts:
                out.append(("wrap-alt", pre + "{" + b + "}" + post, [pre + b + post]))
                out.append(("wrap-rep", pre + "<" + b + ":1>" + post, [pre + b + post]))
                out.append(("alt", pre + "{" + b + ",q}" + post, [pre + b + post, pre + "q" + post]))
                out.append(("alt", pre + "{q," + b + "}" + post, [pre + "q" + post, pre + b + post]))
                out.append(("rep", pre + "<" + b + ":1,2>" + post, [pre + b + post, pre + b + b + post]))
                out.append(("alt", pre + "{{" + b + "},q}" + post, [pre + b + post, pre + "q" + post]))
    # a repetition whose body is NOTHING BUT another repetition: the iteration counts of the whole are the sums of k inner
    # counts, not the hull of the product of the two ranges (<<a:2>:1,2> is aa or aaaa, never aaa)
    inner_bounds = [(2, 2), (2, 3), (3, 4), (1, 2), (2, None), (0, 2), (0, None), (3, 3)]
    outer_bounds = [(1, 2), (2, 3), (1, 3), (2, 2)]
    def rb(lo, hi):
        return ":%d,%s" % (lo, "" if hi is None else hi) if hi != lo else ":%d" % lo
    for body in ["a", "ab", "a/", "[ab]", "{a,bc}"]:
        for il, ih in inner_bounds:
            inner = "<" + body + rb(il, ih) + ">"
            for ol, oh in outer_bounds:
                for pre, post in [("", ""), ("x", ""), ("", "y"), ("x/", "/y")] if body != "a/" else [("", ""), ("x", "y")]:
                    whole = pre + "<" + inner + rb(ol, oh) + ">" + post
                    parts = [pre + inner * k + post for k in range(ol, oh + 1)]
                    out.append(("rep", whole, parts))
            out.append(("rep", "x<" + inner + ":1,3>", ["x" + inner * k for k in (1, 2, 3)]))
            out.append(("rep", "{<" + inner + ":1,2>,b}", ["{" + inner + ",b}", "{" + inner * 2 + ",b}"]))
    # alternatives (and combinator members) that are single characters or short literals under DIFFERENT case flags: every
    # literal carries its own flag, whatever the flag of its neighbours
    for a0, b0 in [("a", "b"), ("a", "B"), ("x", "y"), ("é", "b"), ("a", "1"), ("ab", "c"), ("k", "s")]:
        for fa, fb in [("", "(?i)"), ("(?i)", "(?-i)"), ("(?-i)", "(?i)"), ("(?i)", "(?i)")]:
            pa, pb = fa + a0, fb + b0
            # (flags thread left to right through the branches and out of the group: what follows is caseless text, and a
            # third branch states its flag)
            for pre, post in [("", ""), ("x", ""), ("", "/1"), ("x/", ".2")]:
                out.append(("alt", pre + "{" + pa + "," + pb + "}" + post, [pre + pa + post, pre + pb + post]))
            fc = fa if fa else "(?-i)"
            out.append(("alt", "{" + pa + "," + pb + "," + fc + "c}", [pa, pb, fc + "c"]))
            out.append(("any", None, [pa, pb]))
            out.append(("any-compiled", None, [pa, pb]))
            out.append(("any-owned", None, [pb, pa]))
            out.append(("any-nested", None, [pa, pb]))
    # combinators over NO patterns, alone and nested beside a member: the union of nothing is nothing
    out += [("any", None, []), ("any-compiled", None, []), ("any-owned", None, []), ("any-nested", None, []), ("any-nested", None, ["a"]),
            ("any-nested", None, ["a/**"]), ("any-nested", None, [""]), ("any-nested", None, ["*"]), ("any-nested", None, ["/**"])]
    return out


def run(rep, tier, seed, replay):
    rep.rule = ("families built by construction (substitute each branch, unroll a repetition, wrap in single-branch braces or a once-only "
                "repetition, combine with any() as text / compiled / nested); the compiled program of the whole and the union of the "
                "compiled programs of the parts are compared over ALL paths by an automata product; non-trivial = every member builds "
                "and the comparison was decided")
    h, m = common.harness(), common.model()
    n = 900 if tier == "quick" else 12000
    fams = families(seed, n)
    have = {(l, w, tuple(ps)) for l, w, ps in fams}
    fams += [f for f in systematic() if (f[0], f[1], tuple(f[2])) not in have]
    findings, _ = common.load_findings("C07")
    if replay is not None:
        fams = [(replay["input"]["law"], replay["input"].get("whole"), replay["input"]["parts"])]
    else:
        fams = [(f["witness"]["law"], f["witness"].get("whole"), f["witness"]["parts"]) for f in findings] + fams
    finding_ids = {f["id"] for f in findings}
    rep.evaluations = len(fams)
    # build everything
    exprs = sorted({e for _, w, ps in fams for e in ([w] if w else []) + ps})
    P = lib.Pair(exprs)
    ix = {e: k for k, e in enumerate(exprs)}
    anyreq, anyidx = [], []
    for j, (law, whole, parts) in enumerate(fams):
        if whole is None:
            cmd = {"any": "A", "any-compiled": "AC", "any-owned": "AO", "any-nested": "AN"}[law]
            anyreq.append("%s %d %s" % (cmd, len(parts), " ".join(hexs(p) for p in parts)))
            anyidx.append(j)
    anyres = dict(zip(anyidx, h.ask(anyreq)))
    # the model of the combinator's tree: a top-level alternation (AC builds the same tree as A)
    many = dict(zip(anyidx, m.ask([q.replace("AC ", "A ", 1).replace("AO ", "A ", 1) for q in anyreq])))
    fany = dict(zip(anyidx, m.ask([("FAN " if q.startswith("AN ") else "FA ") + q.split(" ", 1)[1] for q in anyreq])))
    reqs, ridx = [], []
    for j, (law, whole, parts) in enumerate(fams):
        if any(not P.impl[ix[p]]["ok"] for p in parts):
            rep.stats["skipped:a-part-does-not-build"] += 1
            continue
        if whole is not None:
            if not P.impl[ix[whole]]["ok"]:
                rep.stats["skipped:whole-does-not-build"] += 1
                continue
            wp = P.impl[ix[whole]]["pattern"]
        else:
            a = lib.parse_impl_build(anyres[j])
            if not a["ok"]:
                rep.stats["skipped:any-does-not-build"] += 1
                continue
            wp = a["pattern"]
        # the union of no patterns is the empty language
        union = "|".join("(?:%s)" % P.impl[ix[p]]["pattern"] for p in parts) if parts else "[a&&b]"
        reqs.append("L %s %s" % (hexs(wp), hexs(union)))
        ridx.append(j)
    res = h.ask(reqs)
    frag_need = set()
    diffs = []
    for j, line in zip(ridx, res):
        law, whole, parts = fams[j]
        rep.traces += 1
        if line == "EQUAL":
            rep.stats["law-holds:" + law] += 1
            rep.distinct.add((law, whole, tuple(parts)))
            rep.sample({"law": law, "whole": whole, "parts": parts, "verdict": "equal over all paths"}, cap=8)
        elif line.startswith("DIFF"):
            w = unhex(line.split()[1])
            diffs.append((j, w, line.split()[2] == "first"))
            for e in ([whole] if whole else []) + parts:
                frag_need.add(ix[e])
        else:
            rep.stats["dfa-" + line.split()[0]] += 1
    frag = P.model_cmd("F", sorted(frag_need))
    for j, w, in_whole in diffs:
        law, whole, parts = fams[j]
        rep.distinct.add((law, whole, tuple(parts)))
        members = ([whole] if whole else []) + parts
        # confirm through the public API
        if whole is not None:
            got_whole = h.ask(["M %s %s" % (hexs(whole), hexs(w))])[0].startswith("match")
        else:
            mcmd = {"any": "MA", "any-compiled": "MAC", "any-owned": "MAO", "any-nested": "MAN"}[law]
            got_whole = h.ask(["%s %s %d %s" % (mcmd, hexs(w), len(parts), " ".join(hexs(p) for p in parts))])[0].startswith("match")
        got_parts = [h.ask(["M %s %s" % (hexs(p), hexs(w))])[0].startswith("match") for p in parts]
        if got_whole == any(got_parts):
            rep.stats["witness-not-confirmed"] += 1
            continue
        rep.stats["law-fails:" + law] += 1
        inp = {"law": law, "whole": whole, "parts": parts, "path": w}
        fr = [frag[ix[e]] for e in members]
        corr = all(P.model[ix[e]].get("pattern") == P.impl[ix[e]]["pattern"] for e in members)
        if law.startswith("any"):
            # the combinator's own tree: a top-level alternation; its branches are nested one deeper
            fr.append(fany[j])
            corr = corr and lib.parse_model_build(many[j]).get("pattern") == lib.parse_impl_build(anyres[j]).get("pattern")
        tags = sorted({t for f in fr if f != "in" for t in f[4:].split(",")})
        if law == "rep" and whole is not None and re.search(r":0,\d*>", whole) and "**" in whole and corr and "K-REP-ZERO-CONTEXT" in finding_ids:
            # a tree wildcard next to a repetition that may iterate zero times keeps the form for "something follows",
            # while the glob with the body written out zero times ends in the tree wildcard (rep_unroll needs lo >= 1)
            rep.known_hits["K-REP-ZERO-CONTEXT"] += 1
            continue
        if all(f == "in" for f in fr):
            rep.violation("oracle", "%s: every member is in F01 (the law transfers to the compiled programs) but the whole and the union of the parts differ" % law, inp, whole_matches=got_whole, parts_match=got_parts)
        elif not corr:
            rep.violation("oracle", "%s fails and the model of the committed encoder does not reproduce the programs involved" % law, inp, whole_matches=got_whole, parts_match=got_parts)
        else:
            known = [t for t in tags if t in finding_ids]
            if not known:
                rep.violation("oracle", "%s fails at a site no listed finding names: %s" % (law, ",".join(tags)), inp, whole_matches=got_whole, parts_match=got_parts)
            else:
                for t in known:
                    rep.known_hits[t] += 1

    def ask(wit):
        if wit.get("whole"):
            gw = h.ask(["M %s %s" % (hexs(wit["whole"]), hexs(wit["path"]))])[0].startswith("match")
        else:
            gw = h.ask(["MA %s %d %s" % (hexs(wit["path"]), len(wit["parts"]), " ".join(hexs(p) for p in wit["parts"]))])[0].startswith("match")
        gp = [h.ask(["M %s %s" % (hexs(p), hexs(wit["path"]))])[0].startswith("match") for p in wit["parts"]]
        return gw != any(gp), "%s: whole %r %s %r but parts %r %s" % (wit["law"], wit.get("whole") or "any(parts)", "matches" if gw else "does not match", wit["path"], wit["parts"], "do" if any(gp) else "do not")
    lib.replay_findings(rep, "C07", ask)
