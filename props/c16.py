"""C16 Walk filters compose monotonically and independently of order."""
import itertools, random
import common, walkgen
from props import walklib
from props.walklib import hx, unhx


def mixed_stack(rng, vocab, dirs):
    """2-3 layers mixing negations and entry filters, file and tree verdicts"""
    if dirs and rng.random() < 0.3:
        # a directory discarded as a FILE upstream reaches a negation whose exhaustive branch matches it (as residue)
        d = walkgen.esc(rng.choice(dirs)[-1])
        neg = rng.choice(["{**/%s/**,**/*.md}" % d, "{%s/**,*.txt}" % d, "**/%s/**" % d])
        layers = ["f:%s=F" % hx(rng.choice(dirs)[-1] if rng.random() < 0.2 else [x for x in dirs if walkgen.esc(x[-1]) == d][0][-1]), "n:" + hx(neg), "f:"]
        rng.shuffle(layers)
        return ";".join(layers), "fnf*", []
    n = rng.choice([2, 2, 3])
    layers, shape = [], ""
    for _ in range(n):
        if rng.random() < 0.5:
            e, _k = walkgen.gen_not(rng, vocab, dirs)
            layers.append("n:" + hx(e))
            shape += "n"
        else:
            rules = ["%s=%s" % (hx(rng.choice(vocab)), rng.choice("TF")) for _ in range(rng.randint(1, 2))]
            layers.append("f:" + ",".join(rules))
            shape += "f"
    return ";".join(layers), shape, []


def run(rep, tier, seed, replay):
    rep.rule = ("generated trees x stacks of 2-3 layers mixing not() and filter_entry (file and tree verdicts) over path walks and glob walks; every "
                "permutation of each stack is run on the same tree: the yielded entries must be identical, every filter layer must observe the "
                "same entries exactly once whatever its position; items and logs are also compared with the walk model; non-trivial = a stack in "
                "which at least two layers discard something")
    n = 160 if tier == "quick" else 2500
    base = walklib.gen_cases(seed, n, stack=mixed_stack, bounds="none")
    if replay is not None:
        base = [walklib.case_from(replay["input"])]
    cases, groups = [], []
    for c in base:
        layers = c.stack.split(";")
        perms = list(dict.fromkeys(itertools.permutations(layers)))
        g = []
        for p in perms:
            cc = c.clone(stack=";".join(p))
            g.append(cc)
            cases.append(cc)
        groups.append(g)
    # stacks of entry filters over path walks: the yielded entries are exactly those every layer keeps (from the recorded tree alone)
    from props import c13
    direct = [c for c in walklib.gen_cases(seed + 3, n * 2, stack=c13.filter_stack, bounds="none", mode="p", link="f") if c.labels["base"] in ("root", "subdir")]
    direct += c13.followed_link_cases(seed + 6, n * 2)
    direct += [c for c in walklib.gen_cases(seed + 8, n, stack=c13.same_dir_stack, bounds="none", mode="p", link="f") if c.labels["base"] in ("root", "subdir")]
    direct += c13.bounded_stack_cases(seed + 12, n * 2)
    if replay is not None:
        direct = []
    walklib.run_cases(cases + direct)
    for c in direct:
        if not c.head.startswith("root="):
            continue
        if c.link == "t" and any(k in ("lc", "ld", "lu") for _p, k, _d in walklib.rec_paths(c.f.get("rec", "-"), "@R")):
            rep.stats["direct: not judged (a followed link is a fault on this traversal)"] += 1
            continue
        obs, yl = c13.expected(c)
        got = [p for p, *_ in walklib.ok_items(c.f.get("items"))]
        if got == yl:
            rep.stats["direct: yielded = the entries every layer keeps"] += 1
        else:
            extra = [g for g in got if g not in yl]
            missing = [o for o in yl if o not in got]
            rep.violation("oracle", ("a stack of filters yields %r, which one of them discards" % extra[0]) if extra else ("a stack of filters loses %r, which every one of them keeps and which is not beneath a discarded tree" % (missing[0] if missing else "?")), c.describe(), impl=c.impl[:400])
    walklib.correspondence_step(rep, direct, "filter stacks")
    # ---- stacks of entry filters over GLOB walks (pivot 0: the relative path is the path below the base): the yielded
    # entries are those of the same glob walk without the stack that no rule names and that do not lie beneath a
    # directory a rule discards as a tree
    if replay is None or (replay["input"].get("mode") == "g" and all(l.startswith("f:") for l in replay["input"].get("stack", "-").split(";"))):
        gd = [c for c in walklib.gen_cases(seed + 5, n * 3, stack=c13.filter_stack, bounds="none", mode="g", link="f")
              if c.labels["base"] in ("root", "subdir") and not c.expr.startswith(("/", "@ROOT", ".", "(?"))]
        if replay is not None:
            gd = [walklib.case_from(replay["input"])]
        gtw = [c.clone(stack="-") for c in gd]
        walklib.run_cases(gd)
        walklib.run_cases(gtw, with_model=False)
        walklib.correspondence_step(rep, gd, "filter stacks over glob walks")
        rep.evaluations += len(gd)
        wps = common.harness().ask(["WP - %s" % hx(c.expr) for c in gd])
        for c, t, wp in zip(gd, gtw, wps):
            if not (c.head.startswith("root=") and t.head.startswith("root=")):
                continue
            oks = walklib.ok_items(c.f.get("items"))
            toks = walklib.ok_items(t.f.get("items"))
            if " pivot=0 " not in wp + " ":
                # a glob with an invariant prefix starts below the base: the directories of the prefix are not fed
                rep.stats["glob-direct: skipped (prefixed glob)"] += 1
                continue
            rules = [r for _k, r in c13.parse_rules(c.stack)]
            base = unhx(c.f["base"]).rstrip("/")
            def verdicts(name):
                return [r.get(name) for r in rules]
            def name_of(p):
                return p.rstrip("/").rsplit("/", 1)[-1]
            def tree_above(p):
                rel = p[len(base):].strip("/").split("/")
                # the walk root itself and every directory between it and the entry
                chain = [base] + [base + "/" + "/".join(rel[:i]) for i in range(1, len(rel))]
                return any("T" in [v for v in verdicts(name_of(a))] for a in chain if a != p)
            want = [x[0] for x in toks if not any(v is not None for v in verdicts(name_of(x[0]))) and not tree_above(x[0])]
            got = [x[0] for x in oks]
            if got == want:
                rep.stats["glob-direct: yielded = the glob walk's entries every layer keeps"] += 1
                if len(want) < len(toks):
                    rep.distinct.add(c.req())
            else:
                extra = [g for g in got if g not in want]
                missing = [o for o in want if o not in got]
                rep.violation("oracle", ("a stack of filters over a glob walk yields %r, which one of them discards" % extra[0]) if extra else
                              ("a stack of filters over a glob walk loses %r, which the glob walk alone yields, every layer keeps and which is not beneath a directory discarded as a tree" % (missing[0] if missing else "?")),
                              c.describe(), impl=c.impl[:400])
    findings, _ = common.load_findings("C16")
    finding_ids = {f["id"] for f in findings}
    rep.evaluations = len(cases) + len(direct)
    walklib.correspondence_step(rep, cases, "permuted stacks")
    for g in groups:
        c0 = g[0]
        walklib.stats_for(rep, c0)
        if not c0.head.startswith("root="):
            rep.stats["outcome:" + c0.head] += 1
            continue
        ref = [i for i in walklib.items(c0.f.get("items")) if i.startswith("ok:")]
        full = len(walklib.rec_entries(c0.f.get("rec", "-"))) + 1
        if len(ref) < full - 1 and len(g) > 1:
            rep.distinct.add(c0.req())
        bad = None
        for c in g[1:]:
            got = [i for i in walklib.items(c.f.get("items")) if i.startswith("ok:")]
            if got != ref:
                extra = [x for x in got if x not in ref] or [x for x in ref if x not in got]
                bad = ("the order of the combinators changes what is yielded: %r vs %r differ on %r" % (c0.stack, c.stack, unhx(extra[0].split(":")[1]) if extra else "order"), c)
                break
        # every filter layer observes the same entries, each exactly once, wherever it sits
        if bad is None:
            seen = None
            for c in g:
                logs = c.f.get("logs", "-")
                for lg in ([] if logs == "-" else logs.split("|")):
                    obs = walklib.items(lg)
                    if len(obs) != len(set(obs)):
                        bad = ("a filter observes an entry more than once", c)
                    if seen is None:
                        seen = obs
                    elif obs != seen:
                        d = [x for x in obs if x not in seen] or [x for x in seen if x not in obs]
                        bad = ("a filter's observations depend on its position in the stack: %r is observed in one order of the stack and not in another" % (unhx(d[0].split(":")[0]) if d else "?"), c)
                    if bad:
                        break
                if bad:
                    break
        if bad is None:
            rep.stats["order-independent"] += 1
            rep.sample({"stack": c0.stack, "permutations": len(g), "yielded": len(ref)})
        else:
            # listed site: residue entries have lost the pivot, so a negation placed after a discarding layer matches
            # them against a different relative path than it matches filtrate against (prefixed and rooted globs only)
            c = bad[1]
            pivot = 0
            if c.mode == "g":
                w = common.harness().ask(["WP %s %s" % (c.f.get("base", "-").replace("40.52", c.f.get("root_real", "-")), hx(c.expr.replace("@ROOT", unhx(c.f.get("root_real", "-")))))])[0]
                try:
                    pivot = int(walklib.parse_answer(w)[1].get("pivot", "0"))
                except ValueError:
                    pivot = 0
            has_not = any(l.startswith("n:") for l in c.stack.split(";"))
            if pivot > 0 and has_not and all(walklib.corresponds(x) for x in g if not x.skip and x.model is not None) and "K-NOT-RESIDUE-PIVOT" in finding_ids:
                rep.known_hits["K-NOT-RESIDUE-PIVOT"] += 1
            else:
                rep.violation("oracle", bad[0], bad[1].describe(), impl=bad[1].impl[:400])


    def ask(wit):
        a = walklib.case_from(wit["walk"])
        b = a.clone(stack=";".join(reversed(a.stack.split(";"))))
        walklib.run_cases([a, b], with_model=False)
        ya = [i for i in walklib.items(a.f.get("items")) if i.startswith("ok:")]
        yb = [i for i in walklib.items(b.f.get("items")) if i.startswith("ok:")]
        return ya != yb, "glob %r with the stack %r yields %d entries, with the stack reversed %d" % (a.expr, a.stack, len(ya), len(yb))
    from props import lib
    lib.replay_findings(rep, "C16", ask)
