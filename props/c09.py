"""C09 An 'always exhaustive' verdict is sound."""
import common
from common import hexs, unhex
from props import lib


def canonical(p):
    return "//" not in p and (p == "/" or not p.endswith("/"))


def run(rep, tier, seed, replay):
    rep.rule = ("grammar-directed expressions biased to tree wildcards; for every glob that reports Always the crate's own "
                "compiled pattern is searched (automata product, all canonical paths) for a matched path with an unmatched "
                "canonical descendant; non-trivial = built and reports Always or Sometimes, or has a tree wildcard")
    exprs = lib.inputs(rep, "C09", tier, seed, 2500, 30000, replay)
    if replay is None:
        import random as _random, gen as _gen
        fam = _gen.exh_family(_random.Random(seed), 4000 if tier == "quick" else None)
        known = set(exprs)
        exprs += [e for e in fam if e not in known]
    P = lib.Pair(exprs)
    h, m = P.h, P.m
    rep.evaluations = len(exprs)
    built = [k for k in range(len(exprs)) if P.impl[k]["ok"]]
    mx = P.model_cmd("X", built)
    findings, _ = common.load_findings("C09")
    finding_ids = {f["id"] for f in findings}
    always = []
    for k in built:
        i = P.impl[k]
        rep.traces += 1
        iv = i.get("exh", "?")
        rep.stats["exh=" + iv.split(":")[0]] += 1
        mv = mx[k]
        if not (iv == mv or (iv.startswith("panic") and mv == "panic")):
            rep.stats["correspondence-broken"] += 1
            rep.violation("correspondence", "is_exhaustive: verdict of the exhaustiveness fold", {"expr": exprs[k]}, impl=iv, model=mv)
        if iv == "always":
            always.append(k)
        if iv in ("always", "sometimes") or "**" in exprs[k]:
            rep.distinct.add(exprs[k])
    res = h.ask(["X %s" % hexs(P.impl[k]["pattern"]) for k in always])
    frag = P.model_cmd("F09", always)
    opens = []
    for k, line in zip(always, res):
        if line == "closed":
            rep.stats["always-and-descendant-closed"] += 1
            rep.sample({"expr": exprs[k], "verdict": "Always; language closed under descending (all canonical paths)", "fragment": frag[k]})
            if frag[k].startswith("in"):
                rep.stats["always-closed-and-in-F09b"] += 1
        elif line.startswith("open"):
            p = line.split()
            q = unhex(p[1])
            opens.append((k, q[:int(p[2])], q))
        else:
            rep.stats["dfa-" + line.split()[0]] += 1
    cp = h.ask(["M %s %s" % (hexs(exprs[k]), hexs(pp)) for k, pp, q in opens])
    cq = h.ask(["M %s %s" % (hexs(exprs[k]), hexs(q)) for k, pp, q in opens])
    for (k, pp, q), a, b in zip(opens, cp, cq):
        if not (a.startswith("match") and b.startswith("nomatch") and canonical(pp) and canonical(q)):
            rep.stats["witness-not-confirmed"] += 1
            continue
        rep.stats["always-but-open"] += 1
        inp = {"expr": exprs[k], "path": pp, "descendant": q}
        f, rootok = (frag[k].split(" ") + ["root-open"])[:2]
        if pp in ("", "/") and rootok == "root-ok" and f == "in":
            rep.violation("oracle", "exhaustive_beneath_root applies (the pattern cannot match the empty path or the bare root with an optional part skipped) but %r is matched and %r is not" % (pp, q), inp, impl="always", fragment=frag[k])
            continue
        if pp in ("", "/"):
            # the theorem is about matched paths other than "" and "/": their descendants are obtained by
            # appending a separator and a remainder; the descendants of "" and "/" are not of that form
            # (finding (e) of DESIGN.md, C09)
            f = "out:K-EXH-EMPTY"
        if f == "in":
            rep.violation("oracle", "exhaustive_sound_compiled applies (F09a and F01) but a matched path has an unmatched descendant", inp, impl="always", fragment=f)
        elif mx[k] != "always" or P.model[k].get("pattern") != P.impl[k]["pattern"]:
            rep.violation("oracle", "false Always that the model of the committed fold does not reproduce", inp, impl="always", model=mx[k], fragment=f)
        else:
            tags = f[4:].split(",")
            unknown = [t for t in tags if t not in finding_ids]
            # one listed site is enough to attribute: the verdict is wrong for (at least) that reason
            known = [t for t in tags if t in finding_ids]
            if not known:
                rep.violation("oracle", "false Always at a site no listed finding names: %s" % ",".join(unknown), inp, impl="always", fragment=f)
            else:
                for t in known:
                    rep.known_hits[t] += 1

    # ---- the same pattern obtained another way (owned, parsed, wrapped in a combinator) and combinators of two
    # patterns: every program that reports Always is searched in the same way
    import random as _r
    rng = _r.Random(seed * 31 + 9)
    routes = h.ask(["XR " + hexs(exprs[k]) for k in built])
    jobs = []          # (input description, members, verdict, pattern, route name)
    for k, line in zip(built, routes):
        for item in line.split(" "):
            if "=" not in item:
                continue
            name, rest = item.split("=", 1)
            exh, _root, pat = (rest.split(":") + ["", ""])[:3]
            rep.stats["route:%s:%s" % (name, exh.split(":")[0])] += 1
            if exh == "always":
                jobs.append(({"expr": exprs[k], "route": name}, [exprs[k]], exh, unhex(pat), name))
    pool = [k for k in built if P.impl[k].get("exh") in ("always", "sometimes") or "**" in exprs[k]]
    npairs = 1500 if tier == "quick" else 12000
    pairs = [(rng.choice(pool), rng.choice(built if rng.random() < 0.4 else pool)) for _ in range(npairs)] if pool and replay is None else []
    pa = h.ask(["A 2 %s %s" % (hexs(exprs[a]), hexs(exprs[b])) for a, b in pairs])
    for (a, b), line in zip(pairs, pa):
        d = lib.parse_impl_build(line)
        if not d["ok"]:
            rep.stats["pair:not-built"] += 1
            continue
        rep.stats["pair:" + d.get("exh", "?").split(":")[0]] += 1
        if d.get("exh") == "always":
            jobs.append(({"any": [exprs[a], exprs[b]]}, [exprs[a], exprs[b]], "always", d["pattern"], "any-pair"))
    rep.evaluations += len(pairs)
    anyjobs = [j for j in jobs if j[4].startswith("any")]
    mv = m.ask(["XA %d %s" % (len(j[1]), " ".join(hexs(e) for e in j[1])) for j in anyjobs])
    mp = m.ask(["A %d %s" % (len(j[1]), " ".join(hexs(e) for e in j[1])) for j in anyjobs])
    mf = m.ask(["F09A %d %s" % (len(j[1]), " ".join(hexs(e) for e in j[1])) for j in anyjobs])
    modelled = {}
    for j, v, pline, f in zip(anyjobs, mv, mp, mf):
        mpat = unhex(pline.split(" | ")[1]) if pline.startswith("ok ") and " | " in pline else None
        modelled[id(j)] = (v, mpat, f)
        rep.traces += 1
        if v != j[2] or mpat != j[3]:
            rep.stats["correspondence-broken"] += 1
            rep.violation("correspondence", "combinator: verdict of the exhaustiveness fold and compiled pattern", j[0],
                          impl="%s %s" % (j[2], j[3][:200]), model="%s %s" % (v, (mpat or "")[:200]))
    xs = h.ask(["X %s" % hexs(j[3]) for j in jobs])
    for j, line in zip(jobs, xs):
        inp, members, verdict, pat, name = j
        if line == "closed":
            rep.stats["%s:always-and-descendant-closed" % ("combinator" if name.startswith("any") else "route")] += 1
            continue
        if not line.startswith("open"):
            rep.stats["dfa-" + line.split()[0]] += 1
            continue
        pq = line.split()
        q = unhex(pq[1])
        pp = q[:int(pq[2])]
        ca = h.ask(["RX %s %s" % (hexs(pat), hexs(pp)), "RX %s %s" % (hexs(pat), hexs(q))])
        if not (ca[0].startswith("match") and ca[1].startswith("nomatch") and canonical(pp) and canonical(q)):
            rep.stats["witness-not-confirmed"] += 1
            continue
        inp = dict(inp, path=pp, descendant=q)
        if not name.startswith("any"):
            k = exprs.index(members[0])
            if P.impl[k].get("exh") == "always" and P.impl[k]["pattern"] == pat:
                continue                    # the borrowed glob says and runs the same: judged above
            rep.violation("oracle", "a glob obtained by %s reports Always but its program matches %r and not the descendant %r (the glob built by Glob::new reports %s)"
                          % (name, pp, q, P.impl[k].get("exh")), inp, impl="always")
            continue
        v, mpat, f = modelled[id(j)]
        f, rootok = (f.split(" ") + ["root-open"])[:2]
        rep.stats["combinator:always-but-open"] += 1
        if pp in ("", "/") and not (rootok == "root-ok" and f == "in"):
            f = "out:K-EXH-EMPTY"
        if f == "in":
            rep.violation("oracle", "a combinator inside the proved fragment reports Always but a matched path has an unmatched descendant", inp, impl="always", fragment=f)
        elif v != "always" or mpat != pat:
            rep.violation("oracle", "false Always of a combinator that the model of the committed fold does not reproduce", inp, impl="always", model=v, fragment=f)
        else:
            tags = f[4:].split(",")
            known = [t for t in tags if t in finding_ids]
            if not known:
                rep.violation("oracle", "false Always of a combinator at a site no listed finding names: %s" % ",".join(tags), inp, impl="always", fragment=f)
            else:
                for t in known:
                    rep.known_hits[t] += 1

    def ask(wit):
        b = lib.parse_impl_build(h.ask(["B " + hexs(wit["expr"])])[0])
        a = h.ask(["M %s %s" % (hexs(wit["expr"]), hexs(wit["path"]))])[0].startswith("match")
        d = h.ask(["M %s %s" % (hexs(wit["expr"]), hexs(wit["descendant"]))])[0].startswith("match")
        return (b.get("exh") == "always" and a and not d), "%r reports Always, matches %r, does not match %r" % (wit["expr"], wit["path"], wit["descendant"])
    lib.replay_findings(rep, "C09", ask)
