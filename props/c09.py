"""C09 An 'always exhaustive' verdict is sound."""
import common
from common import hexs, unhex
from props import lib


def canonical(p):
    return "//" not in p and (p == "/" or not p.endswith("/"))


def run(rep, tier, seed, replay):
    rep.rule = ("grammar-directed expressions biased to tree wildcards; for every glob that reports Always the crate's own "
                "compiled pattern is searched (automata product, all canonical paths) for a matched path with an unmatched "
                "canonical descendant; non-trivial = built and reports Always or Sometimes, or has a tree wildcard")
    exprs = lib.inputs(rep, "C09", tier, seed, 2500, 30000, replay)
    if replay is None:
        import random as _random, gen as _gen
        fam = _gen.exh_family(_random.Random(seed), 4000 if tier == "quick" else None)
        known = set(exprs)
        exprs += [e for e in fam if e not in known]
    P = lib.Pair(exprs)
    h, m = P.h, P.m
    rep.evaluations = len(exprs)
    built = [k for k in range(len(exprs)) if P.impl[k]["ok"]]
    mx = P.model_cmd("X", built)
    findings, _ = common.load_findings("C09")
    finding_ids = {f["id"] for f in findings}
    always = []
    for k in built:
        i = P.impl[k]
        rep.traces += 1
        iv = i.get("exh", "?")
        rep.stats["exh=" + iv.split(":")[0]] += 1
        mv = mx[k]
        if not (iv == mv or (iv.startswith("panic") and mv == "panic")):
            rep.stats["correspondence-broken"] += 1
            rep.violation("correspondence", "is_exhaustive: verdict of the exhaustiveness fold", {"expr": exprs[k]}, impl=iv, model=mv)
        if iv == "always":
            always.append(k)
        if iv in ("always", "sometimes") or "**" in exprs[k]:
            rep.distinct.add(exprs[k])
    res = h.ask(["X %s" % hexs(P.impl[k]["pattern"]) for k in always])
    frag = P.model_cmd("F09", always)
    opens = []
    for k, line in zip(always, res):
        if line == "closed":
            rep.stats["always-and-descendant-closed"] += 1
            rep.sample({"expr": exprs[k], "verdict": "Always; language closed under descending (all canonical paths)", "fragment": frag[k]})
            if frag[k].startswith("in"):
                rep.stats["always-closed-and-in-F09b"] += 1
        elif line.startswith("open"):
            p = line.split()
            q = unhex(p[1])
            opens.append((k, q[:int(p[2])], q))
        else:
            rep.stats["dfa-" + line.split()[0]] += 1
    cp = h.ask(["M %s %s" % (hexs(exprs[k]), hexs(pp)) for k, pp, q in opens])
    cq = h.ask(["M %s %s" % (hexs(exprs[k]), hexs(q)) for k, pp, q in opens])
    for (k, pp, q), a, b in zip(opens, cp, cq):
        if not (a.startswith("match") and b.startswith("nomatch") and canonical(pp) and canonical(q)):
            rep.stats["witness-not-confirmed"] += 1
            continue
        rep.stats["always-but-open"] += 1
        inp = {"expr": exprs[k], "path": pp, "descendant": q}
        f, rootok = (frag[k].split(" ") + ["root-open"])[:2]
        if pp in ("", "/") and rootok == "root-ok" and f == "in":
            rep.violation("oracle", "exhaustive_beneath_root applies (the pattern cannot match the empty path or the bare root with an optional part skipped) but %r is matched and %r is not" % (pp, q), inp, impl="always", fragment=frag[k])
            continue
        if pp in ("", "/"):
            # the theorem is about matched paths other than "" and "/": their descendants are obtained by
            # appending a separator and a remainder; the descendants of "" and "/" are not of that form
            # (finding (e) of DESIGN.md, C09)
            f = "out:K-EXH-EMPTY"
        if f == "in":
            rep.violation("oracle", "exhaustive_sound_compiled applies (F09a and F01) but a matched path has an unmatched descendant", inp, impl="always", fragment=f)
        elif mx[k] != "always" or P.model[k].get("pattern") != P.impl[k]["pattern"]:
            rep.violation("oracle", "false Always that the model of the committed fold does not reproduce", inp, impl="always", model=mx[k], fragment=f)
        else:
            tags = f[4:].split(",")
            unknown = [t for t in tags if t not in finding_ids]
            # one listed site is enough to attribute: the verdict is wrong for (at least) that reason
            known = [t for t in tags if t in finding_ids]
            if not known:
                rep.violation("oracle", "false Always at a site no listed finding names: %s" % ",".join(unknown), inp, impl="always", fragment=f)
            else:
                for t in known:
                    rep.known_hits[t] += 1

    def ask(wit):
        b = lib.parse_impl_build(h.ask(["B " + hexs(wit["expr"])])[0])
        a = h.ask(["M %s %s" % (hexs(wit["expr"]), hexs(wit["path"]))])[0].startswith("match")
        d = h.ask(["M %s %s" % (hexs(wit["expr"]), hexs(wit["descendant"]))])[0].startswith("match")
        return (b.get("exh") == "always" and a and not d), "%r reports Always, matches %r, does not match %r" % (wit["expr"], wit["path"], wit["descendant"])
    lib.replay_findings(rep, "C09", ask)
