"""C04 Captures are consistent with the match and with the expression."""
import random, re
import common, gen
from common import hexs, unhex
from props import lib
from props.c17 import top_tokens, kind_span, CAPTURING


def fold(c):
    return c.casefold() if len(c.casefold()) == 1 else c.lower()


def run(rep, tier, seed, replay):
    rep.rule = ("grammar-directed expressions x candidate paths sampled from the glob's own language (automaton on the compiled pattern), perturbed, "
                "and free strings over the expression's alphabet; every capture index incl. one out of range; byte offsets of captures are "
                "recovered from the borrowed text; non-trivial = distinct (expression, path) pairs that match and have a participating capture")
    exprs = lib.inputs(rep, "C04", tier, seed, 1200, 15000, replay)
    if replay is None:
        import gen as _gfc
        exprs += [e for e in _gfc.flag_class_family() if e not in set(exprs)]
    if replay is None:
        import gen as _gen
        exprs += [e for e in _gen.nested_tree_edge_family() + _gen.tree_position_family() + _gen.nested_middle_family() if e not in set(exprs)]
        # single-character classes (the escape idiom) next to other capturing tokens
        exprs += [e for e in ["[.]*", "*[.]{tar,zip}", "**/[_]?*.rs", "log[*]<[0-9]:1,>", "[a]?", "$[B]", "[.][.]*", "{a,b}[-]*", "[!.]*[.]?"] if e not in set(exprs)]
    P = lib.Pair(exprs)
    h, m = P.h, P.m
    built = [k for k in range(len(exprs)) if P.impl[k]["ok"]]
    r = random.Random(seed)
    words = h.ask(["WD %s 6" % hexs(P.impl[k]["pattern"]) for k in built])
    pairs = []
    for k, wl in zip(built, words):
        ws = [unhex(x) for x in wl.split()[1:]] if wl.startswith("words") else []
        for p in gen.paths_for(r, exprs[k], ws, extra=3)[:9]:
            pairs.append((k, p))
    if replay is not None and "path" in replay["input"]:
        pairs = [(k, replay["input"]["path"]) for k in built]
    rep.evaluations = len(pairs)
    res = h.ask(["MO %s %s" % (P.hx[k], hexs(p)) for k, p in pairs])
    # the model's matcher is a plain backtracker (exponential in the worst case): short time limit, timeouts are counted
    mres = m.ask(["M %s %s" % (P.hx[k], hexs(p)) for k, p in pairs], timeout=15)
    model_has_m = not all(x == "bad-op" for x in mres[:50]) if mres else False
    findings, _ = common.load_findings("C04")
    finding_ids = {f["id"] for f in findings}
    frag_cache = {}
    # (iv) every participating capture is a match of ITS OWN sub-expression: the sub-expression is sliced out of the expression by
    # the token's span and built alone, under either state of the case flag (the state in force is not recomputed here, so a
    # capture is reported only when neither state accepts it); sub-expressions containing a tree wildcard are left to clause (vi)
    own = {}
    reqs = []
    for idx, ((k, p), line) in enumerate(zip(pairs, res)):
        if not line.startswith("match"):
            continue
        toks = top_tokens(P.impl[k]["tokens"])
        caps = [t for t in toks if kind_span(t)[0] in CAPTURING]
        items = line.split(" ")[5:]
        eb = exprs[k].encode("utf-8")
        for i, (it, tok) in enumerate(zip(items[1:], caps), 1):
            kd, st, ln = kind_span(tok)
            if it == "n" or kd == "tree":
                continue
            try:
                sub = eb[st:st + ln].decode("utf-8")
            except UnicodeDecodeError:
                continue
            if "**" in sub or not sub:
                continue
            text = unhex(it[2:].split("@")[0])
            for fl in ("(?-i)", "(?i)"):
                reqs.append((idx, i, sub, text, fl))
    for (idx, i, sub, text, fl), ans in zip(reqs, h.ask(["MO %s %s" % (hexs(fl + sub), hexs(text)) for (_, _, sub, text, fl) in reqs])):
        own.setdefault((idx, i), []).append((sub, text, "err" if ans.startswith("err") or ans.startswith("panic") else ("1" if ans.startswith("match") else "0")))
    own_bad = {}
    for (idx, i), rs in own.items():
        if len(rs) == 2 and all(x[2] == "0" for x in rs):
            own_bad.setdefault(idx, []).append("capture %d is %r, which its own sub-expression %r does not match under either case flag" % (i, rs[0][1], rs[0][0]))
        rep.stats["own-sub-expression:" + ("skipped(does not build alone)" if any(x[2] == "err" for x in rs) else "checked")] += 1
    pair_index = -1
    for (k, p), line, ml in zip(pairs, res, mres):
        e = exprs[k]
        pair_index += 1
        rep.traces += 1
        inp = {"expr": e, "path": p}
        toks = top_tokens(P.impl[k]["tokens"])
        caps = [t for t in toks if kind_span(t)[0] in CAPTURING]
        f = dict(x.split("=", 1) for x in line.split(" ") if "=" in x)
        matched = line.startswith("match")
        # (i) matched text exactly when it matches
        if (f.get("is") == "1") != matched:
            rep.violation("oracle", "matched() is %s but is_match() is %s" % ("some" if matched else "none", f.get("is")), inp, impl=line[:200])
            continue
        if not matched:
            rep.stats["no-match"] += 1
            if model_has_m and not ml.startswith("nomatch") and not ml.startswith("died"):
                rep.violation("correspondence", "captures: the leftmost-first model matches a path the crate rejects", inp, impl=line[:200], model=ml[:200])
            continue
        rep.stats["match"] += 1
        items = line.split(" ")[5:]
        n = int(f["n"])
        problems = list(own_bad.get(pair_index, []))
        if f.get("owned") != "same":
            problems.append("owned matched text differs from the borrowed text")
        # (iii) one capture per capturing token, in expression order; out-of-range index is none
        if n != len(caps) or len(items) != n + 2 or items[-1] != "n":
            problems.append("capture indices do not correspond one-to-one to the %d capturing sub-expressions" % len(caps))
        vals = []
        for it in items[:n + 1]:
            if it == "n":
                vals.append(None)
            else:
                t, off = it[2:].split("@")
                vals.append((unhex(t), None if off == "?" else int(off)))
        cand = unhex(f.get("candidate", "-"))
        cb = cand.encode("utf-8")
        # (ii) capture 0 is the whole path
        if not vals or vals[0] is None or vals[0][0] != p or cand != p:
            problems.append("capture 0 is not the whole path")
        last_end = 0
        any_part = False
        for i, (v, tok) in enumerate(zip(vals[1:], caps), 1):
            if v is None:
                # a top-level ?, *, $, class, alternation or repetition is an unconditional group of the concatenation: it takes part
                # in every match (only a tree wildcard may match without capturing: `a/**/b` on `a/b`)
                if kind_span(tok)[0] != "tree":
                    problems.append("capture %d (%s) does not participate in a match although its sub-expression is an unconditional part of the expression" % (i, kind_span(tok)[0]))
                continue
            any_part = True
            text, off = v
            kd = kind_span(tok)[0]
            tb = text.encode("utf-8")
            if off is None or cb[off:off + len(tb)] != tb:
                problems.append("capture %d is not a substring of the path" % i)
                continue
            if off < last_end:
                problems.append("capture %d overlaps or precedes capture before it" % i)
            last_end = off + len(tb)
            # (v) ?, *, $ and classes never capture a separator
            if kd in ("one", "zom", "cls") and "/" in text:
                problems.append("capture %d (%s) contains a separator" % (i, kd))
            if kd == "one" and len(text) != 1:
                problems.append("capture %d (?) is not one character" % i)
            # a class matches exactly one character: its capture is what its own sub-expression matches
            if kd == "cls" and len(text) != 1:
                problems.append("capture %d (a class) is %r, not one character" % (i, text))
            # (vi) a tree wildcard captures a run of complete components
            if kd == "tree" and text != "":
                start_ok = off == 0 or cb[off - 1:off] == b"/" or text.startswith("/")
                end_ok = off + len(tb) == len(cb) or cb[off + len(tb):off + len(tb) + 1] == b"/" or text.endswith("/")
                if not (start_ok and end_ok):
                    problems.append("TREE:capture %d (tree wildcard) is not a run of complete components: %r" % (i, text))
        # text between captures is what the literals and separators between them match
        if not any(pr.startswith("capture") and "substring" in pr for pr in problems):
            spans = [(0, 0)] + [(v[1], v[1] + len(v[0].encode("utf-8"))) if v is not None and v[1] is not None else None for v in vals[1:]] + [(len(cb), len(cb))]
            lit_runs = []
            run_ = ""
            for t in toks:
                kd = kind_span(t)[0]
                if kd == "lit":
                    run_ += unhex(t[1])
                elif kd == "sep":
                    pass
                else:
                    lit_runs.append(run_)
                    run_ = ""
            lit_runs.append(run_)
            # merge runs around non-participating captures
            merged = []
            acc = lit_runs[0]
            for i2, sp in enumerate(spans[1:-1]):
                if sp is None:
                    acc = None if acc is None else acc  # text of a non-participating branch is unknown: skip this gap
                    acc = None
                    nxt = lit_runs[i2 + 1]
                    pending = nxt
                    merged_skip = True
                else:
                    merged.append(acc)
                    acc = lit_runs[i2 + 1]
            merged.append(acc)
            real = [sp for sp in spans if sp is not None]
            gaps = [cb[a[1]:b[0]].decode("utf-8", "replace") for a, b in zip(real, real[1:])]
            if len(gaps) == len(merged):
                for gap, want in zip(gaps, merged):
                    if want is None:
                        continue
                    g2 = gap.replace("/", "")
                    if len(g2) != len(want) or any(fold(a) != fold(b) for a, b in zip(g2, want)):
                        problems.append("GAP:the text %r between captures is not what the literals %r between the sub-expressions match" % (gap, want))
                        break
        if model_has_m and ml.startswith("died"):
            rep.stats["model-timeout"] += 1
        elif model_has_m:
            mcaps = ml.split(" ")[1:] if ml.startswith("match") else None
            icaps = [("n" if v is None else "s:" + hexs(v[0])) for v in vals] + ["n"]
            if mcaps != icaps:
                rep.stats["correspondence-broken"] += 1
                rep.violation("correspondence", "captures: the crate's captures differ from the leftmost-first model (Re.exec) on the model's own encoding", inp, impl=" ".join(icaps), model=ml[:300])
        if any_part:
            rep.distinct.add((e, p))
        if not problems:
            rep.stats["captures-consistent"] += 1
            if any_part:
                rep.sample({"expr": e, "path": p, "captures": [None if v is None else v[0] for v in vals]})
            continue
        for pr in problems:
            rep.stats["deviation"] += 1
            if k not in frag_cache:
                frag_cache[k] = m.ask(["F " + P.hx[k]])[0]
            fr = frag_cache[k]
            tags = fr[4:].split(",") if fr.startswith("out:") else []
            known = [t for t in tags if t in finding_ids]
            corr = P.model[k].get("pattern") == P.impl[k]["pattern"]
            if (pr.startswith("TREE:") or pr.startswith("GAP:")) and known and corr:
                for t in known:
                    rep.known_hits[t] += 1
            else:
                rep.violation("oracle", pr.split(":", 1)[-1] if pr[:4] in ("TREE", "GAP:") else pr, inp, impl=line[:300], fragment=fr)

    # ---- a COMBINATOR exposes one capture only, the group of its alternatives: capture 0 and capture 1 are the complete path
    # and nothing lies beyond, however many patterns were combined and however they were given (text, compiled, owned, twice,
    # nested); the model's program for any([e]) has exactly one capturing group around everything (compared in C07 / C19)
    if replay is None or replay["input"].get("what") == "any-captures":
        bypath = {}
        for k, p in pairs:
            bypath.setdefault(k, []).append(p)
        ks = [k for k in built if k in bypath]
        if replay is None and len(ks) > (400 if tier == "quick" else 4000):
            ks = r.sample(ks, 400 if tier == "quick" else 4000)
        direct = [("src/**/*.rs", ["src/token/mod.rs", "src/lib.rs"]), ("**/{*.{go,rs}}", ["src/graph/link.rs", "link.go"]),
                  ("<[!.]*/>[0-9]?-(?i){alpha,beta}$", ["a/b/07-ALPHA", "3x-beta.tar"]), ("*", ["a"]), ("a", ["a"]), ("{a,b}/?", ["a/x"])]
        reqs = [(exprs[k], bypath[k][:6]) for k in ks] + direct
        for (e, ps), line in zip(reqs, h.ask(["V %s %s" % (hexs(e), " ".join(hexs(p) for p in ps)) for e, ps in reqs])):
            rep.evaluations += 1
            f = [x for x in line.split(" ") if x.startswith("any-caps=")]
            if not f:
                continue
            if f[0] == "any-caps=one":
                rep.stats["any([e]) / any([g]) / any([e, e]) / nested: exactly one capture, the complete text"] += 1
            else:
                rep.violation("oracle", "a combinator over %r exposes something other than the complete text at a capture index (route:index:text@path)" % e,
                              {"expr": e, "paths": ps, "what": "any-captures"}, impl=f[0][:300])

    def ask(wit):
        line = h.ask(["MO %s %s" % (hexs(wit["expr"]), hexs(wit["path"]))])[0]
        return ("s:" + hexs(wit["capture"]) + "@") in line, "%r on %r captures %r" % (wit["expr"], wit["path"], wit["capture"])
    lib.replay_findings(rep, "C04", ask)
