"""C13 Discarded directory trees are never read, and only they are skipped."""
import random
import common, walkgen
from common import hexs, unhex
from props import walklib
from props.walklib import hx, unhx


def filter_stack(rng, vocab, dirs):
    """1-3 filter_entry layers with Tree / File verdicts keyed on names of the tree"""
    n = rng.choice([1, 1, 2, 2, 3])
    layers = []
    for _ in range(n):
        rules = []
        for _ in range(rng.randint(1, 3)):
            rules.append("%s=%s" % (hx(rng.choice(vocab)), rng.choice("TTF")))
        layers.append("f:" + ",".join(rules))
    return ";".join(layers), "f" * n, []


def same_dir_stack(rng, vocab, dirs):
    """2-3 filter_entry layers (plus an observer) that ALL name the same directory, with every sequence of tree / file verdicts (tree, file, tree: a
    discarded tree must stay a discarded tree whatever a later layer says about it)"""
    name = rng.choice(dirs)[-1] if dirs else rng.choice(vocab)
    k = rng.choice([2, 3, 3, 3])          # the harness stacks at most four layers
    verdicts = [rng.choice("TF") for _ in range(k)]
    if k >= 3 and rng.random() < 0.5:
        verdicts[:3] = list("TFT")
    layers = ["f:%s=%s" % (hx(name), v) for v in verdicts]
    if rng.random() < 0.3:
        layers.append("f:")
    return ";".join(layers), "same-dir:" + "".join(verdicts), []


def followed_link_cases(seed, n):
    """path walks with links read as their TARGETS over trees whose links all lead to files or to directories that do not
    re-enter an ancestor, with at least one rule naming a link to a directory: a tree verdict on a followed link skips what
    lies behind it, a file verdict does not"""
    import random as _random
    rng = _random.Random(seed)
    out = []
    for c in walklib.gen_cases(seed, n * 2, stack=filter_stack, bounds="none", mode="p", link="t"):
        if c.labels["base"] != "root":
            continue
        links = [pth for pth, k in c.fs.nodes.items() if k[0] == "l"]
        dirlinks = []
        ok = bool(links)
        for pth in links:
            can = c.fs.canon(walkgen.ABS + pth)
            if can is None or can[:3] != walkgen.ABS:
                ok = False          # dangling, or leaves the tree
                break
            if c.fs.kind(can) == ("d",):
                if can[3:] == pth[:len(can[3:])]:
                    ok = False      # re-enters an ancestor: an error item, not an entry
                    break
                dirlinks.append(pth)
        if not ok or not dirlinks:
            continue
        layers = c.stack.split(";")
        k = rng.randrange(len(layers))
        layers[k] = layers[k] + ("," if layers[k] != "f:" else "") + "%s=%s" % (hx(rng.choice(dirlinks)[-1]), rng.choice("TTF"))
        c.stack = ";".join(layers)
        out.append(c)
    return out


def not_observer_stack(rng, vocab, dirs):
    """an `any` negation mixing exhaustive and other patterns, some aimed at the SAME directory through both, then a
    pure observer (a filter_entry without rules)"""
    pats = []
    names = [d[-1] for d in dirs if d] or vocab
    nm = walkgen.esc(rng.choice(names))
    other = walkgen.esc(rng.choice(vocab))
    shape = rng.choice(["both", "both", "both-prefixed", "exh-only", "mixed", "one-expression", "one-expression"])
    if shape == "one-expression":
        # ONE glob expression with a top-level alternation mixing an exhaustive and another alternative
        alts = ["**/" + nm + "/**", rng.choice(["**/*.md", "**/" + other, "*" + nm[-1:]])]
        rng.shuffle(alts)
        return rng.choice(["n:", "nc:"]) + hx("{" + ",".join(alts) + "}") + ";f:", "No", []
    if shape == "both":
        pats = ["**/" + nm, "**/" + nm + "/**"]
    elif shape == "both-prefixed":
        pats = ["**/" + nm + "/**", "**/*" + nm[-1:], "*.md"]
    elif shape == "exh-only":
        pats = ["**/" + nm + "/**"]
    else:
        pats = ["**/" + other, nm + "/**", "**/*.txt"]
    rng.shuffle(pats)
    kind = rng.choice(["n:", "n:", "nc:"])
    return kind + "+".join(hx(e) for e in pats) + ";f:", "No", []


def parse_rules(stack):
    out = []
    for layer in stack.split(";"):
        k, rest = layer.split(":", 1)
        rules = {}
        if k == "f":
            for r in rest.split(","):
                if "=" in r:
                    nm, v = r.split("=")
                    rules.setdefault(unhx(nm), v)      # the first rule for a name wins
        out.append((k, rules))
    return out


def bounded_stack_cases(seed, n):
    """filter stacks (one verdict per directory, and several verdicts on one directory) over path walks with a maximum depth 1..3"""
    out = []
    rng = random.Random(seed)
    pool = [c for c in walklib.gen_cases(seed, n, stack=filter_stack, bounds="none", mode="p", link="f") if c.labels["base"] in ("root", "subdir")]
    pool += [c for c in walklib.gen_cases(seed + 1, n // 2, stack=same_dir_stack, bounds="none", mode="p", link="f") if c.labels["base"] in ("root", "subdir")]
    for j, c in enumerate(pool):
        if j % 3 == 2:
            # a MINIMUM depth: entries above it are not fed to any layer, so their names have no verdict
            a = rng.choice([1, 1, 2])
            out.append(c.clone(mn=str(a), mx=rng.choice(["-", "-", str(a + 1), str(a + 2)])))
        else:
            out.append(c.clone(mx=str(rng.choice([1, 1, 2, 2, 3]))))
    return out


def expected(c):
    """what every filter layer must observe, and what the consumer must receive, from the recorded tree alone"""
    rules = [r for _k, r in parse_rules(c.stack)]
    base = unhx(c.f["base"])
    root = unhx(c.f["root"])
    # nodes below the base directory
    sub = base[len(root):].strip("/")
    nodes = walklib.rec_paths(c.f.get("rec", "-"), root)
    observed, yielded = [], []
    def verdicts(name):
        return [r.get(name) for r in rules]
    # the root entry
    skip_below = None     # a path prefix whose descendants are not read
    entries = [(base, "d", 0)]
    for p, k, d in nodes:
        if sub == "" or p == root + "/" + sub or p.startswith(root + "/" + sub + "/"):
            if sub and p == root + "/" + sub:
                continue
            entries.append((p if sub == "" or not base.endswith("/") else p, k, d))
    link_below = None
    # a maximum depth is applied by the traversal itself: deeper entries are never read, so no layer sees them
    mx = int(c.mx) if getattr(c, "mx", "-") not in ("-", None, "") and str(c.mx).isdigit() else None
    def rel_depth(p):
        return 0 if p == base else len([x for x in p[len(base.rstrip("/")):].strip("/").split("/") if x])
    mn = int(c.mn) if getattr(c, "mn", "-") not in ("-", None, "") and str(c.mn).isdigit() else None
    for p, k, d in entries:
        if mx is not None and rel_depth(p) > mx:
            continue
        if mn is not None and rel_depth(p) < mn and not (link_below is not None and p.startswith(link_below + "/")):
            # above the minimum depth: the traversal descends but does not yield the entry, so no layer is fed it and no
            # verdict can discard it (a link read as a file still hides what lies behind it)
            if k.startswith("l") and c.link != "t":
                link_below = p
            continue
        if skip_below is not None and p.startswith(skip_below + "/"):
            continue
        if link_below is not None and p.startswith(link_below + "/"):
            continue      # recorded through a link: not visited when links are read as files
        skip_below = None
        name = p.rstrip("/").rsplit("/", 1)[-1] if p != base else base.rstrip("/").rsplit("/", 1)[-1]
        vs = verdicts(name)
        # links read as their targets: a link to a directory IS a directory entry (its recorded contents are walked beneath
        # it, and a tree verdict on it skips them); links read as files: nothing recorded beneath a link is visited
        isdir = k in ("d",) or (c.link == "t" and k == "lt")
        if k.startswith("l") and c.link != "t":
            link_below = p
        observed.append((p, isdir))
        if any(v == "T" for v in vs) and isdir:
            skip_below = p
        if not any(v is not None for v in vs):
            yielded.append(p)
    return observed, yielded


def run(rep, tier, seed, replay):
    rep.rule = ("generated directory trees (<= 40 nodes, depth <= 5, pattern-like / hidden / non-ASCII / newline names, links) x stacks of 1-3 "
                "filter_entry layers with Tree and File verdicts keyed on names (plus the general stream: glob walks, negations, depth bounds, both "
                "link behaviours); every filter layer logs each entry it is fed; the logs and the yielded entries are compared with the walk model on "
                "the recorded tree and, for path walks read as files, with the statement itself computed from the recorded tree alone; "
                "non-trivial = a walk in which some directory was discarded as a tree")
    n = 500 if tier == "quick" else 6000
    direct = walklib.gen_cases(seed, n, stack=filter_stack, bounds="none", mode="p", link="f")
    direct = [c for c in direct if c.labels["base"] in ("root", "subdir")]
    direct += followed_link_cases(seed + 6, n)
    direct += [c for c in walklib.gen_cases(seed + 8, n // 2, stack=same_dir_stack, bounds="none", mode="p", link="f") if c.labels["base"] in ("root", "subdir")]
    # the same stacks under a MAXIMUM depth: a tree verdict on a directory exactly at the bound (nothing beneath it is read
    # anyway) must not cost its later siblings
    direct += bounded_stack_cases(seed + 12, n)
    general = walklib.gen_cases(seed + 1, n)
    if replay is not None:
        c = walklib.case_from(replay["input"])
        simple = c.mode == "p" and (c.mn, c.mx) == ("-", "-") and c.stack != "-" and all(l.startswith("f:") for l in c.stack.split(";")) and c.base == ""
        c.labels["base"] = "root"
        direct, general = ([c], []) if simple else ([], [c])
    walklib.run_cases(direct + general)
    rep.evaluations = len(direct) + len(general)
    walklib.correspondence_step(rep, direct + general, "filter stacks")
    for c in direct + general:
        walklib.stats_for(rep, c)
        if int(c.mf.get("cancelled", "0") or 0) > 0:
            rep.distinct.add(c.req())
    for c in direct:
        if not c.head.startswith("root="):
            rep.stats["direct:" + c.head] += 1
            continue
        if c.link == "t" and any(k in ("lc", "ld", "lu") for _p, k, _d in walklib.rec_paths(c.f.get("rec", "-"), "@R")):
            # a link that, AS REACHED by the traversal, re-enters an ancestor (through another link), dangles or cannot be read is
            # an error item, not an entry: the statement computed from the recorded tree covers followed links to directories only
            rep.stats["direct: not judged (a followed link is a fault on this traversal)"] += 1
            continue
        obs, yl = expected(c)
        logs = c.f.get("logs", "-")
        layers = [] if logs == "-" else logs.split("|")
        got_y = [p for p, *_ in walklib.ok_items(c.f.get("items"))]
        bad = None
        for i, lg in enumerate(layers):
            got = [(unhx(x.split(":")[0]), x.split(":")[1] == "1") for x in walklib.items(lg)]
            if got != obs:
                extra = [g for g in got if g not in obs]
                missing = [o for o in obs if o not in got]
                if extra:
                    bad = "filter layer %d is fed %r, which lies beneath a directory discarded as a tree (or is fed twice)" % (i, extra[0][0])
                elif missing:
                    bad = "filter layer %d is never fed %r although no directory above it was discarded as a tree" % (i, missing[0][0])
                else:
                    bad = "filter layer %d observes the entries in a different order" % i
                break
        if bad is None and got_y != yl:
            extra = [g for g in got_y if g not in yl]
            missing = [o for o in yl if o not in got_y]
            bad = ("the consumer receives %r, which a filter discarded or which lies beneath a discarded tree" % extra[0]) if extra else \
                  ("the consumer never receives %r although nothing discarded it" % missing[0] if missing else "yielded order differs")
        if bad is None:
            rep.stats["direct: logs and yielded entries are exactly the statement"] += 1
            rep.sample({"walk": c.describe(), "observed_per_layer": len(obs), "yielded": len(yl)})
        else:
            rep.violation("oracle", bad, c.describe(), impl=c.impl[:500])
    rep.extra["direct_oracle_walks"] = len(direct)
    # ---- directory names that are not UTF-8 (or contain a backslash) under a glob with component programs, followed by a
    # pure observer: a directory whose (lossy) name the first component cannot match is discarded as a tree, so the observer
    # sees nothing beneath it; a directory it can match is read. Compared with the model too.
    if replay is None or replay["input"].get("what") == "bytes-observer":
        import re as _re
        from walkgen import T as _T
        hh, mm_ = common.harness(), common.model()
        trees = [_T("b:a1/x.rs", "b:\xff/y.rs", "b:\xff/sub/z.rs", "f:b2/w.rs", "b:a\xe9/k.rs"),
                 _T("b:src/\xff/bdir/cdir/x.rs", "f:src/plain/bdir/cdir/y.rs", "f:src/plain/other/z.rs"),
                 _T("f:a\\b/x.rs", "f:b\\a/y.rs", "f:a1/sub/z.rs")]
        globs = [("a*/*.rs", r"^a"), ("*/b*/c*/*.rs", None), ("src/*/b*/c*/*.rs", None), ("a*/**", r"^a"), ("[!a]*/*.rs", r"^[^a]")]
        cases2 = [(tr, g, first) for tr in trees for g, first in globs]
        if replay is not None:
            cases2 = [(replay["input"]["tree"], replay["input"]["glob"], replay["input"].get("first"))]
        ans = hh.ask(["W g - %s f - - f: %s" % (hx(g), tr) for tr, g, _f in cases2])
        mreq, keep = [], []
        for (tr, g, first), a in zip(cases2, ans):
            head, f = walklib.parse_answer(a)
            if not head.startswith("root="):
                rep.stats["bytes-observer:" + head] += 1
                continue
            keep.append((tr, g, first, f, a))
            mreq.append("W g %s %s f - - f: %s %s" % (f.get("base", "-"), hx(g), f.get("root", "-"), f.get("rec", "-")))
        rep.evaluations += len(cases2)
        for (tr, g, first, f, a), ma in zip(keep, mm_.ask(mreq)):
            rep.traces += 1
            inp = {"what": "bytes-observer", "tree": tr, "glob": g, "first": first}
            mh, mf = walklib.parse_answer(ma)
            if mf.get("items") != f.get("items") or mf.get("logs") != f.get("logs"):
                rep.stats["correspondence-broken"] += 1
                rep.violation("correspondence", "walk: items and observer log of the real walk vs the walk model (names that are not UTF-8)", inp, impl=(f.get("logs") or "")[:300], model=(mf.get("logs") or mh)[:300])
            root = unhx(f["root"])
            logs = f.get("logs", "-")
            seen = [unhx(x.split(":")[0]) for x in walklib.items(logs.split("|")[0])] if logs != "-" else []
            rels = [p[len(root) + 1:] for p in seen if p.startswith(root + "/")]
            bad = None
            if first is not None:
                for r0 in rels:
                    parts = r0.split("/")
                    if len(parts) >= 2 and not _re.search(first, parts[0]):
                        bad = "the observer is fed %r, which lies beneath the directory %r that the first component of %r cannot match (it should have been discarded as a tree)" % (r0, parts[0], g)
                        break
                recorded = [pth[len(root) + 1:] for pth, _k, _d in walklib.rec_paths(f.get("rec", "-"), root)]
                for r0 in recorded:
                    parts = r0.split("/")
                    if bad is None and len(parts) == 2 and _re.search(first, parts[0]) and r0 not in rels:
                        bad = "the observer is never fed %r although the first component of %r matches the directory %r" % (r0, g, parts[0])
            if bad:
                rep.violation("oracle", bad, inp, impl=a[:400])
            else:
                rep.stats["bytes-observer: discarded trees are not read, others are"] += 1
    # ---- a glob walk followed by a pure observer: a directory whose name its component program rejects is discarded
    # as a tree, so nothing beneath it is shown downstream (the component programs are those the crate compiled, by the
    # hook; raw regex matching of a name against a program)
    if replay is None or (replay["input"].get("mode") == "g" and replay["input"].get("stack") == "f:"):
        gobs = [c for c in walklib.gen_cases(seed + 4, 420 if tier == "quick" else 5000, stack=lambda r, v, d: ("f:", "o", []), bounds="none", mode="g", link="f")
                if c.labels["base"] in ("root", "subdir") and not c.expr.startswith(".") and "/../" not in c.expr and "/./" not in c.expr]
        if replay is not None:
            gobs = [walklib.case_from(replay["input"])]
        walklib.run_cases(gobs)
        rep.evaluations += len(gobs)
        walklib.correspondence_step(rep, gobs, "glob walk then observer")
        hh = common.harness()
        wps = hh.ask(["WP %s %s" % (c.f.get("base", "-").replace("40.52", c.f.get("root_real", "-")) if "base" in c.f else "-",
                                    hx(c.expr.replace("@ROOT", unhx(c.f.get("root_real", "-"))))) for c in gobs])
        reqs, owner = [], []
        info = {}

        def components(c, pth, base):
            """the Normal components of the relative segment of a fed path: the whole path for a rooted glob"""
            if c.expr.startswith(("/", "@ROOT")):
                full = pth.replace("@R", unhx(c.f.get("root_real", "-")))
                return [x for x in full.split("/") if x]
            rel = pth[len(base):].strip("/")
            return [x for x in rel.split("/") if x] if rel else []
        for ci, (c, wp) in enumerate(zip(gobs, wps)):
            if not c.head.startswith("root=") or not wp.startswith("root="):
                continue
            f = dict(x.split("=", 1) for x in wp.split(" ") if "=" in x)
            progs = [] if f.get("progs", "-") == "-" else f["progs"].split(";")
            if not progs:
                continue
            base = unhx(c.f["base"]).rstrip("/")
            logs = c.f.get("logs", "-")
            fed = [unhx(x.split(":")[0]).rstrip("/") for x in walklib.items(logs.split("|")[0])] if logs != "-" else []
            # every recorded node beneath the walk root that is not behind a link (links are read as files here)
            root_r = "@R"
            recn = walklib.rec_paths(c.f.get("rec", "-"), root_r)
            linkp = [pp.rstrip("/") for pp, kk, _d in recn if kk.startswith("l")]
            wroot = fed[0] if fed else None
            recorded = [pp.rstrip("/") for pp, _k, _d in recn if wroot is not None and pp.startswith(wroot.rstrip("/") + "/") and not any(pp.startswith(l + "/") for l in linkp)]
            info[ci] = (progs, base, fed, recorded, wroot)
            names = set()
            for pth in fed + recorded:
                comps = components(c, pth, base)
                for i, nm in enumerate(comps[:-1]):          # proper ancestors only
                    if i < len(progs):
                        names.add((i, nm))
            for i, nm in sorted(names):
                reqs.append("RX %s %s" % (progs[i], hx(nm)))
                owner.append((ci, i, nm))
        rejected = {}
        for (ci, i, nm), line in zip(owner, hh.ask(reqs)):
            if line.startswith("nomatch"):
                rejected.setdefault(ci, set()).add((i, nm))
        for ci, (progs, base, fed, recorded, wroot) in info.items():
            c = gobs[ci]
            bad = None
            # ONLY they are skipped: a recorded entry none of whose ancestors (below the walk root) is rejected by its component
            # program is fed to the observer, whether or not the glob matches it
            fedset = set(fed)
            nroot = len(components(c, wroot, base)) if wroot is not None else 0
            for pth in recorded:
                comps = components(c, pth, base)
                if any((i, nm) in rejected.get(ci, set()) for i, nm in enumerate(comps[:-1]) if i >= nroot):
                    continue
                if pth not in fedset:
                    bad2 = (pth, wroot)
                    rep.violation("oracle", "the observer after the glob walk is never fed %r although no directory between the walk root %r and it is rejected by its component program (it was skipped without being discarded)" % bad2,
                                  c.describe(), impl=c.impl[:500])
                    bad = "reported"
                    break
            if bad == "reported":
                continue
            bad = None
            for pth in fed:
                comps = components(c, pth, base)
                for i, nm in enumerate(comps[:-1]):
                    if (i, nm) in rejected.get(ci, set()):
                        bad = (pth, "/".join(comps[:i + 1]), i)
                        break
                if bad:
                    break
            if bad:
                rep.violation("oracle", "the observer after the glob walk is fed %r, which lies beneath %r, a directory whose name component program %d of the glob rejects (discarded as a tree)" % bad,
                              c.describe(), impl=c.impl[:500])
            else:
                rep.stats["glob-observer: nothing beneath a directory rejected by its component program is fed"] += 1
                if rejected.get(ci):
                    rep.distinct.add(c.req())
    # ---- a negation (any of exhaustive and other patterns) followed by a pure observer: nothing beneath a directory
    # that an always-exhaustive member matches is shown downstream, and only such entries are missing
    for upstream in (False, True):
      ni = 1 if upstream else 0
      if replay is None or (replay["input"].get("stack", "").endswith(";f:") and not upstream) or (replay["input"].get("stack", "").startswith("f:;n") and upstream):
        if not upstream:
            nobs = walklib.gen_cases(seed + 2, 260 if tier == "quick" else 3000, stack=not_observer_stack, bounds="none", mode="p", link="f")
            nobs = [c for c in nobs if c.labels["base"] in ("root", "subdir")]
        else:
            # the observer FIRST and the negation LAST, over a glob walk (which hands the directories its pattern does not match
            # down as residue): what the negation discards as a tree is not read, so the observer never sees anything beneath it
            def rev(r, v, d):
                st, sh, k = not_observer_stack(r, v, d)
                return ";".join(reversed(st.split(";"))), sh + "-rev", k
            nobs = walklib.gen_cases(seed + 23, 320 if tier == "quick" else 3000, stack=rev, bounds="none", mode="g", link="f")
            nobs = [c for c in nobs if c.labels["base"] in ("root", "subdir") and not c.expr.startswith(("/", "@ROOT", ".", "(?"))]
        if replay is not None:
            nobs = [walklib.case_from(replay["input"])]
        walklib.run_cases(nobs)
        rep.evaluations += len(nobs)
        walklib.correspondence_step(rep, nobs, "observer then negation (last) over glob walks" if upstream else "negation then observer")
        h = common.harness()
        def top_alternatives(text):
            """the alternatives of an expression that is ONE top-level alternation, else the expression itself"""
            if not (text.startswith("{") and text.endswith("}")):
                return [text]
            depth, cur, out, esc_next = 0, "", [], False
            for i, ch in enumerate(text):
                if esc_next:
                    cur += ch
                    esc_next = False
                    continue
                if ch == chr(92):
                    esc_next = True
                    cur += ch
                    continue
                if ch in "{<[":
                    depth += 1
                    if depth == 1 and i == 0:
                        continue
                elif ch in "}>]":
                    depth -= 1
                    if depth == 0:
                        if i != len(text) - 1:
                            return [text]          # the first brace closes early: not one alternation
                        out.append(cur)
                        return out
                elif ch == "," and depth == 1:
                    out.append(cur)
                    cur = ""
                    continue
                cur += ch
            return [text]
        # a negation is split into its top-level alternatives (into_alternatives): each is judged on its own
        expand = {}
        for c in nobs:
            for x in c.stack.split(";")[ni].split(":", 1)[1].split("+"):
                expand[x] = [hx(a) for a in top_alternatives(unhx(x))]
        allp = sorted({a for v in expand.values() for a in v})
        exh = {}
        from props import lib as _lib
        for x, line in zip(allp, h.ask(["B " + x for x in allp])):
            exh[x] = _lib.parse_impl_build(line).get("exh")
        reqs, owner = [], []
        for ci, c in enumerate(nobs):
            if not c.head.startswith("root="):
                continue
            base = unhx(c.f["base"]).rstrip("/")
            root = unhx(c.f["root"])
            sub = base[len(root):].strip("/")
            dirs_ = [(pth, k) for pth, k, _d in walklib.rec_paths(c.f.get("rec", "-"), root) if k == "d" and (sub == "" or pth.startswith(root + "/" + sub + "/"))]
            always = [a for x in c.stack.split(";")[ni].split(":", 1)[1].split("+") for a in expand[x] if exh.get(a) == "always"]
            for pth, _k in dirs_:
                rel = pth[len(base) + 1:]
                for x in always:
                    reqs.append("M %s %s" % (x, hx(rel)))
                    owner.append((ci, pth))
        discarded = {}
        for (ci, pth), line in zip(owner, h.ask(reqs)):
            if line.startswith("match"):
                discarded.setdefault(ci, set()).add(pth)
        for ci, c in enumerate(nobs):
            if not c.head.startswith("root="):
                rep.stats["not-observer:" + c.head] += 1
                continue
            base = unhx(c.f["base"]).rstrip("/")
            root = unhx(c.f["root"])
            sub = base[len(root):].strip("/")
            logs = c.f.get("logs", "-")
            fed = [unhx(x.split(":")[0]).rstrip("/") for x in walklib.items(logs.split("|")[0])] if logs != "-" else []
            gone = discarded.get(ci, set())
            if upstream and (not fed or fed[0].rstrip("/") != base):
                # a glob with an invariant prefix starts below the base: the directories of the prefix are never fed to anything
                rep.stats["not-observer (upstream): skipped, the walk starts below the base"] += 1
                continue
            beneath = lambda pth: any(pth.startswith(g + "/") for g in gone)
            links = [pth for pth, k, _d in walklib.rec_paths(c.f.get("rec", "-"), root) if k.startswith("l")]
            through_link = lambda pth: any(pth.startswith(l + "/") for l in links)
            wrong = [pth for pth in fed if beneath(pth)]
            nodes = [pth for pth, k, _d in walklib.rec_paths(c.f.get("rec", "-"), root) if (sub == "" or pth.startswith(root + "/" + sub + "/")) and not through_link(pth)]
            lost = [pth for pth in nodes if pth not in fed and not beneath(pth)]
            if gone:
                rep.distinct.add(c.req())
            if wrong:
                rep.violation("oracle", ("the observer BEFORE the negation (which is the last combinator, over a glob walk) is fed %r, which lies beneath a directory that an always-exhaustive pattern of the negation matches: it was read although the tree is discarded" if upstream else "the observer after the negation is fed %r, which lies beneath a directory that an always-exhaustive pattern of the negation matches") % wrong[0], c.describe(), impl=c.impl[:500])
            elif lost and not upstream:
                rep.violation("oracle", "the observer after the negation is never fed %r although no directory above it matches an always-exhaustive pattern of the negation" % lost[0], c.describe(), impl=c.impl[:500])
            else:
                rep.stats["not-observer: fed exactly the entries not beneath a directory matched by an exhaustive pattern"] += 1
