"""C20 I/O faults during a walk are reported, isolated and never swallowed."""
import common, walkgen
from props import walklib, lib
from props.walklib import hx, unhx


def fault_not_stack(rng, vocab, dirs):
    """1-2 negations that are never exhaustive and name entries of the tree (so that faults are matched by them)"""
    layers = []
    for _ in range(rng.choice([1, 1, 2, 3])):
        names = rng.sample(vocab, min(len(vocab), rng.randint(2, 4)))
        shape = rng.choice(["any", "alt", "single", "filter", "observer"])
        if shape == "filter":
            layers.append("f:" + ",".join("%s=F" % hx(v) for v in names))      # file verdicts only: nothing is pruned
        elif shape == "observer":
            layers.append("f:")
        elif shape == "any":
            layers.append(rng.choice(["n:", "nc:"]) + "+".join(hx("**/" + walkgen.esc(v)) for v in names))
        elif shape == "alt":
            layers.append("n:" + hx("**/{" + ",".join(walkgen.esc(v) for v in names) + "}"))
        else:
            layers.append("n:" + hx("**/" + walkgen.esc(names[0])))
    return ";".join(layers), "".join("f" if l.startswith("f:") else "n" for l in layers), []


def run(rep, tier, seed, replay):
    rep.rule = ("generated trees with real faults, walked as uid 65534: directories made unreadable (chmod 000) at the root / in the middle / as last "
                "child, one or several, dangling links and links re-entering an ancestor, under every kind of combinator stack; the walk is "
                "compared (a) with the walk model on the recorded tree and (b) with the same walk on the same tree with the unreadable directories "
                "created empty and readable: the Ok entries must be identical and every fault must appear as one error item naming its path, in "
                "place; non-trivial = walks that produce at least one error item")
    n = 260 if tier == "quick" else 3500
    cases = walklib.gen_cases(seed, n, faults=True)
    cases += walklib.gen_cases(seed + 7, n // 2, faults=True, stack=lambda r, v, d: ("-", "-", []), bounds="none", mode="p")
    # the same with a MINIMUM depth (which hides entries above it, never error items): the faults lie above, at and below it
    withmin = walklib.gen_cases(seed + 9, n // 2, faults=True, stack=lambda r, v, d: ("-", "-", []), bounds="none", mode="p")
    rm = __import__("random").Random(seed + 10)
    for c in withmin:
        c.mn = rm.choice(["1", "2", "2", "3", "m2", "m3"])
    cases += withmin
    # negations that match the faults themselves (never exhaustive, so nothing is pruned): errors pass through
    aimed = walklib.gen_cases(seed + 13, n // 2, faults=True, stack=fault_not_stack, bounds="none", mode="p")
    for c in aimed:
        c.labels["aimed"] = True
    cases += aimed
    # glob walks `<directory>/**` (and `**`) under ReadTarget: the link behaviour reaches the walk below the prefix
    globbed = walklib.gen_cases(seed + 21, n // 2, faults=True, stack=lambda r, v, d: ("-", "-", []), bounds="none", mode="g", link="t")
    rg = __import__("random").Random(seed + 22)
    for c in globbed:
        dirs_ = [pth for pth, k in c.fs.nodes.items() if k[0] == "d"]
        d = rg.choice(dirs_) if dirs_ and rg.random() < 0.8 else ()
        c.base, c.expr = "", ("/".join(walkgen.esc(x) for x in d) + "/**" if d else "**")
        c.labels["glob-prefix"] = "/".join(d)
        c.owned = False
    globbed = [c for c in globbed if walkgen.admissible(c.fs, walkgen.base_path(c.labels["glob-prefix"]), True)]
    cases += globbed
    if replay is not None:
        cases = [walklib.case_from(replay["input"])]
    # the fault-free twin: unreadable directories become empty readable ones
    twins = []
    for c in cases:
        spec = ",".join(("d:" + x[2:]) if x.startswith("u:") else x for x in c.spec.split(","))
        # children of an unreadable directory do not exist in the readable part
        upaths = [unhx(x[2:]) for x in c.spec.split(",") if x.startswith("u:")]
        keep = []
        for x in spec.split(","):
            if x in ("", "-"):
                continue
            rel = unhx(x.split(":")[1])
            if any(rel.startswith(u + "/") for u in upaths):
                continue
            keep.append(x)
        twins.append(c.clone(spec=",".join(keep) if keep else "-"))
    walklib.run_cases(cases, as_nobody=True)
    walklib.run_cases(twins, as_nobody=True, with_model=False)
    rep.evaluations = len(cases)
    walklib.correspondence_step(rep, cases, "real faults as uid 65534")
    for c, t in zip(cases, twins):
        walklib.stats_for(rep, c)
        if not (c.head.startswith("root=") and t.head.startswith("root=")):
            rep.stats["outcome:" + c.head] += 1
            continue
        errs = walklib.err_items(c.f.get("items"))
        if errs:
            rep.distinct.add(c.req())
        oks = [x[0] for x in walklib.ok_items(c.f.get("items"))]
        toks = [x[0] for x in walklib.ok_items(t.f.get("items"))]
        nodes = walklib.rec_paths(c.f.get("rec", "-"), "@R")
        tnodes = walklib.rec_paths(t.f.get("rec", "-"), "@R")
        lk = {p: k for p, k, _d in nodes if k.startswith("l")}
        tlk = {p: k for p, k, _d in tnodes if k.startswith("l")}
        upaths = [unhx(x[2:]) for x in c.spec.split(",") if x.startswith("u:")]
        through = any(("/" + c.base.lstrip("~") + "/").find("/" + u + "/") >= 0 for u in upaths)
        # "one error item naming the offending path": an error item never names a node that is not a fault
        kinds = {p: k for p, k, _d in nodes}
        canon = lambda p: "/".join(x for x in (p or "").split("/") if x)
        ckinds = {canon(p): k for p, k in kinds.items()}
        ckinds["@R"] = "d"
        # (the root of the walk is exempt: a prefix such as `c/` over a file c is a fault of its own kind)
        wrong = [p for p, d in errs if p is not None and d > 0 and ckinds.get(canon(p)) in ("d", "f", "lt", "lf")]
        if wrong:
            rep.violation("oracle", "an error item names %r, which is readable and not a fault (the offending path is another one)" % wrong[0], c.describe(), impl=c.impl[:400])
            continue
        if errs:
            rep.stats["every error item names a fault (unreadable directory, dangling or re-entrant link)"] += 1
        if lk != tlk or through:
            # a link whose target lies in (or is) an unreadable directory, or a base reached through one, is itself
            # affected by the fault: the readable part has no counterpart for it; held by the correspondence only
            rep.stats["twin not comparable (link into / base through an unreadable directory)"] += 1
            continue
        if oks != toks:
            extra = [x for x in oks if x not in toks]
            missing = [x for x in toks if x not in oks]
            what = ("a fault makes the walk lose %r, which a fault-free walk of the readable part yields" % missing[0]) if missing else \
                   ("a fault makes the walk yield %r, which a fault-free walk of the readable part does not" % extra[0] if extra else "a fault changes the order of the entries")
            rep.violation("oracle", what, c.describe(), impl=c.impl[:400])
            continue
        rep.stats["ok-entries = fault-free walk of the readable part"] += 1
        # every unreadable directory whose entry is yielded (and not discarded as a tree, nor at the maximum depth) is followed by one error item naming it
        nothing_pruned = c.stack != "-" and (c.mn, c.mx) == ("-", "-") and c.mode == "p" and all(
            l.startswith(("n:", "nc:")) or (l.startswith("f:") and "=T" not in l) for l in c.stack.split(";"))
        if nothing_pruned:
            # "negations and entry filters pass error items through": when every pattern of every negation is never
            # exhaustive and no filter gives a tree verdict nothing is pruned, so every fault that a walk without the
            # stack reports is still reported, once, in place
            pats = sorted({x for l in c.stack.split(";") if not l.startswith("f:") for x in l.split(":", 1)[1].split("+")})
            verdicts = [lib.parse_impl_build(a).get("exh") for a in common.harness().ask(["B " + x for x in pats])]
            if all(v == "never" for v in verdicts):
                bare = c.clone(stack="-")
                walklib.run_cases([bare], as_nobody=True, with_model=False)
                if bare.head.startswith("root="):
                    berrs = walklib.err_items(bare.f.get("items"))
                    if sorted(map(str, berrs)) != sorted(map(str, errs)):
                        lost = [e for e in berrs if e not in errs]
                        rep.violation("oracle", ("a stack that prunes nothing (never-exhaustive negations, file verdicts, observers) swallows the error item of %r" % (lost[0][0],)) if lost else "a stack that prunes nothing changes the error items of the walk",
                                      c.describe(), impl=c.impl[:400])
                    else:
                        rep.stats["stacks that prune nothing pass every error item through"] += 1
        # (a minimum depth hides entries, never error items: the clauses below hold with any minimum)
        if c.stack == "-" and c.mx == "-" and c.mode == "g" and c.link == "t" and c.base == "" and (c.expr == "**" or c.expr.endswith("/**")) \
                and not any(ch in c.expr[:-3] for ch in "*?[{<(") and unhx(c.f.get("base", "-")) == "@R":
            # every dangling / re-entrant link beneath the glob's prefix is one error item naming it
            import re as _re
            prefix = _re.sub(chr(92) * 2 + "(.)", lambda mo: mo.group(1), c.expr[:-3]) if c.expr != "**" else ""
            top = "@R" + ("/" + prefix if prefix else "")
            canon2 = lambda p: "/".join(x for x in (p or "").split("/") if x)
            cerrs2 = [canon2(p) for p, _d in errs]
            ulist2 = [p for p, k, _d in nodes if k == "u"]
            behind2 = lambda p: any(p.startswith(l + "/") for l, k, _ in nodes if k.startswith("l"))
            for lp, k, _d in nodes:
                if k in ("lc", "ld") and (lp.startswith(top + "/")) and not behind2(lp) and not any(lp.startswith(u + "/") for u in ulist2):
                    if cerrs2.count(canon2(lp)) != 1:
                        rep.violation("oracle", "the %s link %r beneath the prefix of the glob %r (links read as their targets) is reported by %d error items, not one" % (
                            "re-entrant" if k == "lc" else "dangling", lp, c.expr, cerrs2.count(canon2(lp))), c.describe(), impl=c.impl[:400])
                        break
            else:
                rep.stats["glob walk: one error item per dangling / re-entrant link beneath the prefix"] += 1
        if c.stack == "-" and c.mx == "-" and c.mode == "p":
            ulist = [p for p, k, _d in nodes if k == "u"]
            base_p = unhx(c.f.get("base", "-"))
            if base_p == "@R":
                epaths = [p for p, _d in errs]
                inside_link = lambda p: any(p.startswith(l + "/") for l, k, _ in nodes if k.startswith("l"))
                want = [u for u in ulist if not (c.link == "f" and inside_link(u))]
                for u in want:
                    if epaths.count(u) != 1:
                        rep.violation("oracle", "the unreadable directory %r is reported by %d error items, not one" % (u, epaths.count(u)), c.describe(), impl=c.impl[:400])
                        break
                else:
                    rep.stats["one error item per unreadable directory, naming it"] += 1
                    rep.sample({"walk": c.describe(), "error_items": len(errs), "ok_entries": len(oks)})
                # a link whose target is missing, or that re-enters its ancestors, is one error item naming it (links
                # read as their targets); such links that lie behind another link are not judged here
                if c.link == "t":
                    canon = lambda p: "/".join(x for x in (p or "").split("/") if x)
                    cerrs = [canon(p) for p in epaths]
                    behind = lambda p: any(p.startswith(l + "/") for l, k, _ in nodes if k.startswith("l"))
                    for lp, k, _d in nodes:
                        if k in ("lc", "ld") and not behind(lp) and not any(lp.startswith(u + "/") for u in ulist):
                            if cerrs.count(canon(lp)) != 1:
                                rep.violation("oracle", "the %s link %r is reported by %d error items, not one" % ("re-entrant" if k == "lc" else "dangling", lp, cerrs.count(canon(lp))), c.describe(), impl=c.impl[:400])
                                break
                    else:
                        rep.stats["one error item per dangling / re-entrant link, naming it"] += 1
    lib.replay_findings(rep, "C20", lambda w: (False, ""))
