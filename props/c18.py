"""C18 Escaping turns any text into a glob that matches exactly that text."""
import random
import common
from common import hexs, unhex
from props import lib
from props.c11 import rx_escape

ALPHA = list("?*$:<>()[]{},-!/.ab") + ["é", "中", "\n", " ", "^", "|", "i", "(?i)", "(?-i)", "[a-z]", "**", "{a,b}", "<a:1>", "\U0001f600", "ǅ"]


def strings(seed, n):
    r = random.Random(seed)
    out = ["", "a", "/", "a/b", "?*$:<>()[]{},", "-", "(?i)a", "[a]", "**", "a/**/b", "{a,b}", "<a:1,2>", "/a", "a/", "!", "[!a]", "中/é", "\n"]
    # strings that START or END like a relative path written with `.` / `..` / `~` (no normalisation happens anywhere)
    out += ["./a", "./", "././a", "./record[D00,00].txt", "../a", "..", ".", "a/.", "a/./b", "a/..", "~/a", "./.", ".a", "a/.b", " a", "a ", " ./a"]
    # every printable ASCII character, alone and inside text (the parser and is_meta_character must agree on each)
    for cp in range(0x20, 0x7f):
        c = chr(cp)
        if c == "\\":
            continue
        out += [c, "a" + c + "b", c + c + "x", "year" + c + "2024/m" + c + "05"]
    out = [x for x in out if "//" not in x]
    # characters that are not meta-characters but share their low byte, or their low 16 bits, with one (a truncating
    # conversion would confuse them), and a spread of scalars from every plane
    for pch in "?*$:<>()[]{},-!/\\.^|~&#+":
        for hi in (0x100, 0x6700, 0x1F600, 0x10000, 0xFF00, 0x2000):
            cp = (hi & ~0xFF) | ord(pch)
            if 0xD800 <= cp < 0xE000 or cp > 0x10FFFF:
                continue
            c = chr(cp)
            out += [c, "a" + c + ".txt", c + "/" + c]
    for _ in range(min(400, n // 4)):
        cp = r.choice([r.randrange(0x80, 0x800), r.randrange(0x800, 0xD800), r.randrange(0xE000, 0x10000), r.randrange(0x10000, 0x110000)])
        out.append("".join(r.choice([chr(cp), "a", "/", "*"]) for _ in range(r.randint(1, 4))).replace("//", "/"))
    out = list(dict.fromkeys(out))
    seen = set(out)
    while len(out) < n:
        s = "".join(r.choice(ALPHA) for _ in range(r.randint(1, 9)))
        if s not in seen:
            seen.add(s)
            out.append(s)
    return out


def run(rep, tier, seed, replay):
    rep.rule = ("strings concentrated on meta-characters, flag-like and class-like text, separators, non-ASCII; strings with a backslash or "
                "two adjacent separators are excluded as the property says; for each the escaped text is built and the language of its "
                "compiled pattern is compared with the singleton over ALL paths; non-trivial = contains a meta-character")
    h, m = common.harness(), common.model()
    ss = strings(seed, 1500 if tier == "quick" else 20000)
    if replay is not None:
        ss = [replay["input"]["string"]]
    ss = [s for s in ss if "\\" not in s and "//" not in s]
    rep.evaluations = len(ss)
    ei = h.ask(["E " + hexs(s) for s in ss])
    em = m.ask(["ESC " + hexs(s) for s in ss])
    esc = []
    for s, a, b in zip(ss, ei, em):
        rep.traces += 1
        if a != b:
            rep.stats["correspondence-broken"] += 1
            rep.violation("correspondence", "escape / is_meta_character: output equality", {"string": s}, impl=a, model=b)
        fields = dict(x.split("=", 1) for x in a.split())
        esc.append(unhex(fields["escaped"]))
        meta = fields["meta"] if fields["meta"] != "-" or s else ""
        # escaping leaves strings without meta-characters unchanged
        if s and all(c == "-" or c == "C" for c in (meta if s else "")) and esc[-1] != s:
            rep.violation("oracle", "escape_id: a string without meta-characters is changed by escape", {"string": s}, impl=esc[-1])
        if any(c in "MB" for c in meta):
            rep.distinct.add(s)
    P = lib.Pair(esc)
    reqs, idx = [], []
    for k, s in enumerate(ss):
        i = P.impl[k]
        if not i["ok"]:
            rep.stats["escaped-does-not-build:" + i.get("err", "?")] += 1
            rep.violation("oracle", "parse_escape: the escaped string does not build", {"string": s, "escaped": esc[k]}, impl=i["raw"][:200])
            continue
        mo = P.model[k]
        if not (mo["ok"] and mo["tokens"] == i["tokens"] and mo["pattern"] == i["pattern"]):
            rep.stats["correspondence-broken"] += 1
            rep.violation("correspondence", "parse/encode of the escaped string: text equality", {"string": s, "escaped": esc[k]}, impl=i["raw"][:300], model=mo["raw"][:300])
        if i.get("text") != "inv:" + hexs(s):
            rep.violation("oracle", "the escaped string's text is not invariant and equal to the string", {"string": s, "escaped": esc[k]}, impl=i.get("text"))
            continue
        reqs.append("L %s %s" % (hexs(i["pattern"]), hexs("(?s)^(?-i:%s)$" % rx_escape(s))))
        idx.append(k)
    # direct probes through the public API (is_match is an UNANCHORED search that relies on the anchors of the program; the
    # automata comparison below reads the program as a whole-haystack match): the string itself matches, and the string with
    # a line, a character or itself added on either side does not
    probes, powner = [], []
    for k in idx:
        s0 = ss[k]
        for w, want in [(s0, True), (s0 + "\n", False), ("\n" + s0, False), (s0 + "\nx", False), ("x\n" + s0, False), (s0 + "\r\n" + s0, False),
                        (s0 + s0, s0 == ""), (s0 + "\n" + s0, False), (s0[:-1], s0 == ""), ("./" + s0, False), (s0 + "/.", False),
                        (s0[2:] if s0.startswith("./") else "../" + s0, False), (s0.strip() if s0.strip() != s0 else s0 + " ", False)]:
            probes.append("M %s %s" % (hexs(esc[k]), hexs(w)))
            powner.append((k, w, want))
    flagged = set()
    for (k, w, want), line in zip(powner, h.ask(probes)):
        got = line.startswith("match")
        if got != want and k not in flagged:
            flagged.add(k)
            rep.violation("oracle", "escape_matches_exactly: the escaped string %s" % ("matches another path" if got else "does not match the string"), {"string": ss[k], "escaped": esc[k], "path": w}, impl=got)
    rep.stats["direct-probes"] += len(probes)
    res = h.ask(reqs)
    for k, line in zip(idx, res):
        s = ss[k]
        if line == "EQUAL":
            rep.stats["escaped-matches-exactly-the-string"] += 1
            rep.sample({"string": s, "escaped": esc[k], "verdict": "builds; text invariant; matches this string and no other path"})
        elif line.startswith("DIFF"):
            w = unhex(line.split()[1])
            got = h.ask(["M %s %s" % (hexs(esc[k]), hexs(w))])[0].startswith("match")
            if got == (line.split()[2] == "first"):
                rep.violation("oracle", "escape_matches_exactly: the escaped string %s" % ("matches another path" if got else "does not match the string"), {"string": s, "escaped": esc[k], "path": w}, impl=got)
            else:
                rep.stats["witness-not-confirmed"] += 1
        else:
            rep.stats["dfa-" + line.split()[0]] += 1
    # ---- long strings, up to the invariant size limit (`escape_check_iff`: the escaped string of a non-empty
    # backslash-free string builds iff it has no `//` and its UTF-8 length is below MAX_INVARIANT_SIZE)
    if replay is None or replay["input"].get("long"):
        limit = 0x10000      # MAX_INVARIANT_SIZE of the pinned tree (the table obligation `constants_are_source` watches the source)
        r = random.Random(seed * 7 + 18)
        fam = [("a", limit // 2 - 5), ("a", limit // 2 + 300), ("a", limit - 1), ("a", limit), ("a", limit + 4000),
               ("[01](L)*?,", (limit // 2 + 3000) // 10), ("ab/", (limit - 10) // 3), ("左{}右*中*", (limit - 200) // 15),
               ("é/", limit // 3 - 1), ("é/", limit // 3 + 1),
               # characters whose case mappings are longer in UTF-8 than they are: the size is that of the TEXT
               ("Ⱥ", limit // 2 - 8), ("ΐ", limit // 2 - 8), ("ŉx", limit // 3 - 8), ("ǰ", limit // 2 - 8), ("ﬃ", limit // 3 - 8), ("Ⱥ/ΐ", limit // 5 - 8)]
        for _ in range(4 if tier == "quick" else 40):
            unit = "".join(r.choice(ALPHA) for _ in range(r.randint(1, 6))).replace("//", "/").strip("/") or "a"
            if "\\" in unit:
                continue
            fam.append((unit, r.randint(limit // 3, limit + limit // 8) // max(1, len(unit.encode()))))
        if replay is not None:
            fam = [(replay["input"]["unit"], replay["input"]["repeat"])]
        longs = []
        for unit, n in fam:
            t = unit * n
            if "//" in t or "\\" in t:
                continue
            longs.append((unit, n, t))
        el = h.ask(["E " + hexs(t) for _u, _n, t in longs])
        escl = [unhex(dict(x.split("=", 1) for x in a.split())["escaped"]) for a in el]
        bi = h.ask(["B " + hexs(e) for e in escl], timeout=300)
        small = [k for k, (_u, _n, t) in enumerate(longs) if len(t) <= 45000][:2 if tier == "quick" else 12]
        bm = dict(zip(small, m.ask(["B " + hexs(escl[k]) for k in small], timeout=600)))
        rep.evaluations += len(longs)
        for k, ((unit, n, t), line) in enumerate(zip(longs, bi)):
            size = len(t.encode())
            inp = {"long": True, "unit": unit, "repeat": n, "bytes": size}
            d = lib.parse_impl_build(line)
            rep.stats["long:%s" % ("below-limit" if size < limit else "at-or-above-limit")] += 1
            rep.distinct.add("long:%s*%d" % (unit, n))
            if k in bm:
                mo = lib.parse_model_build(bm[k])
                rep.traces += 1
                if not (mo["ok"] == d["ok"] and (not d["ok"] or (mo["tokens"] == d["tokens"] and mo["pattern"] == d["pattern"]))):
                    rep.stats["correspondence-broken"] += 1
                    rep.violation("correspondence", "parse/encode of a long escaped string: text equality", inp, impl=line[:200], model=bm[k][:200])
            if size < limit and not d["ok"]:
                rep.violation("oracle", "escape_builds: a string of %d bytes (below the invariant size limit %d) is escaped into text that does not build" % (size, limit), inp, impl=line[:200])
                continue
            if size >= limit:
                if d["ok"]:
                    rep.violation("oracle", "escape_rejects_oversized: a literal of %d bytes builds although the limit is %d" % (size, limit), inp, impl=line[:80])
                else:
                    rep.stats["long:rejected-as-oversized" if "oversized" in line or "size" in line else "long:rejected:" + d.get("err", "?")] += 1
                continue
            if d.get("text") != "inv:" + hexs(t):
                rep.violation("oracle", "the long escaped string's text is not invariant and equal to the string", inp, impl=(d.get("text") or "")[:80])
                continue
            mid = len(t) // 2
            other = t[:mid] + ("b" if t[mid] != "b" else "c") + t[mid + 1:]
            probes = [t, t[:-1], t + "a", other]
            ans = h.ask(["M %s %s" % (hexs(escl[k]), hexs(q)) for q in probes], timeout=300)
            got = [a.startswith("match") for a in ans]
            if got != [True, False, False, False]:
                rep.violation("oracle", "escape_matches_exactly (long string): matches of [the string, one character less, one more, one changed] = %s" % got, inp, impl=str(got))
            else:
                rep.stats["long:builds-and-matches-exactly (string, 3 near misses)"] += 1
                rep.sample({"string": "%r * %d (%d bytes)" % (unit, n, size), "verdict": "builds; text invariant; matches the string and none of 3 near misses"})
    # every character the parser treats as a meta-character is reported as such: each character of the
    # literal stop set (except the separator and the backslash), alone, must not parse as a literal
    lib.replay_findings(rep, "C18", lambda w: (False, ""))
