"""C12 Root and semantic-literal queries agree with what the pattern matches."""
import common
from common import hexs, unhex
from props import lib


def run(rep, tier, seed, replay):
    rep.rule = ("grammar-directed expressions; for every glob reporting has_root = Always the compiled pattern is searched (automaton, "
                "all paths) for a matched path that does not begin with a separator; Sometimes on a glob is a violation outright; "
                "non-trivial = built and (rooted, or contains a branch or tree wildcard)")
    exprs = lib.inputs(rep, "C12", tier, seed, 2500, 30000, replay)
    if replay is None:
        exprs += [e for e in ["/**", "/a", "{/a,/b}", "</a:1,>", "/**/a", "<</a:1>:1>", "a/./b", "{.}", "{.}{.}", ".(?i).", "<<a/..>:2>", "a/{..,b}/c", "x/<.:1>/y", ".a", "a..", "{a,..}/b"] if e not in exprs]
    P = lib.Pair(exprs)
    h, m = P.h, P.m
    rep.evaluations = len(exprs)
    built = [k for k in range(len(exprs)) if P.impl[k]["ok"]]
    mr = P.model_cmd("R", built)
    msem = P.model_cmd("SL", built)
    rooted = []
    for k in built:
        i = P.impl[k]
        rep.traces += 1
        iv, mv = i.get("root", "?"), mr[k]
        rep.stats["root=" + iv] += 1
        if iv != mv:
            rep.stats["correspondence-broken"] += 1
            rep.violation("correspondence", "has_root(): result of the rooting fold", {"expr": exprs[k]}, impl=iv, model=mv)
        if iv == "sometimes":
            rep.violation("oracle", "build_root_certain: a glob reports has_root = Sometimes", {"expr": exprs[k]}, impl=iv)
        if iv == "always":
            rooted.append(k)
        # semantic literals: impl vs the structural specification
        if P.model[k].get("ok") and P.model[k].get("sem") != i.get("sem"):
            rep.violation("correspondence", "has_semantic_literals(): the queue-driven search (model of Token::literals)", {"expr": exprs[k]}, impl=i.get("sem"), model=P.model[k].get("sem"))
        if msem[k] in ("0", "1"):
            rep.stats["sem=" + i.get("sem", "?")] += 1
            if i.get("sem") != msem[k]:
                if msem[k] == "1":
                    rep.violation("oracle", "a component is spelled entirely as the literal . or .. but has_semantic_literals is false", {"expr": exprs[k]}, impl=i.get("sem"), spec=msem[k])
                else:
                    rep.violation("correspondence", "has_semantic_literals(): structural definition", {"expr": exprs[k]}, impl=i.get("sem"), model=msem[k])
        if iv == "always" or any(c in exprs[k] for c in "{<") or "**" in exprs[k]:
            rep.distinct.add(exprs[k])
    # ---- direct probes through the public API (is_match is an UNANCHORED search relying on the anchors of the program, which the
    # automaton above reads as a whole-haystack match): a path that does not begin with a separator and merely CONTAINS a line
    # the glob matches must not match a glob that always has a root
    if rooted:
        words = h.ask(["WD %s 3" % hexs(P.impl[k]["pattern"]) for k in rooted])
        probes, owner = [], []
        for k, wl in zip(rooted, words):
            ws = [unhex(x) for x in wl.split()[1:]] if wl.startswith("words") else []
            for w in ws[:2]:
                for cand in ("x\n" + w, "x\r\n" + w, "x" + w + "\n" + w):
                    if not cand.startswith("/"):
                        probes.append("M %s %s" % (P.hx[k], hexs(cand)))
                        owner.append((k, cand))
        flagged = set()
        for (k, cand), line in zip(owner, h.ask(probes)):
            if line.startswith("match") and k not in flagged:
                flagged.add(k)
                rep.violation("oracle", "root_sound: a glob reports has_root = Always but matches a path that does not begin with a separator", {"expr": exprs[k], "path": cand}, impl="match")
        rep.stats["direct-probes"] += len(probes)
    # ---- the same pattern obtained another way (into_owned, FromStr, any of one): has_root judged like the glob's;
    # a glob route (into_owned, FromStr) is a glob and never reports Sometimes
    if replay is None:
        subjects = lib.conversion_routes(P, exprs, built)
        todo3 = []
        for sj in subjects:
            rep.stats["route-root:%s:%s" % (sj["route"], sj["root"])] += 1
            if sj["route"] in ("into-owned", "from-str") and sj["root"] == "sometimes":
                rep.violation("oracle", "a glob obtained by %s reports has_root = Sometimes" % sj["route"], {"expr": sj["expr"], "route": sj["route"]}, impl="sometimes")
            if sj["root"] == "always" and not (P.impl[sj["k"]].get("root") == "always" and P.impl[sj["k"]]["pattern"] == sj["pattern"]):
                todo3.append(sj)
        for sj, line in zip(todo3, h.ask(["RT %s" % hexs(sj["pattern"]) for sj in todo3])):
            if line.startswith("unrooted"):
                w = unhex(line.split()[1]) if len(line.split()) > 1 else ""
                if sj["route"].startswith("any"):
                    fa = m.ask(["FA 1 " + hexs(sj["expr"])])[0]
                    if fa.startswith("out:") and any(t in {f["id"] for f in common.load_findings("C12")[0]} for t in fa[4:].split(",")):
                        rep.known_hits[[t for t in fa[4:].split(",")][0]] += 1
                        continue
                rep.violation("oracle", "the pattern obtained by %s reports has_root = Always but its program matches %r, which does not begin with a separator" % (sj["route"], w),
                              {"expr": sj["expr"], "route": sj["route"], "path": w}, impl="always")
            else:
                rep.stats["route:rooted-and-all-matches-rooted"] += 1
    findings, _ = common.load_findings("C12")
    finding_ids = {f["id"] for f in findings}
    # combinators: any() of rooted / unrooted patterns reports Always only if every match is rooted
    import random as _random
    rr = _random.Random(seed)
    pool = [exprs[k] for k in built if P.impl[k].get("root") == "always"][:60] + ["/**/a", "/ab", "/a", "</**/a:1,>", "/**", "</a:1,2>b"]
    others = [exprs[k] for k in built if P.impl[k].get("root") == "never"][:40]
    combos = []
    for _ in range(150 if tier == "quick" else 2000):
        ps = [rr.choice(pool)] + [rr.choice(pool if rr.random() < 0.7 else (others or pool)) for _ in range(rr.randint(0, 2))]
        rr.shuffle(ps)
        combos.append(ps)
    areq = ["A %d %s" % (len(ps), " ".join(hexs(p) for p in ps)) for ps in combos]
    ares = [lib.parse_impl_build(x) for x in h.ask(areq)]
    mres = [lib.parse_model_build(x) for x in m.ask(areq)]
    art = h.ask(["RT %s" % hexs(a["pattern"]) if a["ok"] and a.get("root") == "always" else "RT -" for a in ares])
    for ps, a, mo, line in zip(combos, ares, mres, art):
        if not a["ok"]:
            continue
        rep.stats["any:root=" + a.get("root", "?")] += 1
        if mo.get("pattern") != a.get("pattern"):
            rep.violation("correspondence", "any(): text of the combinator's compiled program", {"any": ps}, impl=a["raw"][:200], model=mo["raw"][:200])
        if a.get("root") == "always" and line.startswith("unrooted"):
            w = unhex(line.split()[1])
            if h.ask(["MA %s %d %s" % (hexs(w), len(ps), " ".join(hexs(p) for p in ps))])[0].startswith("match"):
                # the combinator's tree nests every pattern one branch deeper: the superposition finding of C01 / C07
                fa = m.ask(["FA %d %s" % (len(ps), " ".join(hexs(p) for p in ps))])[0]
                tags = fa[4:].split(",") if fa.startswith("out:") else []
                known = [t for t in tags if t in finding_ids]
                if known and mo.get("pattern") == a.get("pattern"):
                    for t in known:
                        rep.known_hits[t] += 1
                else:
                    rep.violation("oracle", "root_sound: a combinator reports has_root = Always but matches a path that does not begin with a separator (fragment %s)" % fa, {"any": ps, "path": w}, impl="always")
    res = h.ask(["RT %s" % hexs(P.impl[k]["pattern"]) for k in rooted])
    frag = P.model_cmd("F", rooted)
    for k, line in zip(rooted, res):
        e = exprs[k]
        if line == "allrooted":
            rep.stats["always-and-all-matches-rooted"] += 1
            rep.sample({"expr": e, "verdict": "Always; every path the compiled program matches begins with a separator"})
        elif line.startswith("unrooted"):
            w = unhex(line.split()[1])
            if not h.ask(["M %s %s" % (hexs(e), hexs(w))])[0].startswith("match"):
                rep.stats["witness-not-confirmed"] += 1
                continue
            # no finding is listed: root_sound holds for every tree and the encoder's deviations never drop a root
            rep.violation("oracle", "build_root_sound: has_root = Always but a matched path does not begin with a separator (fragment %s)" % frag[k], {"expr": e, "path": w}, impl="always")
        else:
            rep.stats["dfa-" + line.split()[0]] += 1
    def ask(wit):
        a = lib.parse_impl_build(h.ask(["A %d %s" % (len(wit["any"]), " ".join(hexs(p) for p in wit["any"]))])[0])
        got = h.ask(["MA %s %d %s" % (hexs(wit["path"]), len(wit["any"]), " ".join(hexs(p) for p in wit["any"]))])[0].startswith("match")
        return a.get("root") == "always" and got, "any(%r) reports has_root = Always and matches %r" % (wit["any"], wit["path"])
    lib.replay_findings(rep, "C12", ask)
