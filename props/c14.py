"""C14 Walk entries describe their file consistently."""
import common, walkgen
from props import walklib, lib
from props.walklib import hx, unhx


def comps(p):
    """std::path components on unix: empty pieces and interior `.` are dropped"""
    parts = p.split("/")
    out = ["/"] if p.startswith("/") else []
    for i, x in enumerate(parts):
        if x == "" or (x == "." and (i > 0 or p.startswith("/"))):
            continue
        out.append(x)
    return out


def run(rep, tier, seed, replay):
    rep.rule = ("generated trees x bases (relative after chdir, absolute, with trailing separator, `.`-relative, `..`-containing) x globs (no prefix, "
                "literal prefix of 1-3 components, rooted at the tree, `.`/`..` prefixes) x depth and link behaviours; every yielded entry is "
                "checked against the statement (join, depth, matched text, candidate path, is_match on the relative segment, root segment) and the "
                "whole item sequence is compared with the walk model; non-trivial = walks that yield at least one entry")
    n = 700 if tier == "quick" else 9000
    cases = walklib.gen_cases(seed, n, stack=lambda r, v, d: ("-", "-", []), mode="g")
    if replay is not None:
        cases = [walklib.case_from(replay["input"])]
    walklib.run_cases(cases)
    rep.evaluations = len(cases)
    walklib.correspondence_step(rep, cases, "entry fields")
    findings, _ = common.load_findings("C14")
    finding_ids = {f["id"] for f in findings}
    checks = []
    for c in cases:
        walklib.stats_for(rep, c)
        if not c.head.startswith("root="):
            rep.stats["outcome:" + c.head] += 1
            continue
        oks = walklib.ok_items(c.f.get("items"))
        if oks:
            rep.distinct.add(c.req())
        expr = c.expr.replace("@ROOT", "@R")
        rooted = expr.startswith("/") or expr.startswith("@R")
        base = unhx(c.f.get("base", "-"))
        for it in oks:
            path, rootseg, rel, depth, kind, matched, cand = it
            problems = []
            joined = comps(rootseg) + [x for x in comps(rel) if x != "/"] if not rel.startswith("/") else comps(rel)
            if joined != comps(path):
                problems.append(("join", "joining the root segment %r with the relative segment %r does not give the path %r" % (rootseg, rel, path)))
            nrel = len(comps(rel.replace("@R", unhx(c.f.get("root_real", "-")))))
            if depth != nrel:
                problems.append(("depth", "depth %d is not the number of components (%d) of the relative segment %r" % (depth, nrel, rel)))
            if matched != rel or cand != rel:
                problems.append(("text", "matched text %r / candidate path %r are not the relative segment %r" % (matched, cand, rel)))
            if rooted and rootseg != "":
                problems.append(("root", "a rooted glob has the non-empty root segment %r" % rootseg))
            if not rooted and comps(rootseg) != comps(base):
                problems.append(("root", "the root segment %r is not the directory %r given to the walk" % (rootseg, base)))
            checks.append((c, it, problems, expr.replace("@R", unhx(c.f.get("root_real", "-"))), rel.replace("@R", unhx(c.f.get("root_real", "-")))))
    # the join clause on the entries AS OS PATHS (the items above are compared as text): counted inside the harness
    for c in cases:
        if c.head.startswith("root=") and "joinfail" in c.f:
            d = c.describe()
            rep.violation("oracle", "for %s entries the root segment joined with the relative segment is not the entry's path (compared as OS paths)" % c.f["joinfail"], d, impl=c.impl[:300])
    # ---- names that are not UTF-8 (Latin-1 bytes): matching and the printed items use the lossy text, the segments must still
    # be pieces of the REAL path
    if replay is None or replay["input"].get("what") == "bytes":
        from walkgen import T
        hh, mm_ = common.harness(), common.model()
        trees = [T("b:docs/r\xe9sum\xe9.txt", "b:docs/caf\xe9/menu.txt", "f:docs/plain.txt"),
                 T("b:\xff", "b:\xe9/\xe9/\xe9", "f:a/b"),
                 T("b:a/\xc3", "b:a/b\xa0c/d.txt", "f:a/ok.txt", "d:a/e"),
                 T("f:doc/notes/2024\\q1.md", "f:doc/a\\b/c.txt", "f:a/x\\", "f:docs/plain.txt")]
        globs = ["**", "docs/**/*.txt", "*/*/*", "**/*.txt", "a/**", "*", "docs/*/menu.txt", "a/*/d.txt"]
        bb = [(tr, g, lk) for tr in trees for g in globs for lk in "ft"]
        if replay is not None:
            bb = [(replay["input"]["tree"], replay["input"]["glob"], replay["input"]["link"])]
        ans = hh.ask(["W g - %s %s - - - %s" % (hx(g), lk, tr) for tr, g, lk in bb])
        mreq, keep = [], []
        for (tr, g, lk), a in zip(bb, ans):
            head, f = walklib.parse_answer(a)
            if not head.startswith("root="):
                rep.stats["bytes:" + head] += 1
                continue
            keep.append((tr, g, lk, f, a))
            mreq.append("W g %s %s %s - - - %s %s" % (f.get("base", "-"), hx(g), lk, f.get("root", "-"), f.get("rec", "-")))
        rep.evaluations += len(bb)
        for (tr, g, lk, f, a), ma in zip(keep, mm_.ask(mreq)):
            rep.traces += 1
            inp = {"what": "bytes", "tree": tr, "glob": g, "link": lk}
            mh, mf = walklib.parse_answer(ma)
            if mf.get("items") != f.get("items"):
                rep.stats["correspondence-broken"] += 1
                rep.violation("correspondence", "walk: ordered items of the real walk vs the walk model (names that are not UTF-8)", inp, impl=(f.get("items") or "")[:300], model=(mf.get("items") or mh)[:300])
            for it in walklib.ok_items(f.get("items")):
                if len(it) >= 7 and (it[5] != it[2] or it[6] != it[2]):
                    rep.violation("oracle", "matched text %r / candidate path %r are not the relative segment %r (names with a backslash or bytes that are not UTF-8)" % (it[5], it[6], it[2]), inp, impl=a[:300])
                    break
            if "joinfail" in f:
                rep.violation("oracle", "for %s entries with a name that is not UTF-8 the root segment joined with the relative segment is not the entry's path (compared as OS paths)" % f["joinfail"], inp, impl=a[:300])
            else:
                rep.stats["bytes: segments join to the real path"] += 1
                if walklib.ok_items(f.get("items")):
                    rep.distinct.add(("bytes", tr, g, lk))
    res = common.harness().ask(["M %s %s" % (hx(e), hx(r)) for _c, _it, _p, e, r in checks])
    for (c, it, problems, e, r), line in zip(checks, res):
        if not line.startswith("match"):
            problems.append(("match", "the glob does not match the relative segment %r of a yielded entry" % it[2]))
        if not problems:
            rep.stats["entry-consistent"] += 1
            if rep.stats["entry-consistent"] % 50 == 1:
                rep.sample({"glob": c.expr, "base": c.base, "path": it[0], "root_segment": it[1], "relative_segment": it[2], "depth": it[3]})
            continue
        for kind, text in problems:
            rep.stats["deviation:" + kind] += 1
            expr = c.expr
            rooted = expr.startswith("/") or expr.startswith("@ROOT")
            tag = None
            if kind == "depth" and rooted:
                tag = "K-ENTRY-ROOTED-DEPTH"
            if walklib.corresponds(c) and tag in finding_ids:
                rep.known_hits[tag] += 1
            else:
                d = c.describe()
                d["entry"] = it[0]
                rep.violation("oracle", text, d, impl=c.impl[:300])

    def ask(wit):
        a = walklib.case_from(wit["walk"])
        walklib.run_cases([a], with_model=False)
        oks = walklib.ok_items(a.f.get("items"))
        real = unhx(a.f.get("root_real", "-"))
        bad = [(p, d, len(comps(r.replace("@R", real)))) for p, _rs, r, d, *_ in oks if d != len(comps(r.replace("@R", real)))]
        return bool(bad), "glob %r: entry %r has depth %d but its relative segment has %d components" % ((a.expr,) + (bad[0] if bad else ("", 0, 0)))
    lib.replay_findings(rep, "C14", ask)
