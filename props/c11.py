"""C11 Invariant text is the one and only path the pattern matches."""
import common
from common import hexs, unhex
from props import lib

REGEX_META = set("\\.+*?()|[]{}^$#&-~")


def rx_escape(s):
    return "".join("\\" + c if c in REGEX_META else c for c in s)


def run(rep, tier, seed, replay):
    rep.rule = ("grammar-directed expressions biased to invariant shapes (literals, flags, classes, invariant alternations and "
                "repetitions) over the driver alphabet incl. cased non-ASCII; for every glob reporting invariant text the language "
                "of its compiled pattern is compared with the singleton over ALL paths; non-trivial = built and (invariant text, or "
                "a case-insensitive literal, or a class)")
    exprs = lib.inputs(rep, "C11", tier, seed, 2500, 30000, replay, trees=False, lits=["a", "b", "A", "é", "É", "ǆ", "ǅ", "1", ".", "..", "s", "ſ", "k", "K", "ß", "σ", "ς", "中", "x.y", "\\*"])
    if replay is None:
        import gen as _ger
        exprs += [e for e in _ger.exact_repetition_family() if e not in set(exprs)]
    if replay is None:
        import gen as _gfc
        exprs += [e for e in _gfc.flag_class_family() if e not in set(exprs)]
    if replay is None:
        import gen as _gfs
        exprs += [e for e in _gfs.flag_scope_family() if e not in set(exprs)]
    # plus small invariant shapes
    if replay is None:
        exprs += [e for e in ["(?i)ǅ", "(?i)1", "(?i)中", "(?i)ß", "a[/]", "[a]", "[a-a]", "{a,a}", "<a:2>", "<ab:2,2>", "{a,b}", "(?i)K", "(?i)ſ", "a/b", "/a", "{a/b}", "<a/:1>b", "[!a]"] if e not in exprs]
    if replay is None:
        # one literal made of cased and caseless characters of different scripts, in either order, under either flag
        cased = ["a", "Ab", "x", "É", "ǅ", "σ", "k"]
        caseless = ["中", "–", "·", "°", "愛", "1", "_", "日本"]
        mixed = []
        for c0 in cased:
            for d0 in caseless:
                for body in (c0 + d0, d0 + c0, c0 + d0 + c0, d0 + c0 + d0):
                    mixed += ["(?i)" + body, "(?-i)" + body, "x/(?i)" + body, "{(?i)%s,(?-i)%s}" % (body, body), "<(?i)%s:2>" % body]
        exprs += [e for e in mixed if e not in set(exprs)]
    if replay is None:
        # alternatives that differ ONLY in letter case (or by a case mapping): each is invariant text, together they are two paths
        pairs2 = [("a", "A"), ("readme", "README"), ("ab", "aB"), ("é", "É"), ("ǆ", "ǅ"), ("ǆ", "Ǆ"), ("s", "ſ"), ("k", "K"), ("σ", "ς"), ("ß", "ẞ"), ("x.y", "X.Y"), ("i", "İ")]
        caseonly = []
        for a0, b0 in pairs2:
            caseonly += ["{%s,%s}" % (a0, b0), "{%s,%s}" % (b0, a0), "{%s,%s}.md" % (a0, b0), "x/{%s,%s}/y" % (a0, b0), "<{%s,%s}:2>" % (a0, b0), "{%s,%s,%s}" % (a0, a0, b0),
                         "{{%s},%s}" % (a0, b0), "{<%s:1>,%s}" % (a0, b0), "{%s/c,%s/c}" % (a0, b0), "(?-i){%s,%s}" % (a0, b0), "{(?-i)%s,(?-i)%s}" % (a0, b0)]
            if len(a0) == 1 and len(b0) == 1:
                caseonly += ["[%s%s]" % (a0, b0), "x[%s%s]" % (b0, a0), "[%s%s%s]" % (a0, a0, b0)]
        exprs += [e for e in caseonly if e not in set(exprs)]
    P = lib.Pair(exprs)
    h, m = P.h, P.m
    rep.evaluations = len(exprs)
    built = [k for k in range(len(exprs)) if P.impl[k]["ok"]]
    mt = P.model_cmd("T", built)
    inv = []
    for k in built:
        i = P.impl[k]
        rep.traces += 1
        iv, mv = i.get("text", "?"), mt[k]
        rep.stats["text:" + iv.split(":")[0]] += 1
        if iv != mv and not iv.startswith("panic"):
            rep.stats["correspondence-broken"] += 1
            rep.violation("correspondence", "text(): result of the text variance fold", {"expr": exprs[k]}, impl=iv, model=mv)
        if iv.startswith("inv:"):
            inv.append(k)
        if iv.startswith("inv:") or "(?i)" in exprs[k] or "[" in exprs[k]:
            rep.distinct.add(exprs[k])
    frag = P.model_cmd("F11", inv)
    reqs = []
    for k in inv:
        s = unhex(P.impl[k]["text"][4:])
        reqs.append("L %s %s" % (hexs(P.impl[k]["pattern"]), hexs("(?s)^(?-i:%s)$" % rx_escape(s))))
    res = h.ask(reqs)
    for k, line in zip(inv, res):
        e = exprs[k]
        s = unhex(P.impl[k]["text"][4:])
        f = frag[k]
        if line == "EQUAL":
            rep.stats["invariant-and-singleton"] += 1
            rep.sample({"expr": e, "text": s, "verdict": "the compiled program matches exactly this path"})
            continue
        if not line.startswith("DIFF"):
            rep.stats["dfa-" + line.split()[0]] += 1
            continue
        w, in_impl = unhex(line.split()[1]), line.split()[2] == "first"
        got = h.ask(["M %s %s" % (hexs(e), hexs(w))])[0].startswith("match")
        if got != in_impl:
            rep.stats["witness-not-confirmed"] += 1
            continue
        if not in_impl and "K-TEXT-SEPCLASS" in f:
            # the property excuses existence when a class lists a separator
            rep.stats["invariant-unmatched-sepclass"] += 1
            continue
        inp = {"expr": e, "path": w, "text": s}
        name = ("matches a second path besides its invariant text" if in_impl else "does not match its invariant text")
        if f == "in" or True:
            # text_exact_compiled: no finding is listed for this property
            rep.violation("oracle", "text_exact_compiled: a glob with invariant text %s (fragment %s)" % (name, f), inp, impl=in_impl, spec=not in_impl, fragment=f)
    # ---- a combinator that contains a combinator over NO patterns: any([any([e]), any([])]) — the union with nothing
    if replay is None or replay["input"].get("nested-empty"):
        es = ["a", "a/b", "(?-i)x", "", "/", "{a}", "<a:2>"] if replay is None else [replay["input"]["nested-empty"]]
        for e0, line in zip(es, h.ask(["AN 1 " + hexs(e0) for e0 in es])):
            d = lib.parse_impl_build(line)
            rep.evaluations += 1
            if not d["ok"] or not d.get("text", "").startswith("inv:"):
                rep.stats["nested-empty:" + (d.get("text", "?").split(":")[0] if d["ok"] else "err")] += 1
                continue
            stext = unhex(d["text"][4:])
            ans = h.ask(["L %s %s" % (hexs(d["pattern"]), hexs("(?s)^(?-i:%s)$" % rx_escape(stext)))])[0]
            if ans == "EQUAL":
                rep.stats["nested-empty: invariant-and-singleton"] += 1
            elif ans.startswith("DIFF"):
                w = unhex(ans.split()[1])
                got = h.ask(["MAN %s 1 %s" % (hexs(w), hexs(e0))])[0].startswith("match")
                if got == (ans.split()[2] == "first"):
                    rep.violation("oracle", "text_exact: any([any([%r]), any([])]) reports the invariant text %r and %s %r" % (e0, stext, "also matches" if got else "does not match", w),
                                  {"nested-empty": e0, "path": w, "text": stext}, impl=got)
    # ---- combinators: any([e]) and any([a, b]) report a text too (invariant only when every member has the same one)
    if replay is None or "any" in replay["input"]:
        inv_pool = [k for k in built if P.impl[k].get("text", "").startswith("inv:")]
        combos = lib.combinator_pairs(P, exprs, built, seed, 700 if tier == "quick" else 7000, pool=inv_pool or None)
        # members with the SAME invariant text (the only way a pair stays invariant)
        import random as _r
        rng = _r.Random(seed + 11)
        by_text = {}
        for k in inv_pool:
            by_text.setdefault(P.impl[k]["text"], []).append(k)
        same = [rng.sample(v, 2) for v in by_text.values() if len(v) >= 2]
        extra = h.ask(["A 2 %s %s" % (hexs(exprs[a]), hexs(exprs[b])) for a, b in same])
        for (a, b), line in zip(same, extra):
            d = lib.parse_impl_build(line)
            if d["ok"]:
                combos.append(([exprs[a], exprs[b]], d))
        if replay is not None:
            d = lib.parse_impl_build(h.ask(["A %d %s" % (len(replay["input"]["any"]), " ".join(hexs(e) for e in replay["input"]["any"]))])[0])
            combos = [(replay["input"]["any"], d)] if d["ok"] else []
        rep.evaluations += len(combos)
        mtext = lib.any_model(m, "TA", [ms for ms, _ in combos])
        inv2 = []
        for (ms, d), tv in zip(combos, mtext):
            rep.traces += 1
            iv = d.get("text", "?")
            rep.stats["combinator-text:" + iv.split(":")[0]] += 1
            if iv != tv and not iv.startswith("panic"):
                rep.stats["correspondence-broken"] += 1
                rep.violation("correspondence", "combinator: text()", {"any": ms}, impl=iv, model=tv)
                continue
            if iv.startswith("inv:"):
                inv2.append((ms, d))
                rep.distinct.add("any:" + "|".join(ms))
        res2 = h.ask(["L %s %s" % (hexs(d["pattern"]), hexs("(?s)^(?-i:%s)$" % rx_escape(unhex(d["text"][4:])))) for ms, d in inv2])
        frag2 = lib.any_model(m, "F11A", [ms for ms, _ in inv2])
        for (ms, d), line, f in zip(inv2, res2, frag2):
            stext = unhex(d["text"][4:])
            if line == "EQUAL":
                rep.stats["combinator:invariant-and-singleton"] += 1
                continue
            if not line.startswith("DIFF"):
                rep.stats["dfa-" + line.split()[0]] += 1
                continue
            w, in_impl = unhex(line.split()[1]), line.split()[2] == "first"
            got = h.ask(["MA %s %d %s" % (hexs(w), len(ms), " ".join(hexs(e) for e in ms))])[0].startswith("match")
            if got != in_impl:
                rep.stats["witness-not-confirmed"] += 1
                continue
            if not in_impl and "K-TEXT-SEPCLASS" in f:
                rep.stats["invariant-unmatched-sepclass"] += 1
                continue
            rep.violation("oracle", "a combinator with invariant text %s (fragment %s)" % ("matches a second path besides its invariant text" if in_impl else "does not match its invariant text", f),
                          {"any": ms, "path": w, "text": stext}, impl=in_impl, spec=not in_impl, fragment=f)
    # ---- the same pattern obtained another way (into_owned, FromStr, any of one): its text() is judged like the glob's
    if replay is None or "route" in replay["input"]:
        subjects = lib.conversion_routes(P, exprs, built if replay is None else built)
        todo3 = []
        for sj in subjects:
            k = sj["k"]
            rep.stats["route-text:%s:%s" % (sj["route"], sj["text"].split(":")[0])] += 1
            if not sj["text"].startswith("inv:"):
                continue
            if sj["text"] == P.impl[k].get("text") and sj["pattern"] == P.impl[k]["pattern"]:
                continue          # says and runs the same as the borrowed glob: judged above
            todo3.append(sj)
        res3 = h.ask(["L %s %s" % (hexs(sj["pattern"]), hexs("(?s)^(?-i:%s)$" % rx_escape(unhex(sj["text"][4:])))) for sj in todo3])
        for sj, line in zip(todo3, res3):
            if line == "EQUAL":
                rep.stats["route:invariant-and-singleton"] += 1
            elif line.startswith("DIFF"):
                w, in_impl = unhex(line.split()[1]), line.split()[2] == "first"
                got = h.ask(["RX %s %s" % (hexs(sj["pattern"]), hexs(w))])[0].startswith("match")
                if got != in_impl:
                    rep.stats["witness-not-confirmed"] += 1
                    continue
                f3 = m.ask(["F11 " + hexs(sj["expr"])])[0]
                if not in_impl and "K-TEXT-SEPCLASS" in f3:
                    rep.stats["invariant-unmatched-sepclass"] += 1
                    continue
                rep.violation("oracle", "the pattern obtained by %s reports invariant text %r but its program %s (the glob built by Glob::new reports %s)" % (
                    sj["route"], unhex(sj["text"][4:]), "matches %r as well" % w if in_impl else "does not match it", P.impl[sj["k"]].get("text", "?")[:60]),
                    {"expr": sj["expr"], "route": sj["route"], "path": w}, impl=sj["text"][:80])
    # casing hypothesis H, validated on the driver alphabet on every run and over all scalars in the thorough tier
    lo_hi = [(0, 0x3000)] if tier == "quick" else [(a, min(a + 0x8000, 0x110000)) for a in range(0, 0x110000, 0x8000)]
    sweep = h.ask(["CF %d %d" % (a, b) for a, b in lo_hi])
    checked = folded = 0
    for (a, b), line in zip(lo_hi, sweep):
        p = dict(x.split("=") for x in line.split())
        checked += int(p["checked"]); folded += int(p["folded"])
        if p["bad"] != "[]":
            c = chr(int(p["bad"].strip("[]").split(",")[0], 16))
            rep.violation("oracle", "casing hypothesis H fails: a character with a case-folding partner reports invariant text under (?i)", {"expr": "(?i)" + c, "path": c.swapcase()}, impl="invariant")
    rep.extra["casing_sweep"] = {"scalars_checked": checked, "with_fold_partner": folded, "exhaustive": tier != "quick"}
    lib.replay_findings(rep, "C11", lambda w: (False, ""))
