"""Helpers shared by the per-property checks."""
import re, random
import common, gen
from common import hexs, unhex


def parse_impl_build(line):
    """`ok <tokens> | <pattern> | root=.. exh=.. depth=.. text=.. sem=.. empty=.. caps=[..]`"""
    d = {"raw": line, "ok": False}
    if line.startswith("ok "):
        parts = line[3:].split(" | ")
        d["ok"] = True
        d["tokens"] = parts[0]
        d["pattern"] = unhex(parts[1]) if len(parts) > 1 else ""
        if len(parts) > 2:
            for kv in parts[2].split(" "):
                if "=" in kv:
                    k, v = kv.split("=", 1)
                    d[k] = v
    elif line.startswith("err "):
        p = line.split(" ")
        d["err"] = p[1]
        d["spans"] = p[2] if len(p) > 2 else "[]"
    else:
        d["err"] = "panic" if line.startswith("panic") else line
    return d


def parse_model_build(line):
    d = {"raw": line, "ok": False}
    if line.startswith("ok "):
        parts = line[3:].split(" | ")
        d["ok"] = True
        d["tokens"] = parts[0]
        d["pattern"] = unhex(parts[1]) if len(parts) > 1 else ""
        if len(parts) > 2:
            for kv in parts[2].split(" "):
                if "=" in kv:
                    k, v = kv.split("=", 1)
                    d[k] = v
    elif line.startswith("err "):
        p = line.split(" ")
        d["err"] = p[1]
        d["spans"] = p[2] if len(p) > 2 else "[]"
    else:
        d["err"] = line
    return d


OUTCOME_MISMATCH = []   # (expression, impl answer, model answer): filled by every Pair, reported by ./check after the run


class Pair:
    """impl and model views of the same expressions"""

    def __init__(self, exprs):
        self.exprs = exprs
        self.h = common.harness()
        self.m = common.model()
        hx = [hexs(e) for e in exprs]
        self.hx = hx
        self.impl = [parse_impl_build(l) for l in self.h.ask(["B " + x for x in hx])]
        self.model = [parse_model_build(l) for l in self.m.ask(["B " + x for x in hx])]
        # the build OUTCOME is part of every tie: an expression the model builds and the crate rejects with a structured error
        # (or the other way round) is a disagreement in its own right, whatever the property (panics, timeouts and the
        # regex size / nesting limits are C05's subject and are left to it)
        import re as _re
        for e, i, mo in zip(exprs, self.impl, self.model):
            if i.get("err") == "compile":
                # the size limit of the compiled program is not modelled: judged on small expressions only (short, small
                # bounds whose product is small, shallow), as in C05
                nums = [int(x) for x in _re.findall(r"\d+", e)]
                small = len(e) < 200 and all(x < 50 for x in nums) and (max(nums) if nums else 1) ** min(len(nums), 3) < 3000 and not _re.search(r"[{<]{12,}", e)
                if not small:
                    continue
            if i.get("err") in ("parse", "compile") or str(i.get("err", "")).startswith("rule:") or i["ok"]:
                if (mo["ok"] or mo.get("err") in ("parse", "compile") or str(mo.get("err", "")).startswith("rule:")) and i["ok"] != mo["ok"]:
                    OUTCOME_MISMATCH.append((e, i["raw"][:200], mo["raw"][:200]))

    def model_cmd(self, cmd, idx=None):
        idx = range(len(self.exprs)) if idx is None else idx
        out = self.m.ask(["%s %s" % (cmd, self.hx[k]) for k in idx])
        return dict(zip(idx, out))


def inputs(rep, prop, tier, seed, n_quick, n_thorough, replay=None, key="expr", scale=True, **kw):
    """corpus first (finding witnesses, minimised past failures), then generated expressions"""
    if replay is not None:
        return [replay["input"][key]] if key in replay.get("input", {}) else []
    findings, _ = common.load_findings(prop)
    out = []
    for c in common.load_corpus(prop):
        if key in c:
            out.append(c[key])
    for f in findings:
        if key in f["witness"]:
            out.append(f["witness"][key])
    n = n_quick if tier == "quick" else n_thorough
    for e in gen.expressions(seed, n, **kw):
        out.append(e)
    if scale:
        out += gen.scale_family()
    seen = set()
    res = []
    for e in out:
        if e not in seen:
            seen.add(e)
            res.append(e)
    return res


def nontrivial(expr):
    return any(c in expr for c in "*?$[{<")


def replay_findings(rep, prop, ask_impl):
    """each listed witness is replayed against the real code; the line is printed when it still
    fails as recorded"""
    findings, fixed = common.load_findings(prop)
    for f in findings:
        got, text = ask_impl(f["witness"])
        if got:
            rep.known(f["id"], "%s (%s): %s" % (f["what"], f["site"], text))
        else:
            rep.stats["finding-no-longer-reproduces:" + f["id"]] += 1
    return findings



def combinator_pairs(P, exprs, built, seed, npairs, pool=None, singles=True):
    """combinators over the built expressions: any([e]) for a sample and any([a, b]) for random pairs;
    returns [(members, parsed `A` answer)] for those that build"""
    import random
    rng = random.Random(seed * 131 + 7)
    pool = pool if pool is not None else built
    groups = []
    if singles:
        groups += [[k] for k in rng.sample(built, min(len(built), npairs // 3))]
    if pool:
        groups += [[rng.choice(pool), rng.choice(built if rng.random() < 0.4 else pool)] for _ in range(npairs)]
    ans = P.h.ask(["A %d %s" % (len(g), " ".join(hexs(exprs[k]) for k in g)) for g in groups])
    out = []
    for g, line in zip(groups, ans):
        d = parse_impl_build(line)
        if d["ok"]:
            out.append(([exprs[k] for k in g], d))
    return out


def any_model(m, cmd, members_list):
    return m.ask(["%s %d %s" % (cmd, len(ms), " ".join(hexs(e) for e in ms)) for ms in members_list])



def conversion_routes(P, exprs, built):
    """the same pattern obtained by into_owned, FromStr and any() of text / compiled / owned (harness `XR`):
    [{k, expr, route, exh, root, pattern, depth, text}]"""
    out = []
    for k, line in zip(built, P.h.ask(["XR " + hexs(exprs[k]) for k in built])):
        for item in line.split(" "):
            if "=" not in item:
                continue
            name, rest = item.split("=", 1)
            f = rest.split(":", 4)
            if len(f) < 5:
                continue
            out.append({"k": k, "expr": exprs[k], "route": name, "exh": f[0], "root": f[1], "pattern": unhex(f[2]), "depth": f[3], "text": f[4]})
    return out
