#!/bin/bash
# Run once after a fresh restore, offline: builds the harness against /repo (hooks on) and the Lean
# development (every theorem is re-checked by the kernel) from files on disk only.
set -e
cd "$(dirname "$0")"
export CARGO_NET_OFFLINE=true
(cd harness && cargo build --release --offline 2>&1 | tail -2)
(cd lean && lake build Wax waxmodel 2>&1 | tail -2)
echo setup-ok
