import Wax.Hir
import Wax.Proofs.ReLang
import Wax.Proofs.HirRanges
/-!
The smart constructors of `Wax/Hir.lean` (`mkCat`, `mkRep`, `mkClass`, `mkAltF`/`mkAlt`) denote
concatenation, bounded repetition, a character class and union.  Used by `Wax/Proofs/HirLang.lean`.
-/
namespace Wax

theorem H.toReList_eq_map : ∀ l : List H, H.toReList l = l.map H.toRe
  | [] => by simp [H.toReList]
  | x :: xs => by simp [H.toReList, H.toReList_eq_map xs]

/-- language of a normal form -/
def H.L (σ : Sem) (h : H) (w : Str) : Prop := Matches σ h.toRe w

/-- language of a concatenation of normal forms -/
def H.Ls (σ : Sem) (l : List H) (w : Str) : Prop := MatchesAll σ (H.toReList l) w

section lang
variable {σ : Sem}

theorem H.Ls_nil {w : Str} : H.Ls σ [] w ↔ w = [] := by
  simp only [H.Ls, H.toReList, matchesAll_nil_iff]

theorem H.Ls_cons {x : H} {xs : List H} {w : Str} :
    H.Ls σ (x :: xs) w ↔ ∃ u v, w = u ++ v ∧ H.L σ x u ∧ H.Ls σ xs v := by
  simp only [H.Ls, H.toReList, matchesAll_cons_iff, H.L]

theorem H.Ls_single {x : H} {w : Str} : H.Ls σ [x] w ↔ H.L σ x w := by
  simp only [H.Ls, H.toReList, matchesAll_single_iff, H.L]

theorem H.Ls_append {a b : List H} {w : Str} :
    H.Ls σ (a ++ b) w ↔ ∃ u v, w = u ++ v ∧ H.Ls σ a u ∧ H.Ls σ b v := by
  simp only [H.Ls, H.toReList_eq_map, List.map_append, matchesAll_append_iff]

theorem H.L_cat {l : List H} {w : Str} : H.L σ (.cat l) w ↔ H.Ls σ l w := by
  simp only [H.L, H.toRe, matches_grp_iff, matches_cat_iff, H.Ls]

theorem H.L_alt {l : List H} {w : Str} : H.L σ (.alt l) w ↔ ∃ x ∈ l, H.L σ x w := by
  simp only [H.L, H.toRe, matches_grp_iff, matches_alt_iff, H.toReList_eq_map, List.mem_map]
  constructor
  · rintro ⟨r, ⟨x, hx, rfl⟩, h⟩; exact ⟨x, hx, h⟩
  · rintro ⟨x, hx, h⟩; exact ⟨_, ⟨x, hx, rfl⟩, h⟩

theorem H.L_empty {w : Str} : H.L σ .empty w ↔ w = [] := by
  simp only [H.L, H.toRe, matches_lit_iff, litEq_nil_iff]

theorem H.L_lit {s w : Str} : H.L σ (.lit s) w ↔ w = s := by
  simp only [H.L, H.toRe, matches_lit_iff, litEq_cs_iff]

theorem H.L_fail {w : Str} : ¬ H.L σ .fail w := by
  simp only [H.L, H.toRe]; exact not_matches_never

theorem H.L_set {k : Ranges} {impl : Re} {w : Str} : H.L σ (.set k impl) w ↔ Matches σ impl w := by
  simp only [H.L, H.toRe]

theorem H.L_cap {s : H} {w : Str} : H.L σ (.cap s) w ↔ H.L σ s w := by
  simp only [H.L, H.toRe, matches_cap_iff]

/-- bounded repetition of a language -/
def RepL (A : Str → Prop) (lo : Nat) (hi : Option Nat) (w : Str) : Prop :=
  ∃ m, lo ≤ m ∧ (∀ h, hi = some h → m ≤ h) ∧ IterN A m w

theorem RepL.congr {A B : Str → Prop} (h : ∀ w, A w ↔ B w) {lo : Nat} {hi : Option Nat} {w : Str} :
    RepL A lo hi w ↔ RepL B lo hi w := by
  unfold RepL
  constructor
  · rintro ⟨m, h1, h2, h3⟩; exact ⟨m, h1, h2, (IterN.congr h).mp h3⟩
  · rintro ⟨m, h1, h2, h3⟩; exact ⟨m, h1, h2, (IterN.congr h).mpr h3⟩

theorem H.L_rep {lo : Nat} {hi : Option Nat} {lz : Bool} {s : H} {w : Str} :
    H.L σ (.rep lo hi lz s) w ↔ RepL (H.L σ s) lo hi w := by
  simp only [H.L, H.toRe]
  split
  · rename_i hc
    simp only [Bool.and_eq_true, beq_iff_eq] at hc
    obtain ⟨⟨_, rfl⟩, rfl⟩ := hc
    rw [matches_lazyStar_iff]
    unfold RepL
    constructor
    · rintro ⟨m, hm⟩; exact ⟨m, Nat.zero_le _, (by intro _ e; cases e), hm⟩
    · rintro ⟨m, _, _, hm⟩; exact ⟨m, hm⟩
  · rw [matches_rep_iff]; rfl

theorem RepL_zero_zero {A : Str → Prop} {w : Str} : RepL A 0 (some 0) w ↔ w = [] := by
  unfold RepL
  constructor
  · rintro ⟨m, _, h2, h3⟩
    have : m = 0 := by have := h2 0 rfl; omega
    subst this
    exact h3
  · rintro rfl; exact ⟨0, Nat.le_refl _, (by intro h e; cases e; exact Nat.le_refl _), rfl⟩

theorem RepL_one_one {A : Str → Prop} {w : Str} : RepL A 1 (some 1) w ↔ A w := by
  unfold RepL
  constructor
  · rintro ⟨m, h1, h2, h3⟩
    have : m = 1 := by have := h2 1 rfl; omega
    subst this
    exact IterN.one_iff.mp h3
  · intro h; exact ⟨1, Nat.le_refl _, (by intro h e; cases e; exact Nat.le_refl _), IterN.one h⟩

/-- repetition of a language with at most the empty string, bounds in order -/
theorem RepL_null {A : Str → Prop} (hA : ∀ w, A w → w = []) {lo : Nat} {hi : Option Nat}
    (hle : ∀ h, hi = some h → lo ≤ h) {w : Str} :
    RepL A lo hi w ↔ w = [] ∧ (lo = 0 ∨ A []) := by
  unfold RepL
  constructor
  · rintro ⟨m, h1, h2, h3⟩
    obtain ⟨hw, hm⟩ := IterN.of_null hA h3
    refine ⟨hw, ?_⟩
    rcases hm with hm | hm
    · left; omega
    · exact Or.inr hm
  · rintro ⟨rfl, h | h⟩
    · subst h
      exact ⟨0, Nat.le_refl _, (fun h e => Nat.zero_le _), rfl⟩
    · exact ⟨lo, Nat.le_refl _, hle, IterN.null h lo⟩

end lang

/-! ### well-formedness: every class of the normal form satisfies `P key impl` -/

inductive H.WF (P : Ranges → Re → Prop) : H → Prop
  | empty : H.WF P .empty
  | lit (s : Str) : H.WF P (.lit s)
  | set {key : Ranges} {impl : Re} : P key impl → H.WF P (.set key impl)
  | fail : H.WF P .fail
  | rep {lo : Nat} {hi : Option Nat} {lz : Bool} {s : H} : H.WF P s → H.WF P (.rep lo hi lz s)
  | cap {s : H} : H.WF P s → H.WF P (.cap s)
  | cat {l : List H} : (∀ x ∈ l, H.WF P x) → H.WF P (.cat l)
  | alt {l : List H} : (∀ x ∈ l, H.WF P x) → H.WF P (.alt l)

theorem H.WF.of_cat {P : Ranges → Re → Prop} {l : List H} (h : H.WF P (.cat l)) : ∀ x ∈ l, H.WF P x := by
  cases h with | cat h => exact h

theorem H.WF.of_alt {P : Ranges → Re → Prop} {l : List H} (h : H.WF P (.alt l)) : ∀ x ∈ l, H.WF P x := by
  cases h with | alt h => exact h

theorem H.WF.of_set {P : Ranges → Re → Prop} {k : Ranges} {i : Re} (h : H.WF P (.set k i)) : P k i := by
  cases h with | set h => exact h

theorem H.WF.of_rep {P : Ranges → Re → Prop} {lo : Nat} {hi : Option Nat} {lz : Bool} {s : H}
    (h : H.WF P (.rep lo hi lz s)) : H.WF P s := by
  cases h with | rep h => exact h

theorem H.WF.of_cap {P : Ranges → Re → Prop} {s : H} (h : H.WF P (.cap s)) : H.WF P s := by
  cases h with | cap h => exact h

/-! ### `mkCat` -/

def catFlat : H → List H
  | .cat xs => xs
  | .empty => []
  | x => [x]

def catOf (xs : List H) : H :=
  match xs with
  | [] => .empty
  | [x] => x
  | xs => .cat xs

theorem mkCat_eq (l : List H) : mkCat l = catOf (mergeLits (l.flatMap catFlat)) := rfl

theorem L_catOf {σ : Sem} {w : Str} : ∀ (xs : List H), H.L σ (catOf xs) w ↔ H.Ls σ xs w
  | [] => by simp only [catOf, H.L_empty, H.Ls_nil]
  | [x] => by simp only [catOf, H.Ls_single]
  | x :: y :: ys => by simp only [catOf, H.L_cat]

theorem Ls_catFlat {σ : Sem} {w : Str} (x : H) : H.Ls σ (catFlat x) w ↔ H.L σ x w := by
  cases x <;> simp only [catFlat, H.Ls_single, H.L_cat, H.Ls_nil, H.L_empty]

theorem Ls_flatMap_catFlat {σ : Sem} : ∀ (l : List H) (w : Str),
    H.Ls σ (l.flatMap catFlat) w ↔ H.Ls σ l w
  | [], _ => by simp only [List.flatMap_nil]
  | x :: xs, w => by
    simp only [List.flatMap_cons, H.Ls_append, H.Ls_cons, Ls_catFlat, Ls_flatMap_catFlat xs]

theorem Ls_mergeLits {σ : Sem} (l : List H) : ∀ (w : Str), H.Ls σ (mergeLits l) w ↔ H.Ls σ l w := by
  fun_induction mergeLits l with
  | case1 a rest b rest' hm ih =>
    intro w
    simp only [H.Ls_cons, H.L_lit]
    constructor
    · rintro ⟨u, v, rfl, rfl, hv⟩
      refine ⟨a, b ++ v, by simp, rfl, ?_⟩
      rw [← ih, hm, H.Ls_cons]
      exact ⟨b, v, rfl, H.L_lit.mpr rfl, hv⟩
    · rintro ⟨u, v, rfl, rfl, hv⟩
      rw [← ih, hm, H.Ls_cons] at hv
      obtain ⟨b', v', rfl, hb, hv'⟩ := hv
      rw [H.L_lit] at hb
      subst hb
      exact ⟨u ++ b', v', by simp, rfl, hv'⟩
  | case2 a rest hne ih =>
    intro w
    simp only [H.Ls_cons, ih]
  | case3 x rest hx ih =>
    intro w
    simp only [H.Ls_cons, ih]
  | case4 => intro w; exact Iff.rfl

theorem mkCat_lang {σ : Sem} (l : List H) (w : Str) : H.L σ (mkCat l) w ↔ H.Ls σ l w := by
  rw [mkCat_eq, L_catOf, Ls_mergeLits, Ls_flatMap_catFlat]

theorem mem_mergeLits {x : H} (l : List H) : x ∈ mergeLits l → x ∈ l ∨ ∃ s, x = .lit s := by
  fun_induction mergeLits l with
  | case1 a rest b rest' hm ih =>
    intro h
    rcases List.mem_cons.mp h with h | h
    · exact Or.inr ⟨_, h⟩
    · have : x ∈ mergeLits rest := by rw [hm]; exact List.mem_cons_of_mem _ h
      rcases ih this with h | h
      · exact Or.inl (List.mem_cons_of_mem _ h)
      · exact Or.inr h
  | case2 a rest hne ih =>
    intro h
    rcases List.mem_cons.mp h with h | h
    · exact Or.inr ⟨_, h⟩
    · rcases ih h with h | h
      · exact Or.inl (List.mem_cons_of_mem _ h)
      · exact Or.inr h
  | case3 y rest hy ih =>
    intro h
    rcases List.mem_cons.mp h with h | h
    · exact Or.inl (h ▸ List.mem_cons_self ..)
    · rcases ih h with h | h
      · exact Or.inl (List.mem_cons_of_mem _ h)
      · exact Or.inr h
  | case4 => intro h; cases h

theorem wf_catFlat {P : Ranges → Re → Prop} {x : H} (h : H.WF P x) : ∀ y ∈ catFlat x, H.WF P y := by
  cases x <;> simp only [catFlat, List.mem_singleton, forall_eq, List.not_mem_nil, false_imp_iff,
    implies_true] <;> first | exact h | exact h.of_cat

theorem wf_catOf {P : Ranges → Re → Prop} : ∀ {xs : List H}, (∀ x ∈ xs, H.WF P x) → H.WF P (catOf xs)
  | [], _ => .empty
  | [x], h => h x (List.mem_cons_self ..)
  | _ :: _ :: _, h => .cat h

theorem wf_mkCat {P : Ranges → Re → Prop} {l : List H} (h : ∀ x ∈ l, H.WF P x) : H.WF P (mkCat l) := by
  rw [mkCat_eq]
  apply wf_catOf
  intro x hx
  rcases mem_mergeLits _ hx with hx | ⟨s, rfl⟩
  · obtain ⟨y, hy, hxy⟩ := List.mem_flatMap.mp hx
    exact wf_catFlat (h y hy) x hxy
  · exact .lit s

/-! ### `mkRep` -/

def repOf (lo : Nat) (hi : Option Nat) (lz : Bool) (sub : H) : H :=
  if lo == 0 && hi == some 0 then .empty
  else if lo == 1 && hi == some 1 then sub
  else .rep lo hi lz sub

theorem mkRep_eq (lo : Nat) (hi : Option Nat) (lz : Bool) (sub : H) :
    mkRep lo hi lz sub =
      if sub.maxZero then repOf (min lo 1) (some (match hi with | some n => min n 1 | none => 1)) lz sub
      else repOf lo hi lz sub := by
  unfold mkRep repOf
  by_cases hz : sub.maxZero = true
  · simp only [hz, if_true]; rfl
  · simp only [hz, if_false, Bool.false_eq_true]

theorem repOf_lang {σ : Sem} (lo : Nat) (hi : Option Nat) (lz : Bool) (sub : H) (w : Str) :
    H.L σ (repOf lo hi lz sub) w ↔ RepL (H.L σ sub) lo hi w := by
  unfold repOf
  split
  · rename_i hc
    simp only [Bool.and_eq_true, beq_iff_eq] at hc
    obtain ⟨rfl, rfl⟩ := hc
    rw [H.L_empty, RepL_zero_zero]
  · split
    · rename_i hc
      simp only [Bool.and_eq_true, beq_iff_eq] at hc
      obtain ⟨rfl, rfl⟩ := hc
      rw [RepL_one_one]
    · exact H.L_rep

theorem wf_repOf {P : Ranges → Re → Prop} {lo : Nat} {hi : Option Nat} {lz : Bool} {sub : H}
    (h : H.WF P sub) : H.WF P (repOf lo hi lz sub) := by
  unfold repOf
  split
  · exact .empty
  · split
    · exact h
    · exact .rep h

theorem wf_mkRep {P : Ranges → Re → Prop} {lo : Nat} {hi : Option Nat} {lz : Bool} {sub : H}
    (h : H.WF P sub) : H.WF P (mkRep lo hi lz sub) := by
  rw [mkRep_eq]
  split <;> exact wf_repOf h

mutual
  /-- `maximum_len() == Some(0)` is right: such a normal form matches at most the empty string -/
  theorem maxZero_null {σ : Sem} : ∀ (h : H) (w : Str), h.maxZero = true → H.L σ h w → w = []
    | .empty, w, _, hl => H.L_empty.mp hl
    | .lit _, _, hz, _ => by simp [H.maxZero] at hz
    | .set .., _, hz, _ => by simp [H.maxZero] at hz
    | .fail, _, hz, _ => by simp [H.maxZero] at hz
    | .rep lo hi lz s, w, hz, hl => by
      simp only [H.maxZero] at hz
      obtain ⟨m, _, _, hm⟩ := H.L_rep.mp hl
      exact (IterN.of_null (fun u hu => maxZero_null s u hz hu) hm).1
    | .cap s, w, hz, hl => by
      simp only [H.maxZero] at hz
      exact maxZero_null s w hz (H.L_cap.mp hl)
    | .cat l, w, hz, hl => by
      simp only [H.maxZero] at hz
      exact maxZeroList_null l w hz (H.L_cat.mp hl)
    | .alt l, w, hz, hl => by
      simp only [H.maxZero] at hz
      obtain ⟨x, hx, hxl⟩ := H.L_alt.mp hl
      exact maxZeroList_mem l w hz x hx hxl
  theorem maxZeroList_null {σ : Sem} : ∀ (l : List H) (w : Str), H.maxZeroList l = true → H.Ls σ l w → w = []
    | [], w, _, hl => H.Ls_nil.mp hl
    | x :: xs, w, hz, hl => by
      simp only [H.maxZeroList, Bool.and_eq_true] at hz
      obtain ⟨u, v, rfl, hu, hv⟩ := H.Ls_cons.mp hl
      rw [maxZero_null x u hz.1 hu, maxZeroList_null xs v hz.2 hv]; rfl
  theorem maxZeroList_mem {σ : Sem} : ∀ (l : List H) (w : Str), H.maxZeroList l = true →
      ∀ x ∈ l, H.L σ x w → w = []
    | [], _, _, _, hx, _ => by cases hx
    | y :: ys, w, hz, x, hx, hl => by
      simp only [H.maxZeroList, Bool.and_eq_true] at hz
      rcases List.mem_cons.mp hx with h | hx
      · rw [h] at hl; exact maxZero_null y w hz.1 hl
      · exact maxZeroList_mem ys w hz.2 x hx hl
end

/-- `mkRep` is bounded repetition, provided the bounds are in order (`x{3,2}` with `x` matching
    only the empty string is clipped to `x{1,1}`, which matches; see `mkRep_bad_bounds`) -/
theorem mkRep_lang {σ : Sem} (lo : Nat) (hi : Option Nat) (lz : Bool) (sub : H)
    (hle : ∀ h, hi = some h → lo ≤ h) (w : Str) :
    H.L σ (mkRep lo hi lz sub) w ↔ RepL (H.L σ sub) lo hi w := by
  rw [mkRep_eq]
  split
  · rename_i hz
    have hnull : ∀ u, H.L σ sub u → u = [] := fun u hu => maxZero_null sub u hz hu
    rw [repOf_lang, RepL_null hnull hle, RepL_null hnull]
    · constructor
      · rintro ⟨h1, h2 | h2⟩
        · exact ⟨h1, Or.inl (by omega)⟩
        · exact ⟨h1, Or.inr h2⟩
      · rintro ⟨h1, h2 | h2⟩
        · exact ⟨h1, Or.inl (by omega)⟩
        · exact ⟨h1, Or.inr h2⟩
    · intro h e
      cases e
      cases hi with
      | none => simp only; omega
      | some n => have := hle n rfl; simp only; omega
  · exact repOf_lang ..

end Wax
