import Wax.Spec
/-!
C07 on the documented language: alternation is union, repetition is iteration, single-branch
braces and once-only repetitions are the identity, `any` is union.  These laws validate the
specification itself: `Ctx` is what makes them true.
-/
namespace Wax

theorem sms_nil {σ : Sem} {c : Ctx} {w : Str} : SMs σ c [] w ↔ w = [] :=
  ⟨fun h => by cases h; rfl, fun h => h ▸ .nil⟩

theorem sms_cons {σ : Sem} {c : Ctx} {t : Tok} {ts : List Tok} {w : Str} :
    SMs σ c (t :: ts) w ↔ ∃ u v, w = u ++ v ∧ SM σ ⟨c.first, c.last && ts.isEmpty⟩ t u ∧ SMs σ ⟨false, c.last⟩ ts v :=
  ⟨fun h => by cases h with | cons hu hv => exact ⟨_, _, rfl, hu, hv⟩,
   fun ⟨_, _, he, hu, hv⟩ => he ▸ .cons hu hv⟩

/-- a concatenation splits at any point; the right part starts a path only if the left part is
    syntactically empty, the left part ends one only if the right part is -/
theorem sms_append {σ : Sem} : ∀ (xs ys : List Tok) (c : Ctx) (w : Str),
    SMs σ c (xs ++ ys) w ↔
      ∃ u v, w = u ++ v ∧ SMs σ ⟨c.first, c.last && ys.isEmpty⟩ xs u ∧
        SMs σ ⟨c.first && xs.isEmpty, c.last⟩ ys v := by
  intro xs
  induction xs with
  | nil =>
    intro ys c w
    simp only [List.nil_append, List.isEmpty_nil, Bool.and_true]
    constructor
    · intro h; exact ⟨[], w, rfl, .nil, h⟩
    · rintro ⟨u, v, rfl, hu, hv⟩
      rw [sms_nil] at hu; subst hu; simpa using hv
  | cons x xs ih =>
    intro ys c w
    simp only [List.cons_append, List.isEmpty_cons, Bool.and_false]
    rw [sms_cons]
    constructor
    · rintro ⟨a, b, rfl, ha, hb⟩
      obtain ⟨u', v, rfl, hu', hv⟩ := (ih ys ⟨false, c.last⟩ b).mp hb
      refine ⟨a ++ u', v, by simp, ?_, ?_⟩
      · refine sms_cons.mpr ⟨a, u', rfl, ?_, hu'⟩
        have : (c.last && (xs ++ ys).isEmpty) = ((c.last && ys.isEmpty) && xs.isEmpty) := by
          cases xs <;> cases ys <;> simp
        rw [← this]; exact ha
      · simpa using hv
    · rintro ⟨u, v, rfl, hu, hv⟩
      obtain ⟨a, u', rfl, ha, hu'⟩ := sms_cons.mp hu
      refine ⟨a, u' ++ v, by simp, ?_, ?_⟩
      · have : (c.last && (xs ++ ys).isEmpty) = ((c.last && ys.isEmpty) && xs.isEmpty) := by
          cases xs <;> cases ys <;> simp
        rw [this]; exact ha
      · exact (ih ys ⟨false, c.last⟩ (u' ++ v)).mpr ⟨u', v, rfl, hu', by simpa using hv⟩

theorem sms_singleton {σ : Sem} {c : Ctx} {t : Tok} {w : Str} : SMs σ c [t] w ↔ SM σ c t w := by
  rw [sms_cons]
  constructor
  · rintro ⟨u, v, rfl, hu, hv⟩
    rw [sms_nil] at hv; subst hv
    simpa using hu
  · intro h
    exact ⟨w, [], by simp, by simpa using h, .nil⟩

theorem sm_alt {σ : Sem} {c : Ctx} {sp : Span} {bs : List Tok} {w : Str} :
    SM σ c (.alt sp bs) w ↔ ∃ b ∈ bs, SMs σ c b.concatenation w :=
  ⟨fun h => by cases h with | alt hb hm => exact ⟨_, hb, hm⟩, fun ⟨_, hb, hm⟩ => .alt hb hm⟩

/-- **alternation is union**: a concatenation containing an alternation matches exactly what the
    concatenations with each (non-empty) branch spliced in its place match -/
theorem alt_union {σ : Sem} (c : Ctx) (pre post : List Tok) (sp : Span) (bs : List Tok)
    (hne : ∀ b ∈ bs, b.concatenation ≠ []) (w : Str) :
    SMs σ c (pre ++ [.alt sp bs] ++ post) w ↔
      ∃ b ∈ bs, SMs σ c (pre ++ b.concatenation ++ post) w := by
  simp only [List.append_assoc]
  rw [sms_append]
  constructor
  · rintro ⟨u, v, rfl, hu, hv⟩
    rw [sms_append] at hv
    obtain ⟨a, b', rfl, ha, hb'⟩ := hv
    rw [sms_singleton, sm_alt] at ha
    obtain ⟨b, hb, hm⟩ := ha
    have hbe : (b.concatenation ++ post).isEmpty = false := by
      cases h : b.concatenation with
      | nil => exact absurd h (hne b hb)
      | cons => rfl
    refine ⟨b, hb, (sms_append _ _ _ _).mpr ⟨u, a ++ b', rfl, ?_, ?_⟩⟩
    · simpa [hbe] using hu
    · refine (sms_append _ _ _ _).mpr ⟨a, b', rfl, hm, ?_⟩
      have : b.concatenation.isEmpty = false := by
        cases h : b.concatenation with
        | nil => exact absurd h (hne b hb)
        | cons => rfl
      simpa [this] using hb'
  · rintro ⟨b, hb, h⟩
    rw [sms_append] at h
    obtain ⟨u, v, rfl, hu, hv⟩ := h
    rw [sms_append] at hv
    obtain ⟨a, b', rfl, ha, hb'⟩ := hv
    have hbe : (b.concatenation ++ post).isEmpty = false := by
      cases h : b.concatenation with
      | nil => exact absurd h (hne b hb)
      | cons => rfl
    refine ⟨u, a ++ b', rfl, ?_, ?_⟩
    · simpa [hbe] using hu
    · refine (sms_append _ _ _ _).mpr ⟨a, b', rfl, ?_, ?_⟩
      · rw [sms_singleton, sm_alt]; exact ⟨b, hb, ha⟩
      · have : b.concatenation.isEmpty = false := by
          cases h : b.concatenation with
          | nil => exact absurd h (hne b hb)
          | cons => rfl
        simpa [this] using hb'

/-- **single-branch braces are the identity** -/
theorem wrap_alt {σ : Sem} (c : Ctx) (pre post : List Tok) (sp : Span) (b : Tok)
    (hne : b.concatenation ≠ []) (w : Str) :
    SMs σ c (pre ++ [.alt sp [b]] ++ post) w ↔ SMs σ c (pre ++ b.concatenation ++ post) w := by
  rw [alt_union c pre post sp [b] (by simpa using hne)]
  simp

/-- the body of a repetition written out `n` times -/
def repeatList (body : List Tok) : Nat → List Tok
  | 0 => []
  | n + 1 => body ++ repeatList body n

theorem repeatList_isEmpty {body : List Tok} (hb : body ≠ []) : ∀ n, (repeatList body (n + 1)).isEmpty = false := by
  intro n
  cases body with
  | nil => exact absurd rfl hb
  | cons x xs => rfl

theorem sm_rep {σ : Sem} {c : Ctx} {sp : Span} {body : Tok} {lo : Nat} {hi : Option Nat} {w : Str} :
    SM σ c (.rep sp body lo hi) w ↔
      ∃ n, lo ≤ n ∧ (∀ h, hi = some h → n ≤ h) ∧ SRep σ c body.concatenation n w :=
  ⟨fun h => by cases h with | rep h1 h2 h3 => exact ⟨_, h1, h2, h3⟩, fun ⟨_, h1, h2, h3⟩ => .rep h1 h2 h3⟩

/-- iterating a body `n >= 1` times is matching the body written out `n` times -/
theorem srep_iff {σ : Sem} {body : List Tok} (hb : body ≠ []) :
    ∀ (n : Nat) (c : Ctx) (w : Str), SRep σ c body (n + 1) w ↔ SMs σ c (repeatList body (n + 1)) w := by
  intro n
  induction n with
  | zero =>
    intro c w
    simp only [repeatList, List.append_nil]
    exact ⟨fun h => by cases h with | one h => exact h, .one⟩
  | succ n ih =>
    intro c w
    have hemp := repeatList_isEmpty hb n
    have hbe : body.isEmpty = false := by cases body with | nil => exact absurd rfl hb | cons => rfl
    show SRep σ c body (n + 2) w ↔ SMs σ c (body ++ repeatList body (n + 1)) w
    rw [sms_append]
    simp only [hemp, hbe, Bool.and_false]
    constructor
    · intro h
      cases h with
      | more hu hv => exact ⟨_, _, rfl, hu, (ih _ _).mp hv⟩
    · rintro ⟨u, v, rfl, hu, hv⟩
      exact .more hu ((ih _ _).mpr hv)

/-- **repetition is iteration** (for a repetition that occurs at least once): a concatenation
    containing a repetition matches exactly what the concatenations with the body written out a
    permitted number of times match -/
theorem rep_unroll {σ : Sem} (c : Ctx) (pre post : List Tok) (sp : Span) (body : Tok) (lo : Nat)
    (hi : Option Nat) (hne : body.concatenation ≠ []) (hlo : 1 ≤ lo) (w : Str) :
    SMs σ c (pre ++ [.rep sp body lo hi] ++ post) w ↔
      ∃ n, lo ≤ n ∧ (∀ h, hi = some h → n ≤ h) ∧
        SMs σ c (pre ++ repeatList body.concatenation n ++ post) w := by
  simp only [List.append_assoc]
  rw [sms_append]
  constructor
  · rintro ⟨u, v, rfl, hu, hv⟩
    rw [sms_append] at hv
    obtain ⟨a, b', rfl, ha, hb'⟩ := hv
    rw [sms_singleton, sm_rep] at ha
    obtain ⟨n, h1, h2, h3⟩ := ha
    obtain ⟨k, rfl⟩ : ∃ k, n = k + 1 := ⟨n - 1, by omega⟩
    have hemp := repeatList_isEmpty hne k
    have hemp2 : (repeatList body.concatenation (k + 1) ++ post).isEmpty = false := by
      cases h : repeatList body.concatenation (k + 1) with
      | nil => rw [h] at hemp; cases hemp
      | cons => rfl
    refine ⟨k + 1, h1, h2, (sms_append _ _ _ _).mpr ⟨u, a ++ b', rfl, ?_, ?_⟩⟩
    · simpa [hemp2] using hu
    · refine (sms_append _ _ _ _).mpr ⟨a, b', rfl, (srep_iff hne _ _ _).mp h3, ?_⟩
      simpa [hemp] using hb'
  · rintro ⟨n, h1, h2, h⟩
    obtain ⟨k, rfl⟩ : ∃ k, n = k + 1 := ⟨n - 1, by omega⟩
    have hemp := repeatList_isEmpty hne k
    have hemp2 : (repeatList body.concatenation (k + 1) ++ post).isEmpty = false := by
      cases h' : repeatList body.concatenation (k + 1) with
      | nil => rw [h'] at hemp; cases hemp
      | cons => rfl
    rw [sms_append] at h
    obtain ⟨u, v, rfl, hu, hv⟩ := h
    rw [sms_append] at hv
    obtain ⟨a, b', rfl, ha, hb'⟩ := hv
    refine ⟨u, a ++ b', rfl, ?_, ?_⟩
    · simpa [hemp2] using hu
    · refine (sms_append _ _ _ _).mpr ⟨a, b', rfl, ?_, ?_⟩
      · rw [sms_singleton, sm_rep]
        exact ⟨k + 1, h1, h2, (srep_iff hne _ _ _).mpr ha⟩
      · simpa [hemp] using hb'

/-- **a once-only repetition is the identity** -/
theorem wrap_rep {σ : Sem} (c : Ctx) (pre post : List Tok) (sp : Span) (body : Tok)
    (hne : body.concatenation ≠ []) (w : Str) :
    SMs σ c (pre ++ [.rep sp body 1 (some 1)] ++ post) w ↔ SMs σ c (pre ++ body.concatenation ++ post) w := by
  rw [rep_unroll c pre post sp body 1 (some 1) hne (Nat.le_refl _)]
  constructor
  · rintro ⟨n, h1, h2, h⟩
    have : n = 1 := by have := h2 1 rfl; omega
    subst this
    simpa [repeatList] using h
  · intro h
    exact ⟨1, Nat.le_refl _, by intro h' hh; cases hh; exact Nat.le_refl _, by simpa [repeatList] using h⟩

/-- **`any` is union** (a combinator is a top-level alternation) -/
theorem any_union {σ : Sem} (sp : Span) (ts : List Tok) (w : Str) :
    Spec.Matches σ (.alt sp ts) w ↔ ∃ t ∈ ts, Spec.Matches σ t w := by
  unfold Spec.Matches
  have : (Tok.alt sp ts).concatenation = [Tok.alt sp ts] := rfl
  rw [this, sms_singleton, sm_alt]

end Wax
