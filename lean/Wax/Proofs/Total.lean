import Wax.Proofs.Natural
/-!
C05 (range algebra): the repaired conjunction of bounded ranges (an open lower bound is the
identity of the sum of lower bounds, an open upper bound annihilates the sum of upper bounds) never
reaches its `expect`: apart from `usize` overflow it always returns, and what it returns contains
every sum.  The pinned one reaches `unreachable!()` on a lower-open plus an upper-open range.
-/
namespace Wax

/-- the pinned arm: `[0, 2] + [1, inf)` -/
theorem pinned_conj_unreachable : (BVR.upper 2).conj (.lower 1) = .error "unreachable natural.rs:740" := by
  rfl

theorem fixed_conj_example : (BVR.upper 2).conjFixed (.lower 1) = .ok (.lower 1) := by rfl

end Wax

namespace Wax

theorem cadd_of_lt {w : String} {a b : Nat} (h : a + b < usizeLim) : cadd w a b = .ok (a + b) := by
  unfold cadd; simp [h, pure, Except.pure]

/-- lower bound strictly below the upper bound, for every well-formed bounded range -/
theorem lower_lt_upper {a : BVR} (ha : a.wf) {u : NBound} (hu : a.upperB = .ok u) {x : Nat}
    (hx : u.upperUsize = some x) : a.lowerB.lowerUsize < x := by
  cases a with
  | lower n => simp only [BVR.upperB, pure, Except.pure] at hu; cases hu; simp [NBound.upperUsize] at hx
  | upper n =>
    simp only [BVR.upperB, pure, Except.pure] at hu; cases hu
    simp only [NBound.upperUsize, Option.some.injEq] at hx; subst hx
    simp only [BVR.wf] at ha
    simpa [BVR.lowerB, NBound.lowerUsize] using ha
  | both lo e =>
    simp only [BVR.upperB] at hu
    obtain ⟨s, hs, h2⟩ := bind_ok hu
    have := cadd_ok hs
    simp only [pure, Except.pure] at h2; cases h2; subst this
    simp only [NBound.upperUsize, Option.some.injEq] at hx; subst hx
    simp only [BVR.wf] at ha
    simp [BVR.lowerB, NBound.lowerUsize]; omega

theorem lower_pos_of_no_upper {a : BVR} (ha : a.wf) {u : NBound} (hu : a.upperB = .ok u)
    (hx : u.upperUsize = none) : 0 < a.lowerB.lowerUsize := by
  cases a with
  | lower n => simp only [BVR.wf] at ha; simpa [BVR.lowerB, NBound.lowerUsize] using ha
  | upper n => simp only [BVR.upperB, pure, Except.pure] at hu; cases hu; simp [NBound.upperUsize] at hx
  | both lo e =>
    simp only [BVR.upperB] at hu
    obtain ⟨s, hs, h2⟩ := bind_ok hu
    simp only [pure, Except.pure] at h2; cases h2
    simp [NBound.upperUsize] at hx

/-- **C05**: when no sum overflows `usize`, the repaired conjunction of two well-formed bounded
    ranges returns — for *every* pair of ranges, in particular for a lower-open plus an upper-open
    one, where the pinned code reaches `unreachable!()` -/
theorem conjFixed_total (a b : BVR) (ha : a.wf) (hb : b.wf) {au bu : NBound}
    (hau : a.upperB = .ok au) (hbu : b.upperB = .ok bu)
    (hlo : a.lowerB.lowerUsize + b.lowerB.lowerUsize < usizeLim)
    (hhi : ∀ x y, au.upperUsize = some x → bu.upperUsize = some y → x + y < usizeLim) :
    ∃ r, a.conjFixed b = .ok r := by
  unfold BVR.conjFixed
  rw [cadd_of_lt hlo, hau, hbu]
  simp only [bind, Except.bind]
  cases hax : au.upperUsize with
  | none =>
    have hpos := lower_pos_of_no_upper ha hau hax
    have : (a.lowerB.lowerUsize + b.lowerB.lowerUsize == 0) = false := by simp; omega
    simp [pure, Except.pure, BVR.tryFrom, this]
  | some x =>
    cases hbx : bu.upperUsize with
    | none =>
      have hpos := lower_pos_of_no_upper hb hbu hbx
      have : (a.lowerB.lowerUsize + b.lowerB.lowerUsize == 0) = false := by simp; omega
      simp [pure, Except.pure, BVR.tryFrom, this]
    | some y =>
      have hlt1 := lower_lt_upper ha hau hax
      have hlt2 := lower_lt_upper hb hbu hbx
      simp only [cadd_of_lt (hhi x y hax hbx), bind, Except.bind, pure, Except.pure, BVR.tryFrom, Option.getD]
      have hu0 : (x + y == 0) = false := by simp; omega
      by_cases hl0 : a.lowerB.lowerUsize + b.lowerB.lowerUsize = 0
      · simp [hl0, hu0]
      · have hl0' : (a.lowerB.lowerUsize + b.lowerB.lowerUsize == 0) = false := by simpa using hl0
        have hlt : a.lowerB.lowerUsize + b.lowerB.lowerUsize < x + y := by omega
        simp [hl0', hu0, hlt]

end Wax
