import Wax.Literals
import Wax.Proofs.Spans
import Wax.Proofs.ParseShape
import Wax.Proofs.Fuel
/-!
C17, last clause ("a capture's span delimits exactly the text of its sub-expression"), parser side.

* `parse_spans_tile`: in every concatenation of a parsed token tree (top level, every branch of an
  alternation, every repetition body) the token spans tile the span of the concatenation, the
  top-level concatenation spans the whole expression, branches lie strictly inside the braces of
  their alternation and are separated by exactly one byte, a repetition body lies strictly inside
  the angle brackets.
* `parse_spans_delims`: the text-aware refinement: the bytes next to the branches / the body are
  the delimiters `{` `,` `}` `<` `>` of the expression itself, and the first branch / the body
  starts exactly one byte after the start of the token unless the token begins with inline flags.
* `capture_order`: the captures of `Glob::captures` have strictly increasing, disjoint spans.
-/
set_option linter.unusedSimpArgs false
namespace Wax

/-! ### the predicate -/

/-- where the first token of a list starts -/
def headStart : List Tok → Nat
  | [] => 0
  | t :: _ => t.span.start

/-- the byte just after the span -/
def Span.fin (s : Span) : Nat := s.start + s.len

mutual
  /-- the spans of the tree tile:
  * `cat`: non-empty; the tokens are adjacent, non-empty, the first starts where the concatenation
    starts and the last ends where it ends;
  * `alt`: non-empty; every branch is a concatenation; the first branch starts after the start of
    the alternation (exactly one byte after it when there are no inline flags in front, see
    `delims`), consecutive branches are exactly one byte apart (the comma), the last branch ends
    exactly one byte (the closing brace) before the end of the alternation;
  * `rep`: the body is a concatenation that starts after the start of the repetition (one byte
    after it when there are no inline flags) and ends before its last byte (the bounds and `>`). -/
  def tiles : Tok → Bool
    | .alt sp bs => !bs.isEmpty && decide (sp.start < headStart bs) &&
        tilesAlt (headStart bs) sp.fin bs
    | .cat sp ts => !ts.isEmpty && tilesCat sp.start sp.fin ts
    | .rep sp b _ _ => decide (sp.start < b.span.start) && decide (b.span.fin < sp.fin) &&
        isCatT b && tiles b
    | _ => true
  /-- the tokens start at `pos`, are adjacent and non-empty, and the last one ends at `stop` -/
  def tilesCat (pos stop : Nat) : List Tok → Bool
    | [] => pos == stop
    | t :: ts => t.span.start == pos && decide (0 < t.span.len) && tiles t &&
        tilesCat t.span.fin stop ts
  /-- the first branch starts at `pos`, every branch is followed by exactly one byte, after which
  the next branch starts, or (after the last branch) which is the last byte before `stop` -/
  def tilesAlt (pos stop : Nat) : List Tok → Bool
    | [] => pos == stop
    | b :: bs => b.span.start == pos && isCatT b && tiles b && tilesAlt (b.span.fin + 1) stop bs
end

theorem tilesCat_append : ∀ (a b : List Tok) (p m s : Nat), tilesCat p m a = true →
    tilesCat m s b = true → tilesCat p s (a ++ b) = true
  | [], b, p, m, s, ha, hb => by
    simp only [tilesCat, beq_iff_eq] at ha; subst ha; exact hb
  | t :: a, b, p, m, s, ha, hb => by
    simp only [tilesCat, Bool.and_eq_true] at ha
    simp only [List.cons_append, tilesCat, Bool.and_eq_true]
    exact ⟨ha.1, tilesCat_append a b _ m s ha.2 hb⟩

theorem tilesAlt_append : ∀ (a b : List Tok) (p m s : Nat), tilesAlt p m a = true →
    tilesAlt m s b = true → tilesAlt p s (a ++ b) = true
  | [], b, p, m, s, ha, hb => by
    simp only [tilesAlt, beq_iff_eq] at ha; subst ha; exact hb
  | t :: a, b, p, m, s, ha, hb => by
    simp only [tilesAlt, Bool.and_eq_true] at ha
    simp only [List.cons_append, tilesAlt, Bool.and_eq_true]
    exact ⟨ha.1, tilesAlt_append a b _ m s ha.2 hb⟩

theorem tilesAlt_le : ∀ (bs : List Tok) (p s : Nat), tilesAlt p s bs = true → p ≤ s
  | [], p, s, h => by simp only [tilesAlt, beq_iff_eq] at h; omega
  | b :: bs, p, s, h => by
    simp only [tilesAlt, Bool.and_eq_true, beq_iff_eq] at h
    have := tilesAlt_le bs _ s h.2
    simp only [Span.fin] at this
    omega

theorem tilesAlt_lt : ∀ (bs : List Tok) (p s : Nat), bs ≠ [] → tilesAlt p s bs = true → p < s
  | [], _, _, hne, _ => absurd rfl hne
  | b :: bs, p, s, _, h => by
    simp only [tilesAlt, Bool.and_eq_true, beq_iff_eq] at h
    have := tilesAlt_le bs _ s h.2
    simp only [Span.fin] at this
    omega

theorem headStart_append (a b : List Tok) (h : a ≠ []) : headStart (a ++ b) = headStart a := by
  cases a with
  | nil => exact absurd rfl h
  | cons t a => rfl

/-! ### one-character tags -/

theorem tag1 {i j : Input} {t : String} {a : Char} (ht : t.toList = [a]) (h : i.tag t = some j) :
    i.rest = a :: j.rest ∧ j.loc = i.loc + a.utf8Size ∧ j.ci = i.ci ∧ j.sub = i.sub := by
  unfold Input.tag at h
  dsimp only at h
  rw [ht] at h
  split at h
  · rename_i hp
    injection h with h; subst h
    cases hr : i.rest with
    | nil => simp [hr, List.isPrefixOf] at hp
    | cons c cs =>
      rw [hr] at hp
      simp only [List.isPrefixOf, Bool.and_eq_true, beq_iff_eq] at hp
      have hc : a = c := hp.1
      subst hc
      simp [Input.adv, hr]
  · cases h

theorem tag1_loc {i j : Input} {t : String} {a : Char} (ht : t.toList = [a]) (h1 : a.utf8Size = 1)
    (h : i.tag t = some j) : j.loc = i.loc + 1 := by
  rw [(tag1 ht h).2.1, h1]

/-! ### the fuel induction -/

structure TInv (fuel : Nat) : Prop where
  glob : ∀ t i tok j, parseGlob fuel t i = some (tok, j) →
    tok.span.start = i.loc ∧ tok.span.fin = j.loc ∧ isCatT tok = true ∧ tiles tok = true
  tokens : ∀ t i acc toks j, parseTokens fuel t i acc = some (toks, j) →
    ∀ p, tilesCat p i.loc acc = true → tilesCat p j.loc toks = true
  token : ∀ t i tok j, parseToken fuel t i = some (tok, j) →
    tok.span = ⟨i.loc, j.loc - i.loc⟩ ∧ tiles tok = true
  rep : ∀ i body lo hi j, parseRepetition fuel i = some (body, lo, hi, j) →
    body.span.start = i.loc + 1 ∧ body.span.fin < j.loc ∧ isCatT body = true ∧ tiles body = true
  alt : ∀ i bs j, parseAlternation fuel i = some (bs, j) →
    bs ≠ [] ∧ headStart bs = i.loc + 1 ∧ tilesAlt (i.loc + 1) j.loc bs = true
  branches : ∀ i acc bs j, parseBranches fuel i acc = (bs, j) → acc ≠ [] →
    bs ≠ [] ∧ headStart bs = headStart acc ∧
      ∀ p, tilesAlt p (i.loc + 1) acc = true → tilesAlt p (j.loc + 1) bs = true

theorem tinv_zero : TInv 0 where
  glob := by intro t i tok j h; simp [parseGlob] at h
  tokens := by
    intro t i acc toks j h p ha
    simp only [parseTokens, Option.some.injEq, Prod.mk.injEq] at h
    obtain ⟨rfl, rfl⟩ := h; exact ha
  token := by intro t i tok j h; simp [parseToken] at h
  rep := by intro i body lo hi j h; simp [parseRepetition] at h
  alt := by intro i bs j h; simp [parseAlternation] at h
  branches := by
    intro i acc bs j h hne
    simp only [parseBranches, Prod.mk.injEq] at h
    obtain ⟨rfl, rfl⟩ := h; exact ⟨hne, rfl, fun p hp => hp⟩

theorem tinv_succ (fuel : Nat) (ih : TInv fuel) : TInv (fuel + 1) where
  glob := by
    intro t i0 tok j h
    rw [parseGlob] at h
    dsimp only at h
    split at h
    · cases h
    · rename_i toks k hk
      have A : Adv { i0 with sub := i0.loc } k :=
        ((inv_all _ fuel).tokens _ _ _ _ _ hk (wf_some _) trivial).1
      have hle : i0.loc ≤ k.loc := A.le
      have hts := ih.tokens _ _ _ _ _ hk i0.loc (by simp [tilesCat])
      split at h
      · cases h
      · rename_i hne
        split at h
        · injection h with h; injection h with h1 h2; subst h1 h2
          have hne' : toks.isEmpty = false := by simpa using hne
          refine ⟨rfl, ?_, rfl, ?_⟩
          · show i0.loc + (k.loc - i0.loc) = k.loc
            omega
          · have e : (⟨i0.loc, k.loc - i0.loc⟩ : Span).fin = k.loc := by
              show i0.loc + (k.loc - i0.loc) = k.loc
              omega
            simp only [tiles, hne', e, Bool.not_false, Bool.true_and]
            exact hts
        · cases h
  tokens := by
    intro t i acc toks j h p ha
    rw [parseTokens] at h
    split at h
    · rename_i tok k hk
      obtain ⟨hsp, ht⟩ := ih.token _ _ _ _ hk
      have hle := (token_Adv hk).le
      split at h
      · injection h with h; injection h with h1 h2; subst h1 h2; exact ha
      · rename_i hne
        refine ih.tokens _ _ _ _ _ h p (tilesCat_append acc [tok] p i.loc k.loc ha ?_)
        have hne' : k.loc ≠ i.loc := by simpa using hne
        simp only [tilesCat, hsp, Span.fin, ht, Bool.and_eq_true, beq_iff_eq, decide_eq_true_eq]
        refine ⟨⟨⟨trivial, ?_⟩, trivial⟩, ?_⟩ <;> omega
    · injection h with h; injection h with h1 h2; subst h1 h2; exact ha
  token := by
    intro t i tok j h
    rw [parseToken] at h
    dsimp only at h
    have Af : Adv i (flagsS i) := flags_Adv _ _ _
    have hfl := Af.le
    split at h
    · injection h with h; injection h with h1 h2; subst h1 h2; exact ⟨rfl, rfl⟩
    · split at h
      · rename_i body lo hi k hk
        injection h with h; injection h with h1 h2; subst h1 h2
        obtain ⟨h1, h2, h3, h4⟩ := ih.rep _ _ _ _ _ hk
        refine ⟨rfl, ?_⟩
        simp only [tiles, h3, h4, Bool.and_eq_true, decide_eq_true_eq, and_true]
        simp only [Span.fin] at h2 ⊢
        omega
      · split at h
        · rename_i bs k hk
          injection h with h; injection h with h1 h2; subst h1 h2
          obtain ⟨h1, h2, h3⟩ := ih.alt _ _ _ hk
          have : bs.isEmpty = false := by cases bs <;> simp_all
          have hjl : (flagsS i).loc + 1 < k.loc := tilesAlt_lt _ _ _ h1 h3
          refine ⟨rfl, ?_⟩
          have e : (⟨i.loc, k.loc - i.loc⟩ : Span).fin = k.loc := by
            show i.loc + (k.loc - i.loc) = k.loc
            omega
          simp only [tiles, this, h2, e, h3, Bool.not_false, Bool.true_and, Bool.and_true,
            decide_eq_true_eq]
          omega
        · split at h
          · injection h with h; injection h with h1 h2; subst h1 h2; exact ⟨rfl, rfl⟩
          · injection h with h; injection h with h1 h2; subst h1 h2; exact ⟨rfl, rfl⟩
          · injection h with h; injection h with h1 h2; subst h1 h2; exact ⟨rfl, rfl⟩
          · split at h
            · injection h with h; injection h with h1 h2; subst h1 h2; exact ⟨rfl, rfl⟩
            · split at h
              · injection h with h; injection h with h1 h2; subst h1 h2; exact ⟨rfl, rfl⟩
              · cases h
  rep := by
    intro i body lo hi j h
    rw [parseRepetition] at h
    split at h
    · cases h
    · rename_i a ha
      have hal := tag1_loc (a := '<') (by decide) (by decide) ha
      split at h
      · cases h
      · rename_i b k hk
        obtain ⟨h1, h2, h3, h4⟩ := ih.glob _ _ _ _ hk
        have A3 := (parseBounds_Adv k).le
        generalize parseBounds k = R at h A3
        obtain ⟨lo', hi', l⟩ := R
        dsimp only at h A3
        split at h
        · rename_i m hm
          have hml := tag1_loc (a := '>') (by decide) (by decide) hm
          injection h with h; injection h with e1 h; injection h with e2 h; injection h with e3 e4
          subst e1 e4
          refine ⟨by rw [h1, hal], ?_, h3, h4⟩
          omega
        · cases h
  alt := by
    intro i bs j h
    rw [parseAlternation] at h
    split at h
    · cases h
    · rename_i a ha
      have hal := tag1_loc (a := '{') (by decide) (by decide) ha
      split at h
      · cases h
      · rename_i b k hk
        obtain ⟨h1, h2, h3, h4⟩ := ih.glob _ _ _ _ hk
        have hB := ih.branches k [b]
        generalize parseBranches fuel k [b] = R at h hB
        obtain ⟨bs', l⟩ := R
        obtain ⟨g1, g2, g3⟩ := hB bs' l rfl (by simp)
        dsimp only at h
        split at h
        · rename_i m hm
          have hml := tag1_loc (a := '}') (by decide) (by decide) hm
          injection h with h; injection h with e1 e2; subst e1 e2
          refine ⟨g1, by rw [g2]; simp only [headStart]; rw [h1, hal], ?_⟩
          rw [hml]
          apply g3
          simp only [tilesAlt, h1, hal, h2, h3, h4, beq_self_eq_true, Bool.and_self]
        · cases h
  branches := by
    intro i acc bs j h hne
    rw [parseBranches] at h
    split at h
    · injection h with h1 h2; subst h1 h2; exact ⟨hne, rfl, fun p hp => hp⟩
    · rename_i a haa
      have hal := tag1_loc (a := ',') (by decide) (by decide) haa
      split at h
      · injection h with h1 h2; subst h1 h2; exact ⟨hne, rfl, fun p hp => hp⟩
      · rename_i b k hk
        obtain ⟨h1, h2, h3, h4⟩ := ih.glob _ _ _ _ hk
        obtain ⟨g1, g2, g3⟩ := ih.branches _ _ _ _ h (by simp)
        refine ⟨g1, by rw [g2, headStart_append _ _ hne], ?_⟩
        intro p hp
        apply g3
        refine tilesAlt_append acc [b] p (i.loc + 1) (k.loc + 1) hp ?_
        simp only [tilesAlt, h1, hal, h2, h3, h4, beq_self_eq_true, Bool.and_self]

theorem tinv_all : ∀ fuel, TInv fuel
  | 0 => tinv_zero
  | n + 1 => tinv_succ n (tinv_all n)

/-- the shape of a successful parse, with everything the fuel inductions need -/
theorem parse_ok_inv {e : Str} {t : Tok} (h : parse e = .ok t) :
    (e = [] ∧ t = .lit ⟨0, 0⟩ [] false) ∨
    ∃ toks j, e ≠ [] ∧ t = .cat ⟨0, ulen e⟩ toks ∧ toks ≠ [] ∧ j.rest = [] ∧ j.loc = ulen e ∧
      parseTokens (4 * e.length + 8) .eof { rest := e, loc := 0, ci := false, sub := 0 } [] =
        some (toks, j) := by
  unfold parse at h
  split at h
  · rename_i he
    injection h with h; subst h
    left; exact ⟨by simpa using he, rfl⟩
  · rename_i he
    dsimp only at h
    split at h
    · cases h
    · rename_i toks j hj
      have hw : WF e { rest := e, loc := 0, ci := false, sub := 0 } := ⟨[], rfl, rfl⟩
      obtain ⟨A, _⟩ := (inv_all e _).tokens _ _ _ _ _ hj hw trivial
      split at h
      · cases h
      · rename_i hne
        split at h
        · rename_i hr
          injection h with h; subst h
          have hr' : j.rest = [] := by simpa using hr
          obtain ⟨pre, hp, hl⟩ := hw.adv A
          rw [hr', List.append_nil] at hp
          subst hp
          right
          exact ⟨toks, j, by simpa using he, by rw [hl], by simpa using hne, hr', hl, hj⟩
        · cases h

/-- **C17, spans tile**: for every expression that parses, the spans of the token tree tile
(`tiles`: adjacency in every concatenation at every depth, branches inside the braces one byte
apart, repetition bodies inside the angle brackets), and the root spans the whole expression. -/
theorem parse_spans_tile (e : Str) (t : Tok) (h : parse e = .ok t) :
    tiles t = true ∧ t.span = ⟨0, ulen e⟩ := by
  rcases parse_ok_inv h with ⟨rfl, rfl⟩ | ⟨toks, j, _, rfl, hne, _, hl, hj⟩
  · exact ⟨rfl, rfl⟩
  · refine ⟨?_, rfl⟩
    have hts := (tinv_all _).tokens _ _ _ _ _ hj 0 (by simp [tilesCat])
    have : toks.isEmpty = false := by cases toks <;> simp_all
    simp only [tiles, this, Span.fin, Bool.not_false, Bool.true_and, Nat.zero_add]
    rw [← hl]; exact hts

-- non-vacuity, and the shape on the examples of the task
example : (parse "a/**/{b,(?i)c}<d:1,2>".toList).isOk = true := by decide
example : ∃ t, parse "a/**/{b,(?i)c}<d:1,2>".toList = .ok t ∧ tiles t = true := by
  have hok : (parse "a/**/{b,(?i)c}<d:1,2>".toList).isOk = true := by decide
  cases h : parse "a/**/{b,(?i)c}<d:1,2>".toList with
  | ok t => exact ⟨t, rfl, (parse_spans_tile _ t h).1⟩
  | err l => rw [h] at hok; cases hok

/-- `tiles` is not trivially true: a gap between two tokens, an overlap, a branch that touches the
brace, are all rejected -/
example : tiles (.cat ⟨0, 3⟩ [.lit ⟨0, 1⟩ ['a'] false, .lit ⟨2, 1⟩ ['b'] false]) = false := by decide
example : tiles (.cat ⟨0, 2⟩ [.lit ⟨0, 2⟩ ['a'] false, .lit ⟨1, 1⟩ ['b'] false]) = false := by decide
example : tiles (.alt ⟨0, 2⟩ [.cat ⟨0, 1⟩ [.lit ⟨0, 1⟩ ['a'] false]]) = false := by decide
example : tiles (.alt ⟨0, 3⟩ [.cat ⟨1, 1⟩ [.lit ⟨1, 1⟩ ['a'] false]]) = true := by decide

/-! ### the order of the captures -/

theorem tilesCat_le : ∀ (ts : List Tok) (p s : Nat), tilesCat p s ts = true → p ≤ s
  | [], p, s, h => by simp only [tilesCat, beq_iff_eq] at h; omega
  | t :: ts, p, s, h => by
    simp only [tilesCat, Bool.and_eq_true, beq_iff_eq] at h
    have := tilesCat_le ts _ s h.2
    simp only [Span.fin] at this
    omega

theorem capturesFrom_tiles : ∀ (ts : List Tok) (n p s : Nat), tilesCat p s ts = true →
    (capturesFrom n ts).map Prod.fst = List.range' n (capturesFrom n ts).length ∧
    (capturesFrom n ts).Pairwise (fun a b => a.1 < b.1 ∧ a.2.fin ≤ b.2.start) ∧
    ∀ c ∈ capturesFrom n ts, n ≤ c.1 ∧ p ≤ c.2.start ∧ 0 < c.2.len ∧ c.2.fin ≤ s
  | [], n, p, s, _ => by simp [capturesFrom]
  | t :: ts, n, p, s, h => by
    simp only [tilesCat, Bool.and_eq_true, beq_iff_eq, decide_eq_true_eq] at h
    obtain ⟨⟨⟨h1, h2⟩, _⟩, h3⟩ := h
    have hle := tilesCat_le ts _ s h3
    rw [capturesFrom]
    split
    · obtain ⟨g1, g2, g3⟩ := capturesFrom_tiles ts (n + 1) _ s h3
      refine ⟨?_, ?_, ?_⟩
      · simp only [List.map_cons, List.length_cons, List.range'_succ, g1]
      · rw [List.pairwise_cons]
        refine ⟨?_, g2⟩
        intro c hc
        obtain ⟨c1, c2, _, _⟩ := g3 c hc
        exact ⟨by show n < c.1; omega, c2⟩
      · intro c hc
        rw [List.mem_cons] at hc
        rcases hc with rfl | hc
        · exact ⟨Nat.le_refl _, by show p ≤ t.span.start; omega, h2, hle⟩
        · obtain ⟨c1, c2, c3, c4⟩ := g3 c hc
          simp only [Span.fin] at c2
          exact ⟨by omega, by omega, c3, c4⟩
    · obtain ⟨g1, g2, g3⟩ := capturesFrom_tiles ts n _ s h3
      refine ⟨g1, g2, ?_⟩
      intro c hc
      obtain ⟨c1, c2, c3, c4⟩ := g3 c hc
      simp only [Span.fin] at c2
      exact ⟨c1, by omega, c3, c4⟩

/-- **C17, capture order**: the captures `Glob::captures` reports (the capturing tokens of the
top-level concatenation: wildcards, classes, alternations, repetitions) are numbered `1, 2, …, n`
in the order of the text: the span of a capture ends at or before the start of the span of every
capture with a larger index (so spans strictly increase and never overlap), every capture span is
non-empty and lies within the expression. -/
theorem capture_order (e : Str) (t : Tok) (h : parse e = .ok t) :
    (captures t).map Prod.fst = List.range' 1 (captures t).length ∧
    (captures t).Pairwise (fun a b => a.1 < b.1 ∧ a.2.fin ≤ b.2.start) ∧
    ∀ c ∈ captures t, 0 < c.2.len ∧ c.2.fin ≤ ulen e := by
  rcases parse_ok_inv h with ⟨rfl, rfl⟩ | ⟨toks, j, _, rfl, hne, _, hl, hj⟩
  · simp [captures, Tok.concatenation, capturesFrom, Tok.isCapturing]
  · have hts := (tinv_all _).tokens _ _ _ _ _ hj 0 (by simp [tilesCat])
    obtain ⟨g1, g2, g3⟩ := capturesFrom_tiles toks 1 0 _ hts
    refine ⟨g1, g2, ?_⟩
    intro c hc
    obtain ⟨_, _, c3, c4⟩ := g3 c hc
    exact ⟨c3, by rw [← hl]; exact c4⟩

/-- consequence: strictly increasing starts -/
theorem capture_starts_increasing (e : Str) (t : Tok) (h : parse e = .ok t) :
    (captures t).Pairwise (fun a b => a.2.start < b.2.start) := by
  obtain ⟨_, g2, g3⟩ := capture_order e t h
  refine List.Pairwise.imp_of_mem ?_ g2
  intro a b ha _ hab
  have := (g3 a ha).1
  have := hab.2
  simp only [Span.fin] at this
  omega

/-- the value a predicate takes on the parsed tree (`false` when the expression does not parse) -/
def onParsed (e : String) (f : Tok → Bool) : Bool :=
  match parse e.toList with
  | .ok t => f t
  | .err _ => false

example : onParsed "a/**/{b,(?i)c}<d:1,2>[x]" (fun t =>
    (captures t).map (fun c => (c.1, c.2.start, c.2.len)) ==
      [(1, 1, 4), (2, 5, 9), (3, 14, 7), (4, 21, 3)]) = true := by decide

/-! ### the delimiters, in the text -/

/-- the character of `e` that starts at byte offset `n` (`none` inside a character or outside) -/
def charAt : Str → Nat → Option Char
  | [], _ => none
  | c :: cs, n => if n = 0 then some c else if n < c.utf8Size then none else charAt cs (n - c.utf8Size)

theorem ulen_cons (c : Char) (s : Str) : ulen (c :: s) = c.utf8Size + ulen s := by
  simp [ulen]

theorem charAt_append : ∀ (pre : Str) (c : Char) (r : Str), charAt (pre ++ c :: r) (ulen pre) = some c
  | [], c, r => by simp [charAt, ulen]
  | a :: pre, c, r => by
    have hp := Char.utf8Size_pos a
    rw [List.cons_append, charAt, ulen_cons]
    rw [if_neg (by omega), if_neg (by omega), Nat.add_sub_cancel_left]
    exact charAt_append pre c r

theorem WF.char_at {e : Str} {i : Input} {c : Char} {r : Str} (h : WF e i) (hr : i.rest = c :: r) :
    charAt e i.loc = some c := by
  obtain ⟨pre, he, hl⟩ := h
  rw [he, hl, hr]; exact charAt_append pre c r

theorem WF.char_at2 {e : Str} {i : Input} {c d : Char} {r : Str} (h : WF e i) (hr : i.rest = c :: d :: r)
    (hc : c.utf8Size = 1) : charAt e (i.loc + 1) = some d := by
  obtain ⟨pre, he, hl⟩ := h
  have : e = (pre ++ [c]) ++ d :: r := by rw [he, hr]; simp
  rw [this, hl]
  have h2 : ulen pre + 1 = ulen (pre ++ [c]) := by rw [ulen_append, ulen_cons, hc]; rfl
  rw [h2]; exact charAt_append _ d r

/-- how a delimited token (`{…}` with `d = '{'`, `<…>` with `d = '<'`) opens: the byte before its
content (`inner`) is the delimiter, and either the token starts with the delimiter and the content
one byte later, or the token starts with inline flags `(?` -/
def opens (e : Str) (sp : Span) (d : Char) (inner : Nat) : Bool :=
  charAt e (inner - 1) == some d &&
    ((charAt e sp.start == some d && inner == sp.start + 1) ||
     (charAt e sp.start == some '(' && charAt e (sp.start + 1) == some '?'))

mutual
  /-- the delimiters of the tree are where the text has them:
  * `alt`: `opens` with `{`; every branch but the last is followed by `,`, the last by `}`;
  * `rep`: `opens` with `<`; the body is followed by `:` or `>`; the last byte of the token is `>`. -/
  def delims (e : Str) : Tok → Bool
    | .alt sp bs => opens e sp '{' (headStart bs) && delimsAlt e '}' bs
    | .cat _ ts => delimsL e ts
    | .rep sp b _ _ => opens e sp '<' b.span.start &&
        (charAt e b.span.fin == some ':' || charAt e b.span.fin == some '>') &&
        charAt e (sp.fin - 1) == some '>' && delims e b
    | _ => true
  def delimsL (e : Str) : List Tok → Bool
    | [] => true
    | t :: ts => delims e t && delimsL e ts
  /-- every branch but the last is followed by `,`, the last by `close` -/
  def delimsAlt (e : Str) (close : Char) : List Tok → Bool
    | [] => true
    | b :: bs => delims e b && charAt e b.span.fin == some (if bs.isEmpty then close else ',') &&
        delimsAlt e close bs
end

theorem delimsL_append (e : Str) : ∀ (a b : List Tok), delimsL e (a ++ b) = (delimsL e a && delimsL e b)
  | [], b => by simp [delimsL]
  | t :: a, b => by simp [delimsL, delimsL_append e a b, Bool.and_assoc]

theorem delimsAlt_snoc (e : Str) (c : Char) (b : Tok) (hb : delims e b = true)
    (hc : charAt e b.span.fin = some c) : ∀ (acc : List Tok), delimsAlt e ',' acc = true →
    delimsAlt e c (acc ++ [b]) = true
  | [], _ => by simp [delimsAlt, hb, hc]
  | a :: acc, h => by
    simp only [delimsAlt, Bool.and_eq_true, beq_iff_eq] at h
    have ha : charAt e a.span.fin = some ',' := by
      have := h.1.2; split at this <;> exact this
    simp only [List.cons_append, delimsAlt, Bool.and_eq_true, beq_iff_eq]
    refine ⟨⟨h.1.1, ?_⟩, delimsAlt_snoc e c b hb hc acc h.2⟩
    have : (acc ++ [b]).isEmpty = false := by cases acc <;> rfl
    rw [this]; exact ha

/-- `flagsS` either consumes nothing or the input begins with `(?` -/
theorem flags_start (st : Bool) (n : Nat) (i : Input) :
    flags st n i = i ∨ ∃ r, i.rest = '(' :: '?' :: r := by
  cases n with
  | zero => left; rfl
  | succ n =>
    rw [flags]
    split
    · left; rfl
    · rename_i j hj
      right
      unfold Input.tag at hj
      dsimp only at hj
      split at hj
      · rename_i hp
        have e2 : "(?".toList = ['(', '?'] := by decide
        rw [e2] at hp
        cases hr : i.rest with
        | nil => simp [hr, List.isPrefixOf] at hp
        | cons c cs =>
          cases cs with
          | nil => simp [hr, List.isPrefixOf] at hp
          | cons d ds =>
            rw [hr] at hp
            simp only [List.isPrefixOf, Bool.and_eq_true, beq_iff_eq] at hp
            obtain ⟨h1, h2, _⟩ := hp
            exact ⟨ds, by rw [← h1, ← h2]⟩
      · cases hj

theorem opens_of {e : Str} {i : Input} {d : Char} {r : Str} {j : Input} (hw : WF e i)
    (hr : (flagsS i).rest = d :: r) :
    opens e ⟨i.loc, j.loc - i.loc⟩ d ((flagsS i).loc + 1) = true := by
  have hwf : WF e (flagsS i) := hw.adv (flags_Adv _ _ _)
  have h1 := hwf.char_at hr
  simp only [opens, Nat.add_sub_cancel, h1, beq_self_eq_true, Bool.true_and, Bool.or_eq_true,
    Bool.and_eq_true, beq_iff_eq]
  rcases flags_start true i.rest.length i with h | ⟨r', hr'⟩
  · left
    have : flagsS i = i := h
    rw [this] at h1
    exact ⟨h1, by rw [this]⟩
  · right
    exact ⟨hw.char_at hr', hw.char_at2 hr' (by decide)⟩

theorem term_altT {i : Input} (h : i.term .altT = true) :
    ∃ c r, i.rest = c :: r ∧ (c = ',' ∨ c = '}') := by
  simp only [Input.term] at h
  split at h
  · rename_i c r hr
    simp only [Bool.or_eq_true, beq_iff_eq] at h
    exact ⟨c, r, hr, h⟩
  · cases h

theorem term_repT {i : Input} (h : i.term .repT = true) :
    ∃ c r, i.rest = c :: r ∧ (c = ':' ∨ c = '>') := by
  simp only [Input.term] at h
  split at h
  · rename_i c r hr
    simp only [Bool.or_eq_true, beq_iff_eq] at h
    exact ⟨c, r, hr, h⟩
  · cases h

structure DInv (e : Str) (fuel : Nat) : Prop where
  glob : ∀ t i tok j, parseGlob fuel t i = some (tok, j) → WF e i →
    delims e tok = true ∧ j.term t = true
  tokens : ∀ t i acc toks j, parseTokens fuel t i acc = some (toks, j) → WF e i →
    delimsL e acc = true → delimsL e toks = true
  token : ∀ t i tok j, parseToken fuel t i = some (tok, j) → WF e i → delims e tok = true
  rep : ∀ i body lo hi j, parseRepetition fuel i = some (body, lo, hi, j) → WF e i →
    delims e body = true ∧ (∃ r, i.rest = '<' :: r) ∧ charAt e (j.loc - 1) = some '>' ∧
      (charAt e body.span.fin = some ':' ∨ charAt e body.span.fin = some '>')
  alt : ∀ i bs j, parseAlternation fuel i = some (bs, j) → WF e i →
    (∃ r, i.rest = '{' :: r) ∧ delimsAlt e '}' bs = true
  branches : ∀ i acc bs j, parseBranches fuel i acc = (bs, j) → WF e i →
    (∀ c, charAt e i.loc = some c → delimsAlt e c acc = true) →
    (∀ c, charAt e j.loc = some c → delimsAlt e c bs = true)

theorem dinv_zero (e : Str) : DInv e 0 where
  glob := by intro t i tok j h; simp [parseGlob] at h
  tokens := by
    intro t i acc toks j h _ ha
    simp only [parseTokens, Option.some.injEq, Prod.mk.injEq] at h
    obtain ⟨rfl, rfl⟩ := h; exact ha
  token := by intro t i tok j h; simp [parseToken] at h
  rep := by intro i body lo hi j h; simp [parseRepetition] at h
  alt := by intro i bs j h; simp [parseAlternation] at h
  branches := by
    intro i acc bs j h _ ha
    simp only [parseBranches, Prod.mk.injEq] at h
    obtain ⟨rfl, rfl⟩ := h; exact ha

theorem dinv_succ (e : Str) (fuel : Nat) (ih : DInv e fuel) : DInv e (fuel + 1) where
  glob := by
    intro t i0 tok j h hw
    rw [parseGlob] at h
    dsimp only at h
    split at h
    · cases h
    · rename_i toks k hk
      have hw' : WF e { i0 with sub := i0.loc } := hw
      have hts := ih.tokens _ _ _ _ _ hk hw' rfl
      split at h
      · cases h
      · split at h
        · rename_i ht
          injection h with h; injection h with h1 h2; subst h1 h2
          exact ⟨by simpa only [delims] using hts, ht⟩
        · cases h
  tokens := by
    intro t i acc toks j h hw ha
    rw [parseTokens] at h
    split at h
    · rename_i tok k hk
      have ht := ih.token _ _ _ _ hk hw
      split at h
      · injection h with h; injection h with h1 h2; subst h1 h2; exact ha
      · refine ih.tokens _ _ _ _ _ h (hw.adv (token_Adv hk)) ?_
        rw [delimsL_append]; simp [delimsL, ha, ht]
    · injection h with h; injection h with h1 h2; subst h1 h2; exact ha
  token := by
    intro t i tok j h hw
    rw [parseToken] at h
    dsimp only at h
    have Af : Adv i (flagsS i) := flags_Adv _ _ _
    have hwf : WF e (flagsS i) := hw.adv Af
    split at h
    · injection h with h; injection h with h1 h2; subst h1 h2; rfl
    · split at h
      · rename_i body lo hi k hk
        injection h with h; injection h with h1 h2; subst h1 h2
        obtain ⟨h1, ⟨r, hr⟩, h3, h4⟩ := ih.rep _ _ _ _ _ hk hwf
        obtain ⟨g1, g2, _, _⟩ := (tinv_all fuel).rep _ _ _ _ _ hk
        have hle : i.loc ≤ k.loc := by
          have := Af.le
          simp only [Span.fin] at g2
          omega
        have e1 : (⟨i.loc, k.loc - i.loc⟩ : Span).fin = k.loc := by
          show i.loc + (k.loc - i.loc) = k.loc
          omega
        have ho := opens_of (j := k) hw hr
        rw [← g1] at ho
        simp only [delims, ho, e1, h3, h1, Bool.true_and, Bool.and_true, Bool.or_eq_true,
          beq_self_eq_true, beq_iff_eq]
        exact h4
      · split at h
        · rename_i bs k hk
          injection h with h; injection h with h1 h2; subst h1 h2
          obtain ⟨⟨r, hr⟩, h2⟩ := ih.alt _ _ _ hk hwf
          obtain ⟨_, g2, _⟩ := (tinv_all fuel).alt _ _ _ hk
          have ho := opens_of (j := k) hw hr
          rw [← g2] at ho
          simp only [delims, ho, h2, Bool.and_self]
        · split at h
          · injection h with h; injection h with h1 h2; subst h1 h2; rfl
          · injection h with h; injection h with h1 h2; subst h1 h2; rfl
          · injection h with h; injection h with h1 h2; subst h1 h2; rfl
          · split at h
            · injection h with h; injection h with h1 h2; subst h1 h2; rfl
            · split at h
              · injection h with h; injection h with h1 h2; subst h1 h2; rfl
              · cases h
  rep := by
    intro i body lo hi j h hw
    rw [parseRepetition] at h
    split at h
    · cases h
    · rename_i a ha
      have A1 := tag_Adv ha
      obtain ⟨hr, _⟩ := tag1 (a := '<') (by decide) ha
      split at h
      · cases h
      · rename_i b k hk
        obtain ⟨hb, hterm⟩ := ih.glob _ _ _ _ hk (hw.adv A1)
        obtain ⟨_, g2, _, _⟩ := (tinv_all fuel).glob _ _ _ _ hk
        have hwk := (hw.adv A1).adv (glob_Adv hk)
        obtain ⟨c, r, hcr, hc⟩ := term_repT hterm
        have hch := hwk.char_at hcr
        have A3 := parseBounds_Adv k
        generalize parseBounds k = R at h A3
        obtain ⟨lo', hi', l⟩ := R
        dsimp only at h A3
        split at h
        · rename_i m hm
          obtain ⟨hmr, hml, _⟩ := tag1 (a := '>') (by decide) hm
          have hgt := (hwk.adv A3).char_at hmr
          injection h with h; injection h with e1 h; injection h with e2 h; injection h with e3 e4
          subst e1 e4
          refine ⟨hb, ⟨_, hr⟩, ?_, ?_⟩
          · rw [hml]
            have : ('>' : Char).utf8Size = 1 := by decide
            rw [this, Nat.add_sub_cancel]; exact hgt
          · rw [g2]
            rcases hc with rfl | rfl
            · left; exact hch
            · right; exact hch
        · cases h
  alt := by
    intro i bs j h hw
    rw [parseAlternation] at h
    split at h
    · cases h
    · rename_i a ha
      have A1 := tag_Adv ha
      obtain ⟨hr, _⟩ := tag1 (a := '{') (by decide) ha
      split at h
      · cases h
      · rename_i b k hk
        obtain ⟨hb, _⟩ := ih.glob _ _ _ _ hk (hw.adv A1)
        obtain ⟨_, g2, _, _⟩ := (tinv_all fuel).glob _ _ _ _ hk
        have hwk := (hw.adv A1).adv (glob_Adv hk)
        have hB := ih.branches k [b]
        have A3 : ∀ bs' l, parseBranches fuel k [b] = (bs', l) → Adv k l := by
          intro bs' l hbl
          exact ((inv_all e fuel).branches _ _ _ _ hbl hwk
            ⟨((inv_all e fuel).glob _ _ _ _ hk (hw.adv A1)).2, trivial⟩).1
        generalize parseBranches fuel k [b] = R at h hB A3
        obtain ⟨bs', l⟩ := R
        have hB' := hB bs' l rfl hwk (by
          intro c hc
          simp only [delimsAlt, hb, g2, hc, List.isEmpty_nil, if_true, beq_self_eq_true,
            Bool.and_self])
        dsimp only at h
        split at h
        · rename_i m hm
          obtain ⟨hmr, _⟩ := tag1 (a := '}') (by decide) hm
          injection h with h; injection h with e1 e2; subst e1 e2
          exact ⟨⟨_, hr⟩, hB' '}' ((hwk.adv (A3 _ _ rfl)).char_at hmr)⟩
        · cases h
  branches := by
    intro i acc bs j h hw ha
    rw [parseBranches] at h
    split at h
    · injection h with h1 h2; subst h1 h2; exact ha
    · rename_i a haa
      have A1 := tag_Adv haa
      obtain ⟨hr, _⟩ := tag1 (a := ',') (by decide) haa
      split at h
      · injection h with h1 h2; subst h1 h2; exact ha
      · rename_i b k hk
        obtain ⟨hb, _⟩ := ih.glob _ _ _ _ hk (hw.adv A1)
        obtain ⟨_, g2, _, _⟩ := (tinv_all fuel).glob _ _ _ _ hk
        have hwk := (hw.adv A1).adv (glob_Adv hk)
        refine ih.branches _ _ _ _ h hwk ?_
        intro c hc
        exact delimsAlt_snoc e c b hb (by rw [g2]; exact hc) acc (ha ',' (hw.char_at hr))

theorem dinv_all (e : Str) : ∀ fuel, DInv e fuel
  | 0 => dinv_zero e
  | n + 1 => dinv_succ e n (dinv_all e n)

/-- **C17, the delimiters are in the text**: for every expression that parses, the bytes that the
tiling leaves out around the branches of an alternation and the body of a repetition are the
delimiters `{` `,` `}` `<` `>` (`:`) of the expression, and the first branch / the body starts
exactly one byte after the start of the token unless the token begins with inline flags `(?`. -/
theorem parse_spans_delims (e : Str) (t : Tok) (h : parse e = .ok t) : delims e t = true := by
  rcases parse_ok_inv h with ⟨rfl, rfl⟩ | ⟨toks, j, _, rfl, hne, _, hl, hj⟩
  · rfl
  · have hw : WF e { rest := e, loc := 0, ci := false, sub := 0 } := ⟨[], rfl, rfl⟩
    simpa only [delims] using (dinv_all e _).tokens _ _ _ _ _ hj hw rfl

example : onParsed "a/**/{b,(?i)c}(?i)<d:1,2>" (fun t => delims "a/**/{b,(?i)c}(?i)<d:1,2>".toList t)
    = true := by decide
-- `delims` does reject trees whose spans point at other bytes
example : delims "{a,b}".toList (.alt ⟨0, 5⟩ [.cat ⟨1, 1⟩ [], .cat ⟨2, 1⟩ []]) = false := by decide

end Wax
