import Wax.GeneratedJoin
import Wax.Path
/-! The tie by TRANSLATION (src/walk/mod.rs, join_and_get_depth): `tools/rs2lean.py` has just translated these straight-line integer functions of the Rust
source into `Wax/GeneratedJoin.lean`. Each theorem says that the hand-written model IS the translated function, for all arguments; an edit
of the source that changes what one of them computes makes the proof fail here, naming the function; an edit outside the
translatable fragment leaves the function out of the generated file, so that the theorem no longer elaborates. Only the
properties whose theorems live here are affected. -/
namespace Wax

/-- the depth component of `join_and_get_depth` -/
theorem joinAndGetDepth_is_source (base p : Str) :
    (Path.joinAndGetDepth base p).2 =
      Generated.joinDepth (Path.isAbsolute p) (Path.components (Path.join base p)).length (Path.components base).length := by
  unfold Path.joinAndGetDepth Generated.joinDepth Generated.checkedAddExpect Generated.satSub
  cases Path.isAbsolute p <;> simp


end Wax
