import Wax.Rule
import Wax.Proofs.Spans
/-! C17, rule half: every span a rule error reports is the span of a token of the tree or the
union of two such spans, hence starts and ends on character boundaries of the expression (and lies
within it), for every expression that parses. -/
namespace Wax

/-! ### the spans of a tree -/

mutual
  /-- the spans of all the tokens of the tree, root first -/
  def Tok.spans : Tok → List Span
    | .lit sp _ _ => [sp]
    | .sep sp => [sp]
    | .cls sp _ _ => [sp]
    | .one sp => [sp]
    | .zom sp _ => [sp]
    | .tree sp _ => [sp]
    | .alt sp bs => sp :: spansL bs
    | .cat sp ts => sp :: spansL ts
    | .rep sp body _ _ => sp :: body.spans
  def spansL : List Tok → List Span
    | [] => []
    | t :: ts => t.spans ++ spansL ts
end

mutual
  /-- every span of the tree satisfies `S` (`TokOk e` is `TokAll (SpanOk e)`) -/
  def TokAll (S : Span → Prop) : Tok → Prop
    | .lit sp _ _ => S sp
    | .sep sp => S sp
    | .cls sp _ _ => S sp
    | .one sp => S sp
    | .zom sp _ => S sp
    | .tree sp _ => S sp
    | .alt sp bs => S sp ∧ ToksAll S bs
    | .cat sp ts => S sp ∧ ToksAll S ts
    | .rep sp body _ _ => S sp ∧ TokAll S body
  def ToksAll (S : Span → Prop) : List Tok → Prop
    | [] => True
    | t :: ts => TokAll S t ∧ ToksAll S ts
end

mutual
  theorem tokAll_iff (S : Span → Prop) : ∀ (t : Tok), TokAll S t ↔ ∀ s ∈ t.spans, S s
    | .lit .. => by simp [TokAll, Tok.spans]
    | .sep _ => by simp [TokAll, Tok.spans]
    | .cls .. => by simp [TokAll, Tok.spans]
    | .one _ => by simp [TokAll, Tok.spans]
    | .zom .. => by simp [TokAll, Tok.spans]
    | .tree .. => by simp [TokAll, Tok.spans]
    | .alt sp bs => by simp [TokAll, Tok.spans, toksAll_iff S bs]
    | .cat sp ts => by simp [TokAll, Tok.spans, toksAll_iff S ts]
    | .rep sp b _ _ => by simp [TokAll, Tok.spans, tokAll_iff S b]
  theorem toksAll_iff (S : Span → Prop) : ∀ (ts : List Tok), ToksAll S ts ↔ ∀ s ∈ spansL ts, S s
    | [] => by simp [ToksAll, spansL]
    | t :: ts => by
      simp only [ToksAll, spansL, tokAll_iff S t, toksAll_iff S ts, List.mem_append]
      constructor
      · rintro ⟨h1, h2⟩ s (hs | hs)
        · exact h1 s hs
        · exact h2 s hs
      · intro h
        exact ⟨fun s hs => h s (.inl hs), fun s hs => h s (.inr hs)⟩
end

mutual
  theorem tokOk_iff_all (e : Str) : ∀ (t : Tok), TokOk e t ↔ TokAll (SpanOk e) t
    | .lit .. => by simp only [TokOk, TokAll]
    | .sep _ => by simp only [TokOk, TokAll]
    | .cls .. => by simp only [TokOk, TokAll]
    | .one _ => by simp only [TokOk, TokAll]
    | .zom .. => by simp only [TokOk, TokAll]
    | .tree .. => by simp only [TokOk, TokAll]
    | .alt sp bs => by simp only [TokOk, TokAll, toksOk_iff_all e bs]
    | .cat sp ts => by simp only [TokOk, TokAll, toksOk_iff_all e ts]
    | .rep sp b _ _ => by simp only [TokOk, TokAll, tokOk_iff_all e b]
  theorem toksOk_iff_all (e : Str) : ∀ (ts : List Tok), ToksOk e ts ↔ ToksAll (SpanOk e) ts
    | [] => by simp only [ToksOk, ToksAll]
    | t :: ts => by simp only [ToksOk, ToksAll, tokOk_iff_all e t, toksOk_iff_all e ts]
end

/-- `TokOk`, unfolded: every span of the tree is sliceable -/
theorem tokOk_iff_spans (e : Str) (t : Tok) : TokOk e t ↔ ∀ s ∈ t.spans, SpanOk e s :=
  (tokOk_iff_all e t).trans (tokAll_iff _ t)

theorem TokAll.span {S : Span → Prop} : ∀ {t : Tok}, TokAll S t → S t.span
  | .lit .., h => by simpa only [TokAll, Tok.span] using h
  | .sep _, h => by simpa only [TokAll, Tok.span] using h
  | .cls .., h => by simpa only [TokAll, Tok.span] using h
  | .one _, h => by simpa only [TokAll, Tok.span] using h
  | .zom .., h => by simpa only [TokAll, Tok.span] using h
  | .tree .., h => by simpa only [TokAll, Tok.span] using h
  | .alt .., h => by simp only [TokAll] at h; exact h.1
  | .cat .., h => by simp only [TokAll] at h; exact h.1
  | .rep .., h => by simp only [TokAll] at h; exact h.1

theorem TokOk.span {e : Str} {t : Tok} (h : TokOk e t) : SpanOk e t.span :=
  ((tokOk_iff_all e t).mp h).span

/-! ### unions -/

theorem Span.union_end (a b : Span) :
    (a.union b).start + (a.union b).len = a.start + a.len ∨
      (a.union b).start + (a.union b).len = b.start + b.len := by
  simp only [Span.union, Span.stop]; omega

/-- the union of two sliceable spans is sliceable: its ends are ends of the operands -/
theorem SpanOk.union {e : Str} {a b : Span} (ha : SpanOk e a) (hb : SpanOk e b) :
    SpanOk e (a.union b) := by
  refine ⟨?_, ?_⟩
  · rcases Span.union_start a b with h | h <;> rw [h]
    · exact ha.1
    · exact hb.1
  · rcases Span.union_end a b with h | h <;> rw [h]
    · exact ha.2
    · exact hb.2

/-! ### the breadth-first searches only report what the visitor reports on tokens of the tree -/

theorem searchLevels_ok {α} {Q : α → Prop} {f : Nat → Option α}
    (hf : ∀ d x, f d = some x → Q x) : ∀ (n d : Nat) (x : α), searchLevels f n d = some x → Q x
  | 0, _, _, h => by simp [searchLevels] at h
  | n + 1, d, x, h => by
    rw [searchLevels] at h
    split at h
    · rename_i y hy
      injection h with h; subst h; exact hf d y hy
    · exact searchLevels_ok hf n (d + 1) x h

theorem searchLevelsP_ok {α} {Q : α → Prop} {f : Nat → P (Option α)}
    (hf : ∀ d x, f d = .ok (some x) → Q x) :
    ∀ (n d : Nat) (x : α), searchLevelsP f n d = .ok (some x) → Q x
  | 0, _, _, h => by
    simp only [searchLevelsP, pure, Except.pure] at h
    injection h with h; cases h
  | n + 1, d, x, h => by
    rw [searchLevelsP] at h
    cases hd : f d with
    | error m => rw [hd] at h; cases h
    | ok r =>
      rw [hd] at h
      cases r with
      | some y =>
        simp only [bind, Except.bind, pure, Except.pure] at h
        injection h with h; injection h with h; subst h
        exact hf d y hd
      | none =>
        simp only [bind, Except.bind] at h
        exact searchLevelsP_ok hf n (d + 1) x h

mutual
  theorem findAt_ok {α} {S : Span → Prop} {Q : α → Prop} {f : Tok → Option α}
      (hf : ∀ t x, TokAll S t → f t = some x → Q x) :
      ∀ (t : Tok) (d : Nat) (x : α), TokAll S t → findAt f d t = some x → Q x
    | .alt sp bs, d, x, ht, h => by
      cases d with
      | zero => rw [findAt] at h; exact hf _ x ht h
      | succ d =>
        simp only [TokAll] at ht
        rw [findAt] at h
        exact findAtL_ok hf bs d x ht.2 h
    | .cat sp ts, d, x, ht, h => by
      cases d with
      | zero => rw [findAt] at h; exact hf _ x ht h
      | succ d =>
        simp only [TokAll] at ht
        rw [findAt] at h
        exact findAtL_ok hf ts d x ht.2 h
    | .rep sp b lo hi, d, x, ht, h => by
      cases d with
      | zero => rw [findAt] at h; exact hf _ x ht h
      | succ d =>
        simp only [TokAll] at ht
        rw [findAt] at h
        exact findAt_ok hf b d x ht.2 h
    | .lit .., d, x, ht, h => by
      cases d with
      | zero => rw [findAt] at h; exact hf _ x ht h
      | succ d => simp [findAt] at h
    | .sep _, d, x, ht, h => by
      cases d with
      | zero => rw [findAt] at h; exact hf _ x ht h
      | succ d => simp [findAt] at h
    | .cls .., d, x, ht, h => by
      cases d with
      | zero => rw [findAt] at h; exact hf _ x ht h
      | succ d => simp [findAt] at h
    | .one _, d, x, ht, h => by
      cases d with
      | zero => rw [findAt] at h; exact hf _ x ht h
      | succ d => simp [findAt] at h
    | .zom .., d, x, ht, h => by
      cases d with
      | zero => rw [findAt] at h; exact hf _ x ht h
      | succ d => simp [findAt] at h
    | .tree .., d, x, ht, h => by
      cases d with
      | zero => rw [findAt] at h; exact hf _ x ht h
      | succ d => simp [findAt] at h
  theorem findAtL_ok {α} {S : Span → Prop} {Q : α → Prop} {f : Tok → Option α}
      (hf : ∀ t x, TokAll S t → f t = some x → Q x) :
      ∀ (ts : List Tok) (d : Nat) (x : α), ToksAll S ts → findAtL f d ts = some x → Q x
    | [], d, x, _, h => by simp [findAtL] at h
    | t :: ts, d, x, ht, h => by
      simp only [ToksAll] at ht
      rw [findAtL] at h
      split at h
      · rename_i y hy
        injection h with h; subst h
        exact findAt_ok hf t d y ht.1 hy
      · exact findAtL_ok hf ts d x ht.2 h
end

/-- `walk::forward(tree).find_map(f)` answers only what `f` answers on some token of the tree -/
theorem bfsFind_ok {α} {S : Span → Prop} {Q : α → Prop} {f : Tok → Option α}
    (hf : ∀ t x, TokAll S t → f t = some x → Q x) (t : Tok) (x : α) (ht : TokAll S t)
    (h : bfsFind f t = some x) : Q x :=
  searchLevels_ok (fun d y hy => findAt_ok hf t d y ht hy) _ _ x h

mutual
  theorem findAtP_ok {α} {S : Span → Prop} {Q : α → Prop} {f : Tok → P (Option α)}
      (hf : ∀ t x, TokAll S t → f t = .ok (some x) → Q x) :
      ∀ (t : Tok) (d : Nat) (x : α), TokAll S t → findAtP f d t = .ok (some x) → Q x
    | .alt sp bs, d, x, ht, h => by
      cases d with
      | zero => rw [findAtP] at h; exact hf _ x ht h
      | succ d =>
        simp only [TokAll] at ht
        rw [findAtP] at h
        exact findAtLP_ok hf bs d x ht.2 h
    | .cat sp ts, d, x, ht, h => by
      cases d with
      | zero => rw [findAtP] at h; exact hf _ x ht h
      | succ d =>
        simp only [TokAll] at ht
        rw [findAtP] at h
        exact findAtLP_ok hf ts d x ht.2 h
    | .rep sp b lo hi, d, x, ht, h => by
      cases d with
      | zero => rw [findAtP] at h; exact hf _ x ht h
      | succ d =>
        simp only [TokAll] at ht
        rw [findAtP] at h
        exact findAtP_ok hf b d x ht.2 h
    | .lit .., d, x, ht, h => by
      cases d with
      | zero => rw [findAtP] at h; exact hf _ x ht h
      | succ d => simp [findAtP, pure, Except.pure] at h
    | .sep _, d, x, ht, h => by
      cases d with
      | zero => rw [findAtP] at h; exact hf _ x ht h
      | succ d => simp [findAtP, pure, Except.pure] at h
    | .cls .., d, x, ht, h => by
      cases d with
      | zero => rw [findAtP] at h; exact hf _ x ht h
      | succ d => simp [findAtP, pure, Except.pure] at h
    | .one _, d, x, ht, h => by
      cases d with
      | zero => rw [findAtP] at h; exact hf _ x ht h
      | succ d => simp [findAtP, pure, Except.pure] at h
    | .zom .., d, x, ht, h => by
      cases d with
      | zero => rw [findAtP] at h; exact hf _ x ht h
      | succ d => simp [findAtP, pure, Except.pure] at h
    | .tree .., d, x, ht, h => by
      cases d with
      | zero => rw [findAtP] at h; exact hf _ x ht h
      | succ d => simp [findAtP, pure, Except.pure] at h
  theorem findAtLP_ok {α} {S : Span → Prop} {Q : α → Prop} {f : Tok → P (Option α)}
      (hf : ∀ t x, TokAll S t → f t = .ok (some x) → Q x) :
      ∀ (ts : List Tok) (d : Nat) (x : α), ToksAll S ts → findAtLP f d ts = .ok (some x) → Q x
    | [], d, x, _, h => by simp [findAtLP, pure, Except.pure] at h
    | t :: ts, d, x, ht, h => by
      simp only [ToksAll] at ht
      rw [findAtLP] at h
      cases hd : findAtP f d t with
      | error m => rw [hd] at h; cases h
      | ok r =>
        rw [hd] at h
        cases r with
        | some y =>
          simp only [bind, Except.bind, pure, Except.pure] at h
          injection h with h; injection h with h; subst h
          exact findAtP_ok hf t d y ht.1 hd
        | none =>
          simp only [bind, Except.bind] at h
          exact findAtLP_ok hf ts d x ht.2 h
end

theorem bfsFindP_ok {α} {S : Span → Prop} {Q : α → Prop} {f : Tok → P (Option α)}
    (hf : ∀ t x, TokAll S t → f t = .ok (some x) → Q x) (t : Tok) (x : α) (ht : TokAll S t)
    (h : bfsFindP f t = .ok (some x)) : Q x :=
  searchLevelsP_ok (fun d y hy => findAtP_ok hf t d y ht hy) _ _ x h

/-! ### the four rules -/

/-- the span is one of the `S` spans or the union of two of them -/
def From (S : Span → Prop) (sp : Span) : Prop := S sp ∨ ∃ a b, S a ∧ S b ∧ sp = a.union b

/-- what the rule hit reports comes from the `S` spans -/
def HitFrom (S : Span → Prop) (h : RuleHit) : Prop := From S h.2

theorem firstAdjBoundary_ok {S : Span → Prop} : ∀ (ts : List Tok) (s : Span), ToksAll S ts →
    firstAdjBoundary ts = some s → From S s
  | [], s, _, h => by simp [firstAdjBoundary] at h
  | [_], s, _, h => by simp [firstAdjBoundary] at h
  | a :: b :: rest, s, ht, h => by
    simp only [ToksAll] at ht
    rw [firstAdjBoundary] at h
    split at h
    · injection h with h; subst h
      exact .inr ⟨_, _, ht.1.span, ht.2.1.span, rfl⟩
    · exact firstAdjBoundary_ok (b :: rest) s (by simp only [ToksAll]; exact ht.2) h

theorem boundaryAt_ok {S : Span → Prop} (t : Tok) (x : RuleHit) (ht : TokAll S t)
    (h : boundaryAt t = some x) : HitFrom S x := by
  unfold boundaryAt at h
  split at h
  · rename_i sp ts
    simp only [TokAll] at ht
    split at h
    · rename_i s hs
      injection h with h; subst h
      exact firstAdjBoundary_ok ts s ht.2 hs
    · cases h
  · cases h

theorem boundsAt_ok {S : Span → Prop} (t : Tok) (x : RuleHit) (ht : TokAll S t)
    (h : boundsAt t = some x) : HitFrom S x := by
  unfold boundsAt at h
  split at h
  · simp only [TokAll] at ht
    split at h
    · cases h
    · injection h with h; subst h; exact .inl ht.1
  · cases h

theorem siteAlt_span (sp : Span) (o : Outer) : ∀ (bs : List Tok) (x : RuleHit),
    siteAlt sp o bs = some x → x.2 = sp
  | [], x, h => by simp [siteAlt] at h
  | b :: bs, x, h => by
    rw [siteAlt] at h
    split at h
    · injection h with h; subst h; rfl
    · exact siteAlt_span sp o bs x h

theorem siteRep_span (sp : Span) (o : Outer) (b : Tok) (lo : Nat) (hi : Option Nat) (x : RuleHit)
    (h : siteRep sp o b lo hi = some x) : x.2 = sp := by
  unfold siteRep at h
  split at h
  · injection h with h; subst h; rfl
  · cases h

theorem orElse_ok {α} {Q : α → Prop} {a b : Option α} {x : α} (h : orElse a b = some x)
    (ha : a = some x → Q x) (hb : b = some x → Q x) : Q x := by
  cases a with
  | some y => exact ha h
  | none => exact hb h

mutual
  theorem branchAt_ok {S : Span → Prop} : ∀ (t : Tok) (d : Nat) (o : Outer) (x : RuleHit), TokAll S t →
      branchAt d o t = some x → HitFrom S x
    | .cat sp ts, d, o, x, ht, h => by
      simp only [TokAll] at ht
      rw [branchAt] at h
      exact branchSeq_ok ts d o none x ht.2 h
    | .alt sp bs, d, o, x, ht, h => by
      simp only [TokAll] at ht
      cases d with
      | zero =>
        rw [branchAt] at h
        show From S x.2
        rw [siteAlt_span sp o bs x h]; exact .inl ht.1
      | succ d =>
        rw [branchAt] at h
        exact branchAll_ok bs d o x ht.2 h
    | .rep sp b lo hi, d, o, x, ht, h => by
      simp only [TokAll] at ht
      cases d with
      | zero =>
        rw [branchAt] at h
        show From S x.2
        rw [siteRep_span sp o b lo hi x h]; exact .inl ht.1
      | succ d =>
        rw [branchAt] at h
        exact branchAt_ok b d o x ht.2 h
    | .lit .., d, o, x, _, h => by cases d <;> simp [branchAt] at h
    | .sep _, d, o, x, _, h => by cases d <;> simp [branchAt] at h
    | .cls .., d, o, x, _, h => by cases d <;> simp [branchAt] at h
    | .one _, d, o, x, _, h => by cases d <;> simp [branchAt] at h
    | .zom .., d, o, x, _, h => by cases d <;> simp [branchAt] at h
    | .tree .., d, o, x, _, h => by cases d <;> simp [branchAt] at h
  theorem branchSeq_ok {S : Span → Prop} : ∀ (ts : List Tok) (d : Nat) (inh : Outer) (prev : Option Tok)
      (x : RuleHit), ToksAll S ts → branchSeq d inh prev ts = some x → HitFrom S x
    | [], d, _, _, x, _, h => by cases d <;> simp [branchSeq] at h
    | .alt sp bs :: rest, d, inh, prev, x, ht, h => by
      simp only [ToksAll, TokAll] at ht
      cases d with
      | zero =>
        rw [branchSeq] at h
        refine orElse_ok h (fun h1 => ?_) (fun h2 => branchSeq_ok rest 0 inh _ x ht.2 h2)
        show From S x.2
        rw [siteAlt_span sp _ bs x h1]; exact .inl ht.1.1
      | succ d =>
        rw [branchSeq] at h
        exact orElse_ok h (fun h1 => branchAll_ok bs d _ x ht.1.2 h1)
          (fun h2 => branchSeq_ok rest (d + 1) inh _ x ht.2 h2)
    | .rep sp b lo hi :: rest, d, inh, prev, x, ht, h => by
      simp only [ToksAll, TokAll] at ht
      cases d with
      | zero =>
        rw [branchSeq] at h
        refine orElse_ok h (fun h1 => ?_) (fun h2 => branchSeq_ok rest 0 inh _ x ht.2 h2)
        show From S x.2
        rw [siteRep_span sp _ b lo hi x h1]; exact .inl ht.1.1
      | succ d =>
        rw [branchSeq] at h
        exact orElse_ok h (fun h1 => branchAt_ok b d _ x ht.1.2 h1)
          (fun h2 => branchSeq_ok rest (d + 1) inh _ x ht.2 h2)
    | .lit a b c :: rest, d, inh, prev, x, ht, h => by
      simp only [ToksAll] at ht
      rw [branchSeq] at h
      · exact branchSeq_ok rest d inh _ x ht.2 h
      all_goals (intros; simp_all)
    | .sep a :: rest, d, inh, prev, x, ht, h => by
      simp only [ToksAll] at ht
      rw [branchSeq] at h
      · exact branchSeq_ok rest d inh _ x ht.2 h
      all_goals (intros; simp_all)
    | .cls a b c :: rest, d, inh, prev, x, ht, h => by
      simp only [ToksAll] at ht
      rw [branchSeq] at h
      · exact branchSeq_ok rest d inh _ x ht.2 h
      all_goals (intros; simp_all)
    | .one a :: rest, d, inh, prev, x, ht, h => by
      simp only [ToksAll] at ht
      rw [branchSeq] at h
      · exact branchSeq_ok rest d inh _ x ht.2 h
      all_goals (intros; simp_all)
    | .zom a b :: rest, d, inh, prev, x, ht, h => by
      simp only [ToksAll] at ht
      rw [branchSeq] at h
      · exact branchSeq_ok rest d inh _ x ht.2 h
      all_goals (intros; simp_all)
    | .tree a b :: rest, d, inh, prev, x, ht, h => by
      simp only [ToksAll] at ht
      rw [branchSeq] at h
      · exact branchSeq_ok rest d inh _ x ht.2 h
      all_goals (intros; simp_all)
    | .cat a b :: rest, d, inh, prev, x, ht, h => by
      simp only [ToksAll] at ht
      rw [branchSeq] at h
      · exact branchSeq_ok rest d inh _ x ht.2 h
      all_goals (intros; simp_all)
  theorem branchAll_ok {S : Span → Prop} : ∀ (bs : List Tok) (d : Nat) (o : Outer) (x : RuleHit),
      ToksAll S bs → branchAll d o bs = some x → HitFrom S x
    | [], d, _, x, _, h => by simp [branchAll] at h
    | b :: bs, d, o, x, ht, h => by
      simp only [ToksAll] at ht
      rw [branchAll] at h
      exact orElse_ok h (fun h1 => branchAt_ok b d o x ht.1 h1)
        (fun h2 => branchAll_ok bs d o x ht.2 h2)
end

theorem ruleBoundary_ok {S : Span → Prop} (t : Tok) (x : RuleHit) (ht : TokAll S t)
    (h : ruleBoundary t = some x) : HitFrom S x :=
  bfsFind_ok (Q := HitFrom S) (fun t x ht h => boundaryAt_ok t x ht h) t x ht h

theorem ruleBounds_ok {S : Span → Prop} (t : Tok) (x : RuleHit) (ht : TokAll S t)
    (h : ruleBounds t = some x) : HitFrom S x :=
  bfsFind_ok (Q := HitFrom S) (fun t x ht h => boundsAt_ok t x ht h) t x ht h

theorem ruleBranch_ok {S : Span → Prop} (t : Tok) (x : RuleHit) (ht : TokAll S t)
    (h : ruleBranch t = some x) : HitFrom S x :=
  searchLevels_ok (Q := HitFrom S) (fun d y hy => branchAt_ok t d _ y ht hy) _ _ x h

theorem sizeAt_ok {S : Span → Prop} (t : Tok) (x : RuleHit) (ht : TokAll S t)
    (h : sizeAt t = .ok (some x)) : HitFrom S x := by
  unfold sizeAt at h
  cases hv : sizeVariance t with
  | error m => rw [hv] at h; cases h
  | ok v =>
    rw [hv] at h
    simp only [bind, Except.bind] at h
    split at h
    · simp only [pure, Except.pure] at h
      injection h with h
      split at h
      · injection h with h; subst h; exact .inl ht.span
      · cases h
    · simp only [pure, Except.pure] at h
      injection h with h; cases h

theorem ruleSize_ok {S : Span → Prop} (t : Tok) (x : RuleHit) (ht : TokAll S t)
    (h : ruleSize t = .ok (some x)) : HitFrom S x :=
  bfsFindP_ok (Q := HitFrom S) (fun t x ht h => sizeAt_ok t x ht h) t x ht h

/-! ### headline -/

/-- `rule::check` reports only spans that come from the tree: for any property `S` of all the
spans of the tree, the reported span has `S` or is the union of two spans that have `S` -/
theorem check_span_from (S : Span → Prop) (t : Tok) (k : RuleErr) (sp : Span) (ht : TokAll S t)
    (h : check t = .ok (some (k, sp))) : From S sp := by
  unfold check at h
  split at h
  · rename_i x hx
    simp only [pure, Except.pure] at h
    injection h with h; injection h with h; subst h
    exact ruleBoundary_ok t _ ht hx
  · split at h
    · rename_i x hx
      simp only [pure, Except.pure] at h
      injection h with h; injection h with h; subst h
      exact ruleBounds_ok t _ ht hx
    · split at h
      · rename_i x hx
        simp only [pure, Except.pure] at h
        injection h with h; injection h with h; subst h
        exact ruleBranch_ok t _ ht hx
      · exact ruleSize_ok t _ ht h

/-- **C17, provenance**: every span a rule error reports is the span of a token of the tree or the
union of the spans of two tokens of the tree, for every tree. -/
theorem check_span_provenance (t : Tok) (k : RuleErr) (sp : Span)
    (h : check t = .ok (some (k, sp))) :
    sp ∈ t.spans ∨ ∃ a b, a ∈ t.spans ∧ b ∈ t.spans ∧ sp = a.union b :=
  check_span_from (· ∈ t.spans) t k sp ((tokAll_iff _ t).mpr fun _ hs => hs) h

/-- **C17, rule half**: every span a rule error reports starts and ends on character boundaries of
the expression, whenever all the spans of the tree do. -/
theorem check_span_ok (e : Str) (t : Tok) (k : RuleErr) (sp : Span) (ht : TokOk e t)
    (h : check t = .ok (some (k, sp))) : SpanOk e sp := by
  rcases check_span_from (SpanOk e) t k sp ((tokOk_iff_all e t).mp ht) h with h | ⟨a, b, ha, hb, rfl⟩
  · exact h
  · exact ha.union hb

/-- **C17**: whenever an expression parses and the rules reject it, the span attached to the error
is sliceable in the expression, for every expression. -/
theorem build_error_span_ok (e : Str) (t : Tok) (k : RuleErr) (sp : Span) (hp : parse e = .ok t)
    (h : check t = .ok (some (k, sp))) : SpanOk e sp :=
  check_span_ok e t k sp (parse_spans_ok e t hp) h

/-! ### what `SpanOk` buys: the span lies within the expression and cuts out whole characters -/

theorem Boundary.le {e : Str} {n : Nat} (h : Boundary e n) : n ≤ ulen e := by
  obtain ⟨pre, post, he, hn⟩ := h
  rw [he, ulen_append]; omega

theorem SpanOk.within {e : Str} {sp : Span} (h : SpanOk e sp) : sp.start + sp.len ≤ ulen e :=
  h.2.le

theorem ulen_cons (c : Char) (s : Str) : ulen (c :: s) = c.utf8Size + ulen s := by
  simp [ulen]

theorem ulen_eq_zero : ∀ {s : Str}, ulen s = 0 → s = []
  | [], _ => rfl
  | c :: s, h => by
    rw [ulen_cons] at h
    have := Char.utf8Size_pos c
    omega

/-- slicing by a `SpanOk` span yields a sub-list of whole characters -/
theorem SpanOk.slice {e : Str} {sp : Span} (h : SpanOk e sp) :
    ∃ pre mid post, e = pre ++ mid ++ post ∧ sp.start = ulen pre ∧ sp.len = ulen mid := by
  obtain ⟨⟨p1, q1, he1, hs⟩, ⟨p2, q2, he2, ht⟩⟩ := h
  have hp1 : p1 <+: e := ⟨q1, he1.symm⟩
  have hp2 : p2 <+: e := ⟨q2, he2.symm⟩
  rcases List.prefix_or_prefix_of_prefix hp1 hp2 with ⟨r, hr⟩ | ⟨r, hr⟩
  · -- p2 = p1 ++ r
    refine ⟨p1, r, q2, ?_, hs, ?_⟩
    · rw [hr]; exact he2
    · have : ulen p2 = ulen p1 + ulen r := by rw [← hr, ulen_append]
      omega
  · -- p1 = p2 ++ r, so `r` is empty
    have hl : ulen p1 = ulen p2 + ulen r := by rw [← hr, ulen_append]
    have hr0 : r = [] := ulen_eq_zero (by omega)
    subst hr0
    rw [List.append_nil] at hr
    subst hr
    refine ⟨p2, [], q1, by simpa using he1, hs, ?_⟩
    simp only [ulen, List.map_nil, List.sum_nil]
    omega

/-- the two together, for rule errors -/
theorem build_error_span_slice (e : Str) (t : Tok) (k : RuleErr) (sp : Span) (hp : parse e = .ok t)
    (h : check t = .ok (some (k, sp))) :
    sp.start + sp.len ≤ ulen e ∧
      ∃ pre mid post, e = pre ++ mid ++ post ∧ sp.start = ulen pre ∧ sp.len = ulen mid :=
  ⟨(build_error_span_ok e t k sp hp h).within, (build_error_span_ok e t k sp hp h).slice⟩

/-! ### non-vacuity: expressions that parse and are rejected, one per rule that reports a span -/

/-- what the build reports for an expression that parses and is rejected: kind, start, length -/
def rejection (e : Str) : Option (RuleErr × Nat × Nat) :=
  match parse e with
  | .ok t => (match check t with | .ok (some (k, sp)) => some (k, sp.start, sp.len) | _ => none)
  | .err _ => none

theorem rejection_elim {e : Str} {k : RuleErr} {s l : Nat} (h : rejection e = some (k, s, l)) :
    ∃ t, parse e = .ok t ∧ check t = .ok (some (k, ⟨s, l⟩)) := by
  unfold rejection at h
  split at h
  · rename_i t ht
    split at h
    · rename_i k' sp hx
      injection h with h; injection h with h1 h; injection h with h2 h3
      subst h1 h2 h3
      exact ⟨t, ht, hx⟩
    · cases h
  · cases h

/-- the hypotheses of `build_error_span_ok` hold of `e`, with this kind and span -/
theorem rejection_span_ok {e : Str} {k : RuleErr} {s l : Nat} (h : rejection e = some (k, s, l)) :
    SpanOk e ⟨s, l⟩ := by
  obtain ⟨t, hp, hc⟩ := rejection_elim h
  exact build_error_span_ok e t k _ hp hc

-- boundary rule: the union of the spans of the two separators, after a two-byte character
example : rejection "é//b".toList = some (.adjBoundary, 2, 2) := by decide
example : SpanOk "é//b".toList ⟨2, 2⟩ := rejection_span_ok (k := .adjBoundary) (by decide)
-- bounds rule: the span of the repetition, nested in an alternation
example : rejection "é{b,<a:3,1>}".toList = some (.bounds, 5, 7) := by decide
-- branch rule, alternation site: the span of the alternation
example : rejection "é{a,**}".toList = some (.singularTree, 2, 6) := by decide
example : rejection "{/é,b}".toList = some (.rooted, 0, 7) := by decide
-- branch rule, repetition site: the span of the repetition
example : rejection "é<*:0,>".toList = some (.singularZom, 2, 6) := by decide
-- branch rule, a site one queue generation down
example : rejection "é/**/{**/a,b}".toList = some (.adjBoundary, 6, 8) := by decide
example :
    ∃ pre mid post, "é/**/{**/a,b}".toList = pre ++ mid ++ post ∧ 6 = ulen pre ∧ 8 = ulen mid :=
  (rejection_span_ok (k := .adjBoundary) (s := 6) (l := 8) (by decide)).slice

-- `SpanOk` is not trivially true: offset 1 is inside the two-byte `é`
example : ¬ SpanOk "é/".toList ⟨1, 1⟩ := by
  have hl : "é/".toList = ['é', '/'] := by decide
  have hz : ('é' : Char).utf8Size = 2 := by decide
  rw [hl]
  rintro ⟨⟨pre, post, he, hn⟩, _⟩
  have hn : 1 = ulen pre := hn
  match pre, he, hn with
  | [], _, hn => simp [ulen] at hn
  | c :: pre, he, hn =>
    rw [List.cons_append] at he
    injection he with hc _
    subst hc
    rw [ulen_cons, hz] at hn
    omega

end Wax
