import Wax.GeneratedTermn
import Wax.Depth
/-! The tie by regeneration (the 25-cell Termination conjunction): the table the model's definitions use is the table `tools/extract.py` has just read out
of `/repo/src` (by EVALUATING the source's `match`, so arm order and grouping are immaterial). Closed by `decide`: an edit of the
Rust source that changes the table breaks the build here, naming the table; only the properties that list these theorems are
concerned. -/
namespace Wax

def ofT : Generated.T → Termn
  | .open_ => .open_ | .first => .first | .last => .last | .closed => .closed | .coal => .coal
def ofK : Generated.K → Termn → Coal
  | .left => .left | .right => .right | .neither => .neither

/-- every row of `Termination`'s conjunction in the source is the model's, and there are 25 -/
theorem termn_table_is_source :
    Generated.terminationTable.all (fun r => decide ((ofT r.1).conj (ofT r.2.1) = ofK r.2.2.1 (ofT r.2.2.2))) = true ∧
    Generated.terminationTable.length = 25 ∧
    (Generated.terminationTable.map fun r => (r.1, r.2.1)).Nodup := by decide

end Wax
