import Wax.Proofs.HirLang
import Wax.Cmd.Match
/-!
The tables the driver runs with (`drvSem`, `drvOrbit`) satisfy the hypothesis of `hirNorm_lang` for
every character of the driver alphabet except `ß`: the alphabet is closed under `drvCeq`, and
`drvOrbit c` is the filter of the alphabet by `drvCeq c`.

For `ß` the hypothesis fails (`drv_orbitAt_eszett_false`): `drvOrbit` lists U+1E9E as a partner (as
regex-syntax does), `drvCeq` does not relate the two (U+1E9E is outside the alphabet, on which alone
`drvCeq` is claimed to be exact).
-/
namespace Wax

/-- the code points of `drvAlphabet` -/
def alphaN : List Nat :=
  [97, 98, 99, 100, 101, 102, 103, 104, 105, 106, 107, 108, 109, 110, 111, 112, 113, 114, 115, 116, 117, 118, 119, 120,
   121, 122, 65, 66, 67, 68, 69, 70, 71, 72, 73, 74, 75, 76, 77, 78, 79, 80, 81, 82, 83, 84, 85, 86, 87, 88, 89, 90, 48,
   49, 50, 51, 52, 53, 54, 55, 56, 57, 32, 46, 95, 45, 126, 33, 64, 35, 37, 38, 61, 43, 59, 39, 34, 10, 9, 47, 92, 63, 42,
   36, 58, 60, 62, 40, 41, 91, 93, 123, 125, 44, 94, 124, 233, 201, 223, 8490, 383, 452, 453, 454, 963, 962, 931, 20013,
   25991, 128512, 0, 127, 1114111]

theorem drvAlphabet_toNat : drvAlphabet.map Char.toNat = alphaN := by rfl

/-- `foldKey` on code points -/
def foldKeyN (n : Nat) : Nat :=
  if 0x41 ≤ n && n ≤ 0x5a then n + 0x20
  else if n == 0x212a then 0x6b
  else if n == 0x17f then 0x73
  else if (0xc0 ≤ n && n ≤ 0xde) && n != 0xd7 then n + 0x20
  else if n == 0x1c4 || n == 0x1c5 then 0x1c6
  else if n == 0x3a3 || n == 0x3c2 then 0x3c3
  else n

theorem foldKey_eq (c : Char) : foldKey c = foldKeyN c.toNat := rfl

/-- candidates for the code points with fold key `k` -/
def foldPre (k : Nat) : List Nat := [k, k - 0x20, 0x212a, 0x17f, 0x1c4, 0x1c5, 0x3a3, 0x3c2]

theorem mem_foldPre (n : Nat) : n ∈ foldPre (foldKeyN n) := by
  unfold foldPre foldKeyN
  simp only [List.mem_cons]
  split
  · right; left; omega
  · split
    · rename_i h; simp only [beq_iff_eq] at h; omega
    · split
      · rename_i h; simp only [beq_iff_eq] at h; omega
      · split
        · right; left; omega
        · split
          · rename_i h; simp only [Bool.or_eq_true, beq_iff_eq] at h; omega
          · split
            · rename_i h; simp only [Bool.or_eq_true, beq_iff_eq] at h; omega
            · left; rfl

theorem closedB : (alphaN.all fun c => (foldPre (foldKeyN c)).all fun m =>
    foldKeyN m != foldKeyN c || alphaN.contains m) = true := by rfl

theorem closedN {c : Nat} (hc : c ∈ alphaN) {m : Nat} (hm : m ∈ foldPre (foldKeyN c))
    (h : foldKeyN m = foldKeyN c) : m ∈ alphaN := by
  have h1 := List.all_eq_true.mp closedB c hc
  have h2 := List.all_eq_true.mp h1 m hm
  simp only [Bool.or_eq_true, bne_iff_ne, ne_eq, List.contains_eq_mem, decide_eq_true_eq] at h2
  rcases h2 with h2 | h2
  · exact absurd h h2
  · exact h2

/-- the driver alphabet is closed under the modelled case folding -/
theorem drv_closed {c b : Char} (hc : c ∈ drvAlphabet) (h : foldKey c = foldKey b) : b ∈ drvAlphabet := by
  have hcN : c.toNat ∈ alphaN := by rw [← drvAlphabet_toNat]; exact List.mem_map.mpr ⟨c, hc, rfl⟩
  have hm : b.toNat ∈ foldPre (foldKeyN c.toNat) := by rw [← foldKey_eq, h, foldKey_eq]; exact mem_foldPre _
  have hb : b.toNat ∈ alphaN := closedN hcN hm (by rw [← foldKey_eq, ← foldKey_eq, h])
  rw [← drvAlphabet_toNat] at hb
  obtain ⟨d, hd, e⟩ := List.mem_map.mp hb
  rw [← Char.toNat_inj.mp e]; exact hd

theorem drv_orbitAt {c : Char} (hc : c ∈ drvAlphabet) (hss : c.toNat ≠ 0xdf) : OrbitAt drvOrbit drvSem c := by
  intro b
  have ho : drvOrbit c = (drvAlphabet.filter (fun d => drvCeq c d)).eraseDups := by
    unfold drvOrbit
    have : (c.toNat == 0xdf) = false := by simpa using hss
    rw [this]; simp
  rw [ho]
  simp only [drvSem, List.mem_eraseDups, List.mem_filter]
  constructor
  · intro h
    right
    refine ⟨drv_closed hc ?_, h⟩
    simpa [drvCeq] using h
  · rintro (rfl | ⟨_, h⟩)
    · simp [drvCeq]
    · exact h

/-- the hypotheses of `hirNorm_lang` for the tables of the driver -/
theorem hirHyp_drv {r : Re} (h : r.boundsOk = true)
    (hc : ∀ c ∈ r.ciChars, c ∈ drvAlphabet ∧ c.toNat ≠ 0xdf) : HirHyp drvOrbit drvSem r :=
  ⟨h, fun c hcm => drv_orbitAt (hc c hcm).1 (hc c hcm).2⟩

/-- `(?i:k)` with the driver tables: its orbit `{k, K, KELVIN SIGN}` is inside the alphabet -/
example : OrbitAt drvOrbit drvSem 'k' :=
  drv_orbitAt (by
    have : ('k' : Char).toNat ∈ alphaN := by decide
    rw [← drvAlphabet_toNat] at this
    obtain ⟨d, hd, e⟩ := List.mem_map.mp this
    rw [← Char.toNat_inj.mp e]; exact hd) (by decide)

/-- for `ß` the two tables of the driver disagree -/
theorem drv_orbitAt_eszett_false : ¬ OrbitAt drvOrbit drvSem (Char.ofNat 0xdf) := by
  intro h
  have := (h (Char.ofNat 0x1e9e)).mpr (Or.inr (by
    unfold drvOrbit
    apply List.mem_append_right
    decide))
  revert this
  decide

end Wax
