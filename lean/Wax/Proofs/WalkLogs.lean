import Wax.Walk
import Wax.Cmd.Walk
import Wax.Proofs.WalkMachine
/-!
C16, the logs: **every layer of a stack of `not` / `filter_entry` combinators is shown every fed
entry exactly once, wherever it sits in the stack.**

In the crate every combinator's `feed` pulls one separation from its input and hands its
substituent to the combinator's function — `filter_tree_by_substituent` calls `f(self.substituent())`
unconditionally, on a filtrate and on residue alike (filter.rs:331-346, walk/mod.rs:672-684 and
741-753); only error filtrates pass without the function being called.  The model has this as
`feedDep`: each function of the stack is applied once, to the state the functions before it left.

* `statesOf` / `Pipeline.shown`: the separation state in which each layer is shown an entry;
  `Pipeline.observedS π mn mx rv i`: the entries layer `i` is shown during the walk, each with that
  state; `Pipeline.observed`: the entries alone.  `driver_log_eq` ties it to the log the driver
  prints (`Wax/Cmd/Walk.lean`).
* `walkItems_eq_spec`: a whole walk (root entry included, any depth bounds) is the structural
  traversal `walkSpec`.
* `observes_all_once`: what layer `i` observes is the list of Ok entries of that traversal, pruned
  by `π.cancels` — the same list for every `i`, residue included (`shown_succ`,
  `observedS_all_once`).
* `Pipeline.StateFree`: the proviso "the verdict of a layer does not depend on the state the entry
  arrives in"; `observed_perm`, `yielded_perm` under it; `residue_pivot_order_dependence`: without
  it both fail (K-NOT-RESIDUE-PIVOT).
-/
set_option linter.unusedSimpArgs false

namespace Wax.Walk
open Wax Wax.Path

/-! ### the state in which each function of a stack is called -/

/-- the separation states in which the functions of a dependent stack are called, innermost first:
    the `s` of each `f s` in `feedDep` -/
def statesOf : List (Sepn → Verdict) → Sepn → List Sepn
  | [], _ => []
  | f :: fs, s => s :: statesOf fs (applyVerdict s (f s)).1

/-- `feedDep` instrumented: the same computation, logging the argument of every call of a function
    of the stack -/
def feedDepLog : List (Sepn → Verdict) → Sepn → (Sepn × Nat) × List Sepn
  | [], s => ((s, 0), [])
  | f :: fs, s =>
    let r := applyVerdict s (f s)
    let t := feedDepLog fs r.1
    ((t.1.1, t.1.2 + (if r.2 then 1 else 0)), s :: t.2)

/-- the instrumented stack computes what `feedDep` computes, and its log is `statesOf`: one call
    per function, in stack order -/
theorem feedDepLog_eq : ∀ (fs : List (Sepn → Verdict)) (s : Sepn),
    feedDepLog fs s = (feedDep fs s, statesOf fs s)
  | [], _ => rfl
  | f :: fs, s => by
    simp only [feedDepLog, feedDep, statesOf, feedDepLog_eq fs]

theorem statesOf_length : ∀ (fs : List (Sepn → Verdict)) (s : Sepn), (statesOf fs s).length = fs.length
  | [], _ => rfl
  | f :: fs, s => by simp only [statesOf, List.length_cons, statesOf_length fs]

theorem statesOf_append : ∀ (fs gs : List (Sepn → Verdict)) (s : Sepn),
    statesOf (fs ++ gs) s = statesOf fs s ++ statesOf gs (feedDep fs s).1
  | [], _, _ => rfl
  | f :: fs, gs, s => by
    simp only [List.cons_append, statesOf, feedDep, statesOf_append fs gs]

theorem statesOf_zero (fs : List (Sepn → Verdict)) (s : Sepn) (h : 0 < fs.length) :
    (statesOf fs s)[0]? = some s := by
  cases fs with
  | nil => cases h
  | cons f fs => rfl

/-- the recurrence: the next function is shown what the previous one made of the entry — residue
    is passed on, not dropped -/
theorem statesOf_succ : ∀ (fs : List (Sepn → Verdict)) (s : Sepn) (i : Nat) (f : Sepn → Verdict) (t : Sepn),
    fs[i]? = some f → (statesOf fs s)[i]? = some t → i + 1 < fs.length →
    (statesOf fs s)[i + 1]? = some (applyVerdict t (f t)).1
  | [], _, _, _, _, h, _, _ => by cases h
  | g :: gs, s, 0, f, t, hf, ht, hl => by
    simp only [List.getElem?_cons_zero, Option.some.injEq] at hf
    simp only [statesOf, List.getElem?_cons_zero, Option.some.injEq] at ht
    subst hf; subst ht
    simp only [statesOf, List.getElem?_cons_succ]
    exact statesOf_zero gs _ (by simpa using hl)
  | g :: gs, s, i + 1, f, t, hf, ht, hl => by
    simp only [List.getElem?_cons_succ] at hf
    simp only [statesOf, List.getElem?_cons_succ] at ht ⊢
    exact statesOf_succ gs _ i f t hf ht (by simpa using hl)

/-! ### what a layer of a walk is shown -/

/-- the verdict functions of the layers alone, innermost first -/
def Pipeline.layerFns (π : Pipeline) (e : Entry) : List (Sepn → Verdict) :=
  π.layers.map (fun l s => l.verdict π e s)

/-- the verdict function of the `GlobWalker` closure, if the walk is a glob walk -/
def Pipeline.globFns (π : Pipeline) (e : Entry) : List (Sepn → Verdict) :=
  match π.glob with
  | some g => [fun _ => (globVerdict π.σ g (π.path e) e.depth).1]
  | none => []

theorem Pipeline.stack_eq (π : Pipeline) (e : Entry) : π.stack e = π.globFns e ++ π.layerFns e := by
  unfold Pipeline.stack Pipeline.globFns Pipeline.layerFns
  cases π.glob <;> rfl

/-- the state in which an entry reaches the first layer: a filtrate, or what the `GlobWalker`
    closure made of it -/
def Pipeline.entryState (π : Pipeline) (e : Entry) : Sepn := (feedDep (π.globFns e) .filtrate).1

/-- the state in which each layer is shown the entry, innermost layer first -/
def Pipeline.shown (π : Pipeline) (e : Entry) : List Sepn := statesOf (π.layerFns e) (π.entryState e)

/-- `shown` is the part of the call log of the whole stack (`Pipeline.decide` is `feedDep` on
    `π.stack e`) that belongs to the layers: the log is `shown` after the one call of the
    `GlobWalker` closure, if there is one -/
theorem Pipeline.stack_log (π : Pipeline) (e : Entry) :
    (feedDepLog (π.stack e) .filtrate).1 = π.decide e ∧
    (feedDepLog (π.stack e) .filtrate).2 = statesOf (π.globFns e) .filtrate ++ π.shown e := by
  rw [feedDepLog_eq]
  refine ⟨rfl, ?_⟩
  simp only [Pipeline.stack_eq, statesOf_append, Pipeline.shown, Pipeline.entryState]

theorem Pipeline.shown_length (π : Pipeline) (e : Entry) : (π.shown e).length = π.layers.length := by
  simp only [Pipeline.shown, statesOf_length, Pipeline.layerFns, List.length_map]

/-- the first layer is shown the entry as the glob left it -/
theorem Pipeline.shown_zero (π : Pipeline) (e : Entry) (h : 0 < π.layers.length) :
    (π.shown e)[0]? = some (π.entryState e) :=
  statesOf_zero _ _ (by simpa [Pipeline.layerFns] using h)

/-- **residue is still shown downstream**: layer `i + 1` is shown the entry in the state layer `i`
    left it in, whatever that is -/
theorem Pipeline.shown_succ (π : Pipeline) (e : Entry) (i : Nat) (l : Layer) (t : Sepn)
    (hl : π.layers[i]? = some l) (ht : (π.shown e)[i]? = some t) (hi : i + 1 < π.layers.length) :
    (π.shown e)[i + 1]? = some (applyVerdict t (l.verdict π e t)).1 := by
  refine statesOf_succ (π.layerFns e) _ i (fun s => l.verdict π e s) t ?_ ht ?_
  · simp only [Pipeline.layerFns, List.getElem?_map, hl, Option.map_some]
  · simpa [Pipeline.layerFns] using hi

def Item.entry? : Item → Option Entry
  | .ok e => some e
  | .err .. => none

/-- the Ok entries of a list of items, in order -/
def okEntries (items : List Item) : List Entry := items.filterMap Item.entry?

/-- what layer `i` makes of an item of the walk: an entry is handed to its function, with the
    state it arrives in, if there is a layer `i`; an error passes by -/
def Pipeline.showTo (π : Pipeline) (i : Nat) : Item → Option (Entry × Sepn)
  | .ok e => (π.shown e)[i]?.map (fun s => (e, s))
  | .err .. => none

/-- the entries layer `i` of the stack (`0` = innermost) is shown during the walk, each with the
    separation state in which it arrives, in the order of the calls -/
def Pipeline.observedS (π : Pipeline) (mn : Nat) (mx : Option Nat) (rv : RootView) (i : Nat) :
    List (Entry × Sepn) :=
  (π.items mn mx rv).filterMap (π.showTo i)

/-- the entries layer `i` is shown during the walk: the call log of its function -/
def Pipeline.observed (π : Pipeline) (mn : Nat) (mx : Option Nat) (rv : RootView) (i : Nat) : List Entry :=
  (π.observedS mn mx rv i).map (·.1)

/-- the state layer `i` is shown an entry in (`filtrate` when there is no such layer) -/
def Pipeline.stateAt (π : Pipeline) (i : Nat) (e : Entry) : Sepn := ((π.shown e)[i]?).getD .filtrate

theorem Pipeline.showTo_of_lt (π : Pipeline) (i : Nat) (hi : i < π.layers.length) (it : Item) :
    π.showTo i it = it.entry?.map (fun e => (e, π.stateAt i e)) := by
  cases it with
  | err p a => rfl
  | ok e =>
    have h : i < (π.shown e).length := by rw [Pipeline.shown_length]; exact hi
    simp only [Pipeline.showTo, Item.entry?, Pipeline.stateAt, List.getElem?_eq_getElem h,
      Option.map_some, Option.getD_some]

theorem Pipeline.showTo_of_ge (π : Pipeline) (i : Nat) (hi : π.layers.length ≤ i) (it : Item) :
    π.showTo i it = none := by
  cases it with
  | err p a => rfl
  | ok e =>
    have h : (π.shown e).length ≤ i := by rw [Pipeline.shown_length]; exact hi
    simp only [Pipeline.showTo, List.getElem?_eq_none h, Option.map_none]

theorem filterMap_map_entry {β : Type} (g : Entry → β) (items : List Item) :
    items.filterMap (fun it => it.entry?.map g) = (okEntries items).map g := by
  induction items with
  | nil => rfl
  | cons it rest ih =>
    cases it with
    | ok e => simp [okEntries, Item.entry?, List.filterMap_cons] at ih ⊢; exact ih
    | err p a => simp [okEntries, Item.entry?, List.filterMap_cons] at ih ⊢; exact ih

/-- on any list of items, a layer that exists is shown the Ok entries, all of them, in order -/
theorem filterMap_showTo (π : Pipeline) (i : Nat) (hi : i < π.layers.length) (items : List Item) :
    items.filterMap (π.showTo i) = (okEntries items).map (fun e => (e, π.stateAt i e)) := by
  have : π.showTo i = fun it => it.entry?.map (fun e => (e, π.stateAt i e)) := by
    funext it; exact π.showTo_of_lt i hi it
  rw [this, filterMap_map_entry]

/-! ### the whole walk is the structural traversal -/

/-- the structural reading of `walkItems`: the root entry (unless below `min_depth`), then — unless
    the root was cancelled or its children lie beyond `max_depth` — the traversal `visitListB` -/
def walkSpec (mn : Nat) (mx : Option Nat) (v : Entry → Bool) : RootView → List Item
  | .err anon => [.err [] anon]
  | .leaf k => if 0 < mn then [] else [.ok ⟨[], k.kind⟩]
  | .dir cs =>
    if 0 < mn then (if over 1 mx then [] else visitListB mn mx v [] cs)
    else .ok ⟨[], .d⟩ ::
      (if v ⟨[], .d⟩ then [] else if over 1 mx then [] else visitListB mn mx v [] cs)
  /- reported as a link, which `cancel_walk_tree` does not act on -/
  | .link cs =>
    if 0 < mn then (if over 1 mx then [] else visitListB mn mx v [] cs)
    else .ok ⟨[], .l⟩ :: (if over 1 mx then [] else visitListB mn mx v [] cs)

/-- the machine yields the structural traversal, from the root entry on, with any depth bounds -/
theorem walkItems_eq_spec (mn : Nat) (mx : Option Nat) (v : Entry → Bool) (rv : RootView) :
    walkItems mn mx v rv = walkSpec mn mx v rv := by
  cases rv with
  | err a => rfl
  | leaf k => rfl
  | dir cs =>
    simp only [walkItems, walkSpec]
    by_cases hm : 0 < mn
    · simp only [hm, if_true]; exact walk_refinesB mn mx v cs
    · simp only [hm, if_false]
      by_cases hv : v ⟨[], .d⟩ = true
      · simp only [hv, if_true, cancel, List.tail_cons, run_nil]
      · simp only [hv, if_false, Bool.false_eq_true]; rw [walk_refinesB mn mx v cs]
  | link cs =>
    simp only [walkItems, walkSpec]
    by_cases hm : 0 < mn
    · simp only [hm, if_true]; exact walk_refinesB mn mx v cs
    · simp only [hm, if_false, cancel, Bool.false_eq_true, ite_self]
      rw [walk_refinesB mn mx v cs]

/-- the traversal of a walk: the structural traversal pruned where the stack cancels -/
def Pipeline.traversal (π : Pipeline) (mn : Nat) (mx : Option Nat) (rv : RootView) : List Item :=
  walkSpec mn mx π.cancels rv

theorem Pipeline.items_eq_traversal (π : Pipeline) (mn : Nat) (mx : Option Nat) (rv : RootView) :
    π.items mn mx rv = π.traversal mn mx rv :=
  walkItems_eq_spec mn mx π.cancels rv

/-! ### every layer observes every fed entry exactly once -/

/-- **C16, logs, with the states**: layer `i` is shown the Ok entries of the structural traversal
    pruned by `π.cancels`, each once and in traversal order, each in the state the layers before it
    left it in -/
theorem observedS_all_once (π : Pipeline) (mn : Nat) (mx : Option Nat) (rv : RootView) (i : Nat)
    (hi : i < π.layers.length) :
    π.observedS mn mx rv i = (okEntries (π.traversal mn mx rv)).map (fun e => (e, π.stateAt i e)) := by
  rw [Pipeline.observedS, π.items_eq_traversal, filterMap_showTo π i hi]

/-- **C16, logs (`observes_all_once`)**: for every stack, every layer of it and every tree (any
    depth bounds, any root), what the layer observes is exactly the list of Ok entries of the
    structural traversal pruned by `π.cancels`: all of them — those an earlier layer has discarded
    too — each once, in traversal order.  The right-hand side does not mention `i`: the position of
    a layer in the stack does not matter. -/
theorem observes_all_once (π : Pipeline) (mn : Nat) (mx : Option Nat) (rv : RootView) (i : Nat)
    (hi : i < π.layers.length) :
    π.observed mn mx rv i = okEntries (π.traversal mn mx rv) := by
  rw [Pipeline.observed, observedS_all_once π mn mx rv i hi, List.map_map]
  exact List.map_id _

/-- there is nothing to observe where there is no layer -/
theorem observed_none (π : Pipeline) (mn : Nat) (mx : Option Nat) (rv : RootView) (i : Nat)
    (hi : π.layers.length ≤ i) : π.observed mn mx rv i = [] := by
  have : π.showTo i = fun _ => none := by funext it; exact π.showTo_of_ge i hi it
  have hnil : ∀ l : List Item, l.filterMap (fun _ => (none : Option (Entry × Sepn))) = [] := by
    intro l; induction l with
    | nil => rfl
    | cons a l ih => simp [List.filterMap_cons]
  simp only [Pipeline.observed, Pipeline.observedS, this, hnil, List.map_nil]

/-- all layers of a stack observe the same -/
theorem observed_position (π : Pipeline) (mn : Nat) (mx : Option Nat) (rv : RootView) (i j : Nat)
    (hi : i < π.layers.length) (hj : j < π.layers.length) :
    π.observed mn mx rv i = π.observed mn mx rv j := by
  rw [observes_all_once π mn mx rv i hi, observes_all_once π mn mx rv j hj]

/-- "exactly once", as a count: a layer is shown an entry as often as the traversal has it -/
theorem observed_count (π : Pipeline) (mn : Nat) (mx : Option Nat) (rv : RootView) (i : Nat)
    (hi : i < π.layers.length) (e : Entry) :
    (π.observed mn mx rv i).count e = (okEntries (π.traversal mn mx rv)).count e := by
  rw [observes_all_once π mn mx rv i hi]

/-- an entry that some earlier layer has discarded is observed nevertheless, as residue: if layer
    `i` does not keep an entry of the traversal, layer `i + 1` is shown it, not as a filtrate -/
theorem residue_observed (π : Pipeline) (mn : Nat) (mx : Option Nat) (rv : RootView) (i : Nat)
    (l : Layer) (hl : π.layers[i]? = some l) (hi : i + 1 < π.layers.length) (e : Entry)
    (he : e ∈ okEntries (π.traversal mn mx rv))
    (hv : l.verdict π e (π.stateAt i e) ≠ .keep) :
    ∃ s, s ≠ .filtrate ∧ (e, s) ∈ π.observedS mn mx rv (i + 1) := by
  refine ⟨π.stateAt (i + 1) e, ?_, ?_⟩
  · have hlt : i < (π.shown e).length := by rw [Pipeline.shown_length]; omega
    have ht : (π.shown e)[i]? = some (π.stateAt i e) := by
      simp only [Pipeline.stateAt, List.getElem?_eq_getElem hlt, Option.getD_some]
    have hs := π.shown_succ e i l _ hl ht hi
    have : π.stateAt (i + 1) e = (applyVerdict (π.stateAt i e) (l.verdict π e (π.stateAt i e))).1 := by
      simp only [Pipeline.stateAt, hs, Option.getD_some]
    rw [this]
    revert hv
    cases π.stateAt i e <;> cases l.verdict π e _ <;> simp [applyVerdict]
  · rw [observedS_all_once π mn mx rv (i + 1) hi]
    exact List.mem_map.mpr ⟨e, he, rfl⟩

/-! ### "exactly once", literally: no entry is observed twice

The traversal lists every node it visits once; if no directory has two children of the same name
(as on a file system) the entries of distinct nodes are distinct, so no entry occurs twice in what
a layer observes. -/

def WNode.name? : WNode → Option Str
  | .leaf n _ => some n
  | .dir n _ => some n
  | .errChild n _ => some n
  | .errHere => none

mutual
  /-- no directory of the tree has two children of the same name -/
  def distinctNames : WNode → Bool
    | .dir _ cs => distinctNamesL cs
    | _ => true
  def distinctNamesL : List WNode → Bool
    | [] => true
    | n :: ns =>
      distinctNames n && ns.all (fun m => n.name? == none || m.name? != n.name?) && distinctNamesL ns
end

theorem okEntries_append (a b : List Item) : okEntries (a ++ b) = okEntries a ++ okEntries b :=
  List.filterMap_append ..

theorem okEntries_ok (e : Entry) (l : List Item) : okEntries (.ok e :: l) = e :: okEntries l := rfl
theorem okEntries_err (p : List Str) (a : Bool) (l : List Item) : okEntries (.err p a :: l) = okEntries l := rfl
theorem okEntries_nil : okEntries [] = [] := rfl

mutual
  /-- an entry found for a node carries the path to the node and the name of the node -/
  theorem visitB_names (mn : Nat) (mx : Option Nat) (v : Entry → Bool) :
      ∀ (n : WNode) (path : List Str) (e : Entry), e ∈ okEntries (visitB mn mx v path n) →
        ∃ nm rest, n.name? = some nm ∧ e.names = path ++ nm :: rest
    | .leaf nm k, path, e, h => by
      simp only [visitB] at h
      split at h
      · simp [okEntries_nil] at h
      · simp only [okEntries_ok, okEntries_nil, List.mem_singleton] at h
        subst h
        exact ⟨nm, [], rfl, rfl⟩
    | .errChild nm a, path, e, h => by simp [visitB, okEntries_err, okEntries_nil] at h
    | .errHere, path, e, h => by simp [visitB, okEntries_err, okEntries_nil] at h
    | .dir nm cs, path, e, h => by
      have below : e ∈ okEntries (visitListB mn mx v (path ++ [nm]) cs) →
          ∃ nm' rest, (WNode.dir nm cs).name? = some nm' ∧ e.names = path ++ nm' :: rest := by
        intro h
        obtain ⟨_, _, nm', rest, _, he⟩ := visitListB_names mn mx v cs (path ++ [nm]) e h
        exact ⟨nm, nm' :: rest, rfl, by rw [he, List.append_assoc]; rfl⟩
      simp only [visitB] at h
      split at h
      · split at h
        · simp [okEntries_nil] at h
        · exact below h
      · rw [okEntries_ok, List.mem_cons] at h
        cases h with
        | inl h => subst h; exact ⟨nm, [], rfl, rfl⟩
        | inr h =>
          split at h
          · simp [okEntries_nil] at h
          · split at h
            · simp [okEntries_nil] at h
            · exact below h
  theorem visitListB_names (mn : Nat) (mx : Option Nat) (v : Entry → Bool) :
      ∀ (ns : List WNode) (path : List Str) (e : Entry), e ∈ okEntries (visitListB mn mx v path ns) →
        ∃ n, n ∈ ns ∧ ∃ nm rest, n.name? = some nm ∧ e.names = path ++ nm :: rest
    | [], path, e, h => by simp [visitListB, okEntries_nil] at h
    | n :: ns, path, e, h => by
      rw [visitListB, okEntries_append, List.mem_append] at h
      cases h with
      | inl h => exact ⟨n, List.mem_cons_self .., visitB_names mn mx v n path e h⟩
      | inr h =>
        obtain ⟨m, hm, r⟩ := visitListB_names mn mx v ns path e h
        exact ⟨m, List.mem_cons_of_mem _ hm, r⟩
end

mutual
  theorem visitB_nodup (mn : Nat) (mx : Option Nat) (v : Entry → Bool) :
      ∀ (n : WNode) (path : List Str), distinctNames n = true →
        (okEntries (visitB mn mx v path n)).Nodup
    | .leaf nm k, path, _ => by
      simp only [visitB]
      split
      · simp [okEntries_nil]
      · simp [okEntries_ok, okEntries_nil]
    | .errChild nm a, path, _ => by simp [visitB, okEntries_err, okEntries_nil]
    | .errHere, path, _ => by simp [visitB, okEntries_err, okEntries_nil]
    | .dir nm cs, path, hd => by
      have hcs : distinctNamesL cs = true := by simpa [distinctNames] using hd
      have below := visitListB_nodup mn mx v cs (path ++ [nm]) hcs
      have fresh : (⟨path ++ [nm], .d⟩ : Entry) ∉ okEntries (visitListB mn mx v (path ++ [nm]) cs) := by
        intro h
        obtain ⟨_, _, nm', rest, _, he⟩ := visitListB_names mn mx v cs (path ++ [nm]) _ h
        have := congrArg List.length he
        simp at this
      simp only [visitB]
      split
      · split
        · simp [okEntries_nil]
        · exact below
      · rw [okEntries_ok]
        split
        · simp [okEntries_nil]
        · split
          · simp [okEntries_nil]
          · exact List.nodup_cons.mpr ⟨fresh, below⟩
  theorem visitListB_nodup (mn : Nat) (mx : Option Nat) (v : Entry → Bool) :
      ∀ (ns : List WNode) (path : List Str), distinctNamesL ns = true →
        (okEntries (visitListB mn mx v path ns)).Nodup
    | [], path, _ => by simp [visitListB, okEntries_nil]
    | n :: ns, path, hd => by
      simp only [distinctNamesL, Bool.and_eq_true, List.all_eq_true] at hd
      obtain ⟨⟨hn, hall⟩, hns⟩ := hd
      rw [visitListB, okEntries_append]
      refine List.nodup_append.mpr ⟨visitB_nodup mn mx v n path hn, visitListB_nodup mn mx v ns path hns, ?_⟩
      intro a ha b hb hab
      subst hab
      obtain ⟨nm, rest, hnm, he⟩ := visitB_names mn mx v n path a ha
      obtain ⟨m, hm, nm', rest', hnm', he'⟩ := visitListB_names mn mx v ns path a hb
      rw [he] at he'
      have h1 := List.append_cancel_left he'
      simp only [List.cons.injEq] at h1
      have h2 := hall m hm
      rw [hnm, hnm', h1.1] at h2
      simp at h2
end

/-- no directory below the root of the walk has two children of the same name -/
def RootView.distinct : RootView → Bool
  | .dir cs => distinctNamesL cs
  | .link cs => distinctNamesL cs
  | _ => true

theorem walkSpec_nodup (mn : Nat) (mx : Option Nat) (v : Entry → Bool) (rv : RootView)
    (h : rv.distinct = true) : (okEntries (walkSpec mn mx v rv)).Nodup := by
  have root_fresh : ∀ (k : Kind) (cs : List WNode),
      (⟨[], k⟩ : Entry) ∉ okEntries (visitListB mn mx v [] cs) := by
    intro k cs hm
    obtain ⟨_, _, nm', rest, _, he⟩ := visitListB_names mn mx v cs [] _ hm
    simp at he
  cases rv with
  | err a => simp [walkSpec, okEntries_err, okEntries_nil]
  | leaf k =>
    simp only [walkSpec]
    split
    · simp [okEntries_nil]
    · simp [okEntries_ok, okEntries_nil]
  | dir cs =>
    have below := visitListB_nodup mn mx v cs [] h
    simp only [walkSpec]
    split
    · split
      · simp [okEntries_nil]
      · exact below
    · rw [okEntries_ok]
      split
      · simp [okEntries_nil]
      · split
        · simp [okEntries_nil]
        · exact List.nodup_cons.mpr ⟨root_fresh _ cs, below⟩
  | link cs =>
    have below := visitListB_nodup mn mx v cs [] h
    simp only [walkSpec]
    split
    · split
      · simp [okEntries_nil]
      · exact below
    · rw [okEntries_ok]
      split
      · simp [okEntries_nil]
      · exact List.nodup_cons.mpr ⟨root_fresh _ cs, below⟩

mutual
  /-- no recorded directory has two children of the same name -/
  def RNode.distinct : RNode → Bool
    | .dir _ cs => distinctR cs
    | .linkDir _ cs => distinctR cs
    | _ => true
  def distinctR : List RNode → Bool
    | [] => true
    | n :: ns => n.distinct && ns.all (fun m => m.name != n.name) && distinctR ns
end

theorem view_name (follow : Bool) (n : RNode) : (view follow n).name? = some n.name := by
  cases n <;> cases follow <;> simp [view, WNode.name?, RNode.name]

theorem viewList_all (follow : Bool) (P : WNode → Bool) :
    ∀ ns : List RNode, (viewList follow ns).all P = ns.all (fun n => P (view follow n))
  | [] => by simp [viewList]
  | n :: ns => by simp [viewList, viewList_all follow P ns]

mutual
  theorem view_distinct (follow : Bool) : ∀ n : RNode, n.distinct = true → distinctNames (view follow n) = true
    | .file _, _ => by simp [view, distinctNames]
    | .unreadable _, _ => by simp [view, distinctNames, distinctNamesL, WNode.name?]
    | .linkDangling _, _ => by cases follow <;> simp [view, distinctNames]
    | .linkFile _, _ => by cases follow <;> simp [view, distinctNames]
    | .linkCycle _, _ => by cases follow <;> simp [view, distinctNames]
    | .linkUnreadable _, _ => by cases follow <;> simp [view, distinctNames]
    | .dir _ cs, h => by
      simp only [view, distinctNames]
      exact viewList_distinct follow cs (by simpa [RNode.distinct] using h)
    | .linkDir _ cs, h => by
      cases follow with
      | false => simp [view, distinctNames]
      | true =>
        simp only [view, distinctNames, if_true]
        exact viewList_distinct true cs (by simpa [RNode.distinct] using h)
  theorem viewList_distinct (follow : Bool) : ∀ ns : List RNode, distinctR ns = true →
      distinctNamesL (viewList follow ns) = true
    | [], _ => by simp [viewList, distinctNamesL]
    | n :: ns, h => by
      simp only [distinctR, Bool.and_eq_true] at h
      obtain ⟨⟨hn, hall⟩, hns⟩ := h
      simp only [viewList, distinctNamesL, Bool.and_eq_true]
      refine ⟨⟨view_distinct follow n hn, ?_⟩, viewList_distinct follow ns hns⟩
      rw [viewList_all]
      simp only [List.all_eq_true] at hall ⊢
      intro m hm
      have := hall m hm
      simp only [view_name]
      simpa using this
end

/-- the root of a walk over a recorded tree without clashing names has no clashing names -/
theorem rootView_distinct (follow final : Bool) (n : RNode) (rv : RootView)
    (h : rootView follow final n = some rv) (hd : n.distinct = true) : rv.distinct = true := by
  cases n with
  | file _ => simp [rootView] at h; subst h; rfl
  | linkDangling _ => simp [rootView] at h; subst h; rfl
  | linkFile _ => simp [rootView] at h; subst h; rfl
  | linkCycle _ => simp [rootView] at h
  | unreadable _ =>
    simp [rootView] at h; subst h
    simp [RootView.distinct, distinctNamesL, distinctNames, WNode.name?]
  | linkUnreadable _ =>
    simp only [rootView, Option.some.injEq] at h
    subst h
    cases final <;> cases follow <;>
      simp [RootView.distinct, distinctNamesL, distinctNames, WNode.name?]
  | dir _ cs =>
    simp only [rootView, Option.some.injEq] at h
    subst h
    exact viewList_distinct follow cs (by simpa [RNode.distinct] using hd)
  | linkDir _ cs =>
    simp only [rootView, Option.some.injEq] at h
    subst h
    have := viewList_distinct follow cs (by simpa [RNode.distinct] using hd)
    cases hc : (follow || final) <;> simpa [hc, RootView.distinct] using this

/-- **no layer is shown an entry twice**, whatever its position, provided no directory has two
    children of the same name -/
theorem observed_nodup (π : Pipeline) (mn : Nat) (mx : Option Nat) (rv : RootView) (i : Nat)
    (h : rv.distinct = true) : (π.observed mn mx rv i).Nodup := by
  by_cases hi : i < π.layers.length
  · rw [observes_all_once π mn mx rv i hi]
    exact walkSpec_nodup mn mx π.cancels rv h
  · rw [observed_none π mn mx rv i (by omega)]
    exact List.nodup_nil

/-- ... so every entry of the traversal is observed exactly once by every layer, and no other
    entry is observed at all -/
theorem observed_count_one (π : Pipeline) (mn : Nat) (mx : Option Nat) (rv : RootView) (i : Nat)
    (hi : i < π.layers.length) (h : rv.distinct = true) (e : Entry) :
    (π.observed mn mx rv i).count e = if e ∈ okEntries (π.traversal mn mx rv) then 1 else 0 := by
  have hn := observed_nodup π mn mx rv i h
  rw [observes_all_once π mn mx rv i hi] at hn ⊢
  exact hn.count

/-! ### the driver's logs -/

/-- an entry as the driver logs it -/
def showEntry (π : Pipeline) (e : Entry) : String :=
  s!"{hexStr (π.path e)}:{if e.isDir then 1 else 0}"

theorem showLog_eq (π : Pipeline) (it : Item) : Cmd.showLog π it = it.entry?.map (showEntry π) := by
  cases it <;> rfl

/-- the log the driver prints for every instrumented layer (`cmdWith` prints
    `joinOr ";" (items.filterMap (showLog π))` once for each `filter_entry` of the stack) is the
    rendering of what that layer observes, wherever the layer is -/
theorem driver_log_eq (π : Pipeline) (mn : Nat) (mx : Option Nat) (rv : RootView) (i : Nat)
    (hi : i < π.layers.length) :
    (π.items mn mx rv).filterMap (Cmd.showLog π) = (π.observed mn mx rv i).map (showEntry π) := by
  have : Cmd.showLog π = fun it => it.entry?.map (showEntry π) := by
    funext it; exact showLog_eq π it
  rw [this, filterMap_map_entry, observes_all_once π mn mx rv i hi, Pipeline.items_eq_traversal]

/-! ### permuting the stack -/

/-- the same walk with another stack of layers -/
def Pipeline.withLayers (π : Pipeline) (ls : List Layer) : Pipeline := { π with layers := ls }

/-- **the proviso**: the verdict each layer gives an entry does not depend on the separation state
    the entry arrives in -/
def Pipeline.StateFree (π : Pipeline) : Prop :=
  ∀ l ∈ π.layers, ∀ (e : Entry) (s s' : Sepn), l.verdict π e s = l.verdict π e s'

def Layer.isFilter : Layer → Bool
  | .filter _ => true
  | .not _ => false

/-- a decidable sufficient condition for the proviso: the walk has no pivot (a path walk, or a
    glob without an invariant prefix), or the stack has `filter_entry` layers only -/
def Pipeline.stateFreeB (π : Pipeline) : Bool := π.pivot == 0 || π.layers.all Layer.isFilter

theorem Pipeline.stateFree_of_B (π : Pipeline) (h : π.stateFreeB = true) : π.StateFree := by
  intro l hl e s s'
  cases l with
  | filter rules => rfl
  | not p =>
    simp only [Pipeline.stateFreeB, Bool.or_eq_true, beq_iff_eq, List.all_eq_true] at h
    cases h with
    | inl h0 =>
      simp only [Layer.verdict, Pipeline.relativeFor, h0, ite_self]
    | inr hall => exact absurd (hall _ hl) (by simp [Layer.isFilter])

/-- the verdict of a layer depends on the walk, not on the stack the layer sits in -/
theorem Layer.verdict_withLayers (π : Pipeline) (ls : List Layer) (l : Layer) (e : Entry) (s : Sepn) :
    l.verdict (π.withLayers ls) e s = l.verdict π e s := by
  cases l <;> rfl

theorem Pipeline.stateFree_withLayers (π : Pipeline) (h : π.StateFree) (ls : List Layer)
    (hp : π.layers.Perm ls) : (π.withLayers ls).StateFree := by
  intro l hl e s s'
  rw [Layer.verdict_withLayers, Layer.verdict_withLayers]
  exact h l (hp.symm.subset hl) e s s'

/-- a stack of functions that ignore the state produces the verdicts they give a filtrate -/
theorem verdictsOf_const : ∀ (fs : List (Sepn → Verdict)) (s : Sepn),
    (∀ f ∈ fs, ∀ s s', f s = f s') → verdictsOf fs s = fs.map (fun f => f .filtrate)
  | [], _, _ => rfl
  | f :: fs, s, h => by
    simp only [verdictsOf, List.map_cons]
    rw [verdictsOf_const fs _ (fun g hg => h g (List.mem_cons_of_mem _ hg)),
      h f (List.mem_cons_self ..) s .filtrate]

/-- the verdicts of the whole stack on an entry, each as given to a filtrate -/
def Pipeline.verdicts (π : Pipeline) (e : Entry) : List Verdict :=
  (π.globFns e).map (fun f => f .filtrate) ++ π.layers.map (fun l => l.verdict π e .filtrate)

theorem Pipeline.globFns_const (π : Pipeline) (e : Entry) :
    ∀ f ∈ π.globFns e, ∀ s s' : Sepn, f s = f s' := by
  intro f hf s s'
  unfold Pipeline.globFns at hf
  cases hg : π.glob with
  | none => rw [hg] at hf; cases hf
  | some g =>
    rw [hg] at hf
    simp only [List.mem_singleton] at hf
    subst hf; rfl

/-- under the proviso the decision is `feed` on the state-free verdicts -/
theorem Pipeline.decide_eq_feed (π : Pipeline) (h : π.StateFree) (e : Entry) :
    π.decide e = feed applyVerdict .filtrate (π.verdicts e) := by
  unfold Pipeline.decide
  rw [feedDep_eq_feed, verdictsOf_const]
  · simp only [Pipeline.stack_eq, Pipeline.verdicts, Pipeline.layerFns, List.map_append, List.map_map]
    rfl
  · intro f hf s s'
    rw [Pipeline.stack_eq, List.mem_append] at hf
    cases hf with
    | inl hg => exact π.globFns_const e f hg s s'
    | inr hl =>
      simp only [Pipeline.layerFns, List.mem_map] at hl
      obtain ⟨l, hl, rfl⟩ := hl
      exact h l hl e s s'

theorem Pipeline.verdicts_perm (π : Pipeline) (ls : List Layer) (hp : π.layers.Perm ls) (e : Entry) :
    (π.verdicts e).Perm ((π.withLayers ls).verdicts e) := by
  unfold Pipeline.verdicts
  have h1 : (π.withLayers ls).globFns e = π.globFns e := rfl
  have h2 : (π.withLayers ls).layers.map (fun l => l.verdict (π.withLayers ls) e .filtrate)
      = ls.map (fun l => l.verdict π e .filtrate) := by
    show ls.map _ = _
    exact List.map_congr_left (fun l _ => Layer.verdict_withLayers π ls l e .filtrate)
  rw [h1, h2]
  exact List.Perm.append_left _ (hp.map _)

/-- under the proviso, the separation an entry ends up in is the same for every permutation of the
    stack (`feed_perm`) -/
theorem decide_perm (π : Pipeline) (h : π.StateFree) (ls : List Layer) (hp : π.layers.Perm ls)
    (e : Entry) : ((π.withLayers ls).decide e).1 = (π.decide e).1 := by
  rw [π.decide_eq_feed h, (π.withLayers ls).decide_eq_feed (π.stateFree_withLayers h ls hp)]
  exact (feed_perm .filtrate (π.verdicts_perm ls hp e)).symm

/-- ... and so is whether it cancels the walk -/
theorem cancels_perm (π : Pipeline) (h : π.StateFree) (ls : List Layer) (hp : π.layers.Perm ls) :
    (π.withLayers ls).cancels = π.cancels := by
  funext e
  have h1 := decide_cancels_iff_tree π e
  have h2 := decide_cancels_iff_tree (π.withLayers ls) e
  rw [decide_perm π h ls hp e] at h2
  cases hc : π.cancels e with
  | true => exact h2.mpr (h1.mp hc)
  | false =>
    cases hc' : (π.withLayers ls).cancels e with
    | false => rfl
    | true => rw [h1.mpr (h2.mp hc')] at hc; cases hc

/-- ... hence the walk reads the same entries -/
theorem items_perm (π : Pipeline) (h : π.StateFree) (ls : List Layer) (hp : π.layers.Perm ls)
    (mn : Nat) (mx : Option Nat) (rv : RootView) :
    (π.withLayers ls).items mn mx rv = π.items mn mx rv := by
  unfold Pipeline.items
  rw [cancels_perm π h ls hp]

/-- **C16, logs (`observed_perm`)**: under the proviso, permuting the layers of the stack changes
    nothing in what a layer observes, whatever position `i` it had and whatever position `j` it is
    moved to.  Without the proviso this is false: `residue_pivot_order_dependence`. -/
theorem observed_perm (π : Pipeline) (h : π.StateFree) (ls : List Layer) (hp : π.layers.Perm ls)
    (mn : Nat) (mx : Option Nat) (rv : RootView) (i j : Nat)
    (hi : i < π.layers.length) (hj : j < ls.length) :
    (π.withLayers ls).observed mn mx rv j = π.observed mn mx rv i := by
  rw [observes_all_once π mn mx rv i hi, observes_all_once (π.withLayers ls) mn mx rv j hj,
    ← Pipeline.items_eq_traversal, ← Pipeline.items_eq_traversal, items_perm π h ls hp]

/-- what the consumer gets of an item: entries that are still filtrate after the whole stack, and
    every error -/
def Pipeline.keeps (π : Pipeline) : Item → Bool
  | .ok e => Decidable.decide ((π.decide e).1 = .filtrate)
  | .err .. => true

/-- the items the walk yields to its consumer, in order -/
def Pipeline.yielded (π : Pipeline) (mn : Nat) (mx : Option Nat) (rv : RootView) : List Item :=
  (π.items mn mx rv).filter π.keeps

/-- `keeps` is the condition under which the driver prints an item -/
theorem showItem_isSome (π : Pipeline) (it : Item) : (Cmd.showItem π it).isSome = π.keeps it := by
  cases it with
  | err p a => rfl
  | ok e =>
    simp only [Cmd.showItem, Pipeline.keeps]
    by_cases hf : (π.decide e).1 = .filtrate
    · simp only [hf, if_true, decide_true]; rfl
    · simp only [hf, if_false, decide_false]; rfl

/-- **C16 (`yielded_perm`)**: under the proviso the walk yields the same items, in the same order,
    for every permutation of the stack -/
theorem yielded_perm (π : Pipeline) (h : π.StateFree) (ls : List Layer) (hp : π.layers.Perm ls)
    (mn : Nat) (mx : Option Nat) (rv : RootView) :
    (π.withLayers ls).yielded mn mx rv = π.yielded mn mx rv := by
  unfold Pipeline.yielded
  rw [items_perm π h ls hp]
  apply List.filter_congr
  intro it _
  cases it with
  | err p a => rfl
  | ok e => simp only [Pipeline.keeps, decide_perm π h ls hp e]

/-- the two decidable instances of the proviso -/
theorem yielded_perm_of_B (π : Pipeline) (h : π.stateFreeB = true) (ls : List Layer)
    (hp : π.layers.Perm ls) (mn : Nat) (mx : Option Nat) (rv : RootView) :
    (π.withLayers ls).yielded mn mx rv = π.yielded mn mx rv :=
  yielded_perm π (π.stateFree_of_B h) ls hp mn mx rv

theorem observed_perm_of_B (π : Pipeline) (h : π.stateFreeB = true) (ls : List Layer)
    (hp : π.layers.Perm ls) (mn : Nat) (mx : Option Nat) (rv : RootView) (i j : Nat)
    (hi : i < π.layers.length) (hj : j < ls.length) :
    (π.withLayers ls).observed mn mx rv j = π.observed mn mx rv i :=
  observed_perm π (π.stateFree_of_B h) ls hp mn mx rv i j hi hj

/-! ### the proviso is needed: K-NOT-RESIDUE-PIVOT

The glob `a/b/**` walked from the base `""`: `Glob::anchor` gives the root `a/b` and the pivot 2.
A filtrate is a `GlobEntry` and its relative path is taken below the base (`a/b/c`); residue is a
`TreeEntry`, has lost the pivot, and its relative path is taken below the root of the walk (`c`).
So `not("c/**")` keeps the directory `a/b/c` when it sees it as a filtrate and discards it as a
tree — cancelling the walk, so that `a/b/c/x.txt` is never read — when `filter_entry(c ↦ File)`
has made it residue before. -/

/-- what `c/**` parses to -/
def kNotTok : Tok := .cat ⟨0, 4⟩ [.lit ⟨0, 1⟩ ['c'] false, .tree ⟨1, 3⟩ true]
/-- what `a/b/**` parses to -/
def kGlobTok : Tok :=
  .cat ⟨0, 6⟩ [.lit ⟨0, 1⟩ ['a'] false, .sep ⟨1, 1⟩, .lit ⟨2, 1⟩ ['b'] false, .tree ⟨3, 3⟩ true]

def kGlob : GlobProgram := ⟨encodeTop kGlobTok, walkPrograms kGlobTok, 2⟩
/-- `filter_entry(c ↦ File)`, then `not("c/**")` -/
def kLayers : List Layer := [.filter [(['c'], false)], .not (notProgram kNotTok)]
/-- the walk of the finding, with the semantics of the driver -/
def kπ : Pipeline := ⟨drvSem, ['a', '/', 'b'], some kGlob, kLayers⟩
/-- below `a/b`: `c/x.txt` and `y.txt` -/
def kTree : RootView := .dir [.dir ['c'] [.leaf "x.txt".toList .f], .leaf "y.txt".toList .f]

/- the tokens, the root, the pivot and the programs are those of the expressions (evaluated, not
   kernel-checked: the parser and `String` do not reduce well) -/
#guard (Cmd.build "c/**".toList).map (fun t =>
    ((notProgram t).exhaustive.map programText, (notProgram t).nonexhaustive.map programText)) ==
  some ((notProgram kNotTok).exhaustive.map programText, (notProgram kNotTok).nonexhaustive.map programText)
#guard (Cmd.build "a/b/**".toList).map (fun t =>
    (anchor drvCasing t [], programText (encodeTop t), (walkPrograms t).map programText)) ==
  some ((kπ.root, kπ.pivot), programText kGlob.complete, kGlob.components.map programText)

/-- the reversed stack is a permutation -/
theorem kLayers_perm : kπ.layers.Perm kLayers.reverse := (List.reverse_perm kLayers).symm

/-- the proviso fails for this walk: the verdict of `not("c/**")` on the directory `a/b/c` is
    `keep` for a filtrate and `tree` for residue -/
theorem k_not_stateFree : ¬ kπ.StateFree := by
  intro h
  have h2 := h (.not (notProgram kNotTok)) (by simp [kπ, kLayers]) ⟨[['c']], .d⟩ .filtrate .node
  revert h2
  decide

/-- **K-NOT-RESIDUE-PIVOT**: both orders of the stack, on `a/b/{c/x.txt, y.txt}`.
    `filter_entry` first: `not` discards the residue `c` as a tree, `c/x.txt` is never read — no
    layer observes it and it is not yielded.  `not` first: `c` is kept by it, `c/x.txt` is read,
    observed by both layers, and yielded. -/
theorem residue_pivot_order_dependence :
    -- `filter_entry(c ↦ File)`, then `not("c/**")`
    kπ.observedS 0 none kTree 1 =
      [(⟨[], .d⟩, .filtrate), (⟨[['c']], .d⟩, .node), (⟨["y.txt".toList], .f⟩, .filtrate)] ∧
    kπ.observed 0 none kTree 0 = [⟨[], .d⟩, ⟨[['c']], .d⟩, ⟨["y.txt".toList], .f⟩] ∧
    kπ.yielded 0 none kTree = [.ok ⟨[], .d⟩, .ok ⟨["y.txt".toList], .f⟩] ∧
    -- `not("c/**")`, then `filter_entry(c ↦ File)`
    (kπ.withLayers kLayers.reverse).observed 0 none kTree 1 =
      [⟨[], .d⟩, ⟨[['c']], .d⟩, ⟨[['c'], "x.txt".toList], .f⟩, ⟨["y.txt".toList], .f⟩] ∧
    (kπ.withLayers kLayers.reverse).yielded 0 none kTree =
      [.ok ⟨[], .d⟩, .ok ⟨[['c'], "x.txt".toList], .f⟩, .ok ⟨["y.txt".toList], .f⟩] := by
  decide

/-- `observed_perm` without its proviso is false -/
theorem observed_perm_needs_proviso :
    ¬ ∀ (π : Pipeline) (ls : List Layer), π.layers.Perm ls →
      ∀ (mn : Nat) (mx : Option Nat) (rv : RootView) (i j : Nat), i < π.layers.length → j < ls.length →
        (π.withLayers ls).observed mn mx rv j = π.observed mn mx rv i := by
  intro h
  have h2 := h kπ kLayers.reverse kLayers_perm 0 none kTree 0 1 (by decide) (by decide)
  revert h2
  decide

/-- `yielded_perm` without its proviso is false -/
theorem yielded_perm_needs_proviso :
    ¬ ∀ (π : Pipeline) (ls : List Layer), π.layers.Perm ls →
      ∀ (mn : Nat) (mx : Option Nat) (rv : RootView),
        (π.withLayers ls).yielded mn mx rv = π.yielded mn mx rv := by
  intro h
  have h2 := h kπ kLayers.reverse kLayers_perm 0 none kTree
  revert h2
  decide

/-! ### the theorems are not vacuous -/

/-- `observes_all_once` on the walk above, for the outer layer: its hypothesis holds, and the list
    has the directory `c`, which the inner layer had discarded already (`residue_observed` applies
    to it: `i = 0`, the verdict is `file`) -/
example : (1 < kπ.layers.length) ∧
    okEntries (kπ.traversal 0 none kTree) = [⟨[], .d⟩, ⟨[['c']], .d⟩, ⟨["y.txt".toList], .f⟩] ∧
    kπ.layers[0]? = some (.filter [(['c'], false)]) ∧
    (⟨[['c']], .d⟩ : Entry) ∈ okEntries (kπ.traversal 0 none kTree) ∧
    (Layer.filter [(['c'], false)]).verdict kπ ⟨[['c']], .d⟩ (kπ.stateAt 0 ⟨[['c']], .d⟩) ≠ .keep :=
  ⟨by decide, by decide, rfl, by decide, by decide⟩

/-- `observed_nodup` / `observed_count_one` on the same tree -/
example : kTree.distinct = true := by decide

/-- the same stack over the same tree walked as a path (`PathExt::walk` from `a/b`): no pivot, the
    proviso holds although there is a `not`, and `observed_perm` / `yielded_perm` apply to the
    reversed stack; both orders discard `c` as a tree -/
def pπ : Pipeline := ⟨drvSem, ['a', '/', 'b'], none, kLayers⟩

example : pπ.stateFreeB = true ∧ pπ.layers.Perm kLayers.reverse ∧
    (pπ.withLayers kLayers.reverse).yielded 0 none kTree = [.ok ⟨[], .d⟩, .ok ⟨["y.txt".toList], .f⟩] ∧
    pπ.yielded 0 none kTree = [.ok ⟨[], .d⟩, .ok ⟨["y.txt".toList], .f⟩] :=
  ⟨by decide, (List.reverse_perm kLayers).symm, by decide, by decide⟩

/-- the glob walk with `filter_entry` layers only (`c ↦ Tree` and `y.txt ↦ File`): the proviso
    holds although there is a pivot -/
def fπ : Pipeline :=
  ⟨drvSem, ['a', '/', 'b'], some kGlob, [.filter [(['c'], true)], .filter [("y.txt".toList, false)]]⟩

example : fπ.stateFreeB = true ∧
    fπ.layers.Perm [.filter [("y.txt".toList, false)], .filter [(['c'], true)]] ∧
    fπ.observed 0 none kTree 1 = [⟨[], .d⟩, ⟨[['c']], .d⟩, ⟨["y.txt".toList], .f⟩] ∧
    fπ.yielded 0 none kTree = [.ok ⟨[], .d⟩] :=
  ⟨by decide, List.Perm.swap _ _ _, by decide, by decide⟩

end Wax.Walk
