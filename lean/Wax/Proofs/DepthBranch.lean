import Wax.Proofs.DepthAlg
/-!
C10 on patterns WITH BRANCHES: alternations (nested at will) and repetitions (lower bound ≥ 1,
invariant or variant bounds, nested at will), over tree-free leaves.  (Tree wildcards together
with branches: `DepthBranchTree.lean`.)

**The fragment** `branchOk : Tok → Bool` is an abstract interpretation of the token tree
(`clsT : Tok → Option (List Cls)`) over finite sets of *classes* of matched text.  A class
`⟨pure, l, r⟩` says whether the text contains a separator and, for either end, one of
`E` (the fold's term has a boundary there and the text has a separator there), `S` (no boundary,
and the text has a non-separator there), `W` (no boundary in the term, nothing known of the text:
a run that can match `""` — `*`, an empty literal — is at that end).
* leaves: a literal without separator, a class, `?` ↦ `⟨pure, S, S⟩`; `*`, `""` ↦ `⟨pure, W, W⟩`;
  a separator ↦ `⟨¬pure, E, E⟩`; tree wildcards and literals with `/` are outside;
* concatenation: all products `Cls.mul`, provided every pair may be adjacent (`Cls.valid`: one of
  the two is separator-free, or one of the two ends at the junction is `S` — so no `//` can arise
  and no run that can match `""` stands alone between two separators); a `W` end becomes `S` when
  a separator-free text with an `S` end is joined to it (`*a`, `a*`);
* alternation: the union over the (non-empty) branches;
* repetition `<body:lo,hi>`: `lo ≥ 1`; the closure of the body's classes under `body · _`
  (`closeGo`), every adjacency allowed, and ALL CLASSES OF THE CLOSURE HAVE ONE TERMINATION
  (`uniformC`: `<{a,b}/:1,3>` yes, `<{a,b/}:2>` no);
* the whole pattern (`branchOk`): no class has a `W` end; if some class both starts and ends with a
  separator, every term of the fold with termination `closed` is invariant (`closedInv`:
  `finalize` does not subtract one from a closed RANGE).

**Theorem** `depth_sound_branch`: on `branchOk`, if `depthVariance t = .ok v` then EVERY matched
path, canonical or not, in any context, has its number of components in `v`.
`depth_sound_branch_partial`: the same for canonical paths on `F10b` = flat fragment of
`depth_sound_tree_glob` ∨ `branchOk`; `F10b_of_flatTreeOk`: the classifier corollary.

**Method.**  The measure is the number of separators of the matched text (additive under
concatenation without any side condition).  Invariant `Good C D u` between the classes `C`, the
fold's set of terms `D` and a matched text `u`: some class `cl ∈ C` is realized by `u`, and two
terms of `D` with the termination of `cl` have members `k1 ≤ seps u ≤ k2` (a *hull* invariant:
products of repetitions do not preserve per-term exactness, `<{a,b/c}/:2>` has terms 2 and 4 and
matches `a/b/c/`, 3 separators).  It is proved by mutual structural recursion on the derivations
`SM / SMs / SRep` (`sm_good`, `sms_cat`, `sms_acc` — the left fold with an accumulator —,
`srep_good`), using the backward interval algebra of `DepthAlg.lean`; `depthTok_wf` (every term
the fold builds, on any token tree, is well formed) is a separate structural induction.  At the
top, a text without `//` that starts/ends as its class says has `seps + 1 - s - e` components.

**Where it stops** (each with a witness below, or the reason):
* a repetition that may iterate zero times: FALSE (`depth_rep_zero_witness`, `<a:0,1>`);
* an alternative that can match `""`: FALSE (`depth_alt_nullable_witness`, `{a,*}`);
* a tree wildcard inside a branch next to a closed range: FALSE (`depth_branch_tree_witness`,
  `/a{a/**}` matches `/aa`) — the sound part is in `DepthBranchTree.lean`;
* closed range terms: false for non-canonical paths (`depth_closed_range_witness`, `/<a/:1,2>`);
* repetition bodies whose classes have different terminations (`<{a,b/}:2>`): NOT PROVED; the
  hull invariant per termination fails there (`ab/` has termination "ends with boundary" and one
  separator, the only such term has value 2), but the final hull seems to absorb it: no
  disagreement with the crate's exact component counts on ~5000 such random patterns.
-/
set_option linter.unusedSimpArgs false
set_option linter.unusedVariables false
namespace Wax

/-! ### strings: separators, first and last character -/

/-- number of separators -/
def seps : Str → Nat
  | [] => 0
  | c :: w => b2n (c == '/') + seps w

/-- is the first character a separator (`none`: empty) -/
def hdS : Str → Option Bool
  | [] => none
  | c :: _ => some (c == '/')

/-- is the last character a separator (`none`: empty) -/
def ltS : Str → Option Bool
  | [] => none
  | c :: w => match ltS w with | none => some (c == '/') | some b => some b

/-- no two adjacent separators -/
def noDbl : Str → Bool
  | [] => true
  | c :: w => !(c == '/' && hdS w == some true) && noDbl w

theorem seps_append : ∀ (u v : Str), seps (u ++ v) = seps u + seps v
  | [], v => by simp [seps]
  | c :: u, v => by simp [seps, seps_append u v, Nat.add_assoc]

theorem hdS_append (u v : Str) : hdS (u ++ v) = (hdS u).or (hdS v) := by
  cases u <;> simp [hdS]

theorem ltS_append : ∀ (u v : Str), ltS (u ++ v) = (ltS v).or (ltS u)
  | [], v => by simp [ltS]
  | c :: u, v => by
    simp only [List.cons_append, ltS, ltS_append u v]
    cases ltS v <;> cases ltS u <;> simp

theorem noDbl_append : ∀ (u v : Str),
    noDbl (u ++ v) = (noDbl u && noDbl v && !(ltS u == some true && hdS v == some true))
  | [], v => by simp [noDbl, ltS]
  | c :: u, v => by
    simp only [List.cons_append, noDbl, noDbl_append u v, hdS_append, ltS]
    cases u with
    | nil => cases hv : hdS v <;> simp [hdS, ltS, noDbl, Bool.and_comm]
    | cons d u =>
      simp only [hdS, Option.or_some]
      cases h1 : ltS (d :: u) with
      | none => simp [ltS] at h1; cases hl : ltS u <;> simp [hl] at h1
      | some b => simp [Bool.and_assoc]

theorem seps_sepFree : ∀ {u : Str}, SepFree u → seps u = 0
  | [], _ => rfl
  | c :: u, h => by
    obtain ⟨hc, hu⟩ := sepFree_cons.mp h
    simp [seps, seps_sepFree hu, hc, b2n]

theorem hdS_sepFree {u : Str} (h : SepFree u) : hdS u ≠ some true := by
  cases u with
  | nil => simp [hdS]
  | cons c u => simp [hdS, (sepFree_cons.mp h).1]

theorem ltS_sepFree : ∀ {u : Str}, SepFree u → ltS u ≠ some true
  | [], _ => by simp [ltS]
  | c :: u, h => by
    obtain ⟨hc, hu⟩ := sepFree_cons.mp h
    have := ltS_sepFree hu
    simp only [ltS]
    cases hl : ltS u with
    | none => simp [hc]
    | some b => rw [hl] at this; simpa using this

theorem noDbl_sepFree : ∀ {u : Str}, SepFree u → noDbl u = true
  | [], _ => rfl
  | c :: u, h => by
    obtain ⟨hc, hu⟩ := sepFree_cons.mp h
    simp [noDbl, noDbl_sepFree hu, hc]

theorem hdS_ne_nil {u : Str} (h : u ≠ []) : hdS u = some (u.head h == '/') := by
  cases u with
  | nil => exact absurd rfl h
  | cons c u => rfl

theorem hdS_sepFree_cons {u : Str} (h : SepFree u) (hne : u ≠ []) : hdS u = some false := by
  cases u with
  | nil => exact absurd rfl hne
  | cons c u => simp [hdS, (sepFree_cons.mp h).1]

theorem ltS_sepFree_cons {u : Str} (h : SepFree u) (hne : u ≠ []) : ltS u = some false := by
  have := ltS_sepFree h
  cases hl : ltS u with
  | none => cases u with
    | nil => exact absurd rfl hne
    | cons c u => simp only [ltS] at hl; cases h2 : ltS u <;> simp [h2] at hl
  | some b => cases b with
    | true => exact absurd hl this
    | false => rfl

/-- **components from separators**: a non-empty path without `//` has one component more than it
has separators, not counting an empty first or last piece -/
theorem depthGo_seps : ∀ (w : Str) (p s e : Bool), noDbl w = true → hdS w = some s →
    ltS w = some e → depthGo p w + b2n (p && !s) + b2n s + b2n e = seps w + 1
  | [], _, _, _, _, h, _ => by simp [hdS] at h
  | [c], p, s, e, _, hs, he => by
    simp only [hdS, Option.some.injEq] at hs
    simp only [ltS, Option.some.injEq] at he
    subst hs; subst he
    by_cases hc : c = '/'
    · subst hc; simp [depthGo, seps, b2n]
    · cases p <;> simp [depthGo, seps, b2n, hc]
  | c :: d :: w, p, s, e, hn, hs, he => by
    simp only [hdS, Option.some.injEq] at hs
    subst hs
    have he' : ltS (d :: w) = some e := by
      simp only [ltS] at he ⊢
      cases hl : ltS w <;> simp [hl] at he ⊢ <;> exact he
    have hn0 : (!(c == '/' && (hdS (d :: w) == some true)) && noDbl (d :: w)) = true := hn
    simp only [Bool.and_eq_true, Bool.not_eq_true', Bool.and_eq_false_iff] at hn0
    have hn' : noDbl (d :: w) = true := hn0.2
    have hn1 := hn0.1
    simp only [hdS] at hn1
    by_cases hc : c = '/'
    · subst hc
      have hd : (d == '/') = false := by
        rcases hn1 with h | h
        · simp at h
        · simpa using h
      have ih := depthGo_seps (d :: w) false (d == '/') e hn' rfl he'
      simp only [hd] at ih
      simp only [depthGo, seps, hd, b2n] at ih ⊢
      simp at ih ⊢
      omega
    · have ih := depthGo_seps (d :: w) true (d == '/') e hn' rfl he'
      have hc' : (c == '/') = false := by simpa using hc
      simp only [depthGo, hc, seps, hc', b2n] at ih ⊢
      cases p <;> cases hd : (d == '/') <;> simp [hd] at ih ⊢ <;> omega

theorem depthOf_seps {w : Str} {s e : Bool} (hn : noDbl w = true) (hs : hdS w = some s)
    (he : ltS w = some e) : depthOf w + b2n s + b2n e = seps w + 1 := by
  have := depthGo_seps w false s e hn hs he
  simpa [depthOf, b2n] using this

/-! ### classes of matched text -/

/-- what is known about one end of a matched text, and what the fold believes:
`E`: the fold's term starts (ends) with a boundary and the text starts (ends) with a separator;
`S`: no boundary and the text starts (ends) with a non-separator (so it is not empty);
`W`: no boundary in the term, nothing known about the text (a run that can match `""` is at
this end) -/
inductive EndK where | E | S | W
deriving DecidableEq, Repr

/-- class of a (derivation, text) pair: `pure`: the text contains no separator -/
structure Cls where
  pure : Bool
  l : EndK
  r : EndK
deriving DecidableEq, Repr

def endOK : EndK → Option Bool → Prop
  | .E, x => x = some true
  | .S, x => x = some false
  | .W, _ => True

/-- the text `u` realizes the class `c` -/
def Real (c : Cls) (u : Str) : Prop :=
  noDbl u = true ∧ (c.pure = true → SepFree u) ∧ endOK c.l (hdS u) ∧ endOK c.r (ltS u)

/-- may a text of class `b` follow a text of class `a` (no `//` can arise, no run that can match
`""` stands between two separators) -/
def Cls.valid (a b : Cls) : Bool :=
  a.pure || b.pure || decide (a.r = .S) || decide (b.l = .S)

def Cls.mul (a b : Cls) : Cls where
  pure := a.pure && b.pure
  l := match a.l with
    | .W => if a.pure && decide (b.l = .S) then .S else .W
    | x => x
  r := match b.r with
    | .W => if b.pure && decide (a.r = .S) then .S else .W
    | x => x

/-- the termination the fold gives to the terms of this class -/
def Cls.termn (c : Cls) : Termn := Termn.ofBools (decide (c.l = .E)) (decide (c.r = .E))

theorem Cls.mul_termn (a b : Cls) :
    (a.mul b).termn = Termn.ofBools (decide (a.l = .E)) (decide (b.r = .E)) := by
  obtain ⟨pa, la, ra⟩ := a
  obtain ⟨pb, lb, rb⟩ := b
  cases la <;> cases rb <;> simp [Cls.mul, Cls.termn] <;> repeat' split <;> simp

theorem endOK_l_mul {a b : Cls} {u v : Str} (ha : endOK a.l (hdS u)) (hp : a.pure = true → SepFree u)
    (hb : endOK b.l (hdS v)) : endOK (a.mul b).l (hdS (u ++ v)) := by
  rw [hdS_append]
  cases hl : a.l with
  | E => simp only [Cls.mul, hl, endOK] at ha ⊢; simp [ha]
  | S => simp only [Cls.mul, hl, endOK] at ha ⊢; simp [ha]
  | W =>
    simp only [Cls.mul, hl]
    split
    · rename_i hc
      simp only [Bool.and_eq_true, decide_eq_true_eq] at hc
      rw [hc.2] at hb
      simp only [endOK] at hb ⊢
      have hsf := hp hc.1
      cases u with
      | nil => simpa [hdS] using hb
      | cons c u => simp [hdS, (sepFree_cons.mp hsf).1]
    · trivial

theorem endOK_r_mul {a b : Cls} {u v : Str} (ha : endOK a.r (ltS u))
    (hp : b.pure = true → SepFree v) (hb : endOK b.r (ltS v)) :
    endOK (a.mul b).r (ltS (u ++ v)) := by
  rw [ltS_append]
  cases hr : b.r with
  | E => simp only [Cls.mul, hr, endOK] at hb ⊢; simp [hb]
  | S => simp only [Cls.mul, hr, endOK] at hb ⊢; simp [hb]
  | W =>
    simp only [Cls.mul, hr]
    split
    · rename_i hc
      simp only [Bool.and_eq_true, decide_eq_true_eq] at hc
      rw [hc.2] at ha
      simp only [endOK] at ha ⊢
      have hsf := hp hc.1
      by_cases hv : v = []
      · subst hv; simpa [ltS] using ha
      · simp [ltS_sepFree_cons hsf hv]
    · trivial

/-- classes compose along concatenation -/
theorem Real.mul {a b : Cls} {u v : Str} (ha : Real a u) (hb : Real b v)
    (hv : a.valid b = true) : Real (a.mul b) (u ++ v) := by
  obtain ⟨a1, a2, a3, a4⟩ := ha
  obtain ⟨b1, b2, b3, b4⟩ := hb
  refine ⟨?_, ?_, endOK_l_mul a3 a2 b3, endOK_r_mul a4 b2 b4⟩
  · rw [noDbl_append, a1, b1]
    simp only [Bool.and_self, Bool.true_and, Bool.not_eq_true', Bool.and_eq_false_iff,
      beq_eq_false_iff_ne, ne_eq]
    simp only [Cls.valid, Bool.or_eq_true, decide_eq_true_eq] at hv
    rcases hv with ((hv | hv) | hv) | hv
    · exact .inl (ltS_sepFree (a2 hv))
    · exact .inr (hdS_sepFree (b2 hv))
    · rw [hv] at a4; simp only [endOK] at a4; rw [a4]; exact .inl (by simp)
    · rw [hv] at b3; simp only [endOK] at b3; rw [b3]; exact .inr (by simp)
  · intro hp
    simp only [Cls.mul, Bool.and_eq_true] at hp
    exact sepFree_append.mpr ⟨a2 hp.1, b2 hp.2⟩

/-! ### finite sets of classes -/

def allCls : List Cls :=
  [⟨true, .E, .E⟩, ⟨true, .E, .S⟩, ⟨true, .E, .W⟩, ⟨true, .S, .E⟩, ⟨true, .S, .S⟩, ⟨true, .S, .W⟩,
   ⟨true, .W, .E⟩, ⟨true, .W, .S⟩, ⟨true, .W, .W⟩,
   ⟨false, .E, .E⟩, ⟨false, .E, .S⟩, ⟨false, .E, .W⟩, ⟨false, .S, .E⟩, ⟨false, .S, .S⟩,
   ⟨false, .S, .W⟩, ⟨false, .W, .E⟩, ⟨false, .W, .S⟩, ⟨false, .W, .W⟩]

theorem mem_allCls (c : Cls) : c ∈ allCls := by
  obtain ⟨p, l, r⟩ := c
  cases p <;> cases l <;> cases r <;> decide

/-- canonical form of a set of classes (at most 18 elements) -/
def normC (l : List Cls) : List Cls := allCls.filter fun c => decide (c ∈ l)

theorem mem_normC {l : List Cls} {c : Cls} : c ∈ normC l ↔ c ∈ l := by
  simp [normC, List.mem_filter, mem_allCls]

/-- all products; `none` when some pair may not be adjacent -/
def mulAll (A B : List Cls) : Option (List Cls) :=
  if A.all (fun a => B.all (fun b => a.valid b)) then
    some (normC (A.flatMap fun a => B.map (Cls.mul a)))
  else none

theorem mulAll_mem {A B C : List Cls} (h : mulAll A B = some C) {a b : Cls} (ha : a ∈ A)
    (hb : b ∈ B) : a.valid b = true ∧ a.mul b ∈ C := by
  unfold mulAll at h
  split at h
  · rename_i hall
    cases h
    simp only [List.all_eq_true] at hall
    refine ⟨hall a ha b hb, mem_normC.mpr ?_⟩
    exact List.mem_flatMap.mpr ⟨a, ha, List.mem_map.mpr ⟨b, hb, rfl⟩⟩
  · cases h

/-! ### the fragment: abstract interpretation of a token tree over sets of classes -/

def leafCls : Tok → Option Cls
  | .lit _ s _ =>
    if s.contains '/' then none
    else some ⟨true, if s.isEmpty then .W else .S, if s.isEmpty then .W else .S⟩
  | .cls .. => some ⟨true, .S, .S⟩
  | .one _ => some ⟨true, .S, .S⟩
  | .zom .. => some ⟨true, .W, .W⟩
  | .sep _ => some ⟨false, .E, .E⟩
  | _ => none

def foldMulGo : List Cls → List (List Cls) → Option (List Cls)
  | acc, [] => some acc
  | acc, c :: cs => match mulAll acc c with
    | none => none
    | some acc' => foldMulGo acc' cs

/-- classes of a concatenation (not empty) -/
def foldMul : List (List Cls) → Option (List Cls)
  | [] => none
  | c :: cs => foldMulGo c cs

/-- classes of an alternation (not empty) -/
def unionAll : List (List Cls) → Option (List Cls)
  | [] => none
  | c :: cs => some (normC (c :: cs).flatten)

/-- `X` grown `k` times by `C · X`, then checked to be closed under `C · _` -/
def closeGo : Nat → List Cls → List Cls → Option (List Cls)
  | 0, C, X => match mulAll C X with
    | none => none
    | some Y => if Y.all (fun y => decide (y ∈ X)) then some X else none
  | k + 1, C, X => match mulAll C X with
    | none => none
    | some Y => closeGo k C (normC (X ++ Y))

/-- all classes get the same termination from the fold -/
def uniformC (Z : List Cls) : Bool := Z.all fun a => Z.all fun b => decide (a.termn = b.termn)

/-- classes of one or more iterations of a body of classes `C`: the closure of `C` under
`C · _`, every adjacency allowed, one termination -/
def repCls (C : List Cls) : Option (List Cls) :=
  match closeGo 6 C C with
  | none => none
  | some Z => if uniformC Z then some Z else none

mutual
  def clsT : Tok → Option (List Cls)
    | .cat _ ts => match clsTs ts with
      | none => none
      | some cs => foldMul cs
    | .alt _ bs => match clsTs bs with
      | none => none
      | some cs => unionAll cs
    | .rep _ b lo _ =>
      if lo = 0 then none else
      match clsT b with
      | none => none
      | some C => repCls C
    | .lit sp s ci => (leafCls (.lit sp s ci)).map fun c => [c]
    | .sep sp => (leafCls (.sep sp)).map fun c => [c]
    | .cls sp n i => (leafCls (.cls sp n i)).map fun c => [c]
    | .one sp => (leafCls (.one sp)).map fun c => [c]
    | .zom sp l => (leafCls (.zom sp l)).map fun c => [c]
    | .tree sp r => none
  def clsTs : List Tok → Option (List (List Cls))
    | [] => some []
    | t :: ts => match clsT t, clsTs ts with
      | some c, some cs => some (c :: cs)
      | _, _ => none
end

/-- a class that a whole pattern may have: neither end is a run that can match `""` -/
def Cls.finalOK (c : Cls) : Bool := decide (c.l ≠ .W) && decide (c.r ≠ .W)

/-- the class of a text that starts and ends with a separator -/
def Cls.closed (c : Cls) : Bool := decide (c.l = .E) && decide (c.r = .E)

def NVar.isInv : NVar → Bool | .inv _ => true | _ => false

/-- every term that starts and ends with a boundary has an invariant value (`finalize` subtracts
one from such a term only when its value is invariant: `/<a/:1,2>`) -/
def closedInv (D : DTerm) : Bool := D.terms.all fun s => decide (s.t ≠ .closed) || s.v.isInv

/-- **the branch fragment**: the abstract interpretation succeeds, no class of the whole pattern
has an end that can match `""`; and if some class both starts and ends with a separator, the fold's
terms of that termination are invariant -/
def branchOk (t : Tok) : Bool :=
  match clsT t with
  | some C => C.all Cls.finalOK &&
      (!C.any Cls.closed || (match depthTok t with | .ok (some D) => closedInv D | _ => true))
  | none => false

/-! ### the fragment: facts -/

theorem closeGo_spec : ∀ (k : Nat) (C X Z : List Cls), closeGo k C X = some Z →
    (∀ x ∈ X, x ∈ Z) ∧ ∀ c ∈ C, ∀ z ∈ Z, c.valid z = true ∧ c.mul z ∈ Z
  | 0, C, X, Z, h => by
    simp only [closeGo] at h
    cases hm : mulAll C X with
    | none => simp [hm] at h
    | some Y =>
      simp only [hm] at h
      split at h
      · rename_i hall
        cases h
        refine ⟨fun x hx => hx, ?_⟩
        intro c hc z hz
        obtain ⟨h1, h2⟩ := mulAll_mem hm hc hz
        simp only [List.all_eq_true, decide_eq_true_eq] at hall
        exact ⟨h1, hall _ h2⟩
      · cases h
  | k + 1, C, X, Z, h => by
    simp only [closeGo] at h
    cases hm : mulAll C X with
    | none => simp [hm] at h
    | some Y =>
      simp only [hm] at h
      obtain ⟨h1, h2⟩ := closeGo_spec k C _ Z h
      exact ⟨fun x hx => h1 x (mem_normC.mpr (List.mem_append_left _ hx)), h2⟩

theorem repCls_spec {C Z : List Cls} (h : repCls C = some Z) :
    (∀ x ∈ C, x ∈ Z) ∧ (∀ c ∈ C, ∀ z ∈ Z, c.valid z = true ∧ c.mul z ∈ Z) ∧
      ∀ a ∈ Z, ∀ b ∈ Z, a.termn = b.termn := by
  unfold repCls at h
  cases hc : closeGo 6 C C with
  | none => simp [hc] at h
  | some Z' =>
    simp only [hc] at h
    split at h
    · rename_i hu
      cases h
      obtain ⟨h1, h2⟩ := closeGo_spec 6 C C Z hc
      refine ⟨h1, h2, ?_⟩
      intro a ha b hb
      simp only [uniformC, List.all_eq_true, decide_eq_true_eq] at hu
      exact hu a ha b hb
    · cases h

theorem clsTs_mem : ∀ {ts : List Tok} {Cs : List (List Cls)}, clsTs ts = some Cs →
    ∀ t ∈ ts, ∃ C, clsT t = some C ∧ C ∈ Cs
  | [], _, _, t, ht => by cases ht
  | x :: xs, Cs, h, t, ht => by
    simp only [clsTs] at h
    cases hx : clsT x with
    | none => simp [hx] at h
    | some c =>
      cases hxs : clsTs xs with
      | none => simp [hx, hxs] at h
      | some cs =>
        simp only [hx, hxs, Option.some.injEq] at h
        subst h
        rcases List.mem_cons.mp ht with rfl | ht
        · exact ⟨c, hx, List.mem_cons_self ..⟩
        · obtain ⟨C, h1, h2⟩ := clsTs_mem hxs t ht
          exact ⟨C, h1, List.mem_cons_of_mem _ h2⟩

theorem unionAll_mem {Cs : List (List Cls)} {C : List Cls} (h : unionAll Cs = some C)
    {X : List Cls} (hX : X ∈ Cs) {c : Cls} (hc : c ∈ X) : c ∈ C := by
  cases Cs with
  | nil => cases hX
  | cons a as =>
    simp only [unionAll, Option.some.injEq] at h
    subst h
    exact mem_normC.mpr (List.mem_flatten.mpr ⟨X, hX, hc⟩)

/-- classes of the concatenation a branch or a repetition body stands for -/
def catCls (ts : List Tok) : Option (List Cls) :=
  match clsTs ts with
  | none => none
  | some cs => foldMul cs

theorem catCls_concatenation {b : Tok} {C : List Cls} (h : clsT b = some C) :
    catCls b.concatenation = some C := by
  cases b
  case cat sp ts => simpa only [clsT, Tok.concatenation, catCls] using h
  all_goals simp only [Tok.concatenation, catCls, clsTs, h, foldMul, foldMulGo]

/-! ### the model side: sets of separated terms -/

instance : LawfulBEq SepTerm where
  eq_of_beq {a b} h := by
    obtain ⟨at_, av⟩ := a
    obtain ⟨bt, bv⟩ := b
    have h' : (at_ == bt && av == bv) = true := h
    simp only [Bool.and_eq_true, beq_iff_eq] at h'
    rw [h'.1, h'.2]
  rfl {a} := by
    show (a.t == a.t && a.v == a.v) = true
    simp

theorem setOf_fold_sup (l : List SepTerm) : ∀ (acc : List SepTerm) (y : SepTerm),
    (y ∈ acc ∨ y ∈ l) →
    y ∈ l.foldl (fun acc x => if acc.contains x then acc else acc ++ [x]) acc := by
  induction l with
  | nil => intro acc y h; rcases h with h | h; exact h; cases h
  | cons x xs ih =>
    intro acc y h
    simp only [List.foldl_cons]
    apply ih
    rcases h with h | h
    · left
      split
      · exact h
      · exact List.mem_append_left _ h
    · rcases List.mem_cons.mp h with rfl | h
      · left
        split
        · rename_i hc; exact List.contains_iff_mem.mp hc
        · simp
      · exact .inr h

theorem setOf_sup {l : List SepTerm} {y : SepTerm} (h : y ∈ l) : y ∈ setOf l :=
  setOf_fold_sup l [] y (.inr h)

theorem mem_setOf {l : List SepTerm} {y : SepTerm} : y ∈ setOf l ↔ y ∈ l := ⟨setOf_sub, setOf_sup⟩

theorem mapP_fwd {α β} {f : α → P β} : ∀ {xs : List α} {ys : List β}, mapP f xs = .ok ys →
    ∀ x ∈ xs, ∃ y ∈ ys, f x = .ok y
  | [], _, _, x, hx => by cases hx
  | a :: as, ys, h, x, hx => by
    simp only [mapP] at h
    obtain ⟨y, hy, h⟩ := bind_ok h
    obtain ⟨ys', hys, h⟩ := bind_ok h
    cases h
    rcases List.mem_cons.mp hx with rfl | hx
    · exact ⟨y, List.mem_cons_self .., hy⟩
    · obtain ⟨z, hz, hf⟩ := mapP_fwd hys x hx
      exact ⟨z, List.mem_cons_of_mem _ hz, hf⟩

theorem mapP_bwd {α β} {f : α → P β} : ∀ {xs : List α} {ys : List β}, mapP f xs = .ok ys →
    ∀ y ∈ ys, ∃ x ∈ xs, f x = .ok y
  | [], ys, h, y, hy => by cases h; cases hy
  | a :: as, ys, h, y, hy => by
    simp only [mapP] at h
    obtain ⟨y0, hy0, h⟩ := bind_ok h
    obtain ⟨ys', hys, h⟩ := bind_ok h
    cases h
    rcases List.mem_cons.mp hy with rfl | hy
    · exact ⟨a, List.mem_cons_self .., hy0⟩
    · obtain ⟨z, hz, hf⟩ := mapP_bwd hys y hy
      exact ⟨z, List.mem_cons_of_mem _ hz, hf⟩

/-- the terms of a conjunction are exactly the pairwise conjunctions -/
theorem DTerm.conj_terms {A B R : DTerm} (h : A.conj B = .ok R) :
    (∀ l ∈ A.terms, ∀ r ∈ B.terms, ∃ t ∈ R.terms, l.conj r = .ok t) ∧
    (∀ t ∈ R.terms, ∃ l ∈ A.terms, ∃ r ∈ B.terms, l.conj r = .ok t) := by
  cases A with
  | c l =>
    cases B with
    | c r =>
      simp only [DTerm.conj] at h
      obtain ⟨t, ht, h⟩ := bind_ok h
      cases h
      simp only [DTerm.terms, List.mem_singleton, forall_eq, exists_eq_left]
      exact ⟨ht, ht⟩
    | d rs =>
      simp only [DTerm.conj] at h
      obtain ⟨ys, hys, h⟩ := bind_ok h
      cases h
      simp only [DTerm.terms, List.mem_singleton, forall_eq, exists_eq_left, mem_setOf]
      exact ⟨fun r hr => mapP_fwd hys r hr, fun t ht => mapP_bwd hys t ht⟩
  | d ls =>
    cases B with
    | c r =>
      simp only [DTerm.conj] at h
      obtain ⟨ys, hys, h⟩ := bind_ok h
      cases h
      simp only [DTerm.terms, List.mem_singleton, forall_eq, exists_eq_left, mem_setOf]
      exact ⟨fun l hl => mapP_fwd hys l hl, fun t ht => mapP_bwd hys t ht⟩
    | d rs =>
      simp only [DTerm.conj] at h
      obtain ⟨rows, hrows, h⟩ := bind_ok h
      cases h
      simp only [DTerm.terms, mem_setOf]
      constructor
      · intro l hl r hr
        obtain ⟨row, hrow, hf⟩ := mapP_fwd hrows l hl
        obtain ⟨t, ht, hc⟩ := mapP_fwd hf r hr
        exact ⟨t, List.mem_flatten.mpr ⟨row, hrow, ht⟩, hc⟩
      · intro t ht
        obtain ⟨row, hrow, htr⟩ := List.mem_flatten.mp ht
        obtain ⟨l, hl, hf⟩ := mapP_bwd hrows row hrow
        obtain ⟨r, hr, hc⟩ := mapP_bwd hf t htr
        exact ⟨l, hl, r, hr, hc⟩

theorem DTerm.disj_terms (A B : DTerm) (t : SepTerm) :
    t ∈ (A.disj B).terms ↔ t ∈ A.terms ∨ t ∈ B.terms := by
  cases A <;> cases B <;>
    simp only [DTerm.disj, DTerm.terms, mem_setOf, List.mem_append, List.mem_singleton,
      List.mem_cons, List.not_mem_nil, or_false] <;> try exact Or.comm

theorem DTerm.prod_terms {X R : DTerm} {r : NRange} (h : X.prod r = .ok R) :
    (∀ t ∈ X.terms, ∃ v, t.v.prod r = .ok v ∧ (⟨t.t, v⟩ : SepTerm) ∈ R.terms) ∧
    (∀ t' ∈ R.terms, ∃ t ∈ X.terms, ∃ v, t.v.prod r = .ok v ∧ t' = ⟨t.t, v⟩) := by
  cases X with
  | c s =>
    simp only [DTerm.prod] at h
    obtain ⟨v, hv, h⟩ := bind_ok h
    cases h
    simp only [DTerm.terms, List.mem_singleton, forall_eq, exists_eq_left]
    exact ⟨⟨v, hv, rfl⟩, ⟨v, hv, rfl⟩⟩
  | d ls =>
    simp only [DTerm.prod] at h
    obtain ⟨ys, hys, h⟩ := bind_ok h
    cases h
    simp only [DTerm.terms, mem_setOf]
    constructor
    · intro t ht
      obtain ⟨y, hy, hf⟩ := mapP_fwd hys t ht
      obtain ⟨v, hv, hf⟩ := bind_ok hf
      cases hf
      exact ⟨v, hv, hy⟩
    · intro t' ht'
      obtain ⟨t, ht, hf⟩ := mapP_bwd hys t' ht'
      obtain ⟨v, hv, hf⟩ := bind_ok hf
      cases hf
      exact ⟨t, ht, v, hv, rfl⟩

/-! ### every term the fold builds is well formed -/

def AllWf (D : DTerm) : Prop := ∀ t ∈ D.terms, NVar.wf t.v

theorem SepTerm.finalize_wf {s : SepTerm} {v : NVar} (hs : s.v.wf) (h : s.finalize = .ok v) :
    v.wf := by
  unfold SepTerm.finalize at h
  cases ht : s.t <;> simp only [ht] at h
  · exact (NVar.conj_back (b := .inv 1) hs trivial h).1
  · cases h; exact hs
  · cases h; exact hs
  · cases h
    cases hv : s.v with
    | inv n => trivial
    | unb => trivial
    | bnd r => rw [hv] at hs; exact hs
  · cases h; exact hs

theorem SepTerm.conj_wf {l r t : SepTerm} (hl : l.v.wf) (hr : r.v.wf) (h : l.conj r = .ok t) :
    t.v.wf := by
  unfold SepTerm.conj at h
  cases hc : l.t.conj r.t <;> simp only [hc] at h
  · obtain ⟨f, hf, h⟩ := bind_ok h
    obtain ⟨v, hv, h⟩ := bind_ok h
    cases h
    exact (NVar.conj_back (SepTerm.finalize_wf hl hf) hr hv).1
  · obtain ⟨f, hf, h⟩ := bind_ok h
    obtain ⟨v, hv, h⟩ := bind_ok h
    cases h
    exact (NVar.conj_back hl (SepTerm.finalize_wf hr hf) hv).1
  · obtain ⟨v, hv, h⟩ := bind_ok h
    cases h
    exact (NVar.conj_back hl hr hv).1

theorem DTerm.conj_wf {A B R : DTerm} (hA : AllWf A) (hB : AllWf B) (h : A.conj B = .ok R) :
    AllWf R := by
  intro t ht
  obtain ⟨l, hl, r, hr, hc⟩ := (DTerm.conj_terms h).2 t ht
  exact SepTerm.conj_wf (hA l hl) (hB r hr) hc

theorem foldlP_conj_wf : ∀ (Ds : List DTerm) (A R : DTerm), AllWf A → (∀ D ∈ Ds, AllWf D) →
    foldlP DTerm.conj A Ds = .ok R → AllWf R
  | [], A, R, hA, _, h => by cases h; exact hA
  | D :: Ds, A, R, hA, hDs, h => by
    simp only [foldlP] at h
    obtain ⟨A', hA', h⟩ := bind_ok h
    exact foldlP_conj_wf Ds A' R (DTerm.conj_wf hA (hDs D (List.mem_cons_self ..)) hA')
      (fun z hz => hDs z (List.mem_cons_of_mem _ hz)) h

theorem foldlP_disj_terms : ∀ (Ds : List DTerm) (A R : DTerm),
    foldlP (fun a b => pure (DTerm.disj a b)) A Ds = .ok R →
    ∀ t, t ∈ R.terms ↔ t ∈ A.terms ∨ ∃ D ∈ Ds, t ∈ D.terms
  | [], A, R, h, t => by cases h; simp
  | D :: Ds, A, R, h, t => by
    simp only [foldlP, P.pure_eq, P.ok_bind] at h
    rw [foldlP_disj_terms Ds _ R h t, DTerm.disj_terms]
    simp only [List.mem_cons, exists_eq_or_imp, or_assoc]

theorem fco_wf (lo : Nat) (hi : Option Nat) : (NRange.fromClosedOpen lo hi).wf := by
  have := fco_ok lo hi
  cases hf : NRange.fromClosedOpen lo hi with
  | inv n => trivial
  | var v =>
    cases v with
    | unbounded => trivial
    | bounded b => rw [hf] at this; exact this.1

mutual
  theorem depthTok_wf : ∀ (t : Tok) (D : DTerm), depthTok t = .ok (some D) → AllWf D
    | .alt _ bs, D, h => by
      simp only [depthTok] at h
      obtain ⟨Ds, hDs, h⟩ := bind_ok h
      have hall := depthAll_wf bs Ds hDs
      cases Ds with
      | nil => cases h
      | cons X Xs =>
        simp only [reduceP] at h
        obtain ⟨R, hR, h⟩ := bind_ok h
        cases h
        intro t ht
        rcases (foldlP_disj_terms Xs X D hR t).mp ht with h1 | ⟨Y, hY, h1⟩
        · exact hall X (List.mem_cons_self ..) t h1
        · exact hall Y (List.mem_cons_of_mem _ hY) t h1
    | .cat _ ts, D, h => by
      simp only [depthTok] at h
      obtain ⟨Ds, hDs, h⟩ := bind_ok h
      have hall := depthAll_wf ts Ds hDs
      cases Ds with
      | nil => cases h
      | cons X Xs =>
        simp only [reduceP] at h
        obtain ⟨R, hR, h⟩ := bind_ok h
        cases h
        exact foldlP_conj_wf Xs X D (hall X (List.mem_cons_self ..))
          (fun z hz => hall z (List.mem_cons_of_mem _ hz)) hR
    | .rep _ b lo hi, D, h => by
      simp only [depthTok] at h
      obtain ⟨x, hx, h⟩ := bind_ok h
      cases x with
      | none => cases h
      | some X =>
        simp only at h
        obtain ⟨R, hR, h⟩ := bind_ok h
        cases h
        have hX := depthTok_wf b X hx
        intro t' ht'
        obtain ⟨t, ht, v, hv, rfl⟩ := (DTerm.prod_terms hR).2 t' ht'
        exact (NVar.prod_back (hX t ht) (fco_wf lo hi) hv).1
    | .lit sp s ci, D, h => by cases h; intro t ht; simp [DTerm.terms] at ht; subst ht; trivial
    | .sep sp, D, h => by cases h; intro t ht; simp [DTerm.terms] at ht; subst ht; trivial
    | .cls sp n i, D, h => by cases h; intro t ht; simp [DTerm.terms] at ht; subst ht; trivial
    | .one sp, D, h => by cases h; intro t ht; simp [DTerm.terms] at ht; subst ht; trivial
    | .zom sp l, D, h => by cases h; intro t ht; simp [DTerm.terms] at ht; subst ht; trivial
    | .tree sp r, D, h => by cases h; intro t ht; simp [DTerm.terms] at ht; subst ht; trivial
  theorem depthAll_wf : ∀ (ts : List Tok) (Ds : List DTerm), depthAll ts = .ok Ds →
      ∀ D ∈ Ds, AllWf D
    | [], Ds, h => by cases h; intro D hD; cases hD
    | t :: ts, Ds, h => by
      simp only [depthAll] at h
      obtain ⟨x, hx, h⟩ := bind_ok h
      obtain ⟨xs, hxs, h⟩ := bind_ok h
      cases h
      intro D hD
      cases x with
      | none => exact depthAll_wf ts xs hxs D hD
      | some X =>
        rcases List.mem_cons.mp hD with rfl | hD
        · exact depthTok_wf t D hx
        · exact depthAll_wf ts xs hxs D hD
end

/-! ### the invariant -/

/-- some term of the set has the termination `τ` and a member at most `k` -/
def Lo (D : DTerm) (τ : Termn) (k : Nat) : Prop :=
  ∃ t ∈ D.terms, t.t = τ ∧ ∃ k1, k1 ≤ k ∧ NVar.mem k1 t.v
/-- some term of the set has the termination `τ` and a member at least `k` -/
def Hi (D : DTerm) (τ : Termn) (k : Nat) : Prop :=
  ∃ t ∈ D.terms, t.t = τ ∧ ∃ k2, k ≤ k2 ∧ NVar.mem k2 t.v

/-- the matched text `u` has one of the classes `C`, and its number of separators lies between
members of two terms of `D` that have the termination of that class -/
def Good (C : List Cls) (D : DTerm) (u : Str) : Prop :=
  ∃ cl ∈ C, Real cl u ∧ Lo D cl.termn (seps u) ∧ Hi D cl.termn (seps u)

theorem SepTerm.conj_ofBools {l r t : SepTerm} {s1 e1 s2 e2 : Bool}
    (hl : l.t = Termn.ofBools s1 e1) (hr : r.t = Termn.ofBools s2 e2) (h : l.conj r = .ok t) :
    t.t = Termn.ofBools s1 e2 ∧ l.v.conj r.v = .ok t.v := by
  unfold SepTerm.conj at h
  rw [hl, hr, termn_conj_ofBools] at h
  simp only at h
  obtain ⟨v, hv, h⟩ := bind_ok h
  cases h
  exact ⟨rfl, hv⟩

theorem conj_good {Ca Cb C : List Cls} {A B R : DTerm} {a u : Str} (hA : AllWf A) (hB : AllWf B)
    (ga : Good Ca A a) (gb : Good Cb B u) (hm : mulAll Ca Cb = some C) (hc : A.conj B = .ok R) :
    Good C R (a ++ u) := by
  obtain ⟨ca, hca, ra, ⟨t1, ht1, e1, k1, hk1, m1⟩, ⟨t2, ht2, e2, k2, hk2, m2⟩⟩ := ga
  obtain ⟨cb, hcb, rb, ⟨s1, hs1, f1, j1, hj1, n1⟩, ⟨s2, hs2, f2, j2, hj2, n2⟩⟩ := gb
  obtain ⟨hval, hmem⟩ := mulAll_mem hm hca hcb
  refine ⟨ca.mul cb, hmem, Real.mul ra rb hval, ?_, ?_⟩
  · obtain ⟨t, ht, hct⟩ := (DTerm.conj_terms hc).1 t1 ht1 s1 hs1
    obtain ⟨et, ev⟩ := SepTerm.conj_ofBools e1 f1 hct
    refine ⟨t, ht, by rw [et, Cls.mul_termn], k1 + j1, by rw [seps_append]; omega, ?_⟩
    exact NVar.conj_mem (hA t1 ht1) (hB s1 hs1) ev m1 n1
  · obtain ⟨t, ht, hct⟩ := (DTerm.conj_terms hc).1 t2 ht2 s2 hs2
    obtain ⟨et, ev⟩ := SepTerm.conj_ofBools e2 f2 hct
    refine ⟨t, ht, by rw [et, Cls.mul_termn], k2 + j2, by rw [seps_append]; omega, ?_⟩
    exact NVar.conj_mem (hA t2 ht2) (hB s2 hs2) ev m2 n2

/-! ### leaves -/

theorem noDbl_singleton (c : Char) : noDbl [c] = true := by simp [noDbl, hdS]

theorem leaf_good (σ : Sem) (hσ : SepIsolated σ) {c : Ctx} {t : Tok} {u : Str} (h : SM σ c t u)
    {cl : Cls} (hc : leafCls t = some cl) :
    Real cl u ∧ leafTerm t = ⟨cl.termn, .inv (seps u)⟩ := by
  cases h with
  | lit hl =>
    rename_i sp s ci
    simp only [leafCls] at hc
    split at hc
    · cases hc
    · rename_i hns
      cases hc
      have hsf : SepFree u :=
        litEq_sepFree hσ hl (sepFree_of_not_contains (by simpa using hns))
      have hlen := litEq_length hl
      refine ⟨⟨noDbl_sepFree hsf, fun _ => hsf, ?_, ?_⟩, ?_⟩
      · cases s with
        | nil => trivial
        | cons a s =>
          have hne : u ≠ [] := by intro e; subst e; simp at hlen
          simpa [endOK] using hdS_sepFree_cons hsf hne
      · cases s with
        | nil => trivial
        | cons a s =>
          have hne : u ≠ [] := by intro e; subst e; simp at hlen
          simpa [endOK] using ltS_sepFree_cons hsf hne
      · rw [seps_sepFree hsf]
        cases s <;> rfl
  | cls hp =>
    rename_i sp neg items ch
    cases hc
    simp only [classHolds, Bool.and_eq_true, bne_iff_ne, ne_eq] at hp
    have hch : (ch == '/') = false := by simpa using hp.1
    refine ⟨⟨noDbl_singleton ch, fun _ => sepFree_cons.mpr ⟨hp.1, sepFree_nil⟩, ?_, ?_⟩, ?_⟩
    · simp [endOK, hdS, hch]
    · simp [endOK, ltS, hch]
    · simp [seps, hch, b2n, leafTerm, Cls.termn, Termn.ofBools]
  | one hp =>
    rename_i sp ch
    cases hc
    have hch : (ch == '/') = false := by simpa using hp
    refine ⟨⟨noDbl_singleton ch, fun _ => sepFree_cons.mpr ⟨hp, sepFree_nil⟩, ?_, ?_⟩, ?_⟩
    · simp [endOK, hdS, hch]
    · simp [endOK, ltS, hch]
    · simp [seps, hch, b2n, leafTerm, Cls.termn, Termn.ofBools]
  | zom hw =>
    cases hc
    refine ⟨⟨noDbl_sepFree hw, fun _ => hw, trivial, trivial⟩, ?_⟩
    rw [seps_sepFree hw]; rfl
  | sep =>
    cases hc
    refine ⟨⟨rfl, (fun h => by cases h), ?_, ?_⟩, rfl⟩
    · simp [endOK, hdS]
    · simp [endOK, ltS]
  | tree _ => cases hc
  | alt _ _ => cases hc
  | rep _ _ _ => cases hc
  | cat _ => cases hc

theorem good_leaf {cl : Cls} {t : Tok} {u : Str}
    (h : Real cl u ∧ leafTerm t = ⟨cl.termn, .inv (seps u)⟩) : Good [cl] (.c (leafTerm t)) u := by
  obtain ⟨hr, ht⟩ := h
  refine ⟨cl, List.mem_singleton.mpr rfl, hr, ?_, ?_⟩
  · exact ⟨leafTerm t, by simp [DTerm.terms], by rw [ht], seps u, Nat.le_refl _, by rw [ht]; rfl⟩
  · exact ⟨leafTerm t, by simp [DTerm.terms], by rw [ht], seps u, Nat.le_refl _, by rw [ht]; rfl⟩

/-! ### concatenations, as the fold sees them -/

/-- the fold of the concatenation a branch or a repetition body stands for -/
def catDepth (ts : List Tok) : P (Option DTerm) := do reduceP DTerm.conj (← depthAll ts)

theorem catDepth_concatenation {b : Tok} {x : Option DTerm} (h : depthTok b = .ok x) :
    catDepth b.concatenation = .ok x := by
  cases b
  case cat sp ts => simpa only [depthTok, Tok.concatenation, catDepth] using h
  all_goals
    simp only [Tok.concatenation, catDepth, depthAll, h, P.ok_bind, P.pure_eq]
    cases x <;> rfl

theorem depthAll_mem : ∀ {ts : List Tok} {Ds : List DTerm}, depthAll ts = .ok Ds →
    ∀ t ∈ ts, ∃ x, depthTok t = .ok x ∧ ∀ D, x = some D → D ∈ Ds
  | [], _, _, t, ht => by cases ht
  | a :: as, Ds, h, t, ht => by
    simp only [depthAll] at h
    obtain ⟨x, hx, h⟩ := bind_ok h
    obtain ⟨xs, hxs, h⟩ := bind_ok h
    cases h
    rcases List.mem_cons.mp ht with rfl | ht
    · refine ⟨x, hx, ?_⟩
      intro D hD; subst hD
      exact List.mem_cons_self ..
    · obtain ⟨y, hy, hm⟩ := depthAll_mem hxs t ht
      refine ⟨y, hy, ?_⟩
      intro D hD
      have := hm D hD
      cases x with
      | none => exact this
      | some X => exact List.mem_cons_of_mem _ this

/-! ### what `finalize` reports -/

theorem fin_mem {s e : Bool} {v v' : NVar} (hne : (s && e) = false) (hw : v.wf)
    (h : (⟨Termn.ofBools s e, v⟩ : SepTerm).finalize = .ok v') {k : Nat} (hk : v.mem k) :
    v'.mem (k + 1 - b2n s - b2n e) := by
  cases s <;> cases e <;> simp only [SepTerm.finalize, Termn.ofBools] at h
  · have := NVar.conj_mem (b := .inv 1) hw trivial h hk (show NVar.mem 1 (.inv 1) from rfl)
    simpa [b2n] using this
  · cases h; simpa [b2n] using hk
  · cases h; simpa [b2n] using hk
  · simp at hne

theorem DTerm.finalize_sup {D : DTerm} {v : NVar} (hD : AllWf D) (h : D.finalize = .ok v) :
    ∀ t ∈ D.terms, ∃ f, t.finalize = .ok f ∧ ∀ x, f.mem x → v.mem x := by
  cases D with
  | c s =>
    intro t ht
    simp only [DTerm.terms, List.mem_singleton] at ht
    subst ht
    exact ⟨v, h, fun _ hx => hx⟩
  | d ls =>
    simp only [DTerm.finalize] at h
    obtain ⟨vs, hvs, h⟩ := bind_ok h
    obtain ⟨o, ho, h⟩ := bind_ok h
    have hwf : ∀ y ∈ vs, NVar.wf y := by
      intro y hy
      obtain ⟨t, ht, hf⟩ := mapP_bwd hvs y hy
      exact SepTerm.finalize_wf (hD t ht) hf
    intro t ht
    obtain ⟨f, hf, hfin⟩ := mapP_fwd hvs t ht
    refine ⟨f, hfin, ?_⟩
    cases vs with
    | nil => cases hf
    | cons y ys =>
      simp only [reduceP] at ho
      obtain ⟨r, hr, ho⟩ := bind_ok ho
      cases ho
      cases h
      obtain ⟨_, m1, m2⟩ := foldlP_disj_back ys y v (hwf y (List.mem_cons_self ..))
        (fun z hz => hwf z (List.mem_cons_of_mem _ hz)) hr
      intro x hx
      rcases List.mem_cons.mp hf with rfl | hf
      · exact m1 x hx
      · exact m2 f hf x hx

/-! ### the induction over matches -/

/-- `n ≥ 1` iterations of a body whose set of terms is `D`: the class is in the closure `Z`, the
number of separators lies between `n` times a member of a term and `n` times a member of a term -/
def RepGood (Z : List Cls) (D : DTerm) (n : Nat) (u : Str) : Prop :=
  ∃ cl ∈ Z, Real cl u ∧
    (∃ t ∈ D.terms, t.t = cl.termn ∧ ∃ k1, n * k1 ≤ seps u ∧ NVar.mem k1 t.v) ∧
    (∃ t ∈ D.terms, t.t = cl.termn ∧ ∃ k2, seps u ≤ n * k2 ∧ NVar.mem k2 t.v)

structure ClosedC (Cb Z : List Cls) : Prop where
  sub : ∀ x ∈ Cb, x ∈ Z
  mul : ∀ c ∈ Cb, ∀ z ∈ Z, c.valid z = true ∧ c.mul z ∈ Z
  uni : ∀ a ∈ Z, ∀ b ∈ Z, a.termn = b.termn

theorem succ_succ_mul (n k : Nat) : (n + 2) * k = k + (n + 1) * k := by
  rw [show n + 2 = (n + 1) + 1 from rfl, Nat.succ_mul]; omega

mutual
  theorem sm_good (σ : Sem) (hσ : SepIsolated σ) : ∀ {c : Ctx} {t : Tok} {u : Str}, SM σ c t u →
      ∀ (C : List Cls) (x : Option DTerm), clsT t = some C → depthTok t = .ok x →
      ∃ D, x = some D ∧ Good C D u
    | c, _, _, .lit hl, C, x, hc, hd => by
      simp only [clsT, Option.map_eq_some_iff] at hc
      obtain ⟨cl, hcl, rfl⟩ := hc
      simp only [depthTok] at hd; cases hd
      exact ⟨_, rfl, good_leaf (leaf_good σ hσ (c := c) (.lit hl) hcl)⟩
    | c, _, _, .sep, C, x, hc, hd => by
      simp only [clsT, Option.map_eq_some_iff] at hc
      obtain ⟨cl, hcl, rfl⟩ := hc
      simp only [depthTok] at hd; cases hd
      exact ⟨_, rfl, good_leaf (leaf_good σ hσ (c := c) .sep hcl)⟩
    | c, _, _, .cls hp, C, x, hc, hd => by
      simp only [clsT, Option.map_eq_some_iff] at hc
      obtain ⟨cl, hcl, rfl⟩ := hc
      simp only [depthTok] at hd; cases hd
      exact ⟨_, rfl, good_leaf (leaf_good σ hσ (c := c) (.cls hp) hcl)⟩
    | c, _, _, .one hp, C, x, hc, hd => by
      simp only [clsT, Option.map_eq_some_iff] at hc
      obtain ⟨cl, hcl, rfl⟩ := hc
      simp only [depthTok] at hd; cases hd
      exact ⟨_, rfl, good_leaf (leaf_good σ hσ (c := c) (.one hp) hcl)⟩
    | c, _, _, .zom hw, C, x, hc, hd => by
      simp only [clsT, Option.map_eq_some_iff] at hc
      obtain ⟨cl, hcl, rfl⟩ := hc
      simp only [depthTok] at hd; cases hd
      exact ⟨_, rfl, good_leaf (leaf_good σ hσ (c := c) (.zom hw) hcl)⟩
    | _, _, _, .tree _, C, x, hc, hd => by simp [clsT] at hc
    | _, _, _, .alt (bs := bs) (b := b) hb hm, C, x, hc, hd => by
      simp only [clsT] at hc
      cases hcs : clsTs bs with
      | none => simp [hcs] at hc
      | some Cs =>
        simp only [hcs] at hc
        simp only [depthTok] at hd
        obtain ⟨Ds, hDs, hd⟩ := bind_ok hd
        obtain ⟨Cb, hCb, hCbm⟩ := clsTs_mem hcs b hb
        obtain ⟨xb, hxb, hxm⟩ := depthAll_mem hDs b hb
        obtain ⟨Db, hDbe, gb⟩ := sms_cat σ hσ hm Cb xb (catCls_concatenation hCb)
          (catDepth_concatenation hxb)
        have hDb := hxm Db hDbe
        cases Ds with
        | nil => cases hDb
        | cons X Xs =>
          simp only [reduceP] at hd
          obtain ⟨R, hR, hd⟩ := bind_ok hd
          cases hd
          refine ⟨R, rfl, ?_⟩
          have hsub : ∀ t ∈ Db.terms, t ∈ R.terms := by
            intro t ht
            rw [foldlP_disj_terms Xs X R hR t]
            rcases List.mem_cons.mp hDb with rfl | h
            · exact .inl ht
            · exact .inr ⟨Db, h, ht⟩
          obtain ⟨cl, hcl, hr, ⟨t1, ht1, r1⟩, ⟨t2, ht2, r2⟩⟩ := gb
          exact ⟨cl, unionAll_mem hc hCbm hcl, hr, ⟨t1, hsub t1 ht1, r1⟩, ⟨t2, hsub t2 ht2, r2⟩⟩
    | _, _, _, .rep (body := body) (lo := lo) (hi := hi) (n := n) h1 h2 h3, C, x, hc, hd => by
      simp only [clsT] at hc
      split at hc
      · cases hc
      · rename_i hlo
        cases hcb : clsT body with
        | none => simp [hcb] at hc
        | some Cb =>
          simp only [hcb] at hc
          obtain ⟨z1, z2, z3⟩ := repCls_spec hc
          simp only [depthTok] at hd
          obtain ⟨xb, hxb, hd⟩ := bind_ok hd
          have hn : 1 ≤ n := by omega
          obtain ⟨Db, hDbe, rg⟩ := srep_good σ hσ h3 hn Cb xb C (catCls_concatenation hcb)
            (catDepth_concatenation hxb) ⟨z1, z2, z3⟩
          subst hDbe
          simp only at hd
          obtain ⟨R, hR, hd⟩ := bind_ok hd
          cases hd
          refine ⟨R, rfl, ?_⟩
          have hwf := depthTok_wf body Db hxb
          obtain ⟨hrw, hrm⟩ := fco_mem h1 h2
          obtain ⟨cl, hcl, hr, ⟨t1, ht1, e1, k1, hk1, m1⟩, ⟨t2, ht2, e2, k2, hk2, m2⟩⟩ := rg
          refine ⟨cl, hcl, hr, ?_, ?_⟩
          · obtain ⟨v, hv, hmem⟩ := (DTerm.prod_terms hR).1 t1 ht1
            exact ⟨_, hmem, e1, k1 * n, by rw [Nat.mul_comm]; exact hk1,
              (NVar.prod_back (hwf t1 ht1) hrw hv).2 k1 n m1 hrm⟩
          · obtain ⟨v, hv, hmem⟩ := (DTerm.prod_terms hR).1 t2 ht2
            exact ⟨_, hmem, e2, k2 * n, by rw [Nat.mul_comm]; exact hk2,
              (NVar.prod_back (hwf t2 ht2) hrw hv).2 k2 n m2 hrm⟩
    | _, _, _, .cat h, C, x, hc, hd => by
      exact sms_cat σ hσ h C x (by simpa only [clsT, catCls] using hc)
        (by simpa only [depthTok, catDepth] using hd)
  theorem sms_cat (σ : Sem) (hσ : SepIsolated σ) : ∀ {c : Ctx} {ts : List Tok} {u : Str},
      SMs σ c ts u → ∀ (C : List Cls) (x : Option DTerm), catCls ts = some C →
      catDepth ts = .ok x → ∃ D, x = some D ∧ Good C D u
    | _, _, _, .nil, C, x, hc, _ => by simp [catCls, clsTs, foldMul] at hc
    | _, _, _, .cons (t := t) (ts := ts) (u := u1) (v := u2) hu hv, C, x, hc, hd => by
      simp only [catCls, clsTs] at hc
      cases hct : clsT t with
      | none => simp [hct] at hc
      | some Ct =>
        cases hcs : clsTs ts with
        | none => simp [hct, hcs] at hc
        | some Cs =>
          simp only [hct, hcs, foldMul] at hc
          simp only [catDepth, depthAll] at hd
          obtain ⟨Ds0, hDs0, hd⟩ := bind_ok hd
          obtain ⟨xt, hxt, hDs0⟩ := bind_ok hDs0
          obtain ⟨Ds, hDs, hDs0⟩ := bind_ok hDs0
          cases hDs0
          obtain ⟨Dt, hDte, gt⟩ := sm_good σ hσ hu Ct xt hct hxt
          subst hDte
          simp only [reduceP] at hd
          obtain ⟨R, hR, hd⟩ := bind_ok hd
          cases hd
          exact ⟨R, rfl, sms_acc σ hσ hv Cs Ds hcs hDs Ct Dt u1 C R (depthTok_wf t Dt hxt) gt hc hR⟩
  theorem sms_acc (σ : Sem) (hσ : SepIsolated σ) : ∀ {c : Ctx} {ts : List Tok} {u : Str},
      SMs σ c ts u → ∀ (Cs : List (List Cls)) (Ds : List DTerm), clsTs ts = some Cs →
      depthAll ts = .ok Ds → ∀ (Cacc : List Cls) (A : DTerm) (a : Str) (C : List Cls) (R : DTerm),
      AllWf A → Good Cacc A a → foldMulGo Cacc Cs = some C → foldlP DTerm.conj A Ds = .ok R →
      Good C R (a ++ u)
    | _, _, _, .nil, Cs, Ds, hcs, hDs, Cacc, A, a, C, R, hA, ga, hf, hR => by
      simp only [clsTs] at hcs; cases hcs
      simp only [depthAll] at hDs; cases hDs
      simp only [foldMulGo] at hf; cases hf
      simp only [foldlP] at hR; cases hR
      simpa using ga
    | _, _, _, .cons (t := t) (ts := ts) (u := u1) (v := u2) hu hv, Cs, Ds, hcs, hDs, Cacc, A, a,
        C, R, hA, ga, hf, hR => by
      simp only [clsTs] at hcs
      cases hct : clsT t with
      | none => simp [hct] at hcs
      | some Ct =>
        cases hcs' : clsTs ts with
        | none => simp [hct, hcs'] at hcs
        | some Cs' =>
          simp only [hct, hcs', Option.some.injEq] at hcs
          subst hcs
          simp only [depthAll] at hDs
          obtain ⟨xt, hxt, hDs⟩ := bind_ok hDs
          obtain ⟨Ds', hDs', hDs⟩ := bind_ok hDs
          cases hDs
          obtain ⟨Dt, hDte, gt⟩ := sm_good σ hσ hu Ct xt hct hxt
          subst hDte
          simp only [foldMulGo] at hf
          cases hm : mulAll Cacc Ct with
          | none => simp [hm] at hf
          | some C' =>
            simp only [hm] at hf
            simp only [foldlP] at hR
            obtain ⟨A', hA', hR⟩ := bind_ok hR
            have hDt := depthTok_wf t Dt hxt
            have g' := conj_good hA hDt ga gt hm hA'
            have := sms_acc σ hσ hv Cs' Ds' hcs' hDs' C' A' (a ++ u1) C R
              (DTerm.conj_wf hA hDt hA') g' hf hR
            simpa [List.append_assoc] using this
  theorem srep_good (σ : Sem) (hσ : SepIsolated σ) : ∀ {c : Ctx} {ts : List Tok} {n : Nat}
      {u : Str}, SRep σ c ts n u → 1 ≤ n → ∀ (Cb : List Cls) (x : Option DTerm) (Z : List Cls),
      catCls ts = some Cb → catDepth ts = .ok x → ClosedC Cb Z → ∃ D, x = some D ∧ RepGood Z D n u
    | _, _, _, _, .zero, hn, _, _, _, _, _, _ => by omega
    | _, _, _, _, .one h, _, Cb, x, Z, hc, hd, hz => by
      obtain ⟨D, hDe, cl, hcl, hr, ⟨t1, ht1, e1, k1, hk1, m1⟩, ⟨t2, ht2, e2, k2, hk2, m2⟩⟩ :=
        sms_cat σ hσ h Cb x hc hd
      exact ⟨D, hDe, cl, hz.sub cl hcl, hr, ⟨t1, ht1, e1, k1, by omega, m1⟩,
        ⟨t2, ht2, e2, k2, by omega, m2⟩⟩
    | _, _, _, _, .more (n := n) (u := u) (v := v) hu hv, _, Cb, x, Z, hc, hd, hz => by
      obtain ⟨D, hDe, ca, hca, ra, ⟨t1, ht1, e1, k1, hk1, m1⟩, ⟨t2, ht2, e2, k2, hk2, m2⟩⟩ :=
        sms_cat σ hσ hu Cb x hc hd
      subst hDe
      obtain ⟨D', hD', cb, hcb, rb, ⟨s1, hs1, f1, j1, hj1, n1⟩, ⟨s2, hs2, f2, j2, hj2, n2⟩⟩ :=
        srep_good σ hσ hv (by omega) Cb (some D) Z hc hd hz
      cases hD'
      obtain ⟨hval, hmem⟩ := hz.mul ca hca cb hcb
      have hza := hz.sub ca hca
      refine ⟨D, rfl, ca.mul cb, hmem, Real.mul ra rb hval, ?_, ?_⟩
      · by_cases hle : k1 ≤ j1
        · refine ⟨t1, ht1, by rw [e1]; exact hz.uni _ hza _ hmem, k1, ?_, m1⟩
          rw [seps_append, succ_succ_mul]
          have : (n + 1) * k1 ≤ (n + 1) * j1 := Nat.mul_le_mul_left _ hle
          omega
        · refine ⟨s1, hs1, by rw [f1]; exact hz.uni _ hcb _ hmem, j1, ?_, n1⟩
          rw [seps_append, succ_succ_mul]
          omega
      · by_cases hle : j2 ≤ k2
        · refine ⟨t2, ht2, by rw [e2]; exact hz.uni _ hza _ hmem, k2, ?_, m2⟩
          rw [seps_append, succ_succ_mul]
          have : (n + 1) * j2 ≤ (n + 1) * k2 := Nat.mul_le_mul_left _ hle
          omega
        · refine ⟨s2, hs2, by rw [f2]; exact hz.uni _ hcb _ hmem, j2, ?_, n2⟩
          rw [seps_append, succ_succ_mul]
          omega
end

/-! ### the theorems -/

theorem finalOK_ends {cl : Cls} {w : Str} (hf : cl.finalOK = true) (hr : Real cl w) :
    hdS w = some (decide (cl.l = .E)) ∧ ltS w = some (decide (cl.r = .E)) := by
  obtain ⟨p, l, r⟩ := cl
  obtain ⟨_, _, h3, h4⟩ := hr
  cases l <;> cases r <;> simp [Cls.finalOK] at hf <;> simp only [endOK] at h3 h4 <;>
    simp [h3, h4]

theorem fin_mem_closed {n : Nat} {v' : NVar}
    (h : (⟨Termn.ofBools true true, .inv n⟩ : SepTerm).finalize = .ok v') : v' = .inv (n - 1) := by
  simp only [SepTerm.finalize, Termn.ofBools] at h
  cases h; rfl

theorem sepTerm_eta {τ : Termn} {t : SepTerm} (e : t.t = τ) : (⟨τ, t.v⟩ : SepTerm) = t := by
  obtain ⟨a, b⟩ := t; simp only at e; rw [e]

/-- the detailed form, about any concatenation (a whole pattern, a branch, a repetition body), in
any context -/
theorem depth_sound_branch_core (σ : Sem) (hσ : SepIsolated σ) (ts : List Tok) (C : List Cls)
    (hC : catCls ts = some C) (hfin : ∀ cl ∈ C, Cls.finalOK cl = true) (D : DTerm)
    (hD : catDepth ts = .ok (some D))
    (hclosed : (∃ cl ∈ C, Cls.closed cl = true) → closedInv D = true)
    (v : NVar) (hv : D.finalize = .ok v) (c : Ctx) (w : Str)
    (hw : SMs σ c ts w) : v.mem (depthOf w) := by
  obtain ⟨D', hD', cl, hcl, hr, ⟨t1, ht1, e1, k1, hk1, m1⟩, ⟨t2, ht2, e2, k2, hk2, m2⟩⟩ :=
    sms_cat σ hσ hw C (some D) hC hD
  cases hD'
  obtain ⟨hh, hl⟩ := finalOK_ends (hfin cl hcl) hr
  have hdep := depthOf_seps hr.1 hh hl
  have hwf : AllWf D := by
    intro t ht
    unfold catDepth at hD
    obtain ⟨Ds, hDs, hD⟩ := bind_ok hD
    have hall := depthAll_wf ts Ds hDs
    cases Ds with
    | nil => cases hD
    | cons X Xs =>
      simp only [reduceP] at hD
      obtain ⟨R, hR, hD⟩ := bind_ok hD
      cases hD
      exact foldlP_conj_wf Xs X D (hall X (List.mem_cons_self ..))
        (fun z hz => hall z (List.mem_cons_of_mem _ hz)) hR t ht
  obtain ⟨f1, hf1, s1⟩ := DTerm.finalize_sup hwf hv t1 ht1
  obtain ⟨f2, hf2, s2⟩ := DTerm.finalize_sup hwf hv t2 ht2
  simp only [Cls.termn] at e1 e2
  by_cases hne : (decide (cl.l = .E) && decide (cl.r = .E)) = false
  · have g1 := fin_mem hne (hwf t1 ht1) (by rw [sepTerm_eta e1]; exact hf1) m1
    have g2 := fin_mem hne (hwf t2 ht2) (by rw [sepTerm_eta e2]; exact hf2) m2
    exact NVar.convex (s1 _ g1) (s2 _ g2) (by omega) (by omega)
  · have hcc : cl.closed = true := by simpa [Cls.closed] using hne
    have hci := hclosed ⟨cl, hcl, hcc⟩
    simp only [Cls.closed, Bool.and_eq_true] at hcc
    rw [hcc.1, hcc.2] at e1 e2 hdep
    simp only [closedInv, List.all_eq_true, Bool.or_eq_true, decide_eq_true_eq] at hci
    have i1 : ∃ n, t1.v = .inv n := by
      rcases hci t1 ht1 with h | h
      · exact absurd e1 h
      · cases hv1 : t1.v <;> simp [hv1, NVar.isInv] at h; exact ⟨_, rfl⟩
    have i2 : ∃ n, t2.v = .inv n := by
      rcases hci t2 ht2 with h | h
      · exact absurd e2 h
      · cases hv2 : t2.v <;> simp [hv2, NVar.isInv] at h; exact ⟨_, rfl⟩
    obtain ⟨n1, hn1⟩ := i1
    obtain ⟨n2, hn2⟩ := i2
    rw [hn1] at m1; rw [hn2] at m2
    simp only [NVar.mem] at m1 m2
    have g1 : f1 = .inv (n1 - 1) := fin_mem_closed (by rw [← hn1, sepTerm_eta e1]; exact hf1)
    have g2 : f2 = .inv (n2 - 1) := fin_mem_closed (by rw [← hn2, sepTerm_eta e2]; exact hf2)
    have g1' : f1.mem (n1 - 1) := by rw [g1]; rfl
    have g2' : f2.mem (n2 - 1) := by rw [g2]; rfl
    simp only [b2n, ↓reduceIte] at hdep
    exact NVar.convex (s1 _ g1') (s2 _ g2') (by omega) (by omega)

/-- **C10 on patterns with branches, any path, any context** (`depth_sound_branch`): on the
fragment `branchOk`, whenever the general fold `depthVariance` returns a value, every path the
pattern matches (`Spec.Matches` is the case `c = ⟨true, true⟩`) — canonical or not — has a number
of components in the set that value denotes. -/
theorem depth_sound_branch (σ : Sem) (hσ : SepIsolated σ) (t : Tok) (hok : branchOk t = true)
    (v : NVar) (hv : depthVariance t = .ok v) (c : Ctx) (w : Str)
    (hw : SMs σ c t.concatenation w) : v.mem (depthOf w) := by
  unfold branchOk at hok
  cases hC : clsT t with
  | none => simp [hC] at hok
  | some C =>
    simp only [hC, Bool.and_eq_true, List.all_eq_true] at hok
    unfold depthVariance at hv
    obtain ⟨x, hx, hv⟩ := bind_ok hv
    obtain ⟨D, hDe, _⟩ := sms_cat σ hσ hw C x (catCls_concatenation hC) (catDepth_concatenation hx)
    subst hDe
    refine depth_sound_branch_core σ hσ t.concatenation C (catCls_concatenation hC) hok.1 D
      (catDepth_concatenation hx) ?_ v hv c w hw
    intro ⟨cl, hcl, hcc⟩
    have h2 := hok.2
    rw [hx] at h2
    simp only [Bool.or_eq_true, Bool.not_eq_true', List.any_eq_false] at h2
    rcases h2 with h2 | h2
    · exact absurd hcc (by simpa using h2 cl hcl)
    · exact h2

/-- **the fragment of C10** (one decidable predicate for the classifier): a flat concatenation of
leaves in the fragment of `depth_sound_tree_partial` (tree wildcards allowed), or a token tree in
the branch fragment -/
def F10b (t : Tok) : Bool :=
  (match t with | .cat _ ts => flatTreeOk ts | _ => false) || branchOk t

/-- **`depth_sound_branch_partial`** -/
theorem depth_sound_branch_partial (σ : Sem) (hσ : SepIsolated σ) (t : Tok)
    (hok : F10b t = true) (v : NVar) (hv : depthVariance t = .ok v) (w : Str)
    (hw : Spec.Matches σ t w) (hcan : canonicalPath w = true) : v.mem (depthOf w) := by
  unfold F10b at hok
  rcases Bool.or_eq_true_iff.mp hok with h | h
  · cases t with
    | cat sp ts =>
      simp only [canonicalPath, Bool.and_eq_true] at hcan
      exact depth_sound_tree_glob σ hσ sp ts h v hv w hw hcan.2
    | _ => cases h
  · exact depth_sound_branch σ hσ t h v hv ⟨true, true⟩ w hw

/-- the classifier-friendly corollary: `F10b` contains the old flat fragments -/
theorem F10b_of_flatTreeOk (sp : Span) (ts : List Tok) (h : flatTreeOk ts = true) :
    F10b (.cat sp ts) = true := by
  simp [F10b, h]

theorem F10b_of_branchOk (t : Tok) (h : branchOk t = true) : F10b t = true := by
  simp [F10b, h]

/-! ### non-vacuity -/

section Examples

/-- `{a,b/c}` -/
def exAlt : Tok :=
  .cat ⟨0, 7⟩ [.alt ⟨0, 7⟩ [.cat ⟨1, 1⟩ [.lit ⟨1, 1⟩ ['a'] false],
    .cat ⟨3, 3⟩ [.lit ⟨3, 1⟩ ['b'] false, .sep ⟨4, 1⟩, .lit ⟨5, 1⟩ ['c'] false]]]

/-- `<a/:2>b` -/
def exRep : Tok :=
  .cat ⟨0, 7⟩ [.rep ⟨0, 6⟩ (.cat ⟨1, 2⟩ [.lit ⟨1, 1⟩ ['a'] false, .sep ⟨2, 1⟩]) 2 (some 2),
    .lit ⟨6, 1⟩ ['b'] false]

/-- `x<{a/,b/c/}:1,>y` : an alternation inside a repetition with variant bounds -/
def exNest : Tok :=
  .cat ⟨0, 16⟩ [.lit ⟨0, 1⟩ ['x'] false,
    .rep ⟨1, 14⟩ (.cat ⟨2, 9⟩ [.alt ⟨2, 9⟩ [.cat ⟨3, 2⟩ [.lit ⟨3, 1⟩ ['a'] false, .sep ⟨4, 1⟩],
      .cat ⟨6, 4⟩ [.lit ⟨6, 1⟩ ['b'] false, .sep ⟨7, 1⟩, .lit ⟨8, 1⟩ ['c'] false, .sep ⟨9, 1⟩]]])
      1 none,
    .lit ⟨15, 1⟩ ['y'] false]

/-- `*.{rs,toml}` : a run that can match `""` next to an alternation -/
def exGlob : Tok :=
  .cat ⟨0, 11⟩ [.zom ⟨0, 1⟩ false, .lit ⟨1, 1⟩ ['.'] false,
    .alt ⟨2, 9⟩ [.cat ⟨3, 2⟩ [.lit ⟨3, 2⟩ ['r', 's'] false],
      .cat ⟨6, 4⟩ [.lit ⟨6, 4⟩ ['t', 'o', 'm', 'l'] false]]]

/-- `/{a,b}/` : starts and ends with a separator, invariant terms -/
def exClosed : Tok :=
  .cat ⟨0, 7⟩ [.sep ⟨0, 1⟩, .alt ⟨1, 5⟩ [.cat ⟨2, 1⟩ [.lit ⟨2, 1⟩ ['a'] false],
    .cat ⟨4, 1⟩ [.lit ⟨4, 1⟩ ['b'] false]], .sep ⟨6, 1⟩]

example : branchOk exAlt = true ∧ depthVariance exAlt = .ok (.bnd (.both 1 1)) := ⟨by decide, rfl⟩
example : branchOk exRep = true ∧ depthVariance exRep = .ok (.inv 3) := ⟨by decide, rfl⟩
example : branchOk exNest = true ∧ depthVariance exNest = .ok (.bnd (.lower 2)) :=
  ⟨by decide, rfl⟩
example : branchOk exGlob = true ∧ depthVariance exGlob = .ok (.inv 1) := ⟨by decide, rfl⟩
example : branchOk exClosed = true ∧ depthVariance exClosed = .ok (.inv 1) := ⟨by decide, rfl⟩

/-- `{a,b/c}` matches `b/c` -/
theorem exAlt_matches (σ : Sem) : Spec.Matches σ exAlt ['b', '/', 'c'] := by
  refine sms_singleton.mpr (.alt (b := .cat ⟨3, 3⟩ [.lit ⟨3, 1⟩ ['b'] false, .sep ⟨4, 1⟩,
    .lit ⟨5, 1⟩ ['c'] false]) (by simp) ?_)
  have h1 : SM σ ⟨true, false⟩ (.lit ⟨3, 1⟩ ['b'] false) ['b'] := .lit (by simp [litEq])
  have h2 : SM σ ⟨false, false⟩ (.sep ⟨4, 1⟩) ['/'] := .sep
  have h3 : SM σ ⟨false, true⟩ (.lit ⟨5, 1⟩ ['c'] false) ['c'] := .lit (by simp [litEq])
  exact .cons (u := ['b']) h1 (.cons (u := ['/']) h2 (.cons (u := ['c']) h3 .nil))

/-- `<a/:2>b` matches `a/a/b` -/
theorem exRep_matches (σ : Sem) : Spec.Matches σ exRep ['a', '/', 'a', '/', 'b'] := by
  have body : ∀ c, SMs σ c [.lit ⟨1, 1⟩ ['a'] false, .sep ⟨2, 1⟩] ['a', '/'] := by
    intro c
    exact .cons (u := ['a']) (.lit (by simp [litEq])) (.cons (u := ['/']) .sep .nil)
  have hrep : SM σ ⟨true, false⟩
      (.rep ⟨0, 6⟩ (.cat ⟨1, 2⟩ [.lit ⟨1, 1⟩ ['a'] false, .sep ⟨2, 1⟩]) 2 (some 2))
      ['a', '/', 'a', '/'] :=
    .rep (n := 2) (Nat.le_refl 2) (by intro h hh; cases hh; exact Nat.le_refl 2)
      (.more (u := ['a', '/']) (v := ['a', '/']) (body _) (.one (body _)))
  have hb : SM σ ⟨false, true⟩ (.lit ⟨6, 1⟩ ['b'] false) ['b'] := .lit (by simp [litEq])
  exact .cons (u := ['a', '/', 'a', '/']) hrep (.cons (u := ['b']) hb .nil)

/-- the theorem applied: every path `{a,b/c}` matches, canonical or not, has one or two
components; every path `<a/:2>b` matches has exactly three (and real matches exist) -/
example (σ : Sem) (hσ : SepIsolated σ) :
    (∀ w, Spec.Matches σ exAlt w → 1 ≤ depthOf w ∧ depthOf w ≤ 2) ∧
    Spec.Matches σ exAlt ['b', '/', 'c'] ∧ depthOf ['b', '/', 'c'] = 2 ∧
    (∀ w, Spec.Matches σ exRep w → depthOf w = 3) ∧
    Spec.Matches σ exRep ['a', '/', 'a', '/', 'b'] := by
  refine ⟨?_, exAlt_matches σ, by decide, ?_, exRep_matches σ⟩
  · intro w hw
    have := depth_sound_branch σ hσ exAlt (by decide) (.bnd (.both 1 1)) rfl ⟨true, true⟩ w hw
    simpa [NVar.mem, BVR.mem] using this
  · intro w hw
    exact depth_sound_branch σ hσ exRep (by decide) (.inv 3) rfl ⟨true, true⟩ w hw

end Examples

/-! ### outside the fragment the statement is false of the committed algorithm -/

/-- `<a:0,1>` : a repetition that may iterate zero times.  The fold reports the invariant depth 1;
the pattern matches the empty path.  (The crate agrees: `depth=inv_1`, and `""` matches.) -/
theorem depth_rep_zero_witness (σ : Sem) :
    let t : Tok := .cat ⟨0, 7⟩ [.rep ⟨0, 7⟩ (.cat ⟨1, 1⟩ [.lit ⟨1, 1⟩ ['a'] false]) 0 (some 1)]
    F10b t = false ∧ depthVariance t = .ok (.inv 1) ∧ Spec.Matches σ t [] ∧
      canonicalPath [] = true ∧ ¬ (NVar.inv 1).mem (depthOf []) := by
  refine ⟨by decide, rfl, ?_, by decide, by simp [NVar.mem, depthOf, depthGo]⟩
  exact sms_singleton.mpr (.rep (n := 0) (Nat.le_refl 0) (by intro h _; exact Nat.zero_le h) .zero)

/-- `/a{a/**}` : a tree wildcard inside a branch.  The fold reports "at least 2" (the branch is
folded on its own: `a/**` gives "ends with a boundary, at least 1"; joined to `/a` the term starts
and ends with a boundary and `finalize` does not subtract from a range); the pattern matches the
canonical path `/aa`, which has one component.  (The crate agrees: `depth=rng_2_-`.) -/
theorem depth_branch_tree_witness (σ : Sem) :
    let t : Tok := .cat ⟨0, 8⟩ [.sep ⟨0, 1⟩, .lit ⟨1, 1⟩ ['a'] false,
      .alt ⟨2, 6⟩ [.cat ⟨3, 4⟩ [.lit ⟨3, 1⟩ ['a'] false, .tree ⟨4, 3⟩ true]]]
    F10b t = false ∧ depthVariance t = .ok (.bnd (.lower 2)) ∧
      Spec.Matches σ t ['/', 'a', 'a'] ∧ canonicalPath ['/', 'a', 'a'] = true ∧
      ¬ (NVar.bnd (.lower 2)).mem (depthOf ['/', 'a', 'a']) := by
  refine ⟨by decide, rfl, ?_, by decide, by simp [NVar.mem, BVR.mem, depthOf, depthGo]⟩
  have h1 : SM σ ⟨true, false⟩ (.sep ⟨0, 1⟩) ['/'] := .sep
  have h2 : SM σ ⟨false, false⟩ (.lit ⟨1, 1⟩ ['a'] false) ['a'] := .lit (by simp [litEq])
  have h3 : SM σ ⟨false, true⟩
      (.alt ⟨2, 6⟩ [.cat ⟨3, 4⟩ [.lit ⟨3, 1⟩ ['a'] false, .tree ⟨4, 3⟩ true]]) ['a'] := by
    refine .alt (b := .cat ⟨3, 4⟩ [.lit ⟨3, 1⟩ ['a'] false, .tree ⟨4, 3⟩ true]) (by simp) ?_
    have g1 : SM σ ⟨false, false⟩ (.lit ⟨3, 1⟩ ['a'] false) ['a'] := .lit (by simp [litEq])
    have g2 : SM σ ⟨false, true⟩ (.tree ⟨4, 3⟩ true) [] := .tree (by simp [TreeLang])
    exact .cons (u := ['a']) g1 (.cons (u := []) g2 .nil)
  exact .cons (u := ['/']) h1 (.cons (u := ['a']) h2 (.cons (u := ['a']) h3 .nil))

/-- `{a,*}` : an alternative that can match `""`.  Reported: invariant depth 1; matched: `""`. -/
theorem depth_alt_nullable_witness (σ : Sem) :
    let t : Tok := .cat ⟨0, 5⟩ [.alt ⟨0, 5⟩ [.cat ⟨1, 1⟩ [.lit ⟨1, 1⟩ ['a'] false],
      .cat ⟨3, 1⟩ [.zom ⟨3, 1⟩ false]]]
    F10b t = false ∧ depthVariance t = .ok (.inv 1) ∧ Spec.Matches σ t [] ∧
      canonicalPath [] = true ∧ ¬ (NVar.inv 1).mem (depthOf []) := by
  refine ⟨by decide, rfl, ?_, by decide, by simp [NVar.mem, depthOf, depthGo]⟩
  refine sms_singleton.mpr (.alt (b := .cat ⟨3, 1⟩ [.zom ⟨3, 1⟩ false]) (by simp) ?_)
  exact sms_singleton.mpr (.zom sepFree_nil)

/-- `/<a/:1,2>` : starts and ends with a boundary, and the value is a range.  `finalize` subtracts
one from such a term only when the value is invariant: reported `[2, 3]`; matched: `/a/`, one
component.  That path is not canonical (and no canonical path is matched at all), so C10 is not
contradicted — but this is why `branchOk` asks for `closedInv`: `depth_sound_branch` speaks of ALL
matched paths. -/
theorem depth_closed_range_witness (σ : Sem) :
    let t : Tok := .cat ⟨0, 9⟩ [.sep ⟨0, 1⟩,
      .rep ⟨1, 8⟩ (.cat ⟨2, 2⟩ [.lit ⟨2, 1⟩ ['a'] false, .sep ⟨3, 1⟩]) 1 (some 2)]
    F10b t = false ∧ depthVariance t = .ok (.bnd (.both 2 1)) ∧
      Spec.Matches σ t ['/', 'a', '/'] ∧ canonicalPath ['/', 'a', '/'] = false ∧
      ¬ (NVar.bnd (.both 2 1)).mem (depthOf ['/', 'a', '/']) := by
  refine ⟨by decide, rfl, ?_, by decide, by simp [NVar.mem, BVR.mem, depthOf, depthGo]⟩
  have h1 : SM σ ⟨true, false⟩ (.sep ⟨0, 1⟩) ['/'] := .sep
  have body : SMs σ ⟨false, true⟩ [.lit ⟨2, 1⟩ ['a'] false, .sep ⟨3, 1⟩] ['a', '/'] :=
    .cons (u := ['a']) (.lit (by simp [litEq])) (.cons (u := ['/']) .sep .nil)
  have h2 : SM σ ⟨false, true⟩
      (.rep ⟨1, 8⟩ (.cat ⟨2, 2⟩ [.lit ⟨2, 1⟩ ['a'] false, .sep ⟨3, 1⟩]) 1 (some 2)) ['a', '/'] :=
    .rep (n := 1) (Nat.le_refl 1) (by intro h hh; cases hh; decide) (.one body)
  exact .cons (u := ['/']) h1 (.cons (u := ['a', '/']) h2 .nil)

end Wax
