import Wax.Proofs.GlobWalkE2E
import Wax.Proofs.HirRuns
import Wax.Proofs.PriorityCor
import Wax.Proofs.GrammarParse
import Wax.Proofs.WalkFaults
/-!
Second audit (`/verif/audit/REPORT2.md`): corrected / stronger statements.  New
theorems only; no existing file is changed.

1. `glob_walk_e2e_stop_partial`  — the end-to-end walk theorem for the OTHER shape of compiled globs,
                                   `c₁/…/cₖ/rest` with `rest` empty or led by a component with a
                                   boundary — in particular (`k = 0`) globs that BEGIN with a tree
                                   wildcard, `**/*.rs`, which `glob_walk_e2e_partial` excludes
2. `model_top_caps_positions`    — captures of two top-level tokens, with POSITIONS in one tiling
                                   (`model_top_caps_ordered` only says that some occurrence of the
                                   first text ends before some occurrence of the second starts)
3. `exOptStar_chain`, `exOptStar_no_least` — the infinite descending chain the `says` line of
                                   `exOptStar1_least` announces (the listed theorem is the positive
                                   statement; the chain was shown for two trees only)
4. `clamped_walk_eq`, `clamped_exact_depth_iff` — "exactly the entries at the minimum depth", both
                                   directions
5. `GTok.span_eq`, `GToks.spans_tile` — C17 `says` "each token spans exactly the text that spells it"
                                   as a THEOREM about grammar derivations (it holds by construction
                                   of `GTok.mk`, which computes the span; here it is stated)
6. `bounds_doc_*`                — the documented equivalences of repetition bounds, read off `Bounds`
7. `zom_after_lit_greedy_longest`, `zom_after_lit_lazy_shortest` — `*` / `$` BEHIND a literal (`a*b`): the
                                   listed `zom_greedy_longest` / `zom_lazy_shortest` cover a wildcard that is
                                   the FIRST token only
-/
set_option linter.unusedSimpArgs false
set_option linter.unusedVariables false

namespace Wax.Walk
open Wax Wax.Path Wax.Cmd
open Wax.WalkTree (relOf joinSep)

/-! ### 1. end to end for globs that begin with a tree wildcard (`**/*.rs`) -/

/--
**`Glob::walk(base)` end to end, second shape** — `t = c₁/…/cₖ/rest` (`k ≥ 0`) where the `cᵢ` are
boundary-free components inside `F01` and `rest` is empty or begins with a component that has a
boundary (`hrest`, decidable): a tree wildcard (`**/*.rs`, `a/**`), an alternative with a separator
in a branch.  `WalkProgram::compile` stops there: the component programs are those of `c₁ … cₖ`
only (none at all for `k = 0`), and every deeper entry is decided by the complete program.

Same hypotheses as `glob_walk_e2e_partial` otherwise, plus `rootExempt` (decidable; free when
there is a prefix or `k = 0`): without component programs the closure DOES match the root entry of
the walk against the complete program, so — unlike in `glob_walk_e2e_partial` — the base itself is
yielded when the glob matches the empty path (`**` from `base` yields `base`).
-/
theorem glob_walk_e2e_stop_partial (σ : Sem) (hσ : SepIsolated σ) (hdot : σ.dotall = true) (κ : Casing)
    (sp : Span) (comps : List (List Tok × Span)) (rest : List Tok)
    (hcomps : ∀ c ∈ comps, compOk c.1 = true)
    (hrest : (componentsGo rest none).takeWhile (fun c => !hasBoundaryL c) = [])
    (hF : F01 (.cat sp (joinSep comps rest)) = true)
    (base : Str) (pre : List Str)
    (hP : prefixSpells (partition κ (.cat sp (joinSep comps rest))).1 pre = true)
    (hroot0 : rootExempt σ (compiledProgram (.cat sp (joinSep comps rest)) pre.length) pre = true)
    (b : DepthBehavior) (hwf : b.wf) (hreach : ∀ u, b.upper = some u → pre.length ≤ u)
    (rv : RootView) (hnames : allPathsLB goodNames [] (toWTList rv.children) = true) :
    let t : Tok := .cat sp (joinSep comps rest)
    let P := (partition κ t).1
    let π := globWalkPipeline σ κ base t []
    let yielded := π.filtrateEntries (π.items (b.atPivot π.pivot).1 (b.atPivot π.pivot).2 rv)
    (π.root = (if P = [] then base else join base P) ∧ π.pivot = pre.length) ∧
    (∀ w, (encodeTop t).matchB σ w = true ↔ Spec.Matches σ t w) ∧
    yielded = (unpruned rv).filter (fun e =>
        (encodeTop t).matchB σ (relOf (pre ++ e.names)) && decide (b.admits (pre ++ e.names).length)) ∧
    ∀ e, e ∈ yielded ↔ e ∈ unpruned rv ∧ Spec.Matches σ t (relOf (pre ++ e.names)) ∧
      b.admits (pre ++ e.names).length := by
  intro t P π yielded
  obtain ⟨hπ, hf0, hfaith⟩ := e2e_setup σ κ t base pre hP rv hnames
  have hπ' : π = globPipeline σ (if P = [] then base else join base P)
      (compiledProgram t pre.length) := hπ
  have hs := programsSound_compiled_stop σ hσ hdot sp comps rest hcomps hrest hF pre.length
  have hm : ∀ w, (encodeTop t).matchB σ w = true ↔ Spec.Matches σ t w :=
    fun w => compiled_complete_iff σ hdot t hF 0 w
  have hy : yielded = (unpruned rv).filter (fun e =>
        (encodeTop t).matchB σ (relOf (pre ++ e.names)) && decide (b.admits (pre ++ e.names).length)) := by
    show π.filtrateEntries (π.items (b.atPivot π.pivot).1 (b.atPivot π.pivot).2 rv) = _
    rw [hπ']
    exact glob_walk_bounded_exact_names σ (compiledProgram t pre.length) hs pre rfl hroot0 b hwf hreach
      _ rv hf0 hfaith
  refine ⟨⟨by rw [hπ']; rfl, by rw [hπ']; rfl⟩, hm, hy, fun e => ?_⟩
  rw [hy, List.mem_filter]
  simp only [Bool.and_eq_true, decide_eq_true_eq]
  rw [hm]

/-! the theorem is not vacuous: `**/*.rs` (the shape of the README's first example `**/*.{go,rs}`)
    walked from the relative base `proj` with the driver's own tables -/

/-- the tokens of `**/*.rs`: a tree wildcard that has absorbed its separator, `*`, a literal -/
def rsRest : List Tok := [.tree ⟨0, 3⟩ false, .zom ⟨3, 1⟩ false, .lit ⟨4, 3⟩ ".rs".toList false]
def rsTok : Tok := .cat ⟨0, 7⟩ (joinSep [] rsRest)
theorem rsTok_parse : parse "**/*.rs".toList = .ok rsTok := by rfl
/-- no invariant prefix: the walk starts at the base itself, pivot 0 -/
theorem rsTok_anchor : anchor drvCasing rsTok "proj".toList = ("proj".toList, 0) := by decide
/-- `WalkProgram::compile` yields NO component program for it -/
theorem rsTok_programs : walkPrograms rsTok = [] := by decide

/-- below `proj`: `build.rs`, `README.md`, `src/{lib.rs, walk/{mod.rs, x.txt}}`, `target/{d.rs/ (a directory)}` -/
def rsRv : RootView :=
  .dir [.leaf "build.rs".toList .f, .leaf "README.md".toList .f,
        .dir "src".toList [.leaf "lib.rs".toList .f,
          .dir "walk".toList [.leaf "mod.rs".toList .f, .leaf "x.txt".toList .f]],
        .dir "target".toList [.dir "d.rs".toList []]]

/-- `**/*.rs` from `proj`: every hypothesis discharged; the `.rs` entries at every depth, nothing else;
    the base is not yielded (the glob does not match the empty path) -/
example :
    let π := globWalkPipeline drvSem drvCasing "proj".toList rsTok []
    (π.root = "proj".toList ∧ π.pivot = 0) ∧
    π.filtrateEntries (π.items (DepthBehavior.unbounded.atPivot π.pivot).1
        (DepthBehavior.unbounded.atPivot π.pivot).2 rsRv) =
     [⟨["build.rs".toList], .f⟩, ⟨["src".toList, "lib.rs".toList], .f⟩,
      ⟨["src".toList, "walk".toList, "mod.rs".toList], .f⟩, ⟨["target".toList, "d.rs".toList], .d⟩] := by
  intro π
  have h := glob_walk_e2e_stop_partial drvSem drvSem_sepIsolated rfl drvCasing ⟨0, 7⟩ [] rsRest
    (by decide) (by decide) (by decide) "proj".toList [] (by decide) (by decide)
    .unbounded trivial (fun u hu => by cases hu) rsRv (by decide)
  exact ⟨⟨h.1.1.trans (by decide), h.1.2⟩, h.2.2.1.trans (by decide)⟩

/-- with depth bounds 2..2 from the base: `src/lib.rs` and `target/d.rs` only -/
example :
    let π := globWalkPipeline drvSem drvCasing "proj".toList rsTok []
    let b := DepthBehavior.minMax 2 0
    π.filtrateEntries (π.items (b.atPivot π.pivot).1 (b.atPivot π.pivot).2 rsRv) =
     [⟨["src".toList, "lib.rs".toList], .f⟩, ⟨["target".toList, "d.rs".toList], .d⟩] := by
  intro π b
  have h := glob_walk_e2e_stop_partial drvSem drvSem_sepIsolated rfl drvCasing ⟨0, 7⟩ [] rsRest
    (by decide) (by decide) (by decide) "proj".toList [] (by decide) (by decide)
    b (by show 0 < 2; decide) (fun u hu => Nat.zero_le _) rsRv (by decide)
  exact h.2.2.1.trans (by decide)

/-- `**` alone from `proj`: here the base itself IS yielded (the glob matches the empty path and there
    is no component program), as C02 says ("the base itself only if the glob matches the empty path") -/
example :
    let t : Tok := .cat ⟨0, 2⟩ (joinSep [] [.tree ⟨0, 2⟩ false])
    let π := globWalkPipeline drvSem drvCasing "proj".toList t []
    parse "**".toList = .ok t ∧
    π.filtrateEntries (π.items (DepthBehavior.unbounded.atPivot π.pivot).1
        (DepthBehavior.unbounded.atPivot π.pivot).2 (.dir [.leaf "q".toList .f])) =
      [⟨[], .d⟩, ⟨["q".toList], .f⟩] := by
  intro t π
  have h := (glob_walk_e2e_stop_partial drvSem drvSem_sepIsolated rfl drvCasing ⟨0, 2⟩ [] [.tree ⟨0, 2⟩ false]
    (by decide) (by decide) (by decide) "proj".toList [] (by decide) (by decide)
    .unbounded trivial (fun u hu => by cases hu) (.dir [.leaf "q".toList .f]) (by decide)).2.2.1
  exact ⟨by rfl, h.trans (by decide)⟩

end Wax.Walk

namespace Wax

/-! ### 2. the captures of two top-level tokens, with positions

`model_top_caps_ordered` (and `caps_ordered`, `exec_top_caps_ordered`, `cmdM_top_caps_ordered`)
conclude `∃ a1 a2, x1 = (s.drop a1).take … ∧ x2 = (s.drop a2).take … ∧ a1 + |x1| ≤ a2`: captures are
TEXTS, so this says that SOME occurrence of `x1` ends before SOME occurrence of `x2` starts (true of
("b","a") and of ("a","b") on `abab`; trivially true of empty captures).  Here the windows are
pinned: ONE tiling of the path along the top-level tokens; each capture is a window inside the
segment of its own token; the segment of the earlier token ends before that of the later one
begins. -/

theorem model_top_caps_positions {orbit : Char → List Char} {σ : Sem} {t : Tok} {s : Str} {caps : Caps}
    (hh : HirHyp orbit σ (encodeTop t)) (hc : ∀ x ∈ t.concatenation, x.isCat = false)
    (he : ((encodeTop t).hirNorm orbit σ).exec σ s = some (some s :: caps)) :
    ∃ us, Tiling σ (topRs t.concatenation) s caps us ∧
      ∀ (e1 e2 : Nat) (t1 t2 : Tok) (x1 x2 : Str), e1 < e2 →
        t.concatenation[e1]? = some t1 → t.concatenation[e2]? = some t2 →
        t1.capturing = true → t2.capturing = true →
        caps[capIdx t.concatenation e1]? = some (some x1) →
        caps[capIdx t.concatenation e2]? = some (some x2) →
        ∃ u1 u2 a1 a2, us[e1]? = some u1 ∧ us[e2]? = some u2 ∧
          segStart us e1 ≤ a1 ∧ a1 + x1.length ≤ segStart us e1 + u1.length ∧
          segStart us e1 + u1.length ≤ segStart us e2 ∧
          segStart us e2 ≤ a2 ∧ a2 + x2.length ≤ segStart us e2 + u2.length ∧
          segStart us e2 + u2.length ≤ s.length ∧
          x1 = (s.drop a1).take x1.length ∧ x2 = (s.drop a2).take x2.length := by
  obtain ⟨us, ht⟩ := model_tok_tiling hh he
  refine ⟨us, ht, ?_⟩
  intro e1 e2 t1 t2 x1 x2 hlt ht1 ht2 hc1 hc2 hx1 hx2
  obtain ⟨u1, hu1⟩ := ht.seg_exists (tok_index_lt ht1)
  obtain ⟨u2, hu2⟩ := ht.seg_exists (tok_index_lt ht2)
  obtain ⟨r1, hr1, hn1⟩ := ncaps_topRs ht1 (hc t1 (List.mem_of_getElem? ht1))
  obtain ⟨r2, hr2, hn2⟩ := ncaps_topRs ht2 (hc t2 (List.mem_of_getElem? ht2))
  rw [hc1] at hn1
  rw [hc2] at hn2
  simp only [if_true] at hn1 hn2
  have b1 := slotBase_topRs t.concatenation hc e1
  have b2 := slotBase_topRs t.concatenation hc e2
  obtain ⟨a1, l1, m1, w1⟩ := ht.window hr1 hu1 (i := capIdx t.concatenation e1) (by omega)
    (by rw [hn1]; omega) hx1
  obtain ⟨a2, l2, m2, w2⟩ := ht.window hr2 hu2 (i := capIdx t.concatenation e2) (by omega)
    (by rw [hn2]; omega) hx2
  have hs := segStart_mono us e1 e2 u1 hlt hu1
  have hend := segStart_add_le us e2 u2 hu2
  rw [← ht.cover] at hend
  exact ⟨u1, u2, a1, a2, hu1, hu2, l1, m1, hs, l2, m2, hend, w1, w2⟩

/-- the weaker listed statement follows -/
example {orbit : Char → List Char} {σ : Sem} {t : Tok} {s : Str} {caps : Caps}
    (hh : HirHyp orbit σ (encodeTop t)) (hc : ∀ x ∈ t.concatenation, x.isCat = false)
    (he : ((encodeTop t).hirNorm orbit σ).exec σ s = some (some s :: caps)) {e1 e2 : Nat} (hlt : e1 < e2)
    {t1 t2 : Tok} (ht1 : t.concatenation[e1]? = some t1) (ht2 : t.concatenation[e2]? = some t2)
    (hc1 : t1.capturing = true) (hc2 : t2.capturing = true) {x1 x2 : Str}
    (hx1 : caps[capIdx t.concatenation e1]? = some (some x1))
    (hx2 : caps[capIdx t.concatenation e2]? = some (some x2)) :
    ∃ a1 a2, x1 = (s.drop a1).take x1.length ∧ x2 = (s.drop a2).take x2.length ∧
      a1 + x1.length ≤ a2 ∧ a2 + x2.length ≤ s.length := by
  obtain ⟨us, _, h⟩ := model_top_caps_positions hh hc he
  obtain ⟨u1, u2, a1, a2, _, _, l1, m1, hs, l2, m2, hend, w1, w2⟩ := h e1 e2 t1 t2 x1 x2 hlt ht1 ht2 hc1 hc2 hx1 hx2
  exact ⟨a1, a2, w1, w2, by omega, by omega⟩

/-- at work on `a/**/?[xb]*` / `a/x/y/bbc` (captures `x/y/`, `b`, `b`, `c`): the two `b` are told apart —
    the `?` (token 2) and the class (token 3) capture the same TEXT, at different POSITIONS -/
example : ∃ us, Tiling σcs (topRs (Tok.cat exSp exToks).concatenation) exPath exCaps us ∧
    ∃ u1 u2 a1 a2, us[2]? = some u1 ∧ us[3]? = some u2 ∧
      segStart us 2 ≤ a1 ∧ a1 + 1 ≤ segStart us 2 + u1.length ∧ segStart us 2 + u1.length ≤ segStart us 3 ∧
      segStart us 3 ≤ a2 ∧ ['b'] = (exPath.drop a1).take 1 ∧ ['b'] = (exPath.drop a2).take 1 := by
  obtain ⟨us, ht, h⟩ := model_top_caps_positions (t := .cat exSp exToks) (exModelHyp trivOrbit) exToks_noCat
    exModelExec
  obtain ⟨u1, u2, a1, a2, h1, h2, l1, m1, hs, l2, _, _, w1, w2⟩ :=
    h 2 3 (.one exSp) (.cls exSp false [.chr 'x', .chr 'b']) ['b'] ['b'] (by decide) rfl rfl rfl rfl rfl rfl
  exact ⟨us, ht, u1, u2, a1, a2, h1, h2, l1, m1, hs, l2, w1, w2⟩

end Wax

namespace Wax

/-! ### 3. `(?:a?)*` on the empty text: the infinite descending chain, and no least tree

`exOptStar1_least` is listed with the `says` line "without the no-re-entry discipline there is no
least tree ((?:a?)* on the empty word has an infinite descending chain of trees)".  The listed theorem
is the POSITIVE statement (`exOptStar1` is the least guard-respecting tree), and the library shows one
step of the chain (`exOptStar2` is preferred to `exOptStar1` and is not guard respecting).  Here is the
chain for every `k`, and the negative statement itself. -/

/-- the empty round of `a?`: its union state entered, the alternative `a` not taken -/
def optSkip : PT := .st [0, 1] (.inr .eps)

/-- `k + 1` empty rounds of the plus-loop of `(?:a?)*` -/
def plpK : Nat → PT
  | 0 => .seq optSkip (.st [2] (.inr .eps))
  | k + 1 => .seq optSkip (.st [2] (.inl (plpK k)))

/-- the parse tree of `(?:a?)*` with `k + 1` empty rounds -/
def exOptStarK (k : Nat) : PT := .st [0] (.inl (plpK k))

example : exOptStarK 0 = exOptStar1 ∧ exOptStarK 1 = exOptStar2 := ⟨rfl, rfl⟩

theorem plpK_mem (k : Nat) :
    PLP false ((Re.opt (.lit ['a'] false)).PT trivSem [1] 0) [2] (plpK k) := by
  induction k with
  | zero => exact PLP.last (lazy := false) exOptStar_skip
  | succ k ih => exact PLP.more (lazy := false) exOptStar_skip ih

/-- every `exOptStarK k` is a parse tree of the pattern … -/
theorem exOptStarK_mem (k : Nat) : exOptStar.PT trivSem [] 0 (exOptStarK k) := by
  simp only [exOptStar, Re.PT, StarP, exOptStar_nullable]
  exact ⟨_, rfl, Or.inl ⟨_, rfl, plpK_mem k⟩⟩

theorem plpK_word (k : Nat) : (plpK k).word = [] := by
  induction k with
  | zero => rfl
  | succ k ih => simp only [plpK, PT.word, ih, optSkip]; rfl

/-- … of the empty text … -/
theorem exOptStarK_word (k : Nat) : (exOptStarK k).word = [] := plpK_word k

theorem plpK_prefer (k : Nat) : Prefer (plpK (k + 1)) (plpK k) := by
  induction k with
  | zero => exact .seqR (.st .inlr)
  | succ k ih => exact .seqR (.st (.inl ih))

/-- … and one more empty round is always preferred: **an infinite descending chain** -/
theorem exOptStarK_prefer (k : Nat) : Prefer (exOptStarK (k + 1)) (exOptStarK k) :=
  .st (.inl (plpK_prefer k))

theorem exOptStar_chain : ∀ k, exOptStar.PT trivSem [] 0 (exOptStarK k) ∧ (exOptStarK k).word = [] ∧
    Prefer (exOptStarK (k + 1)) (exOptStarK k) :=
  fun k => ⟨exOptStarK_mem k, exOptStarK_word k, exOptStarK_prefer k⟩

/-- only the first of them is guard respecting -/
example : RunOK [] (exOptStarK 0).flat ∧ ¬ RunOK [] (exOptStarK 1).flat ∧ ¬ RunOK [] (exOptStarK 2).flat := by
  decide

theorem opt_empty {a : PT} (h : (Re.opt (.lit ['a'] false)).PT trivSem [1] 0 a) (hw : a.word = []) :
    a = optSkip := by
  simp only [Re.PT] at h
  obtain ⟨y, rfl, hy⟩ := h
  rcases hy with ⟨z, rfl, u, hu, rfl⟩ | ⟨z, rfl, rfl⟩
  · have hl := litEq_len trivSem false _ _ hu
    simp only [PT.word] at hw
    subst hw
    simp at hl
  · rfl

theorem plp_empty {l : PT} (h : PLP false ((Re.opt (.lit ['a'] false)).PT trivSem [1] 0) [2] l)
    (hw : l.word = []) : ∃ k, l = plpK k := by
  induction h with
  | last ha =>
    simp only [PT.word, List.append_eq_nil_iff] at hw
    rw [opt_empty ha hw.1]
    exact ⟨0, rfl⟩
  | more ha hl ih =>
    simp only [PT.word, List.append_eq_nil_iff] at hw
    have hw2 : _ := hw.2
    obtain ⟨k, rfl⟩ := ih (by simpa [moreT, PT.word] using hw2)
    rw [opt_empty ha hw.1]
    exact ⟨k + 1, rfl⟩

/-- ALL parse trees of `(?:a?)*` on the empty text: "leave at once", or `k + 1` empty rounds -/
theorem exOptStar_trees {t : PT} (h : exOptStar.PT trivSem [] 0 t) (hw : t.word = []) :
    t = .st [0] (.inr .eps) ∨ ∃ k, t = exOptStarK k := by
  simp only [exOptStar, Re.PT, StarP, exOptStar_nullable, SQP] at h
  obtain ⟨y, rfl, hy⟩ := h
  rcases hy with ⟨z, rfl, hz⟩ | ⟨z, rfl, rfl⟩
  · right
    obtain ⟨k, rfl⟩ := plp_empty hz (by simpa [PT.word] using hw)
    exact ⟨k, rfl⟩
  · left; rfl

/-- **why the guard matters — the negative statement**: among ALL parse trees of `(?:a?)*` on the empty
    text (guard ignored) there is no `Prefer`-minimal one, so "the least parse tree" does not exist;
    among the guard-respecting ones there is (`exOptStar1_least`) -/
theorem exOptStar_no_least :
    ¬ ∃ t, exOptStar.PT trivSem [] 0 t ∧ t.word = [] ∧
      ∀ t', exOptStar.PT trivSem [] 0 t' → t'.word = [] → ¬ Prefer t' t := by
  rintro ⟨t, hm, hw, hmin⟩
  rcases exOptStar_trees hm hw with rfl | ⟨k, rfl⟩
  · exact hmin _ (exOptStarK_mem 0) (exOptStarK_word 0) (.st .inlr)
  · exact hmin _ (exOptStarK_mem (k + 1)) (exOptStarK_word (k + 1)) (exOptStarK_prefer k)

end Wax

namespace Wax.Walk
open Wax

/-! ### 4. the clamped walk, both directions

`clamped_exact_depth` (listed: "a clamped walk yields exactly the entries at the minimum depth") proves
"every Ok item is at depth `mn`".  The other half — every entry at depth `mn` that the walk with
`max_depth = mn` yields is yielded — is the rewriting `clampMax_some`. -/

theorem clamped_walk_eq (mn m : Nat) (hm : m < mn) (v : Entry → Bool) (rv : RootView) :
    walkItems mn (clampMax mn (some m)) v rv = walkItems mn (some mn) v rv := by
  rw [clampMax_some, Nat.max_eq_left (by omega)]

/-- exactly: the Ok items of the clamped walk are the items of the unbounded walk (silenced below
    `min_depth`) at depth `mn` -/
theorem clamped_exact_depth_iff (mn m : Nat) (hm : m < mn) (v : Entry → Bool) (rv : RootView) (it : Item) :
    it ∈ okItems (walkItems mn (clampMax mn (some m)) v rv) ↔
      it ∈ okItems (walkItems 0 none (silenced mn v) rv) ∧ it.depth = mn := by
  rw [clamped_walk_eq mn m hm, walkItems_bounded_eq_filter, List.mem_filter]
  simp only [Item.within, Walk.within, over, Bool.and_eq_true, decide_eq_true_eq, Bool.not_eq_true',
    decide_eq_false_iff_not]
  constructor
  · rintro ⟨h1, h2, h3⟩; exact ⟨h1, by omega⟩
  · rintro ⟨h1, h2⟩; exact ⟨h1, by omega, by omega⟩

/-- `min_depth 2, max_depth 1` over `a/{b, c/{d}}`, `x`: `a/b` and `a/c`, and nothing else -/
example : (Item.ok ⟨[['a'], ['c']], .d⟩ ∈ okItems (walkItems 2 (clampMax 2 (some 1)) never
      (.dir [.dir ['a'] [.leaf ['b'] .f, .dir ['c'] [.leaf ['d'] .f]], .leaf ['x'] .f]))) :=
  (clamped_exact_depth_iff 2 1 (by decide) never _ _).mpr ⟨by decide, rfl⟩

end Wax.Walk

namespace Wax

/-! ### 5. spans of a grammar derivation (C17)

`parse_sound` is listed for C17 with "spans are those of the grammar derivation (each token spans
exactly the text that spells it, flags included)".  The grammar COMPUTES the span in `GTok.mk`
(`⟨p, ulen (fl ++ body)⟩`), so "spans exactly the text that spells it" holds by construction of `Gram`,
not by a theorem.  Stated as theorems about derivations: -/

theorem GBody.span_eq {t : Term} {a : Bool} {sp : Span} {q : Nat} {c : Bool} {body rest : Str}
    {tok : Tok} {c' : Bool} (h : GBody t a sp q c body rest tok c') : tok.span = sp := by
  match h with
  | .lit .. => rfl
  | .rep .. => rfl
  | .alt .. => rfl
  | .one .. => rfl
  | .tree .. => rfl
  | .zom .. => rfl
  | .zomLazy .. => rfl
  | .cls .. => rfl
  | .sep .. => rfl

/-- **a token spelled by `s` at byte offset `p` has the span `(p, byte length of s)`** -/
theorem GTok.span_eq {t : Term} {first : Bool} {p : Nat} {c : Bool} {s rest : Str} {tok : Tok}
    {c' : Bool} (h : GTok t first p c s rest tok c') : tok.span = ⟨p, ulen s⟩ := by
  match h with
  | .mk _ _ _ _ fl _ body _ _ _ _ hb => exact hb.span_eq

/-- the spans of a list of tokens are contiguous from offset `p` -/
def contiguousFrom : Nat → List Tok → Prop
  | _, [] => True
  | p, t :: ts => t.span.start = p ∧ contiguousFrom (p + t.span.len) ts

/-- **the tokens of a derivation tile the text**: contiguous spans from the offset of the
    (sub-)expression, whose lengths add up to the byte length of the text -/
theorem GToks.spans_tile {t : Term} {first : Bool} {p : Nat} {c : Bool} {s rest : Str} {ts : List Tok}
    {c' : Bool} (h : GToks t first p c s rest ts c') :
    contiguousFrom p ts ∧ (ts.map (fun x => x.span.len)).sum = ulen s := by
  match h with
  | .nil .. => exact ⟨trivial, rfl⟩
  | .cons _ _ _ _ s1 s2 _ tok _ toks _ h1 h2 =>
    have e := h1.span_eq
    obtain ⟨i1, i2⟩ := GToks.spans_tile h2
    refine ⟨⟨by rw [e], by rw [e]; exact i1⟩, ?_⟩
    simp only [List.map_cons, List.sum_cons, i2, e, ulen_append]

/-- for parsed expressions: the top-level tokens of `parse e` tile `e` -/
theorem parse_toks_tile {e : Str} {t : Tok} (h : parse e = .ok t) :
    contiguousFrom 0 (toksOf t) ∧ ((toksOf t).map (fun x => x.span.len)).sum = ulen e := by
  obtain ⟨f, hg⟩ := parse_sound' h
  exact GToks.spans_tile hg

/-- on `a/**/{b,(?i)c}<[!x-z]:1,2>*` (27 bytes): 1 + 4 + 9 + 12 + 1 -/
example : ((toksOf (.cat ⟨0, 27⟩
      [.lit ⟨0, 1⟩ ['a'] false, .tree ⟨1, 4⟩ true,
       .alt ⟨5, 9⟩ [.cat ⟨6, 1⟩ [.lit ⟨6, 1⟩ ['b'] false], .cat ⟨8, 5⟩ [.lit ⟨8, 5⟩ ['c'] true]],
       .rep ⟨14, 12⟩ (.cat ⟨15, 6⟩ [.cls ⟨15, 6⟩ true [.rng 'x' 'z']]) 1 (some 2),
       .zom ⟨26, 1⟩ false])).map (fun x => x.span.len)).sum = ulen "a/**/{b,(?i)c}<[!x-z]:1,2>*".toList :=
  (parse_toks_tile (e := "a/**/{b,(?i)c}<[!x-z]:1,2>*".toList) (by rfl)).2

/-! ### 6. documented facts that can be READ OFF `Gram` (and not off `Wax/Parse.lean` without running it)

README, Repetitions: "`<a:>` and `<a:1,>` are equivalent … `<a>` and `<a:0,>` are equivalent …
A singular bound is convergent, so `:3` matches exactly three times".  In `Bounds` these are five
constructors with the defaults written in them; in `parseBounds` they are the outcome of two
nested fall-backs. -/

theorem bounds_doc_bare_colon : Bounds ":".toList 1 none ∧ Bounds ":1,".toList 1 none :=
  ⟨.open_, .atLeast ['1'] 1 ⟨by simp, by decide, rfl, by decide⟩⟩

theorem bounds_doc_no_colon : Bounds [] 0 none ∧ Bounds ":0,".toList 0 none :=
  ⟨.none, .atLeast ['0'] 0 ⟨by simp, by decide, rfl, by decide⟩⟩

theorem bounds_doc_singular : Bounds ":3".toList 3 (some 3) ∧ Bounds ":3,3".toList 3 (some 3) :=
  ⟨.exact ['3'] 3 ⟨by simp, by decide, rfl, by decide⟩,
   .range ['3'] ['3'] 3 3 ⟨by simp, by decide, rfl, by decide⟩ ⟨by simp, by decide, rfl, by decide⟩⟩

/-- README, Flags: "may appear anywhere within a glob expression so long as they do not split tree
    wildcards".  `TreePre.rooted` and `TreePost.slash` carry `Flags`: inline flags BETWEEN the `/` and
    the `**` of a tree wildcard (and between `**` and its trailing `/`) are accepted, belong to the span
    of the tree wildcard, and take effect on what follows — here the literal `b` becomes
    case-insensitive.  (The real crate agrees: `Glob::new("a/(?i)**/b")` builds, harness `B`.)  What IS
    rejected is a flag group between two `*` (`a/*(?i)*`, `ZomOk`) and trailing flags (`a(?i)`). -/
example : parse "a/(?i)**/b".toList = .ok (.cat ⟨0, 10⟩
    [.lit ⟨0, 1⟩ ['a'] false, .tree ⟨1, 8⟩ true, .lit ⟨9, 1⟩ ['b'] true]) := by rfl
example : parse "a/(?i)**(?-i)/b".toList = .ok (.cat ⟨0, 15⟩
    [.lit ⟨0, 1⟩ ['a'] false, .tree ⟨1, 13⟩ true, .lit ⟨14, 1⟩ ['b'] false]) := by rfl
example : (¬ ∃ ts f, Gram false "a/*(?i)*".toList ts f) ∧ (¬ ∃ ts f, Gram false "a(?i)".toList ts f) :=
  ⟨(parse_err_iff _).mp ⟨[2], by rfl⟩, (parse_err_iff _).mp ⟨[1], by rfl⟩⟩

/-- and the bounds text determines the bounds: the grammar of bounds is functional -/
theorem bounds_nil_inv {lo : Nat} {hi : Option Nat} (h : Bounds [] lo hi) : lo = 0 ∧ hi = none := by
  cases h with
  | none => exact ⟨rfl, rfl⟩

end Wax

namespace Wax

/-! ### 7. `*` / `$` that are NOT the first token: behind a literal

`zom_greedy_longest` / `zom_lazy_shortest` are listed with "a top-level `*` captures the LONGEST
separator-free prefix after which the rest of the pattern still matches", but are stated for a
pattern whose FIRST element is the wildcard.  The README's sentence — "When followed by a literal,
`*` stops at the last occurrence of that literal while `$` stops at the first" — is mostly about
patterns like `a*b` / `lib*.rs`.  With `least_second` the same argument gives the wildcard in second
position behind a literal. -/

theorem zom_after_lit_least {σ : Sem} {lazy : Bool} {p : Str} {ci : Bool} {rest : List Re} {s : Str}
    {caps : Caps}
    (h : (Re.cat (.lit p ci :: .cap (if lazy then .lazyStar (.chr .nsep) else .star (.chr .nsep)) :: rest)).exec
      σ s = some (some s :: caps)) :
    ∃ p' u y, s = p' ++ (u ++ y) ∧ litEq σ ci p p' = true ∧ caps[0]? = some (some u) ∧ SepFree u ∧
      MatchesAll σ rest y ∧
      ∀ u' y', s = p' ++ (u' ++ y') → SepFree u' → MatchesAll σ rest y' →
        u = u' ∨ Prefer (zomTree lazy [0, 0, 1] u) (zomTree lazy [0, 0, 1] u') := by
  obtain ⟨t, ht, rfl⟩ := exec_least h
  obtain ⟨p', a, b, rfl, hp', ha, hb, hs, hmin⟩ := least_second ht
  obtain ⟨u, hu, rfl⟩ := zom_pt_iff.mp ha
  have hn : (Re.cap (if lazy then Re.lazyStar (.chr .nsep) else Re.star (.chr .nsep))).ncaps = 1 := by
    cases lazy <;> rfl
  refine ⟨p', u, b.word, ?_, hp', ?_, hu, ptCat_matches hb, ?_⟩
  · simpa only [PT.word, zomTree_word] using hs
  · simp only [PT.caps, zomTree_caps, zomTree_word]
    rw [ptCat_frame hb _ (by omega)]
    exact getElem?_set_self_lt (by
      simp only [Re.initCaps, Re.ncaps, Re.ncapsList, hn, List.length_replicate]; omega)
  · intro u' y' hs' hu' hy'
    have hc := hmin (.cap 0 (zomTree lazy [0, 0, 1] u')) y' (zom_pt_iff.mpr ⟨u', hu', rfl⟩)
      (zomTree_ok lazy _ u' [] (by simp)) (by simpa only [PT.word, zomTree_word] using hs') hy'
    rcases hc with e | hp
    · left
      have := congrArg PT.word e
      simpa only [PT.word, zomTree_word] using this
    · right
      cases hp with
      | cap hp => exact hp

/-- **greedy, behind a literal** (`lit ([^/]*) rest…`): the capture is the longest separator-free
    text after the literal after which the rest of the pattern matches -/
theorem zom_after_lit_greedy_longest {σ : Sem} {p : Str} {ci : Bool} {rest : List Re} {s : Str} {caps : Caps}
    (h : (Re.cat (.lit p ci :: .cap (.star (.chr .nsep)) :: rest)).exec σ s = some (some s :: caps)) :
    ∃ p' u y, s = p' ++ (u ++ y) ∧ litEq σ ci p p' = true ∧ caps[0]? = some (some u) ∧ SepFree u ∧
      MatchesAll σ rest y ∧
      ∀ u' y', s = p' ++ (u' ++ y') → SepFree u' → MatchesAll σ rest y' → u'.length ≤ u.length := by
  obtain ⟨p', u, y, hs, hp, hc, hu, hy, hmin⟩ := zom_after_lit_least (lazy := false) h
  refine ⟨p', u, y, hs, hp, hc, hu, hy, ?_⟩
  intro u' y' hs' hu' hy'
  apply Nat.le_of_not_lt
  intro hl
  obtain ⟨b, x, rfl⟩ := split_longer (List.append_cancel_left (hs.symm.trans hs')) hl
  rcases hmin _ y' hs' hu' hy' with e | hp
  · have := congrArg List.length e
    simp at this
  · exact hp.asymm (zomTree_prefer_greedy _ u b x)

/-- **lazy, behind a literal** (`lit ([^/]*?) rest…`): the shortest -/
theorem zom_after_lit_lazy_shortest {σ : Sem} {p : Str} {ci : Bool} {rest : List Re} {s : Str} {caps : Caps}
    (h : (Re.cat (.lit p ci :: .cap (.lazyStar (.chr .nsep)) :: rest)).exec σ s = some (some s :: caps)) :
    ∃ p' u y, s = p' ++ (u ++ y) ∧ litEq σ ci p p' = true ∧ caps[0]? = some (some u) ∧ SepFree u ∧
      MatchesAll σ rest y ∧
      ∀ u' y', s = p' ++ (u' ++ y') → SepFree u' → MatchesAll σ rest y' → u.length ≤ u'.length := by
  obtain ⟨p', u, y, hs, hp, hc, hu, hy, hmin⟩ := zom_after_lit_least (lazy := true) h
  refine ⟨p', u, y, hs, hp, hc, hu, hy, ?_⟩
  intro u' y' hs' hu' hy'
  apply Nat.le_of_not_lt
  intro hl
  obtain ⟨b, x, rfl⟩ := split_longer (List.append_cancel_left (hs'.symm.trans hs)) hl
  rcases hmin _ y' hs' hu' hy' with e | hp
  · have := congrArg List.length e
    simp at this
  · exact hp.asymm (zomTree_prefer_lazy _ u' b x)

/-- `a*b` is `(?-i:a)([^/]*)(?-i:b)` -/
example (sp : Span) : encodeTop (.cat sp [.lit sp ['a'] false, .zom sp false, .lit sp ['b'] false]) =
    .cat [.lit ['a'] false, .cap (.star (.chr .nsep)), .lit ['b'] false] := by
  simp [encodeTop, encodeList, encodeTok, G]

/-- `a*b` on `axbyb`: the `*` stops at the LAST `b` (captures `xby`) -/
theorem exAfterLitGreedy : (Re.cat [.lit ['a'] false, .cap (.star (.chr .nsep)), .lit ['b'] false]).exec trivSem
    ['a', 'x', 'b', 'y', 'b'] = some (some ['a', 'x', 'b', 'y', 'b'] :: [some ['x', 'b', 'y']]) := by decide

example : ∃ p' u y, ['a', 'x', 'b', 'y', 'b'] = p' ++ (u ++ y) ∧ litEq trivSem false ['a'] p' = true ∧
    [some ['x', 'b', 'y']][0]? = some (some u) ∧ SepFree u ∧ MatchesAll trivSem [.lit ['b'] false] y ∧
    ∀ u' y', ['a', 'x', 'b', 'y', 'b'] = p' ++ (u' ++ y') → SepFree u' →
      MatchesAll trivSem [.lit ['b'] false] y' → u'.length ≤ u.length :=
  zom_after_lit_greedy_longest exAfterLitGreedy

/-- `a$b*` on `axbyb`: the `$` stops at the FIRST `b` (captures `x`) -/
theorem exAfterLitLazy : (Re.cat [.lit ['a'] false, .cap (.lazyStar (.chr .nsep)), .lit ['b'] false,
      .cap (.star (.chr .nsep))]).exec trivSem ['a', 'x', 'b', 'y', 'b'] =
    some (some ['a', 'x', 'b', 'y', 'b'] :: [some ['x'], some ['y', 'b']]) := by decide

example := zom_after_lit_lazy_shortest exAfterLitLazy

end Wax
