import Wax.Walk
import Wax.Proofs.GlobWalk
import Wax.Proofs.WalkMachine
/-!
C02: the *executable* verdict of the `GlobWalker` closure (`zipArms` / `globVerdict` of
`Wax/Walk.lean`, validated against the crate) against the abstract pruning verdicts of
`Wax/Proofs/GlobWalk.lean`.

1. `zipArms_eq`, `zipArms_tree_iff(_index)`: the loop in closed form.  The closure answers
   `filter_tree` iff some candidate name *from position `depth - 1` on* is rejected by the program
   at its position — at `Last | Only` as well as at `First | Middle`.  This is **not** the
   hand-written `crateVerdict` ("some name before the last one is rejected"):
   `crateVerdict_not_executable`, `crateVerdict_reads_more`.
2. `relVerdict` is the closure on name lists; `globVerdict_eq_relVerdict` ties it to `globVerdict`
   on path strings given what `split_at_depth` returns (`entryFaithful`, decidable per entry).
   Along chains of entries none of which was discarded (the only entries a walk visits) the
   verdict *is* `hasBad` (`relVerdict_chain`, `relVerdict_on_chain_iff`), so the traversals agree
   item by item (`relVerdict_visit_eq_hasBad`) and `prune_exact` / `globWalk_exact_partial` apply:
   `relVerdict_walk_exact`, `globVerdict_walk_exact`, `globVerdict_walk_exact_partial`.
3. `relVerdict_keep_iff` (as coded), `relVerdict_yield_iff`, `globVerdict_yield_iff`: the yield.
   `relVerdict_nil`: the root of the walk is the exception (see `root_not_yielded` in
   `Wax/Proofs/GlobPrograms.lean`).
4. `ProgramsSound`: what the theorems need of the programs; it follows from `ProgsOk` and from
   `ProgsOkL` (one more program, for a last component that ends the glob or precedes a tree
   wildcard — what `WalkProgram::compile` really produces for `a/*.txt` or `a/b*/**`).
5. `glob_walk_filtrates_exact(_pivot)`: the walkdir machine driven by the closure hands the
   consumer exactly the matching entries of the whole tree (no depth bounds, no combinators).
-/
set_option linter.unusedSimpArgs false

namespace Wax.Walk
open Wax Wax.Path Wax.WalkTree

/-! ### 1. the arms of the loop -/

/-- the component programs as Boolean functions on names -/
def progFns (σ : Sem) (ps : List Re) : List (Str → Bool) := ps.map (fun p => p.matchB σ)

theorem progFns_drop (σ : Sem) (ps : List Re) (k : Nat) :
    (progFns σ ps).drop k = progFns σ (ps.drop k) := by
  simp [progFns, List.map_drop]

theorem progFns_length (σ : Sem) (ps : List Re) : (progFns σ ps).length = ps.length := by
  simp [progFns]

/-- the loop in closed form: a tree as soon as a candidate is rejected by the program at its
    position (whatever the position: `First | Middle` *and* `Last | Only`); otherwise node residue
    when programs are left over (`Right`); otherwise the complete program decides -/
theorem zipArms_eq (σ : Sem) (complete : Verdict) : ∀ (cs : List Str) (ps : List Re),
    zipArms σ complete cs ps =
      if hasBad (progFns σ ps) cs then .tree
      else if cs.length < ps.length then .file else complete
  | [], [] => by simp [zipArms, hasBad, progFns]
  | _ :: _, [] => by simp [zipArms, hasBad, progFns]
  | [], _ :: _ => by simp [zipArms, hasBad, progFns]
  | [c], [p] => by
    by_cases h : p.matchB σ c = true <;> simp [zipArms, hasBad, progFns, h]
  | c :: c2 :: cs, [p] => by
    have ih := zipArms_eq σ complete (c2 :: cs) []
    by_cases h : p.matchB σ c = true
    · simp [zipArms, hasBad, progFns, h]
    · simp [zipArms, hasBad, progFns, h]
  | [c], p :: p2 :: ps => by
    by_cases h : p.matchB σ c = true
    · simp [zipArms, hasBad, progFns, h]
    · simp [zipArms, hasBad, progFns, h]
  | c :: c2 :: cs, p :: p2 :: ps => by
    have ih := zipArms_eq σ complete (c2 :: cs) (p2 :: ps)
    by_cases h : p.matchB σ c = true
    · simp only [zipArms, h, ↓reduceIte, ih]
      simp [hasBad, progFns, h]
    · simp [zipArms, hasBad, progFns, h]

/-- `hasBad` reads the name list from the left: a bad position among the first `k`, or one from
    position `k` on -/
theorem hasBad_split : ∀ (k : Nat) (gs : List (Str → Bool)) (q : List Str),
    hasBad gs q = (hasBad gs (q.take k) || hasBad (gs.drop k) (q.drop k))
  | 0, gs, q => by cases gs <;> cases q <;> simp [hasBad]
  | k + 1, [], q => by cases q <;> simp [hasBad]
  | k + 1, g :: gs, [] => by cases h : gs.drop k <;> simp [hasBad]
  | k + 1, g :: gs, n :: ns => by
    simp only [List.take_succ_cons, List.drop_succ_cons, hasBad, hasBad_split k gs ns, Bool.or_assoc]

/-- `hasBad` as a statement about positions -/
theorem hasBad_iff_index : ∀ (gs : List (Str → Bool)) (q : List Str),
    hasBad gs q = true ↔ ∃ i, ∃ (h : i < q.length) (h' : i < gs.length), gs[i] q[i] = false
  | [], q => by cases q <;> simp [hasBad]
  | g :: gs, [] => by simp [hasBad]
  | g :: gs, n :: ns => by
    simp only [hasBad, Bool.or_eq_true, Bool.not_eq_true', hasBad_iff_index gs ns]
    constructor
    · rintro (h | ⟨i, h1, h2, h3⟩)
      · exact ⟨0, by simp, by simp, by simpa using h⟩
      · exact ⟨i + 1, by simpa using h1, by simpa using h2, by simpa using h3⟩
    · rintro ⟨i, h1, h2, h3⟩
      cases i with
      | zero => exact Or.inl (by simpa using h3)
      | succ i =>
        exact Or.inr ⟨i, by simpa using h1, by simpa using h2, by simpa using h3⟩

/-- **the TREE-discard outcome, exactly**: with the `depth - 1` skip applied to both sides as in
    the code, the closure answers `filter_tree` iff some candidate name *from position `depth - 1`
    on* is rejected by the component program at its position.  The position in the loop does not
    matter: `First | Middle` and `Last | Only` both discard the tree on a mismatch (a mismatch at
    `Last | Only` is **not** `filter_node`). -/
theorem zipArms_tree_iff (σ : Sem) (complete : Verdict) (hc : complete ≠ .tree)
    (names : List Str) (gs : List Re) (depth : Nat) :
    zipArms σ complete (names.drop (depth - 1)) (gs.drop (depth - 1)) = .tree ↔
      hasBad ((progFns σ gs).drop (depth - 1)) (names.drop (depth - 1)) = true := by
  rw [zipArms_eq, progFns_drop]
  by_cases hb : hasBad (progFns σ (gs.drop (depth - 1))) (names.drop (depth - 1)) = true
  · simp [hb]
  · simp only [hb, Bool.false_eq_true, ↓reduceIte, iff_false]
    split
    · simp
    · exact hc

theorem progFns_drop_getElem (σ : Sem) (gs : List Re) (k i : Nat)
    (h : i < ((progFns σ gs).drop k).length) :
    ((progFns σ gs).drop k)[i] =
      (gs[k + i]'(by simp only [List.length_drop, progFns_length] at h; omega)).matchB σ := by
  simp [progFns]

/-- the same, spelled out on positions -/
theorem zipArms_tree_iff_index (σ : Sem) (complete : Verdict) (hc : complete ≠ .tree)
    (names : List Str) (gs : List Re) (depth : Nat) :
    zipArms σ complete (names.drop (depth - 1)) (gs.drop (depth - 1)) = .tree ↔
      ∃ i, depth - 1 ≤ i ∧ ∃ (h : i < names.length) (h' : i < gs.length),
        gs[i].matchB σ names[i] = false := by
  rw [zipArms_tree_iff σ complete hc, hasBad_iff_index]
  constructor
  · rintro ⟨i, h1, h2, h3⟩
    simp only [List.length_drop, progFns_length] at h1 h2
    refine ⟨depth - 1 + i, by omega, by omega, by omega, ?_⟩
    rw [progFns_drop_getElem] at h3
    simpa [List.getElem_drop] using h3
  · rintro ⟨i, hi, h1, h2, h3⟩
    refine ⟨i - (depth - 1), by simp only [List.length_drop]; omega,
      by simp only [List.length_drop, progFns_length]; omega, ?_⟩
    have e : depth - 1 + (i - (depth - 1)) = i := by omega
    rw [progFns_drop_getElem]
    simpa [List.getElem_drop, e] using h3

/-- the other two outcomes: not a tree, then node residue while component programs are left over,
    and otherwise whatever the complete program says -/
theorem zipArms_of_not_bad (σ : Sem) (complete : Verdict) (cs : List Str) (ps : List Re)
    (h : hasBad (progFns σ ps) cs = false) :
    zipArms σ complete cs ps = if cs.length < ps.length then .file else complete := by
  rw [zipArms_eq, h]; simp

/-! ### the candidate names of a relative path -/

/-- a name as walkdir reports it: not empty, no separator, not `.` or `..` -/
def goodName (n : Str) : Bool := !n.isEmpty && !n.contains '/' && n != ['.'] && n != ['.', '.']

def goodNames (q : List Str) : Bool := q.all goodName

theorem goodName_sepFree {n : Str} (h : goodName n = true) : SepFree n := by
  simp only [goodName, Bool.and_eq_true] at h
  exact sepFree_of_not_contains h.1.1.2

theorem goodNames_pathOk {q : List Str} (h : goodNames q = true) : PathOk q := by
  intro n hn
  exact goodName_sepFree (List.all_eq_true.mp h n hn)

theorem goodNames_cons {n : Str} {q : List Str} :
    goodNames (n :: q) = true ↔ goodName n = true ∧ goodNames q = true := by
  simp [goodNames]

theorem goodNames_append {p q : List Str} :
    goodNames (p ++ q) = true ↔ goodNames p = true ∧ goodNames q = true := by
  simp [goodNames, List.all_append]

theorem splitSep_sepFree : ∀ {n : Str}, SepFree n → splitSep n = [n]
  | [], _ => rfl
  | c :: n, h => by
    obtain ⟨hc, hn⟩ := sepFree_cons.mp h
    have : (c == '/') = false := by simpa using hc
    simp [splitSep, this, splitSep_sepFree hn]

theorem splitSep_sepFree_append : ∀ {n : Str} (r : Str), SepFree n →
    splitSep (n ++ '/' :: r) = n :: splitSep r
  | [], r, _ => by simp [splitSep]
  | c :: n, r, h => by
    obtain ⟨hc, hn⟩ := sepFree_cons.mp h
    have : (c == '/') = false := by simpa using hc
    simp [splitSep, this, splitSep_sepFree_append r hn]

theorem splitSep_relOf : ∀ {q : List Str}, q ≠ [] → PathOk q → splitSep (relOf q) = q
  | [], h, _ => absurd rfl h
  | [n], _, hq => by
    simp only [relOf]
    exact splitSep_sepFree (hq n (by simp))
  | n :: n2 :: ns, _, hq => by
    have hn : SepFree n := hq n (by simp)
    simp only [relOf]
    rw [splitSep_sepFree_append _ hn,
      splitSep_relOf (by simp) (fun x hx => hq x (List.mem_cons_of_mem _ hx))]

theorem pieceComp_good {n : Str} (h : goodName n = true) (first : Bool) :
    pieceComp first n = some (.normal n) := by
  simp only [goodName, Bool.and_eq_true, Bool.not_eq_true', bne_iff_ne, ne_eq] at h
  obtain ⟨⟨⟨h1, _⟩, h3⟩, h4⟩ := h
  have e3 : (n == ['.']) = false := by simpa using h3
  have e4 : (n == ['.', '.']) = false := by simpa using h4
  simp [pieceComp, h1, e3, e4]

theorem normals_bodySpans_good : ∀ (q : List Str) (first : Bool) (k : Nat), goodNames q = true →
    normals ((bodySpans first (piecesFrom k q)).map (·.1)) = q
  | [], _, _, _ => rfl
  | n :: q, first, k, h => by
    obtain ⟨hn, hq⟩ := goodNames_cons.mp h
    simp only [piecesFrom, bodySpans, pieceComp_good hn, List.map_cons, normals,
      normals_bodySpans_good q false _ hq]

theorem isAbsolute_relOf_good {q : List Str} (h : goodNames q = true) :
    isAbsolute (relOf q) = false := by
  cases q with
  | nil => rfl
  | cons n q =>
    obtain ⟨hn, _⟩ := goodNames_cons.mp h
    have hs := goodName_sepFree hn
    cases n with
    | nil => simp [goodName] at hn
    | cons c cs =>
      have hc : c ≠ '/' := (sepFree_cons.mp hs).1
      cases q <;> simp [relOf, isAbsolute, hc]

/-- the `Normal` components of a relative path spelled from good names are those names -/
theorem normals_components_relOf {q : List Str} (h : goodNames q = true) :
    normals (components (relOf q)) = q := by
  cases q with
  | nil => decide
  | cons n q =>
    simp only [components, compSpans, isAbsolute_relOf_good h, Bool.not_false, Bool.false_eq_true,
      ↓reduceIte]
    rw [splitSep_relOf (by simp) (goodNames_pathOk h)]
    exact normals_bodySpans_good _ _ _ h

/-! ### the closure on name lists -/

/-- what the complete program makes of the relative path spelled by `q` -/
def completeVerdict (σ : Sem) (g : GlobProgram) (q : List Str) : Verdict :=
  if g.complete.matchB σ (relOf q) then .keep else .file

/-- the closure of `GlobWalker::walk_with_behavior` on the *names* of the root-relative path `q`
    of an entry: the `pivot` names of the invariant prefix, then the names below the root of the
    walk, so that the depth walkdir reports is `q.length - pivot` -/
def relVerdict (σ : Sem) (g : GlobProgram) (q : List Str) : Verdict :=
  let skip := (q.length - g.pivot) - 1
  zipArms σ (completeVerdict σ g q) (q.drop skip) (g.components.drop skip)

/-- **the executable closure is `relVerdict`** whenever `root_relative_paths` spells the names `q`:
    the hypothesis `hrel` is the path arithmetic of `split_at_depth` (C14), the rest is proved -/
theorem globVerdict_eq_relVerdict (σ : Sem) (g : GlobProgram) (path : Str) (depth : Nat)
    (q : List Str) (hlen : q.length = depth + g.pivot) (hq : goodNames q = true)
    (hrel : (splitAtDepth path (depth + g.pivot)).2 = relOf q) :
    globVerdict σ g path depth = (relVerdict σ g q, relOf q) := by
  have hd : q.length - g.pivot = depth := by omega
  simp only [globVerdict, relVerdict, completeVerdict, hrel, normals_components_relOf hq, hd]

theorem completeVerdict_ne_tree (σ : Sem) (g : GlobProgram) (q : List Str) :
    completeVerdict σ g q ≠ .tree := by
  unfold completeVerdict; split <;> simp

/-- the names-level closure in closed form -/
theorem relVerdict_eq (σ : Sem) (g : GlobProgram) (q : List Str) :
    relVerdict σ g q =
      if hasBad ((progFns σ g.components).drop (q.length - g.pivot - 1))
          (q.drop (q.length - g.pivot - 1)) then .tree
      else if q.length < g.components.length then .file
      else completeVerdict σ g q := by
  simp only [relVerdict, zipArms_eq, progFns_drop, List.length_drop]
  have : (q.length - (q.length - g.pivot - 1) < g.components.length - (q.length - g.pivot - 1))
      ↔ q.length < g.components.length := by omega
  simp only [this]

theorem relVerdict_tree_iff (σ : Sem) (g : GlobProgram) (q : List Str) :
    relVerdict σ g q = .tree ↔
      hasBad ((progFns σ g.components).drop (q.length - g.pivot - 1))
        (q.drop (q.length - g.pivot - 1)) = true := by
  rw [relVerdict_eq]
  split
  · simp [*]
  · have := completeVerdict_ne_tree σ g q
    split <;> simp [*]

/-! ### 2. along a chain of entries none of which was discarded -/

theorem hasBad_take_false (gs : List (Str → Bool)) (p : List Str) (k : Nat)
    (h : hasBad gs p = false) : hasBad gs (p.take k) = false := by
  cases hb : hasBad gs (p.take k) with
  | false => rfl
  | true =>
    have := hasBad_append gs (p.take k) (p.drop k) hb
    rw [List.take_append_drop] at this
    rw [this] at h; cases h

/-- the closure looks at the names from position `depth - 1` on only; the names before were looked
    at when the ancestors were visited.  So for an entry whose parent (with root-relative names
    `p`, at or below the root of the walk) has no rejected name, "discarded as a tree" is "some name
    is rejected by the program at its position" -/
theorem relVerdict_chain (σ : Sem) (g : GlobProgram) (p : List Str) (nm : Str)
    (hp : g.pivot ≤ p.length) (hC : hasBad (progFns σ g.components) p = false) :
    (relVerdict σ g (p ++ [nm]) == .tree) = hasBad (progFns σ g.components) (p ++ [nm]) := by
  have hk : (p ++ [nm]).length - g.pivot - 1 = p.length - g.pivot := by
    simp only [List.length_append, List.length_cons, List.length_nil]; omega
  have ht : (p ++ [nm]).take (p.length - g.pivot) = p.take (p.length - g.pivot) :=
    List.take_append_of_le_length (by omega)
  rw [hasBad_split (p.length - g.pivot) _ (p ++ [nm]), ht, hasBad_take_false _ _ _ hC,
    Bool.false_or]
  have := relVerdict_tree_iff σ g (p ++ [nm])
  rw [hk] at this
  cases hb : hasBad ((progFns σ g.components).drop (p.length - g.pivot))
      ((p ++ [nm]).drop (p.length - g.pivot)) with
  | true => simpa using this.mpr hb
  | false =>
    cases hv : relVerdict σ g (p ++ [nm]) == .tree with
    | false => rfl
    | true =>
      have := this.mp (by simpa using hv)
      rw [hb] at this; cases this

/-- along a chain below `pre` none of whose entries the closure discarded as a tree, no name is
    rejected by the program at its position -/
theorem chain_not_bad (σ : Sem) (g : GlobProgram) (pre : List Str) (hpiv : g.pivot ≤ pre.length)
    (hgood : hasBad (progFns σ g.components) pre = false) (q : List Str)
    (hchain : ∀ k, 0 < k → k ≤ q.length → relVerdict σ g (pre ++ q.take k) ≠ .tree) :
    ∀ k, k ≤ q.length → hasBad (progFns σ g.components) (pre ++ q.take k) = false
  | 0, _ => by simpa using hgood
  | k + 1, hk => by
    have ih := chain_not_bad σ g pre hpiv hgood q hchain k (by omega)
    have hlt : k < q.length := by omega
    have e : pre ++ q.take (k + 1) = (pre ++ q.take k) ++ [q[k]] := by
      rw [List.take_succ_eq_append_getElem hlt, List.append_assoc]
    have hc := relVerdict_chain σ g (pre ++ q.take k) q[k]
      (by simp only [List.length_append]; omega) ih
    have hne := hchain (k + 1) (by omega) hk
    rw [e] at hne ⊢
    rw [← hc]
    simpa using hne

/-- **hypotheses (a) and (b) for the executable verdict, along non-discarded chains**: for an entry
    with names `q ++ [nm]` below `pre` none of whose proper ancestors (below `pre`) was discarded
    as a tree — the only entries a walk visits — the closure answers `filter_tree` iff some name is
    rejected by the program at its position; and that condition stays true on every extension
    (`hasBad_append`) -/
theorem relVerdict_on_chain_iff (σ : Sem) (g : GlobProgram) (pre : List Str)
    (hpiv : g.pivot ≤ pre.length) (hgood : hasBad (progFns σ g.components) pre = false)
    (q : List Str) (nm : Str)
    (hchain : ∀ k, 0 < k → k ≤ q.length → relVerdict σ g (pre ++ q.take k) ≠ .tree) :
    relVerdict σ g (pre ++ (q ++ [nm])) = .tree ↔
      hasBad (progFns σ g.components) (pre ++ (q ++ [nm])) = true := by
  have hb := chain_not_bad σ g pre hpiv hgood q hchain q.length (Nat.le_refl _)
  rw [List.take_length] at hb
  have hc := relVerdict_chain σ g (pre ++ q) nm (by simp only [List.length_append]; omega) hb
  rw [← List.append_assoc, ← hc]
  simp

mutual
  /-- two verdicts on name lists that agree on every child of a directory the second does not
      discard (from depth `k` on) drive the same traversal -/
  theorem visit_chain (E C : List Str → Bool) (k : Nat)
      (hEC : ∀ p nm, k ≤ p.length → C p = false → E (p ++ [nm]) = C (p ++ [nm])) :
      ∀ (n : Node) (p : List Str), k ≤ p.length → C p = false →
        visit (fun e => E e.path) p n = visit (fun e => C e.path) p n
    | .file nm, p, _, _ => by simp [visit]
    | .errChild nm, p, _, _ => by simp [visit]
    | .errHere, p, _, _ => by simp [visit]
    | .dir nm cs, p, hk, hC => by
      simp only [visit, hEC p nm hk hC]
      by_cases hc : C (p ++ [nm]) = true
      · simp [hc]
      · simp only [hc, Bool.false_eq_true, ↓reduceIte]
        rw [visitList_chain E C k hEC cs (p ++ [nm]) (by simp; omega) (by simpa using hc)]
  theorem visitList_chain (E C : List Str → Bool) (k : Nat)
      (hEC : ∀ p nm, k ≤ p.length → C p = false → E (p ++ [nm]) = C (p ++ [nm])) :
      ∀ (ns : List Node) (p : List Str), k ≤ p.length → C p = false →
        visitList (fun e => E e.path) p ns = visitList (fun e => C e.path) p ns
    | [], _, _, _ => rfl
    | n :: ns, p, hk, hC => by
      simp only [visitList, visit_chain E C k hEC n p hk hC, visitList_chain E C k hEC ns p hk hC]
end

/-- **the traversal the executable closure drives is the traversal pruned by `hasBad`**: below a
    directory `pre` (the invariant prefix; `[]` when the pivot is 0) whose own names pass their
    programs, discarding by the closure and discarding by "some name is rejected by the program at
    its position" yield the same items, for every tree.  (Not so for `crateVerdict`, which spares
    the last name: see `crateVerdict_not_executable`.) -/
theorem relVerdict_visit_eq_hasBad (σ : Sem) (g : GlobProgram) (pre : List Str)
    (hpre : g.pivot ≤ pre.length) (hgood : hasBad (progFns σ g.components) pre = false) (n : Node) :
    visit (fun e => relVerdict σ g e.path == .tree) pre n =
      visit (fun e => hasBad (progFns σ g.components) e.path) pre n :=
  visit_chain (fun q => relVerdict σ g q == .tree) (hasBad (progFns σ g.components)) g.pivot
    (fun p nm hp hC => relVerdict_chain σ g p nm hp hC) n pre hpre hgood

/-- hypotheses (a) and (b) of `globWalk_exact_partial` in the form the traversal needs: along a
    chain of entries whose parent was not discarded, the executable verdict (a) fires only if some
    name is rejected by the program at its position, and (b) is the verdict that stays fired on
    every extension (`hasBad_append`) -/
theorem relVerdict_admissible_on_chains (σ : Sem) (g : GlobProgram) :
    (∀ p nm, g.pivot ≤ p.length → hasBad (progFns σ g.components) p = false →
      ((relVerdict σ g (p ++ [nm]) == .tree) = true ↔
        hasBad (progFns σ g.components) (p ++ [nm]) = true)) ∧
    (∀ p q, hasBad (progFns σ g.components) p = true →
      hasBad (progFns σ g.components) (p ++ q) = true) :=
  ⟨fun p nm hp hC => by rw [relVerdict_chain σ g p nm hp hC], fun p q h => hasBad_append _ p q h⟩

/-- what the walk needs of its programs: the component programs reject no name of a path that
    the complete program matches, and such a path has a name for every component program -/
structure ProgramsSound (σ : Sem) (g : GlobProgram) : Prop where
  notBad : ∀ p, PathOk p → g.complete.matchB σ (relOf p) = true →
    hasBad (progFns σ g.components) p = false
  long : ∀ p, p ≠ [] → PathOk p → g.complete.matchB σ (relOf p) = true →
    g.components.length ≤ p.length

/-- **C02 for the executable closure (names level), any pivot**: for sound programs
    (`ProgramsSound`: from `ProgsOk`, from `ProgsOkL`, or compiled from a glob as in
    `Wax/Proofs/GlobPrograms.lean`), in a walk driven by the executable closure the entries that
    the complete program matches are exactly those of the unpruned walk.  `pre` are the names of the
    invariant prefix (the directory the walk starts in, relative to the base): they have to pass
    their own component programs. -/
theorem relVerdict_walk_exact (σ : Sem) (g : GlobProgram) (hs : ProgramsSound σ g)
    (pre : List Str) (hpiv : g.pivot ≤ pre.length) (hpre : PathOk pre)
    (hgood : hasBad (progFns σ g.components) pre = false)
    (n : Node) (hn : NamesOk n) :
    okKept (fun w => !g.complete.matchB σ w)
        (visit (fun e => relVerdict σ g e.path == .tree) pre n) =
      okKept (fun w => !g.complete.matchB σ w) (visit never pre n) := by
  rw [relVerdict_visit_eq_hasBad σ g pre hpiv hgood n]
  refine prune_exact (fun w => !g.complete.matchB σ w) (hasBad (progFns σ g.components)) ?_
    (fun p q h => hasBad_append _ p q h) n pre hpre hn
  intro p hp hbad
  cases hMp : g.complete.matchB σ (relOf p) with
  | false => rfl
  | true =>
    have := hs.notBad p hp hMp
    rw [this] at hbad; cases hbad

/-! ### 3. the File-discard arm and the yield -/

/-- a path matched by a glob that starts with the components of `gs`, each followed by a
    separator, has at least as many names as there are component programs -/
theorem matched_length (σ : Sem) (hσ : SepIsolated σ) (rest : List Tok) :
    ∀ (gs : List (Str → Bool)) (comps : List (List Tok × Span)) (f l : Bool) (p : List Str),
      ProgsOk σ f comps gs → PathOk p → SMs σ ⟨f, l⟩ (joinSep comps rest) (relOf p) →
      gs.length ≤ p.length
  | [], _, _, _, _, _, _, _ => Nat.zero_le _
  | g :: gs, [], _, _, _, hok, _, _ => by simp [ProgsOk] at hok
  | g :: gs, (c, sp) :: cs, f, l, [], hok, _, hm => by
    simp only [joinSep] at hm
    simp only [ProgsOk] at hok
    obtain ⟨u, v, hw, _, _, _⟩ := first_component σ hσ ⟨f, l⟩ c (joinSep cs rest) sp hok.1.1 _ hm
    simp [relOf] at hw
  | g :: gs, (c, sp) :: cs, f, l, [n], hok, hp, hm => by
    simp only [joinSep] at hm
    simp only [ProgsOk] at hok
    obtain ⟨u, v, hw, _, _, _⟩ := first_component σ hσ ⟨f, l⟩ c (joinSep cs rest) sp hok.1.1 _ hm
    have hn : SepFree n := hp n (by simp)
    simp only [relOf] at hw
    have : '/' ∈ n := by rw [hw]; simp
    exact absurd rfl (hn _ this)
  | g :: gs, (c, sp) :: cs, f, l, n :: n2 :: ns, hok, hp, hm => by
    simp only [joinSep] at hm
    simp only [ProgsOk] at hok
    obtain ⟨u, v, hw, hu, _, hmv⟩ :=
      first_component σ hσ ⟨f, l⟩ c (joinSep cs rest) sp hok.1.1 _ hm
    have hn : SepFree n := hp n (by simp)
    have hrel : relOf (n :: n2 :: ns) = n ++ '/' :: relOf (n2 :: ns) := by simp [relOf]
    rw [hrel] at hw
    obtain ⟨rfl, rfl⟩ := split_unique hu hn hw.symm
    have ih := matched_length σ hσ rest gs cs false l (n2 :: ns) hok.2
      (fun x hx => hp x (List.mem_cons_of_mem _ hx)) hmv
    simp only [List.length_cons] at ih ⊢
    omega

/-- the hypotheses of `globWalk_exact_partial` make the programs sound -/
theorem programsSound_of_progsOk (σ : Sem) (hσ : SepIsolated σ)
    (comps : List (List Tok × Span)) (rest : List Tok) (g : GlobProgram)
    (hok : ProgsOk σ true comps (progFns σ g.components))
    (hM : ∀ w, g.complete.matchB σ w = true ↔ SMs σ ⟨true, true⟩ (joinSep comps rest) w) :
    ProgramsSound σ g where
  notBad p hp hm :=
    matched_not_bad σ hσ rest (progFns σ g.components) comps true true p hok hp ((hM _).mp hm)
  long p _ hp hm := by
    have := matched_length σ hσ rest (progFns σ g.components) comps true true p hok hp
      ((hM _).mp hm)
    rwa [progFns_length] at this

/-! #### the last component program

`ProgsOk` (of `Wax/Proofs/GlobWalk.lean`) covers the components that are followed by a separator.
`WalkProgram::compile` also compiles the *last* boundary-free component, the one that ends the glob
(`a/*.txt`) or is followed by a tree wildcard (`a/b*/**`), and that is the usual case. -/

/-- what may follow the last component: nothing, or a tree wildcard -/
def TailOk (tail : List Tok) : Prop := tail = [] ∨ ∃ sp r more, tail = .tree sp r :: more

/-- the rest of the glob is a boundary-free component, then nothing or a tree wildcard, and the
    program accepts what the component matches -/
def LastOk (σ : Sem) (f : Bool) (rest : List Tok) (g : Str → Bool) : Prop :=
  ∃ cl tail, rest = cl ++ tail ∧ cl ≠ [] ∧ noBoundaryL cl = true ∧ TailOk tail ∧
    ∀ l n, SMs σ ⟨f, l⟩ cl n → g n = true

/-- `ProgsOk` with one more program allowed, for the component that begins `rest` -/
def ProgsOkL (σ : Sem) : Bool → List (List Tok × Span) → List Tok → List (Str → Bool) → Prop
  | _, _, _, [] => True
  | f, (c, _) :: cs, rest, g :: gs =>
    (noBoundaryL c = true ∧ ∀ n, SMs σ ⟨f, false⟩ c n → g n = true) ∧ ProgsOkL σ false cs rest gs
  | f, [], rest, [g] => LastOk σ f rest g
  | _, [], _, _ :: _ :: _ => False

theorem progsOkL_of_progsOk (σ : Sem) (rest : List Tok) :
    ∀ (gs : List (Str → Bool)) (comps : List (List Tok × Span)) (f : Bool),
      ProgsOk σ f comps gs → ProgsOkL σ f comps rest gs
  | [], _, _, _ => by simp [ProgsOkL]
  | g :: gs, [], _, h => by simp [ProgsOk] at h
  | g :: gs, (c, sp) :: cs, f, h => by
    simp only [ProgsOk] at h
    simp only [ProgsOkL]
    exact ⟨h.1, progsOkL_of_progsOk σ rest gs cs false h.2⟩

/-- what a tree wildcard that is not first (or nothing at all) matches is empty or begins with a
    separator -/
theorem tail_head (σ : Sem) {l : Bool} {tail : List Tok} {v : Str} (ht : TailOk tail)
    (h : SMs σ ⟨false, l⟩ tail v) : v = [] ∨ ∃ v', v = '/' :: v' := by
  rcases ht with rfl | ⟨sp, r, more, rfl⟩
  · exact Or.inl (sms_nil.mp h)
  · obtain ⟨a, b, rfl, ha, hb⟩ := sms_cons.mp h
    cases ha with
    | tree ht =>
      simp only [TreeLang, Bool.false_eq_true, ↓reduceIte, Bool.not_false, Bool.or_true] at ht
      split at ht
      · rename_i hl
        rcases ht with rfl | ⟨r', rfl⟩
        · simp only [Bool.and_eq_true, List.isEmpty_iff] at hl
          obtain ⟨_, rfl⟩ := hl
          rw [sms_nil.mp hb]; exact Or.inl rfl
        · exact Or.inr ⟨r' ++ b, by simp⟩
      · obtain ⟨r', _, rfl⟩ := ht
        exact Or.inr ⟨r' ++ b, by simp⟩

/-- peel the last component off a match -/
theorem last_component (σ : Sem) (hσ : SepIsolated σ) (f l : Bool) (cl tail : List Tok)
    (hne : cl ≠ []) (hnb : noBoundaryL cl = true) (ht : TailOk tail) (w : Str)
    (h : SMs σ ⟨f, l⟩ (cl ++ tail) w) :
    ∃ u v, w = u ++ v ∧ SepFree u ∧ SMs σ ⟨f, l && tail.isEmpty⟩ cl u ∧
      (v = [] ∨ ∃ v', v = '/' :: v') := by
  obtain ⟨u, v, rfl, hu, hv⟩ := (sms_append cl tail ⟨f, l⟩ _).mp h
  have he : cl.isEmpty = false := by cases cl <;> simp_all
  simp only [he, Bool.and_false] at hv
  exact ⟨u, v, rfl, sms_sepFree σ hσ hu hnb, hu, tail_head σ ht hv⟩

/-- the name the last program is applied to: the single name of the path, or the one before the
    first separator -/
theorem last_name (σ : Sem) (hσ : SepIsolated σ) (f l : Bool) (rest : List Tok) (g : Str → Bool)
    (hok : LastOk σ f rest g) (n : Str) (ns : List Str) (hp : PathOk (n :: ns))
    (hm : SMs σ ⟨f, l⟩ rest (relOf (n :: ns))) : g n = true := by
  obtain ⟨cl, tail, rfl, hne, hnb, ht, hg⟩ := hok
  obtain ⟨u, v, hw, hu, hmu, hv⟩ := last_component σ hσ f l cl tail hne hnb ht _ hm
  have hn : SepFree n := hp n (by simp)
  cases ns with
  | nil =>
    simp only [relOf] at hw
    rcases hv with rfl | ⟨v', rfl⟩
    · simp only [List.append_nil] at hw
      subst hw; exact hg _ _ hmu
    · have : '/' ∈ n := by rw [hw]; simp
      exact absurd rfl (hn _ this)
  | cons n2 ns =>
    have hrel : relOf (n :: n2 :: ns) = n ++ '/' :: relOf (n2 :: ns) := by simp [relOf]
    rw [hrel] at hw
    rcases hv with rfl | ⟨v', rfl⟩
    · simp only [List.append_nil] at hw
      have : '/' ∈ u := by rw [← hw]; simp
      exact absurd rfl (hu _ this)
    · obtain ⟨rfl, _⟩ := split_unique hu hn hw.symm
      exact hg _ _ hmu

/-- a path the glob matches has no rejected name, the last component program included -/
theorem matched_not_bad_L (σ : Sem) (hσ : SepIsolated σ) (rest : List Tok) :
    ∀ (gs : List (Str → Bool)) (comps : List (List Tok × Span)) (f l : Bool) (p : List Str),
      ProgsOkL σ f comps rest gs → PathOk p → SMs σ ⟨f, l⟩ (joinSep comps rest) (relOf p) →
      hasBad gs p = false
  | [], _, _, _, p, _, _, _ => by cases p <;> simp [hasBad]
  | [g], [], f, l, [], _, _, _ => by simp [hasBad]
  | [g], [], f, l, n :: ns, hok, hp, hm => by
    simp only [ProgsOkL] at hok
    simp only [joinSep] at hm
    have := last_name σ hσ f l rest g hok n ns hp hm
    cases ns <;> simp [hasBad, this]
  | g :: g2 :: gs, [], _, _, _, hok, _, _ => by simp [ProgsOkL] at hok
  | g :: gs, (c, sp) :: cs, f, l, [], _, _, _ => by simp [hasBad]
  | g :: gs, (c, sp) :: cs, f, l, [n], hok, hp, hm => by
    simp only [joinSep] at hm
    simp only [ProgsOkL] at hok
    obtain ⟨u, v, hw, _, _, _⟩ := first_component σ hσ ⟨f, l⟩ c (joinSep cs rest) sp hok.1.1 _ hm
    have hn : SepFree n := hp n (by simp)
    simp only [relOf] at hw
    have : '/' ∈ n := by rw [hw]; simp
    exact absurd rfl (hn _ this)
  | g :: gs, (c, sp) :: cs, f, l, n :: n2 :: ns, hok, hp, hm => by
    simp only [joinSep] at hm
    simp only [ProgsOkL] at hok
    obtain ⟨u, v, hw, hu, hmu, hmv⟩ :=
      first_component σ hσ ⟨f, l⟩ c (joinSep cs rest) sp hok.1.1 _ hm
    have hn : SepFree n := hp n (by simp)
    have hrel : relOf (n :: n2 :: ns) = n ++ '/' :: relOf (n2 :: ns) := by simp [relOf]
    rw [hrel] at hw
    obtain ⟨rfl, rfl⟩ := split_unique hu hn hw.symm
    have hg : g u = true := hok.1.2 u hmu
    have ih := matched_not_bad_L σ hσ rest gs cs false l (n2 :: ns) hok.2
      (fun x hx => hp x (List.mem_cons_of_mem _ hx)) hmv
    simp [hasBad, hg, ih]

/-- ... and, unless it is the empty path, at least as many names as there are programs -/
theorem matched_length_L (σ : Sem) (hσ : SepIsolated σ) (rest : List Tok) :
    ∀ (gs : List (Str → Bool)) (comps : List (List Tok × Span)) (f l : Bool) (p : List Str),
      ProgsOkL σ f comps rest gs → p ≠ [] → PathOk p →
      SMs σ ⟨f, l⟩ (joinSep comps rest) (relOf p) → gs.length ≤ p.length
  | [], _, _, _, _, _, _, _, _ => Nat.zero_le _
  | [g], [], f, l, [], _, hne, _, _ => absurd rfl hne
  | [g], [], f, l, n :: ns, _, _, _, _ => by simp
  | g :: g2 :: gs, [], _, _, _, hok, _, _, _ => by simp [ProgsOkL] at hok
  | g :: gs, (c, sp) :: cs, f, l, [], _, hne, _, _ => absurd rfl hne
  | g :: gs, (c, sp) :: cs, f, l, [n], hok, _, hp, hm => by
    simp only [joinSep] at hm
    simp only [ProgsOkL] at hok
    obtain ⟨u, v, hw, _, _, _⟩ := first_component σ hσ ⟨f, l⟩ c (joinSep cs rest) sp hok.1.1 _ hm
    have hn : SepFree n := hp n (by simp)
    simp only [relOf] at hw
    have : '/' ∈ n := by rw [hw]; simp
    exact absurd rfl (hn _ this)
  | g :: gs, (c, sp) :: cs, f, l, n :: n2 :: ns, hok, _, hp, hm => by
    simp only [joinSep] at hm
    simp only [ProgsOkL] at hok
    obtain ⟨u, v, hw, hu, _, hmv⟩ :=
      first_component σ hσ ⟨f, l⟩ c (joinSep cs rest) sp hok.1.1 _ hm
    have hn : SepFree n := hp n (by simp)
    have hrel : relOf (n :: n2 :: ns) = n ++ '/' :: relOf (n2 :: ns) := by simp [relOf]
    rw [hrel] at hw
    obtain ⟨rfl, rfl⟩ := split_unique hu hn hw.symm
    have ih := matched_length_L σ hσ rest gs cs false l (n2 :: ns) hok.2 (by simp)
      (fun x hx => hp x (List.mem_cons_of_mem _ hx)) hmv
    simp only [List.length_cons] at ih ⊢
    omega

/-- the programs of a glob `c₁/c₂/…/cₖ/rest` are sound, whether or not the component that begins
    `rest` has a program too -/
theorem programsSound_of_progsOkL (σ : Sem) (hσ : SepIsolated σ)
    (comps : List (List Tok × Span)) (rest : List Tok) (g : GlobProgram)
    (hok : ProgsOkL σ true comps rest (progFns σ g.components))
    (hM : ∀ w, g.complete.matchB σ w = true ↔ SMs σ ⟨true, true⟩ (joinSep comps rest) w) :
    ProgramsSound σ g where
  notBad p hp hm :=
    matched_not_bad_L σ hσ rest (progFns σ g.components) comps true true p hok hp ((hM _).mp hm)
  long p hne hp hm := by
    have := matched_length_L σ hσ rest (progFns σ g.components) comps true true p hok hne hp
      ((hM _).mp hm)
    rwa [progFns_length] at this

/-- **the yield, exactly as coded**: the entry is kept iff no name from position `depth - 1` on is
    rejected, no component program is left over (`Right`), and the complete program matches -/
theorem relVerdict_keep_iff (σ : Sem) (g : GlobProgram) (q : List Str) :
    relVerdict σ g q = .keep ↔
      hasBad ((progFns σ g.components).drop (q.length - g.pivot - 1))
        (q.drop (q.length - g.pivot - 1)) = false ∧
      g.components.length ≤ q.length ∧ g.complete.matchB σ (relOf q) = true := by
  rw [relVerdict_eq]
  by_cases hb : hasBad ((progFns σ g.components).drop (q.length - g.pivot - 1))
      (q.drop (q.length - g.pivot - 1)) = true
  · simp [hb]
  · by_cases hl : q.length < g.components.length
    · simp [hb, hl]; omega
    · by_cases hm : g.complete.matchB σ (relOf q) = true
      · simp [hb, hl, hm, completeVerdict]; omega
      · simp [hb, hl, hm, completeVerdict]

/-- node residue is everything else that is not a tree: programs left over, or no match -/
theorem relVerdict_file_iff (σ : Sem) (g : GlobProgram) (q : List Str) :
    relVerdict σ g q = .file ↔
      relVerdict σ g q ≠ .tree ∧
      (q.length < g.components.length ∨ g.complete.matchB σ (relOf q) = false) := by
  have hk := relVerdict_keep_iff σ g q
  have ht := relVerdict_tree_iff σ g q
  cases hv : relVerdict σ g q with
  | tree => simp
  | keep =>
    rw [hv] at hk
    have := hk.mp rfl
    simp only [reduceCtorEq, ne_eq, not_false_eq_true, true_and, false_iff, not_or, Nat.not_lt,
      Bool.not_eq_false]
    exact ⟨this.2.1, this.2.2⟩
  | file =>
    rw [hv] at hk ht
    simp only [reduceCtorEq, ne_eq, not_false_eq_true, true_and, true_iff]
    have hb : hasBad ((progFns σ g.components).drop (q.length - g.pivot - 1))
        (q.drop (q.length - g.pivot - 1)) = false := by
      cases h : hasBad ((progFns σ g.components).drop (q.length - g.pivot - 1))
        (q.drop (q.length - g.pivot - 1)) with
      | false => rfl
      | true => exact absurd (ht.mpr h) (by simp)
    by_cases hl : q.length < g.components.length
    · exact Or.inl hl
    · right
      cases hm : g.complete.matchB σ (relOf q) with
      | false => rfl
      | true => exact absurd (hk.mpr ⟨hb, by omega, hm⟩) (by simp)

/-- **`globVerdict_yield_iff` (names level)**: when the programs are those of a glob that starts
    with boundary-free components (the hypotheses of `globWalk_exact_partial`), the closure keeps
    an entry iff the complete program matches its relative path — so a matching entry is never
    discarded, neither as a tree nor as a node, and an entry that is not discarded as a tree is
    node residue exactly when the complete program does not match -/
theorem relVerdict_yield_iff (σ : Sem) (g : GlobProgram) (hs : ProgramsSound σ g)
    (q : List Str) (hne : q ≠ []) (hq : PathOk q) :
    (relVerdict σ g q = .keep ↔ g.complete.matchB σ (relOf q) = true) ∧
    (relVerdict σ g q = .file ↔
      relVerdict σ g q ≠ .tree ∧ g.complete.matchB σ (relOf q) = false) := by
  have hkeep : relVerdict σ g q = .keep ↔ g.complete.matchB σ (relOf q) = true := by
    rw [relVerdict_keep_iff]
    constructor
    · exact fun h => h.2.2
    · intro hm
      have hnb := hs.notBad q hq hm
      have hlen := hs.long q hne hq hm
      rw [hasBad_split (q.length - g.pivot - 1)] at hnb
      simp only [Bool.or_eq_false_iff] at hnb
      exact ⟨hnb.2, hlen, hm⟩
  refine ⟨hkeep, ?_⟩
  cases hv : relVerdict σ g q with
  | tree => simp
  | keep => simp [hkeep.mp hv]
  | file =>
    simp only [reduceCtorEq, ne_eq, not_false_eq_true, true_and, true_iff]
    cases hm : g.complete.matchB σ (relOf q) with
    | false => rfl
    | true => rw [hkeep.mpr hm] at hv; cases hv

/-- the root of a walk without invariant prefix (no names at all): the loop sees no candidate, so
    the entry is node residue as soon as there is a component program (`Right`) — *whether or not*
    the complete program matches the empty path (it does for `*`, see `root_not_yielded`) -/
theorem relVerdict_nil (σ : Sem) (g : GlobProgram) :
    relVerdict σ g [] = if g.components = [] then completeVerdict σ g [] else .file := by
  cases hc : g.components with
  | nil => simp [relVerdict, zipArms, hc]
  | cons c cs => simp [relVerdict, zipArms, hc]

/-! ### the closure on path strings -/

/-- the path arithmetic the closure relies on, for one entry with the names `names` below the root
    of a walk with pivot 0: the names are as walkdir reports them and `root_relative_paths` of the
    entry's path spells them (decidable; `Wax/Proofs/PathLemmas.lean` is about when it holds) -/
def entryFaithful (root : Str) (names : List Str) : Bool :=
  goodNames names && ((splitAtDepth (joinAll root names) names.length).2 == relOf names)

/-- the same with an invariant prefix: `pre` are the names of the prefix, `pre.length` the pivot -/
def entryFaithfulP (root : Str) (pre names : List Str) : Bool :=
  goodNames (pre ++ names) &&
    ((splitAtDepth (joinAll root names) (names.length + pre.length)).2 == relOf (pre ++ names))

theorem globVerdict_of_faithfulP (σ : Sem) (g : GlobProgram) (root : Str) (pre names : List Str)
    (hpiv : g.pivot = pre.length) (h : entryFaithfulP root pre names = true) :
    globVerdict σ g (joinAll root names) names.length =
      (relVerdict σ g (pre ++ names), relOf (pre ++ names)) := by
  simp only [entryFaithfulP, Bool.and_eq_true, beq_iff_eq] at h
  refine globVerdict_eq_relVerdict σ g _ _ _ (by simp [hpiv]; omega) h.1 ?_
  rw [hpiv]; exact h.2

theorem globVerdict_of_faithful (σ : Sem) (g : GlobProgram) (root : Str) (names : List Str)
    (hpiv : g.pivot = 0) (h : entryFaithful root names = true) :
    globVerdict σ g (joinAll root names) names.length = (relVerdict σ g names, relOf names) := by
  have : entryFaithfulP root [] names = true := by simpa [entryFaithfulP, entryFaithful] using h
  simpa using globVerdict_of_faithfulP σ g root [] names (by simpa using hpiv) this

/-- **`globVerdict_yield_iff`**: for the programs of a glob that starts with boundary-free
    components, the executable closure keeps (yields) an entry iff the complete program matches
    the entry's root-relative path, and makes it node residue iff it neither discards it as a tree
    nor matches.  In particular an entry that is not tree-discarded is yielded iff the complete
    program matches.  (Any pivot; `pre` are the names of the invariant prefix.) -/
theorem globVerdict_yield_iff (σ : Sem) (g : GlobProgram) (hs : ProgramsSound σ g)
    (root : Str) (pre names : List Str) (hpiv : g.pivot = pre.length)
    (hne : pre ++ names ≠ []) (hf : entryFaithfulP root pre names = true) :
    let r := globVerdict σ g (joinAll root names) names.length
    (r.1 = .keep ↔ g.complete.matchB σ r.2 = true) ∧
    (r.1 = .file ↔ r.1 ≠ .tree ∧ g.complete.matchB σ r.2 = false) := by
  intro r
  have hr : r = (relVerdict σ g (pre ++ names), relOf (pre ++ names)) :=
    globVerdict_of_faithfulP σ g root pre names hpiv hf
  have hq : PathOk (pre ++ names) := by
    simp only [entryFaithfulP, Bool.and_eq_true] at hf
    exact goodNames_pathOk hf.1
  rw [hr]
  exact relVerdict_yield_iff σ g hs (pre ++ names) hne hq

/-- the yield as coded, without any assumption on the programs: kept iff no name from position
    `depth - 1` on is rejected, no component program is left over, and the complete program
    matches -/
theorem globVerdict_keep_iff_coded (σ : Sem) (g : GlobProgram) (root : Str) (pre names : List Str)
    (hpiv : g.pivot = pre.length) (hf : entryFaithfulP root pre names = true) :
    (globVerdict σ g (joinAll root names) names.length).1 = .keep ↔
      hasBad ((progFns σ g.components).drop (names.length - 1))
        ((pre ++ names).drop (names.length - 1)) = false ∧
      g.components.length ≤ pre.length + names.length ∧
      g.complete.matchB σ (relOf (pre ++ names)) = true := by
  rw [globVerdict_of_faithfulP σ g root pre names hpiv hf, relVerdict_keep_iff]
  have : (pre ++ names).length - g.pivot - 1 = names.length - 1 := by
    simp [hpiv]
  rw [this]; simp

/-- ... and discarded as a tree iff some name from position `depth - 1` on is rejected -/
theorem globVerdict_tree_iff (σ : Sem) (g : GlobProgram) (root : Str) (pre names : List Str)
    (hpiv : g.pivot = pre.length) (hf : entryFaithfulP root pre names = true) :
    (globVerdict σ g (joinAll root names) names.length).1 = .tree ↔
      hasBad ((progFns σ g.components).drop (names.length - 1))
        ((pre ++ names).drop (names.length - 1)) = true := by
  rw [globVerdict_of_faithfulP σ g root pre names hpiv hf, relVerdict_tree_iff]
  have : (pre ++ names).length - g.pivot - 1 = names.length - 1 := by
    simp [hpiv]
  rw [this]

/-! ### trees all of whose paths have a property -/

mutual
  def allPathsB (P : List Str → Bool) (p : List Str) : Node → Bool
    | .file nm => P (p ++ [nm])
    | .dir nm cs => P (p ++ [nm]) && allPathsLB P (p ++ [nm]) cs
    | .errChild _ => true
    | .errHere => true
  def allPathsLB (P : List Str → Bool) (p : List Str) : List Node → Bool
    | [] => true
    | n :: ns => allPathsB P p n && allPathsLB P p ns
end

mutual
  theorem allPathsB_mono (P Q : List Str → Bool) (h : ∀ q, P q = true → Q q = true) :
      ∀ (n : Node) (p : List Str), allPathsB P p n = true → allPathsB Q p n = true
    | .file nm, p, hp => by simp only [allPathsB] at hp ⊢; exact h _ hp
    | .errChild _, _, _ => rfl
    | .errHere, _, _ => rfl
    | .dir nm cs, p, hp => by
      simp only [allPathsB, Bool.and_eq_true] at hp ⊢
      exact ⟨h _ hp.1, allPathsLB_mono P Q h cs _ hp.2⟩
  theorem allPathsLB_mono (P Q : List Str → Bool) (h : ∀ q, P q = true → Q q = true) :
      ∀ (ns : List Node) (p : List Str), allPathsLB P p ns = true → allPathsLB Q p ns = true
    | [], _, _ => rfl
    | n :: ns, p, hp => by
      simp only [allPathsLB, Bool.and_eq_true] at hp ⊢
      exact ⟨allPathsB_mono P Q h n p hp.1, allPathsLB_mono P Q h ns p hp.2⟩
end

mutual
  /-- every path in a tree has a last name -/
  theorem allPathsB_ne_nil (P : List Str → Bool) :
      ∀ (n : Node) (p : List Str), allPathsB P p n = true →
        allPathsB (fun q => P q && !q.isEmpty) p n = true
    | .file nm, p, hp => by simp only [allPathsB] at hp ⊢; simp [hp]
    | .errChild _, _, _ => rfl
    | .errHere, _, _ => rfl
    | .dir nm cs, p, hp => by
      simp only [allPathsB, Bool.and_eq_true] at hp ⊢
      exact ⟨⟨hp.1, by simp⟩, allPathsLB_ne_nil P cs _ hp.2⟩
  theorem allPathsLB_ne_nil (P : List Str → Bool) :
      ∀ (ns : List Node) (p : List Str), allPathsLB P p ns = true →
        allPathsLB (fun q => P q && !q.isEmpty) p ns = true
    | [], _, _ => rfl
    | n :: ns, p, hp => by
      simp only [allPathsLB, Bool.and_eq_true] at hp ⊢
      exact ⟨allPathsB_ne_nil P n p hp.1, allPathsLB_ne_nil P ns p hp.2⟩
end

mutual
  theorem visit_congr_paths (P : List Str → Bool) (v v' : WalkTree.Entry → Bool)
      (h : ∀ q, P q = true → v ⟨q, true⟩ = v' ⟨q, true⟩) :
      ∀ (n : Node) (p : List Str), allPathsB P p n = true → visit v p n = visit v' p n
    | .file nm, p, _ => by simp [visit]
    | .errChild nm, p, _ => by simp [visit]
    | .errHere, p, _ => by simp [visit]
    | .dir nm cs, p, hp => by
      simp only [allPathsB, Bool.and_eq_true] at hp
      simp only [visit, h _ hp.1, visitList_congr_paths P v v' h cs _ hp.2]
  theorem visitList_congr_paths (P : List Str → Bool) (v v' : WalkTree.Entry → Bool)
      (h : ∀ q, P q = true → v ⟨q, true⟩ = v' ⟨q, true⟩) :
      ∀ (ns : List Node) (p : List Str), allPathsLB P p ns = true →
        visitList v p ns = visitList v' p ns
    | [], _, _ => rfl
    | n :: ns, p, hp => by
      simp only [allPathsLB, Bool.and_eq_true] at hp
      simp only [visitList, visit_congr_paths P v v' h n p hp.1,
        visitList_congr_paths P v v' h ns p hp.2]
end

mutual
  theorem namesOk_of_allPaths (P : List Str → Bool) (h : ∀ q, P q = true → PathOk q) :
      ∀ (n : Node) (p : List Str), allPathsB P p n = true → NamesOk n
    | .file nm, p, hp => by
      simp only [allPathsB] at hp
      simp only [NamesOk]
      exact (pathOk_append.mp (h _ hp)).2 nm (by simp)
    | .errChild _, _, _ => trivial
    | .errHere, _, _ => trivial
    | .dir nm cs, p, hp => by
      simp only [allPathsB, Bool.and_eq_true] at hp
      simp only [NamesOk]
      exact ⟨(pathOk_append.mp (h _ hp.1)).2 nm (by simp), namesOkL_of_allPaths P h cs _ hp.2⟩
  theorem namesOkL_of_allPaths (P : List Str → Bool) (h : ∀ q, P q = true → PathOk q) :
      ∀ (ns : List Node) (p : List Str), allPathsLB P p ns = true → NamesOkL ns
    | [], _, _ => trivial
    | n :: ns, p, hp => by
      simp only [allPathsLB, Bool.and_eq_true] at hp
      simp only [NamesOkL]
      exact ⟨namesOk_of_allPaths P h n p hp.1, namesOkL_of_allPaths P h ns p hp.2⟩
end

theorem entryFaithful_pathOk (root : Str) (q : List Str) (h : entryFaithful root q = true) :
    PathOk q := by
  simp only [entryFaithful, Bool.and_eq_true] at h
  exact goodNames_pathOk h.1

/-- **C02 for the executable closure on path strings (pivot 0)**: `globWalk_exact_partial` applies
    to the executable model.  For sound programs (`ProgramsSound`), the walk that
    is cancelled exactly where `globVerdict` — applied to the path `joinAll root names` and the
    depth `names.length` that walkdir reports — answers `filter_tree` yields exactly the matching
    entries of the unpruned walk, over every tree whose entries have faithful paths. -/
theorem globVerdict_walk_exact (σ : Sem) (g : GlobProgram) (hs : ProgramsSound σ g)
    (hpiv : g.pivot = 0)
    (root : Str) (n : Node) (hroot : allPathsB (entryFaithful root) [] n = true) :
    okKept (fun w => !g.complete.matchB σ w)
        (visit (fun e => (globVerdict σ g (joinAll root e.path) e.path.length).1 == .tree) [] n) =
      okKept (fun w => !g.complete.matchB σ w) (visit never [] n) := by
  have hn : NamesOk n := namesOk_of_allPaths _ (entryFaithful_pathOk root) n [] hroot
  rw [visit_congr_paths (entryFaithful root)
    (fun e => (globVerdict σ g (joinAll root e.path) e.path.length).1 == .tree)
    (fun e => relVerdict σ g e.path == .tree)
    (fun q hq => by simp only [globVerdict_of_faithful σ g root q hpiv hq]) n [] hroot]
  exact relVerdict_walk_exact σ g hs [] (by omega)
    (by intro x hx; cases hx) (by cases h : progFns σ g.components <;> rfl) n hn

/-- the list forms (the children of the root of a walk) -/
theorem relVerdict_walkList_exact (σ : Sem) (g : GlobProgram) (hs : ProgramsSound σ g)
    (pre : List Str) (hpiv : g.pivot ≤ pre.length) (hpre : PathOk pre)
    (hgood : hasBad (progFns σ g.components) pre = false)
    (ns : List Node) (hn : NamesOkL ns) :
    okKept (fun w => !g.complete.matchB σ w)
        (visitList (fun e => relVerdict σ g e.path == .tree) pre ns) =
      okKept (fun w => !g.complete.matchB σ w) (visitList never pre ns) := by
  rw [visitList_chain (fun q => relVerdict σ g q == .tree) (hasBad (progFns σ g.components)) g.pivot
    (fun p nm hp hC => relVerdict_chain σ g p nm hp hC) ns pre hpiv hgood]
  refine prune_exactL (fun w => !g.complete.matchB σ w) (hasBad (progFns σ g.components)) ?_
    (fun p q h => hasBad_append _ p q h) ns pre hpre hn
  intro p hp hbad
  cases hMp : g.complete.matchB σ (relOf p) with
  | false => rfl
  | true =>
    have := hs.notBad p hp hMp
    rw [this] at hbad; cases hbad

theorem globVerdict_walkList_exact (σ : Sem) (g : GlobProgram) (hs : ProgramsSound σ g)
    (hpiv : g.pivot = 0)
    (root : Str) (ns : List Node) (hroot : allPathsLB (entryFaithful root) [] ns = true) :
    okKept (fun w => !g.complete.matchB σ w)
        (visitList (fun e => (globVerdict σ g (joinAll root e.path) e.path.length).1 == .tree)
          [] ns) =
      okKept (fun w => !g.complete.matchB σ w) (visitList never [] ns) := by
  have hn : NamesOkL ns := namesOkL_of_allPaths _ (entryFaithful_pathOk root) ns [] hroot
  rw [visitList_congr_paths (entryFaithful root)
    (fun e => (globVerdict σ g (joinAll root e.path) e.path.length).1 == .tree)
    (fun e => relVerdict σ g e.path == .tree)
    (fun q hq => by simp only [globVerdict_of_faithful σ g root q hpiv hq]) ns [] hroot]
  exact relVerdict_walkList_exact σ g hs [] (by omega)
    (by intro x hx; cases hx) (by cases h : progFns σ g.components <;> rfl) ns hn

/-! ### the whole pipeline: walkdir machine + `GlobWalker` closure -/

/-- `Glob::walk` without further combinators -/
def globPipeline (σ : Sem) (root : Str) (g : GlobProgram) : Pipeline := ⟨σ, root, some g, []⟩

theorem globPipeline_decide (σ : Sem) (root : Str) (g : GlobProgram) (e : Entry) :
    (globPipeline σ root g).decide e =
      match (globVerdict σ g (joinAll root e.names) e.names.length).1 with
      | .keep => (.filtrate, 0)
      | .file => (.node, 0)
      | .tree => (.tree, 1) := by
  simp only [Pipeline.decide, Pipeline.stack, globPipeline, List.map_nil, List.append_nil, feedDep,
    Pipeline.path, Entry.depth]
  cases (globVerdict σ g (joinAll root e.names) e.names.length).1 <;> rfl

theorem globPipeline_cancels (σ : Sem) (root : Str) (g : GlobProgram) (e : Entry) :
    (globPipeline σ root g).cancels e =
      ((globVerdict σ g (joinAll root e.names) e.names.length).1 == .tree) := by
  simp only [Pipeline.cancels, globPipeline_decide]
  cases (globVerdict σ g (joinAll root e.names) e.names.length).1 <;> rfl

theorem globPipeline_filtrate (σ : Sem) (root : Str) (g : GlobProgram) (e : Entry) :
    ((globPipeline σ root g).decide e).1 = .filtrate ↔
      (globVerdict σ g (joinAll root e.names) e.names.length).1 = .keep := by
  simp only [globPipeline_decide]
  cases (globVerdict σ g (joinAll root e.names) e.names.length).1 <;> simp

/-- the entries a consumer of the walk receives (the filtrate), as `WalkTree` entries -/
def filtrates (π : Pipeline) : List Item → List WalkTree.Entry
  | [] => []
  | .ok e :: rest => if (π.decide e).1 = .filtrate then e.toWT :: filtrates π rest else filtrates π rest
  | .err .. :: rest => filtrates π rest

mutual
  theorem visit_ok_paths (P : List Str → Bool) (v : WalkTree.Entry → Bool) :
      ∀ (n : Node) (p : List Str), allPathsB P p n = true →
        ∀ x, WalkTree.Item.ok x ∈ visit v p n → P x.path = true
    | .file nm, p, hp, x, hx => by
      simp only [allPathsB] at hp
      simp only [visit, List.mem_singleton, WalkTree.Item.ok.injEq] at hx
      subst hx; exact hp
    | .errChild nm, p, _, x, hx => by simp [visit] at hx
    | .errHere, p, _, x, hx => by simp [visit] at hx
    | .dir nm cs, p, hp, x, hx => by
      simp only [allPathsB, Bool.and_eq_true] at hp
      simp only [visit, List.mem_cons, WalkTree.Item.ok.injEq] at hx
      rcases hx with hx | hx
      · subst hx; exact hp.1
      · split at hx
        · cases hx
        · exact visitList_ok_paths P v cs _ hp.2 x hx
  theorem visitList_ok_paths (P : List Str → Bool) (v : WalkTree.Entry → Bool) :
      ∀ (ns : List Node) (p : List Str), allPathsLB P p ns = true →
        ∀ x, WalkTree.Item.ok x ∈ visitList v p ns → P x.path = true
    | [], _, _, x, hx => by simp [visitList] at hx
    | n :: ns, p, hp, x, hx => by
      simp only [allPathsLB, Bool.and_eq_true] at hp
      simp only [visitList, List.mem_append] at hx
      rcases hx with hx | hx
      · exact visit_ok_paths P v n p hp.1 x hx
      · exact visitList_ok_paths P v ns p hp.2 x hx
end

/-- the filtrate of a list of items whose entries are kept iff `P` rejects their relative path -/
theorem filtrates_eq_okKept (π : Pipeline) (P : Str → Bool) : ∀ (items : List Item),
    (∀ e, Item.ok e ∈ items → ((π.decide e).1 = .filtrate ↔ P (relOf e.names) = false)) →
    filtrates π items = okKept P (items.map Item.toWT)
  | [], _ => rfl
  | .err p a :: rest, h => by
    simp only [filtrates, List.map_cons, Item.toWT, okKept]
    exact filtrates_eq_okKept π P rest (fun e he => h e (List.mem_cons_of_mem _ he))
  | .ok e :: rest, h => by
    have ih := filtrates_eq_okKept π P rest (fun e he => h e (List.mem_cons_of_mem _ he))
    have he := h e (by simp)
    simp only [filtrates, List.map_cons, Item.toWT, okKept, Entry.toWT, ih]
    by_cases hf : (π.decide e).1 = .filtrate
    · simp [hf, he.mp hf]
    · have : P (relOf e.names) = true := by
        cases hp : P (relOf e.names) with
        | true => rfl
        | false => exact absurd (he.mpr hp) hf
      simp [hf, this]

/-- **C02 end to end on the executable model (pivot 0, no depth bounds, no further combinators)**:
    the walkdir machine driven by the `GlobWalker` closure hands the consumer, below the root of
    the walk, exactly the entries of the *whole* tree that the complete program matches, in the
    order of the unpruned traversal -/
theorem glob_walk_filtrates_exact (σ : Sem) (g : GlobProgram) (hs : ProgramsSound σ g)
    (hpiv : g.pivot = 0)
    (root : Str) (cs : List WNode)
    (hroot : allPathsLB (entryFaithful root) [] (toWTList cs) = true) :
    filtrates (globPipeline σ root g)
        (run 0 none (globPipeline σ root g).cancels (stackSize [⟨[], cs⟩]) [⟨[], cs⟩]) =
      okKept (fun w => !g.complete.matchB σ w) (visitList never [] (toWTList cs)) := by
  have href := items_refine (globPipeline σ root g) cs
  have hv : (globPipeline σ root g).verdictWT =
      fun e => (globVerdict σ g (joinAll root e.path) e.path.length).1 == .tree := by
    funext x
    simp only [Pipeline.verdictWT, globPipeline_cancels]
  rw [hv] at href
  rw [filtrates_eq_okKept _ (fun w => !g.complete.matchB σ w), href]
  · exact globVerdict_walkList_exact σ g hs hpiv root _ hroot
  · intro e he
    have hmem : WalkTree.Item.ok e.toWT ∈
        (run 0 none (globPipeline σ root g).cancels (stackSize [⟨[], cs⟩]) [⟨[], cs⟩]).map
          Item.toWT := List.mem_map.mpr ⟨_, he, rfl⟩
    rw [href] at hmem
    have hfn := visitList_ok_paths (fun q => entryFaithful root q && !q.isEmpty) _ _ []
      (allPathsLB_ne_nil _ _ [] hroot) e.toWT hmem
    simp only [Entry.toWT, Bool.and_eq_true, Bool.not_eq_true', List.isEmpty_eq_false_iff] at hfn
    obtain ⟨hf, hne⟩ := hfn
    have hf' : entryFaithfulP root [] e.names = true := by
      simpa [entryFaithfulP, entryFaithful] using hf
    have hy := (globVerdict_yield_iff σ g hs root [] e.names
      (by simpa using hpiv) (by simpa using hne) hf').1
    rw [globPipeline_filtrate, hy, globVerdict_of_faithful σ g root e.names hpiv hf]
    simp

/-! ### the whole pipeline with an invariant prefix (pivot > 0)

The walk starts in `base/prefix`; walkdir reports names below that directory, the closure and the
consumer see paths relative to `base`: the names `pre` of the prefix, then the names walkdir
reports.  So the traversal of the machine, with every path prefixed by `pre`, is compared with the
structural traversal started *at* `pre`. -/

/-- `okKept` with a predicate on name lists -/
def okKeptN (K : List Str → Bool) : List WalkTree.Item → List WalkTree.Entry
  | [] => []
  | .ok e :: rest => if K e.path then okKeptN K rest else e :: okKeptN K rest
  | .err _ :: rest => okKeptN K rest

theorem okKept_eq_okKeptN (P : Str → Bool) : ∀ (l : List WalkTree.Item),
    okKept P l = okKeptN (fun q => P (relOf q)) l
  | [] => rfl
  | .ok e :: rest => by simp only [okKept, okKeptN, okKept_eq_okKeptN P rest]
  | .err _ :: rest => by simp only [okKept, okKeptN, okKept_eq_okKeptN P rest]

def shiftE (pre : List Str) (e : WalkTree.Entry) : WalkTree.Entry := ⟨pre ++ e.path, e.isDir⟩

def shiftI (pre : List Str) : WalkTree.Item → WalkTree.Item
  | .ok e => .ok (shiftE pre e)
  | .err q => .err (pre ++ q)

theorem okKeptN_shift (K : List Str → Bool) (pre : List Str) : ∀ (l : List WalkTree.Item),
    okKeptN K (l.map (shiftI pre)) = (okKeptN (fun q => K (pre ++ q)) l).map (shiftE pre)
  | [] => rfl
  | .ok e :: rest => by
    simp only [List.map_cons, shiftI, okKeptN, shiftE, okKeptN_shift K pre rest]
    split <;> simp [shiftE]
  | .err _ :: rest => by simp only [List.map_cons, shiftI, okKeptN, okKeptN_shift K pre rest]

mutual
  /-- the traversal below `pre ++ p` is the traversal below `p` with `pre` put before every path -/
  theorem visit_shift (v : WalkTree.Entry → Bool) (pre : List Str) : ∀ (n : Node) (p : List Str),
      visit v (pre ++ p) n = (visit (fun e => v (shiftE pre e)) p n).map (shiftI pre)
    | .file nm, p => by simp [visit, shiftI, shiftE]
    | .errChild nm, p => by simp [visit, shiftI]
    | .errHere, p => by simp [visit, shiftI]
    | .dir nm cs, p => by
      have ih := visitList_shift v pre cs (p ++ [nm])
      by_cases hv : v ⟨pre ++ (p ++ [nm]), true⟩ = true
      · simp [visit, shiftI, shiftE, hv, List.append_assoc]
      · simp only [visit, shiftI, shiftE, hv, List.append_assoc, List.map_cons, Bool.false_eq_true,
          ↓reduceIte, ih]
  theorem visitList_shift (v : WalkTree.Entry → Bool) (pre : List Str) :
      ∀ (ns : List Node) (p : List Str),
        visitList v (pre ++ p) ns = (visitList (fun e => v (shiftE pre e)) p ns).map (shiftI pre)
    | [], _ => rfl
    | n :: ns, p => by
      simp only [visitList, List.map_append, visit_shift v pre n p, visitList_shift v pre ns p]
end

theorem filtrates_eq_okKeptN (π : Pipeline) (K : List Str → Bool) : ∀ (items : List Item),
    (∀ e, Item.ok e ∈ items → ((π.decide e).1 = .filtrate ↔ K e.names = false)) →
    filtrates π items = okKeptN K (items.map Item.toWT)
  | [], _ => rfl
  | .err p a :: rest, h => by
    simp only [filtrates, List.map_cons, Item.toWT, okKeptN]
    exact filtrates_eq_okKeptN π K rest (fun e he => h e (List.mem_cons_of_mem _ he))
  | .ok e :: rest, h => by
    have ih := filtrates_eq_okKeptN π K rest (fun e he => h e (List.mem_cons_of_mem _ he))
    have he := h e (by simp)
    simp only [filtrates, List.map_cons, Item.toWT, okKeptN, Entry.toWT, ih]
    by_cases hf : (π.decide e).1 = .filtrate
    · simp [hf, he.mp hf]
    · have : K e.names = true := by
        cases hp : K e.names with
        | true => rfl
        | false => exact absurd (he.mpr hp) hf
      simp [hf, this]

/-- **C02 end to end on the executable model, any pivot** (no depth bounds, no further
    combinators): with `pre` the names of the invariant prefix (accepted by their own component
    programs), the entries handed to the consumer below the root of the walk, their names prefixed
    by `pre`, are exactly the entries of the whole tree below `pre` that the complete program
    matches, in the order of the unpruned traversal -/
theorem glob_walk_filtrates_exact_pivot (σ : Sem) (g : GlobProgram) (hs : ProgramsSound σ g)
    (pre : List Str) (hpiv : g.pivot = pre.length) (hpre : goodNames pre = true)
    (hgood : hasBad (progFns σ g.components) pre = false)
    (root : Str) (cs : List WNode)
    (hroot : allPathsLB (entryFaithfulP root pre) [] (toWTList cs) = true) :
    (filtrates (globPipeline σ root g)
        (run 0 none (globPipeline σ root g).cancels (stackSize [⟨[], cs⟩]) [⟨[], cs⟩])).map
        (shiftE pre) =
      okKept (fun w => !g.complete.matchB σ w) (visitList never pre (toWTList cs)) := by
  have href := items_refine (globPipeline σ root g) cs
  have hv : (globPipeline σ root g).verdictWT =
      fun e => (globVerdict σ g (joinAll root e.path) e.path.length).1 == .tree := by
    funext x
    simp only [Pipeline.verdictWT, globPipeline_cancels]
  rw [hv] at href
  have hpok : ∀ q, entryFaithfulP root pre q = true → PathOk (pre ++ q) := by
    intro q hq
    simp only [entryFaithfulP, Bool.and_eq_true] at hq
    exact goodNames_pathOk hq.1
  have hn : NamesOkL (toWTList cs) :=
    namesOkL_of_allPaths _ (fun q hq => (pathOk_append.mp (hpok q hq)).2) _ [] hroot
  -- the verdict on strings is the verdict on names
  rw [visitList_congr_paths (entryFaithfulP root pre)
    (fun e => (globVerdict σ g (joinAll root e.path) e.path.length).1 == .tree)
    (fun e => (fun x : WalkTree.Entry => relVerdict σ g x.path == .tree) (shiftE pre e))
    (fun q hq => by simp only [globVerdict_of_faithfulP σ g root pre q hpiv hq, shiftE])
    _ [] hroot] at href
  -- the filtrate is what the complete program matches
  rw [filtrates_eq_okKeptN _ (fun q => !g.complete.matchB σ (relOf (pre ++ q))), href,
    ← okKeptN_shift (fun q => !g.complete.matchB σ (relOf q)) pre,
    ← visitList_shift (fun x => relVerdict σ g x.path == .tree) pre _ [], List.append_nil,
    ← okKept_eq_okKeptN (fun w => !g.complete.matchB σ w)]
  · exact relVerdict_walkList_exact σ g hs pre (by omega) (goodNames_pathOk hpre) hgood _ hn
  · intro e he
    have hmem : WalkTree.Item.ok e.toWT ∈
        (run 0 none (globPipeline σ root g).cancels (stackSize [⟨[], cs⟩]) [⟨[], cs⟩]).map
          Item.toWT := List.mem_map.mpr ⟨_, he, rfl⟩
    rw [href] at hmem
    have hfn := visitList_ok_paths (fun q => entryFaithfulP root pre q && !q.isEmpty) _ _ []
      (allPathsLB_ne_nil _ _ [] hroot) e.toWT hmem
    simp only [Entry.toWT, Bool.and_eq_true, Bool.not_eq_true', List.isEmpty_eq_false_iff] at hfn
    obtain ⟨hf, hne⟩ := hfn
    have hy := (globVerdict_yield_iff σ g hs root pre e.names hpiv (by simp [hne]) hf).1
    rw [globPipeline_filtrate, hy, globVerdict_of_faithfulP σ g root pre e.names hpiv hf]
    simp

/-- the root entry of the walk (depth 0) is never discarded as a tree: the candidates are the names
    of the prefix, which pass their programs — so the walk of a directory root is its root entry
    followed by the items below it, to which the theorems above apply -/
theorem glob_walk_items_dir (σ : Sem) (g : GlobProgram) (pre : List Str)
    (hpiv : g.pivot = pre.length) (hgood : hasBad (progFns σ g.components) pre = false)
    (root : Str) (hf : entryFaithfulP root pre [] = true) (cs : List WNode) :
    (globPipeline σ root g).items 0 none (.dir cs) =
      .ok ⟨[], .d⟩ ::
        run 0 none (globPipeline σ root g).cancels (stackSize [⟨[], cs⟩]) [⟨[], cs⟩] := by
  have hv := globVerdict_of_faithfulP σ g root pre [] hpiv hf
  have hc : (globPipeline σ root g).cancels ⟨[], .d⟩ = false := by
    rw [globPipeline_cancels]
    simp only [List.length_nil] at hv ⊢
    rw [hv]
    cases ht : relVerdict σ g (pre ++ []) with
    | tree =>
      have := (relVerdict_tree_iff σ g (pre ++ [])).mp ht
      simp only [List.append_nil, hpiv, Nat.sub_self, Nat.zero_sub, List.drop_zero] at this
      rw [hgood] at this; cases this
    | keep => rfl
    | file => rfl
  simp [Pipeline.items, walkItems, hc]

/-! ### the statements in the form of `globWalk_exact_partial` -/

/-- **`globWalk_exact_partial` applies to the executable model** (pivot 0): with the hypotheses of
    that theorem on the programs (`ProgsOk` for the component programs, the complete program is the
    documented language of `c₁/…/cₖ/rest`), the walk cancelled exactly where the executable closure
    `globVerdict` answers `filter_tree` yields exactly the matching entries of the unpruned walk -/
theorem globVerdict_walk_exact_partial (σ : Sem) (hσ : SepIsolated σ)
    (comps : List (List Tok × Span)) (rest : List Tok) (g : GlobProgram) (hpiv : g.pivot = 0)
    (hok : ProgsOk σ true comps (progFns σ g.components))
    (hM : ∀ w, g.complete.matchB σ w = true ↔ SMs σ ⟨true, true⟩ (joinSep comps rest) w)
    (root : Str) (n : Node) (hroot : allPathsB (entryFaithful root) [] n = true) :
    okKept (fun w => !g.complete.matchB σ w)
        (visit (fun e => (globVerdict σ g (joinAll root e.path) e.path.length).1 == .tree) [] n) =
      okKept (fun w => !g.complete.matchB σ w) (visit never [] n) :=
  globVerdict_walk_exact σ g (programsSound_of_progsOk σ hσ comps rest g hok hM) hpiv root n hroot

/-- the same with a program for the last component as well (`ProgsOkL`) -/
theorem globVerdict_walk_exact_partial_L (σ : Sem) (hσ : SepIsolated σ)
    (comps : List (List Tok × Span)) (rest : List Tok) (g : GlobProgram) (hpiv : g.pivot = 0)
    (hok : ProgsOkL σ true comps rest (progFns σ g.components))
    (hM : ∀ w, g.complete.matchB σ w = true ↔ SMs σ ⟨true, true⟩ (joinSep comps rest) w)
    (root : Str) (n : Node) (hroot : allPathsB (entryFaithful root) [] n = true) :
    okKept (fun w => !g.complete.matchB σ w)
        (visit (fun e => (globVerdict σ g (joinAll root e.path) e.path.length).1 == .tree) [] n) =
      okKept (fun w => !g.complete.matchB σ w) (visit never [] n) :=
  globVerdict_walk_exact σ g (programsSound_of_progsOkL σ hσ comps rest g hok hM) hpiv root n hroot

/-! ### findings, and examples that the hypotheses can be met -/

/-- exact comparison of characters, `.` matches a new line -/
def exSem : Sem := ⟨fun a b => a == b, true⟩

theorem exSem_sepIsolated : SepIsolated exSem := by
  intro a b h
  have : a = b := by simpa [exSem] using h
  subst this; rfl

/-- **`crateVerdict` is not the verdict of the code.**  For the programs of `a/…` and the
    directory `b` at depth 1 the closure answers `filter_tree` (the mismatch is at `Only`), while
    `crateVerdict`, which spares the last name, does not fire ... -/
theorem crateVerdict_not_executable :
    let g : GlobProgram := ⟨.never, [.lit ['a'] false], 0⟩
    relVerdict exSem g [['b']] = .tree ∧
      crateVerdict (progFns exSem g.components) [['b']] = false := by decide

/-- ... and conversely, for the programs of `a/a/…` and the path `b/a`, `crateVerdict` fires (the
    first name is rejected) while the closure, which looks at the names from position `depth - 1`
    on only, does not answer `filter_tree` (it never gets to see this entry in a walk: `b` was
    discarded) -/
theorem crateVerdict_not_executable' :
    let g : GlobProgram := ⟨.never, [.lit ['a'] false, .lit ['a'] false], 0⟩
    relVerdict exSem g [['b'], ['a']] = .file ∧
      crateVerdict (progFns exSem g.components) [['b'], ['a']] = true := by decide

/-- the traversals differ: the code does not read the directory `b`, pruning by `crateVerdict`
    reads it (and discards what it finds there); the matching entries are the same -/
theorem crateVerdict_reads_more :
    let g : GlobProgram := ⟨.never, [.lit ['a'] false], 0⟩
    let n : Node := .dir ['b'] [.file ['x']]
    visit (fun e => relVerdict exSem g e.path == .tree) [] n = [.ok ⟨[['b']], true⟩] ∧
    visit (fun e => crateVerdict (progFns exSem g.components) e.path) [] n =
      [.ok ⟨[['b']], true⟩, .ok ⟨[['b'], ['x']], false⟩] := by decide

/-- `zipArms_tree_iff` on `a/c` against the programs of `a/b`, depth 2: the mismatch is at
    `Only` and the outcome is the tree discard, not `filter_node` -/
example :
    zipArms exSem .file ([['a'], ['c']].drop (2 - 1))
      ([Re.lit ['a'] false, Re.lit ['b'] false].drop (2 - 1)) = .tree ∧
    hasBad ((progFns exSem [Re.lit ['a'] false, Re.lit ['b'] false]).drop (2 - 1))
      ([['a'], ['c']].drop (2 - 1)) = true := by decide

/-- the path arithmetic holds on concrete entries: root `r`, entry `r/x/bb` at depth 2 -/
example : entryFaithful "r".toList ["x".toList, "bb".toList] = true := by decide

/-- ... and with a prefix: root `r/a/` (what `Glob::anchor` makes of base `r` and prefix `a`),
    pivot 1 -/
example : entryFaithfulP "r/a/".toList ["a".toList] ["x".toList, "bb".toList] = true := by decide

/-- `.` and `..` and the empty name are not names of entries, and for them the candidates are not
    the names (`Normal` components only) -/
example : normals (components (relOf [['.'], ['a']])) ≠ [['.'], ['a']] := by decide

end Wax.Walk
