import Wax.Chain
import Wax.Proofs.WalkMachine
import Wax.Proofs.WalkLogs
import Wax.Proofs.WalkStack
/-!
The iterator-level chain of `Wax/Chain.lean` against the collapsed model of `Wax/Walk.lean`
(C13, C16, C03).

* Part 0: walkdir's `next` has enough fuel (`next_fuel`); the collapsed machine `run`, read item by
  item (`run_next`).
* Part 1: an adaptor touches the machine through `cancel_walk_tree` only (`Stage.apply_eq`); a feed
  of the chain is one pull, then the stages in turn, innermost first, each once (`feed_eq`).
* Part 2: whatever the chain, one feed cancels once if the entry ends as tree residue and not at all
  otherwise (`thread_cancels`).
* Part 3: **`run_refines`** — the trace of ANY chain over any tree, any bounds, is the collapsed
  machine `walkItems` driven by one Boolean; `run_fuel_gen`, `collect_eq`: the consumer's loop.
* Part 4: the stages of a walk on one entry are `feedDep` on the collapsed stack, logs included
  (`Spec.obsOf_ok`); `sub_log_is_pulled`: every `Not` / `FilterEntry` adaptor of any chain is called
  once per Ok item pulled — structure alone.
* Part 5: the chain of a `Pipeline`: `chain_refines_separations` (a), `chain_refines_cancels` (b),
  `chain_log_eq_observedS` (c), `chain_yields`.
* Part 6: corollaries: `chain_observes_all_once`, `observes_all_once_via_chain`,
  `chain_nothing_beneath_discarded`, `chain_layer_consulted_exact`, `chain_order_independent`,
  `swalk_chain_refines`, `swalk_chain_perm`, `swalk_chain_exact_partial`, `Spec.no_unreachable`.
* Part 7: the code before 06499ed at chain level: two cancellations for one entry, a sibling lost
  (`pinned_chain_twice`).  Part 8: the theorems at work.

No difference between the chain and the collapsed model was found: the refinement holds for every
chain, tree, bounds and link behaviour.
-/
set_option linter.unusedSimpArgs false

namespace Wax.Chain
open Wax Wax.Walk

/-! ## Part 0: walkdir's `next` and the machine `run` -/

theorem next_size (mn : Nat) (mx : Option Nat) : ∀ (k : Nat) (s : List Frame) (it : Item) (d : Bool)
    (s' : List Frame), next mn mx k s = some (it, d, s') → stackSize s' < stackSize s := by
  intro k
  induction k with
  | zero => intro s it d s' h; simp [next] at h
  | succ k ih =>
    intro s it d s' h
    have hs := step_size mn mx s
    simp only [next] at h
    cases hst : step mn mx s with
    | done => rw [hst] at h; cases h
    | pop s1 => rw [hst] at h hs; have := ih s1 it d s' h; simp only at hs; omega
    | skip s1 => rw [hst] at h hs; have := ih s1 it d s' h; simp only at hs; omega
    | yield it1 d1 s1 =>
      rw [hst] at h hs
      simp only [Option.some.injEq, Prod.mk.injEq] at h
      obtain ⟨_, _, rfl⟩ := h
      exact hs

theorem next_fuel_aux (mn : Nat) (mx : Option Nat) : ∀ (n : Nat) (s : List Frame) (k₁ k₂ : Nat),
    stackSize s ≤ n → n ≤ k₁ → n ≤ k₂ → next mn mx k₁ s = next mn mx k₂ s := by
  intro n
  induction n with
  | zero =>
    intro s k₁ k₂ hs _ _
    cases s with
    | nil => cases k₁ <;> cases k₂ <;> simp [next, step]
    | cons f fs => simp [stackSize, Frame.size] at hs <;> omega
  | succ n ih =>
    intro s k₁ k₂ hs h₁ h₂
    obtain ⟨k₁, rfl⟩ : ∃ j, k₁ = j + 1 := ⟨k₁ - 1, by omega⟩
    obtain ⟨k₂, rfl⟩ : ∃ j, k₂ = j + 1 := ⟨k₂ - 1, by omega⟩
    have hstep := step_size mn mx s
    simp only [next]
    cases hst : step mn mx s with
    | done => rfl
    | pop s' => rw [hst] at hstep; exact ih s' k₁ k₂ (by simp only at hstep; omega) (by omega) (by omega)
    | skip s' => rw [hst] at hstep; exact ih s' k₁ k₂ (by simp only at hstep; omega) (by omega) (by omega)
    | yield it d s' => rfl

/-- **fuel for walkdir's loop**: `stackSize s` iterations are enough, more change nothing -/
theorem next_fuel (mn : Nat) (mx : Option Nat) (s : List Frame) (k : Nat) (h : stackSize s ≤ k) :
    next mn mx k s = next mn mx (stackSize s) s :=
  next_fuel_aux mn mx (stackSize s) s k (stackSize s) (Nat.le_refl _) h (Nat.le_refl _)

/-- how the collapsed machine goes on after the next item -/
def contItems (mn : Nat) (mx : Option Nat) (v : Entry → Bool) :
    Option (Item × Bool × List Frame) → List Item
  | none => []
  | some (.ok e, d, s') =>
    .ok e :: Walk.run mn mx v (stackSize (if v e then Walk.cancel d s' else s'))
      (if v e then Walk.cancel d s' else s')
  | some (.err p a, _, s') => .err p a :: Walk.run mn mx v (stackSize s') s'

/-- the collapsed machine `run`, read item by item: walkdir's `next`, then the verdict -/
theorem run_next (mn : Nat) (mx : Option Nat) (v : Entry → Bool) : ∀ (n : Nat) (s : List Frame),
    stackSize s ≤ n → Walk.run mn mx v n s = contItems mn mx v (next mn mx n s) := by
  intro n
  induction n with
  | zero => intro s _; rfl
  | succ n ih =>
    intro s hs
    have hstep := step_size mn mx s
    simp only [Walk.run, next]
    cases hst : step mn mx s with
    | done => rfl
    | pop s' => rw [hst] at hstep; exact ih s' (by simp only at hstep; omega)
    | skip s' => rw [hst] at hstep; exact ih s' (by simp only at hstep; omega)
    | yield it d s' =>
      rw [hst] at hstep
      simp only at hstep
      cases it with
      | ok e =>
        simp only [contItems]
        congr 1
        apply run_fuel
        by_cases hv : v e = true
        · simp only [hv, if_true]
          have := stackSize_cancel d s'
          omega
        · simp only [hv, if_false, Bool.false_eq_true]; omega
      | err p a =>
        simp only [contItems]
        congr 1
        exact run_fuel mn mx v s' n (by omega)

/-! ## Part 1: a feed is a pull, then the stages in turn, innermost first -/

/-- what the body of an adaptor does to a separation, the machine apart -/
structure Act where
  sep : Sep
  call : Option Sep
  cancels : Nat

def actSub (f : Sub → Verdict) (sep : Sep) : Act :=
  let r := applySub f sep ⟨none, [], false⟩
  ⟨r.sep, r.call, r.cancels⟩

def actGlob (pivot : Nat) (f : Entry → Verdict) (sep : Sep) : Act :=
  let r := applyGlob pivot f sep ⟨none, [], false⟩
  ⟨r.sep, r.call, r.cancels⟩

def Stage.act : Stage → Sep → Act
  | .glob pivot f => actGlob pivot f
  | .sub f => actSub f

/-- `cancel_walk_tree` called `n` times -/
def MState.cancelN : Nat → MState → MState
  | 0, m => m
  | n + 1, m => (MState.cancelN n m).cancel

theorem cancelN_add (a b : Nat) (m : MState) : m.cancelN (a + b) = (m.cancelN a).cancelN b := by
  induction b with
  | zero => rfl
  | succ b ih =>
    show (m.cancelN (a + b)).cancel = ((m.cancelN a).cancelN b).cancel
    rw [ih]

/-- an adaptor touches the machine through `cancel_walk_tree` only: what it makes of a separation
    does not depend on the machine, and the machine is the one it found, cancelled as often as the
    adaptor says -/
theorem Stage.apply_eq (st : Stage) (sep : Sep) (m : MState) :
    st.apply sep m =
      ⟨(st.act sep).sep, (st.act sep).call, (st.act sep).cancels, m.cancelN (st.act sep).cancels⟩ := by
  cases st with
  | glob pivot f =>
    cases sep with
    | error p a => rfl
    | node e => rfl
    | tree e => rfl
    | filtrate x =>
      simp only [Stage.apply, Stage.act, actGlob, applyGlob]
      cases f x.entry <;> rfl
  | sub f =>
    cases sep with
    | error p a => rfl
    | filtrate x =>
      simp only [Stage.apply, Stage.act, actSub, applySub]
      cases f x <;> rfl
    | node e =>
      simp only [Stage.apply, Stage.act, actSub, applySub]
      cases f ⟨e, 0⟩ <;> rfl
    | tree e =>
      simp only [Stage.apply, Stage.act, actSub, applySub]
      cases f ⟨e, 0⟩ <;> rfl

/-- the stages applied in turn, INNERMOST first, to a separation pulled from `WalkTree` -/
def thread : List Stage → Sep → Obs
  | [], sep => ⟨sep, [], 0⟩
  | st :: rest, sep =>
    let a := st.act sep
    let t := thread rest a.sep
    ⟨t.sep, a.call :: t.calls, a.cancels + t.cancels⟩

theorem thread_append : ∀ (l₁ l₂ : List Stage) (sep : Sep),
    thread (l₁ ++ l₂) sep =
      ⟨(thread l₂ (thread l₁ sep).sep).sep, (thread l₁ sep).calls ++ (thread l₂ (thread l₁ sep).sep).calls,
        (thread l₁ sep).cancels + (thread l₂ (thread l₁ sep).sep).cancels⟩
  | [], l₂, sep => by simp [thread]
  | st :: l₁, l₂, sep => by
    simp only [List.cons_append, thread, thread_append l₁ l₂, List.cons_append, Nat.add_assoc]

theorem thread_snoc (l : List Stage) (st : Stage) (sep : Sep) :
    thread (l ++ [st]) sep =
      ⟨(st.act (thread l sep).sep).sep, (thread l sep).calls ++ [(st.act (thread l sep).sep).call],
        (thread l sep).cancels + (st.act (thread l sep).sep).cancels⟩ := by
  rw [thread_append]
  simp [thread]

/-- **a feed of the chain**: one item is pulled from `WalkTree`; the stages are applied to it in
    turn, innermost first, each exactly once; every cancellation has reached the machine when the
    feed returns -/
theorem feed_eq (mn : Nat) (mx : Option Nat) : ∀ (c : Chain) (m : MState),
    c.feed mn mx m =
      (m.pull mn mx).map (fun r =>
        (thread c.reverse (Sep.ofItem r.1), r.2.cancelN (thread c.reverse (Sep.ofItem r.1)).cancels))
  | [], m => by
    simp only [Chain.feed, List.reverse_nil, thread, MState.cancelN]
    cases m.pull mn mx with
    | none => rfl
    | some r => rfl
  | st :: input, m => by
    simp only [Chain.feed, feed_eq mn mx input m, List.reverse_cons, thread_snoc]
    cases m.pull mn mx with
    | none => rfl
    | some r =>
      simp only [Option.map_some, Stage.apply_eq, cancelN_add]

/-! ## Part 2: the algebra of the stages on one separation -/

def Sep.isTree : Sep → Bool
  | .tree _ => true
  | _ => false

theorem act_item (st : Stage) (sep : Sep) : (st.act sep).sep.item = sep.item := by
  cases st with
  | glob pivot f =>
    cases sep with
    | error p a => rfl
    | node e => rfl
    | tree e => rfl
    | filtrate x => simp only [Stage.act, actGlob, applyGlob]; cases f x.entry <;> rfl
  | sub f =>
    cases sep with
    | error p a => rfl
    | filtrate x => simp only [Stage.act, actSub, applySub]; cases f x <;> rfl
    | node e => simp only [Stage.act, actSub, applySub]; cases f ⟨e, 0⟩ <;> rfl
    | tree e => simp only [Stage.act, actSub, applySub]; cases f ⟨e, 0⟩ <;> rfl

/-- no stage changes the entry a separation carries -/
theorem thread_item : ∀ (l : List Stage) (sep : Sep), (thread l sep).sep.item = sep.item
  | [], _ => rfl
  | st :: rest, sep => by simp only [thread, thread_item rest, act_item]

/-- one stage: it cancels at most once, exactly when it turns what it is given into tree residue;
    tree residue stays tree residue -/
theorem act_cancels (st : Stage) (sep : Sep) :
    ((st.act sep).cancels = (!sep.isTree && (st.act sep).sep.isTree).toNat) ∧
    (sep.isTree = true → (st.act sep).sep.isTree = true) := by
  cases st with
  | glob pivot f =>
    cases sep with
    | error p a => exact ⟨rfl, fun h => h⟩
    | node e => exact ⟨rfl, fun h => h⟩
    | tree e => exact ⟨rfl, fun h => h⟩
    | filtrate x => simp only [Stage.act, actGlob, applyGlob]; split <;> simp [Sep.isTree]
  | sub f =>
    cases sep with
    | error p a => exact ⟨rfl, fun h => h⟩
    | filtrate x => simp only [Stage.act, actSub, applySub]; split <;> simp [Sep.isTree]
    | node e => simp only [Stage.act, actSub, applySub]; split <;> simp [Sep.isTree]
    | tree e => simp only [Stage.act, actSub, applySub]; split <;> simp [Sep.isTree]

/-- **the exact count**: whatever the chain, during one feed `cancel_walk_tree` reaches `WalkTree`
    once if the entry ends up as tree residue (it was pulled as a filtrate), and not at all
    otherwise — never twice (the repair 06499ed; for the code before it see `pinned_chain_twice`) -/
theorem thread_cancels : ∀ (l : List Stage) (sep : Sep),
    (thread l sep).cancels = (!sep.isTree && (thread l sep).sep.isTree).toNat ∧
    (sep.isTree = true → (thread l sep).sep.isTree = true)
  | [], sep => by cases h : sep.isTree <;> simp [thread, h]
  | st :: rest, sep => by
    have h1 := act_cancels st sep
    have h2 := thread_cancels rest (st.act sep).sep
    simp only [thread]
    refine ⟨?_, fun h => h2.2 (h1.2 h)⟩
    rw [h1.1, h2.1]
    cases hs : sep.isTree with
    | true => simp [h1.2 hs]
    | false =>
      cases ha : (st.act sep).sep.isTree with
      | true => simp [h2.2 ha]
      | false => simp

theorem thread_cancels_le_one (l : List Stage) (sep : Sep) : (thread l sep).cancels ≤ 1 := by
  rw [(thread_cancels l sep).1]; exact Bool.toNat_le _

theorem act_error (st : Stage) (p : List Str) (a : Bool) : st.act (.error p a) = ⟨.error p a, none, 0⟩ := by
  cases st <;> rfl

/-- an error item passes every stage: no function is called, nothing is cancelled -/
theorem thread_error : ∀ (l : List Stage) (p : List Str) (a : Bool),
    thread l (.error p a) = ⟨.error p a, l.map (fun _ => none), 0⟩
  | [], _, _ => rfl
  | st :: rest, p, a => by simp only [thread, act_error, thread_error rest, List.map_cons, Nat.add_zero]

/-! ## Part 3: the trace of the chain is the collapsed machine -/

/-- what a feed of the chain `c` records for an item pulled from `WalkTree` -/
def Chain.obsOf (c : Chain) (it : Item) : Obs := thread c.reverse (Sep.ofItem it)

/-- the chain cancels the walk at the entry `e` -/
def Chain.cancelsB (c : Chain) (e : Entry) : Bool := (c.obsOf (.ok e)).cancels != 0

theorem pull_none (mn : Nat) (mx : Option Nat) (s : List Frame) (d : Bool) :
    (MState.mk none s d).pull mn mx =
      (next mn mx (stackSize s) s).map (fun r => (r.1, ⟨none, r.2.2, r.2.1⟩)) := by
  simp only [MState.pull]
  cases next mn mx (stackSize s) s with
  | none => rfl
  | some r => obtain ⟨it, d', s'⟩ := r; rfl

theorem cancelN_le_one (c : Chain) (e : Entry) (s : List Frame) (d : Bool) :
    (MState.mk none s d).cancelN (c.obsOf (.ok e)).cancels =
      ⟨none, if c.cancelsB e then Walk.cancel d s else s, d⟩ := by
  have h := thread_cancels_le_one c.reverse (Sep.ofItem (.ok e))
  unfold Chain.cancelsB Chain.obsOf
  generalize (thread c.reverse (Sep.ofItem (.ok e))).cancels = n at h ⊢
  obtain rfl | rfl : n = 0 ∨ n = 1 := by omega
  · rfl
  · rfl

theorem run_stack (mn : Nat) (mx : Option Nat) (c : Chain) : ∀ (n : Nat) (s : List Frame) (d : Bool)
    (k : Nat), stackSize s ≤ n → n ≤ k →
    c.run mn mx k ⟨none, s, d⟩ = (Walk.run mn mx c.cancelsB (stackSize s) s).map c.obsOf := by
  intro n
  induction n with
  | zero =>
    intro s d k hs _
    cases s with
    | cons f fs => simp [stackSize, Frame.size] at hs <;> omega
    | nil =>
      cases k with
      | zero => rfl
      | succ k => simp [Chain.run, feed_eq, MState.pull, next, stackSize, Walk.run]
  | succ n ih =>
    intro s d k hs hk
    obtain ⟨k, rfl⟩ : ∃ j, k = j + 1 := ⟨k - 1, by omega⟩
    rw [run_next mn mx c.cancelsB (stackSize s) s (Nat.le_refl _)]
    simp only [Chain.run, feed_eq, pull_none]
    cases hn : next mn mx (stackSize s) s with
    | none => rfl
    | some r =>
      obtain ⟨it, d', s'⟩ := r
      have hsz := next_size mn mx _ s it d' s' hn
      cases it with
      | ok e =>
        simp only [Option.map_some, contItems, List.map_cons]
        congr 1
        have := cancelN_le_one c e s' d'
        unfold Chain.obsOf at this
        rw [this]
        apply ih
        · by_cases hv : c.cancelsB e = true
          · simp only [hv, if_true]
            have := stackSize_cancel d' s'
            omega
          · simp only [hv, if_false, Bool.false_eq_true]; omega
        · omega
      | err p a =>
        simp only [Option.map_some, contItems, List.map_cons, Sep.ofItem, thread_error, MState.cancelN]
        congr 1
        · simp only [Chain.obsOf, Sep.ofItem, thread_error]
        · exact ih s' d' k (by omega) (by omega)

theorem run_root (mn : Nat) (mx : Option Nat) (c : Chain) (it : Item) (d d0 : Bool) (s : List Frame)
    (k : Nat) :
    c.run mn mx (k + 1) ⟨some (it, d), s, d0⟩ =
      c.obsOf it :: c.run mn mx k ((MState.mk none s d).cancelN (c.obsOf it).cancels) := by
  simp only [Chain.run, feed_eq, MState.pull, Option.map_some, Chain.obsOf]

theorem cancelN_error (c : Chain) (p : List Str) (a : Bool) (m : MState) :
    m.cancelN (c.obsOf (.err p a)).cancels = m := by
  simp only [Chain.obsOf, Sep.ofItem, thread_error, MState.cancelN]

/-- **(a) + (b) + (c), machine level — the refinement**: for every chain of adaptors `c`, every
    tree as walkdir sees it, any depth bounds: the trace of the consumer's feeds is, feed for feed,
    the list of items of the COLLAPSED machine `walkItems` driven by the one Boolean
    `c.cancelsB` — and what each feed records (the separation handed up, what each stage's function
    was called on, how often the walk was cancelled) is the pure function `c.obsOf` of the item:
    the stages applied in turn to the item, innermost first.  Fuel: the size of the machine. -/
theorem run_refines (c : Chain) (mn : Nat) (mx : Option Nat) (rv : RootView) (k : Nat)
    (hk : (MState.init mn rv).size ≤ k) :
    c.run mn mx k (MState.init mn rv) = (walkItems mn mx c.cancelsB rv).map c.obsOf := by
  cases rv with
  | err anon =>
    obtain ⟨k, rfl⟩ : ∃ j, k = j + 1 := ⟨k - 1, by simp [MState.init, MState.size] at hk; omega⟩
    simp only [MState.init, run_root, cancelN_error, walkItems, List.map_cons, List.map_nil]
    congr 1
    exact run_stack mn mx c 0 [] false k (Nat.le_refl _) (Nat.zero_le _)
  | leaf kd =>
    by_cases hm : 0 < mn
    · simp only [MState.init, hm, if_true, walkItems, List.map_nil]
      exact run_stack mn mx c 0 [] false k (Nat.le_refl _) (Nat.zero_le _)
    · obtain ⟨k, rfl⟩ : ∃ j, k = j + 1 := ⟨k - 1, by simp [MState.init, MState.size, hm] at hk; omega⟩
      simp only [MState.init, hm, if_false, run_root, walkItems, List.map_cons, List.map_nil,
        cancelN_le_one]
      congr 1
      have : (if c.cancelsB ⟨[], kd.kind⟩ then Walk.cancel false [] else ([] : List Frame)) = [] := by
        split <;> rfl
      rw [this]
      exact run_stack mn mx c 0 [] false k (Nat.le_refl _) (Nat.zero_le _)
  | dir cs =>
    by_cases hm : 0 < mn
    · simp only [MState.init, hm, if_true, walkItems]
      refine run_stack mn mx c _ _ false k (Nat.le_refl _) ?_
      simpa [MState.init, MState.size, hm] using hk
    · obtain ⟨k, rfl⟩ : ∃ j, k = j + 1 := ⟨k - 1, by simp [MState.init, MState.size, hm] at hk; omega⟩
      simp only [MState.init, hm, if_false, run_root, walkItems, List.map_cons, cancelN_le_one]
      congr 1
      have hsz : stackSize (if c.cancelsB ⟨[], .d⟩ then Walk.cancel true [⟨[], cs⟩] else [⟨[], cs⟩])
          ≤ stackSize [⟨[], cs⟩] := by
        split
        · exact stackSize_cancel _ _
        · exact Nat.le_refl _
      rw [run_fuel mn mx c.cancelsB _ _ hsz]
      refine run_stack mn mx c _ _ true k (Nat.le_refl _) ?_
      simp [MState.init, MState.size, hm] at hk
      omega
  | link cs =>
    by_cases hm : 0 < mn
    · simp only [MState.init, hm, if_true, walkItems]
      refine run_stack mn mx c _ _ false k (Nat.le_refl _) ?_
      simpa [MState.init, MState.size, hm] using hk
    · obtain ⟨k, rfl⟩ : ∃ j, k = j + 1 := ⟨k - 1, by simp [MState.init, MState.size, hm] at hk; omega⟩
      simp only [MState.init, hm, if_false, run_root, walkItems, List.map_cons, cancelN_le_one]
      congr 1
      have hsz : stackSize (if c.cancelsB ⟨[], .l⟩ then Walk.cancel false [⟨[], cs⟩] else [⟨[], cs⟩])
          ≤ stackSize [⟨[], cs⟩] := by
        split
        · exact stackSize_cancel _ _
        · exact Nat.le_refl _
      rw [run_fuel mn mx c.cancelsB _ _ hsz]
      refine run_stack mn mx c _ _ false k (Nat.le_refl _) ?_
      simp [MState.init, MState.size, hm] at hk
      omega

/-- **fuel for the consumer's loop**: `m.size` feeds are enough, more change nothing -/
theorem run_fuel_chain (c : Chain) (mn : Nat) (mx : Option Nat) (rv : RootView) (k : Nat)
    (hk : (MState.init mn rv).size ≤ k) :
    c.run mn mx k (MState.init mn rv) = c.run mn mx (MState.init mn rv).size (MState.init mn rv) := by
  rw [run_refines c mn mx rv k hk, run_refines c mn mx rv _ (Nat.le_refl _)]

/-! ### the consumer's loop (`filter::filtrate` in a `for`) yields the filtrates of the trace -/

theorem cancel_size (m : MState) : m.cancel.size ≤ m.size := by
  show (if m.root.isSome then 1 else 0) + stackSize (Walk.cancel m.isDir m.stack)
    ≤ (if m.root.isSome then 1 else 0) + stackSize m.stack
  exact Nat.add_le_add_left (stackSize_cancel m.isDir m.stack) _

theorem cancelN_size : ∀ (n : Nat) (m : MState), (m.cancelN n).size ≤ m.size
  | 0, _ => Nat.le_refl _
  | n + 1, m => Nat.le_trans (cancel_size _) (cancelN_size n m)

theorem pull_size (mn : Nat) (mx : Option Nat) (m : MState) (it : Item) (m' : MState)
    (h : m.pull mn mx = some (it, m')) : m'.size < m.size := by
  obtain ⟨root, s, d⟩ := m
  cases root with
  | some r =>
    obtain ⟨it0, d0⟩ := r
    simp only [MState.pull, Option.some.injEq, Prod.mk.injEq] at h
    obtain ⟨_, rfl⟩ := h
    simp [MState.size]
  | none =>
    rw [pull_none] at h
    cases hn : next mn mx (stackSize s) s with
    | none => rw [hn] at h; cases h
    | some r =>
      obtain ⟨it0, d0, s0⟩ := r
      rw [hn] at h
      simp only [Option.map_some, Option.some.injEq, Prod.mk.injEq] at h
      obtain ⟨_, rfl⟩ := h
      have := next_size mn mx _ s it0 d0 s0 hn
      simpa [MState.size] using this

/-- every feed consumes the machine -/
theorem feed_size (mn : Nat) (mx : Option Nat) (c : Chain) (m : MState) (o : Obs) (m' : MState)
    (h : c.feed mn mx m = some (o, m')) : m'.size < m.size := by
  rw [feed_eq] at h
  cases hp : m.pull mn mx with
  | none => rw [hp] at h; cases h
  | some r =>
    obtain ⟨it, m1⟩ := r
    rw [hp] at h
    simp only [Option.map_some, Option.some.injEq, Prod.mk.injEq] at h
    obtain ⟨_, rfl⟩ := h
    have h1 := pull_size mn mx m it m1 hp
    have h2 := cancelN_size (thread c.reverse (Sep.ofItem it)).cancels m1
    omega

/-- **fuel for the trace, from any state of the machine** -/
theorem run_fuel_gen (mn : Nat) (mx : Option Nat) (c : Chain) : ∀ (n : Nat) (m : MState) (k₁ k₂ : Nat),
    m.size ≤ n → n ≤ k₁ → n ≤ k₂ → c.run mn mx k₁ m = c.run mn mx k₂ m := by
  intro n
  induction n with
  | zero =>
    intro m k₁ k₂ hm _ _
    have hnone : c.feed mn mx m = none := by
      cases hf : c.feed mn mx m with
      | none => rfl
      | some r => have := feed_size mn mx c m r.1 r.2 hf; omega
    cases k₁ <;> cases k₂ <;> simp [Chain.run, hnone]
  | succ n ih =>
    intro m k₁ k₂ hm h₁ h₂
    obtain ⟨k₁, rfl⟩ : ∃ j, k₁ = j + 1 := ⟨k₁ - 1, by omega⟩
    obtain ⟨k₂, rfl⟩ : ∃ j, k₂ = j + 1 := ⟨k₂ - 1, by omega⟩
    simp only [Chain.run]
    cases hf : c.feed mn mx m with
    | none => rfl
    | some r =>
      obtain ⟨o, m'⟩ := r
      have := feed_size mn mx c m o m' hf
      simp only
      congr 1
      exact ih m' k₁ k₂ (by omega) (by omega) (by omega)

/-- what `filter::filtrate` returns, in terms of the trace: the first filtrate -/
def nextSpec (mn : Nat) (mx : Option Nat) (c : Chain) (k : Nat) : Option (Item × MState) → List Item
  | none => []
  | some (it, m') => it :: yielded (c.run mn mx k m')

theorem next_spec (mn : Nat) (mx : Option Nat) (c : Chain) : ∀ (k : Nat) (m : MState), m.size ≤ k →
    yielded (c.run mn mx k m) = nextSpec mn mx c k (c.next mn mx k m) ∧
    ∀ it m', c.next mn mx k m = some (it, m') → m'.size < m.size := by
  intro k
  induction k with
  | zero => intro m _; exact ⟨rfl, fun _ _ h => by cases h⟩
  | succ k ih =>
    intro m hm
    simp only [Chain.run, Chain.next]
    cases hf : c.feed mn mx m with
    | none => exact ⟨rfl, fun _ _ h => by cases h⟩
    | some r =>
      obtain ⟨o, m1⟩ := r
      have hsz := feed_size mn mx c m o m1 hf
      simp only
      cases hy : o.sep.yield? with
      | some it =>
        refine ⟨?_, ?_⟩
        · simp only [yielded, List.filterMap_cons, hy, nextSpec]
          congr 2
          exact run_fuel_gen mn mx c m1.size m1 k (k + 1) (Nat.le_refl _) (by omega) (by omega)
        · intro it' m' h
          simp only [Option.some.injEq, Prod.mk.injEq] at h
          obtain ⟨_, rfl⟩ := h
          exact hsz
      | none =>
        have ih1 := ih m1 (by omega)
        refine ⟨?_, ?_⟩
        · simp only [yielded, List.filterMap_cons, hy]
          have := ih1.1
          simp only [yielded] at this
          rw [this]
          cases hn : c.next mn mx k m1 with
          | none => rfl
          | some r2 =>
            obtain ⟨it2, m2⟩ := r2
            have := ih1.2 it2 m2 hn
            simp only [nextSpec, yielded]
            congr 2
            exact run_fuel_gen mn mx c m2.size m2 k (k + 1) (Nat.le_refl _) (by omega) (by omega)
        · intro it' m' h
          have := ih1.2 it' m' h
          omega

/-- **the consumer**: iterating the outermost adaptor (`Iterator::next` = `filter::filtrate`: feed
    until a filtrate; until `None`) yields exactly the filtrates of the trace of feeds, in order —
    nothing is pulled in between that the trace does not have -/
theorem collect_eq (mn : Nat) (mx : Option Nat) (c : Chain) : ∀ (k : Nat) (m : MState), m.size ≤ k →
    c.collect mn mx k m = yielded (c.run mn mx k m) := by
  intro k
  induction k with
  | zero => intro m _; rfl
  | succ k ih =>
    intro m hm
    have hs := next_spec mn mx c (k + 1) m hm
    rw [hs.1]
    simp only [Chain.collect]
    cases hn : c.next mn mx (k + 1) m with
    | none => rfl
    | some r =>
      obtain ⟨it, m'⟩ := r
      have hsz := hs.2 it m' hn
      simp only [nextSpec]
      congr 1
      rw [ih m' (by omega)]
      congr 1
      exact run_fuel_gen mn mx c m'.size m' k (k + 1) (Nat.le_refl _) (by omega) (by omega)

/-! ## Part 4: the stages on one entry are `feedDep` on the collapsed stack

A walk as the API can build it: `WalkTree`, perhaps the `GlobWalker` adaptor directly on it, then
`Not` / `FilterEntry` adaptors.  `Spec` describes such a chain; `Spec.stack` is the COLLAPSED stack
of verdict functions of a separation state, as `Pipeline.stack` of `Wax/Walk.lean`: the state
dependence is exactly that residue has lost the pivot. -/

structure Spec where
  /-- the `GlobWalker` closure, with the pivot of the anchor -/
  glob : Option (Nat × (Entry → Verdict))
  /-- the functions of the `Not` / `FilterEntry` adaptors, innermost first -/
  layers : List (Sub → Verdict)

def Spec.pivot (S : Spec) : Nat := match S.glob with | some g => g.1 | none => 0

def Spec.globStages (S : Spec) : List Stage :=
  match S.glob with
  | some g => [.glob g.1 g.2]
  | none => []

/-- the stages, innermost first -/
def Spec.stages (S : Spec) : List Stage := S.globStages ++ S.layers.map Stage.sub

def Spec.chain (S : Spec) : Chain := S.stages.reverse

def Spec.globFns (S : Spec) (e : Entry) : List (Sepn → Verdict) :=
  match S.glob with
  | some g => [fun _ => g.2 e]
  | none => []

/-- a layer's function as a function of the separation state the entry arrives in: a filtrate
    carries the pivot, residue does not -/
def Spec.layerFns (S : Spec) (e : Entry) : List (Sepn → Verdict) :=
  S.layers.map (fun f s => f ⟨e, if s = .filtrate then S.pivot else 0⟩)

def Spec.stack (S : Spec) (e : Entry) : List (Sepn → Verdict) := S.globFns e ++ S.layerFns e

/-- the collapsed decision, as `Pipeline.decide` -/
def Spec.decide (S : Spec) (e : Entry) : Sepn × Nat := feedDep (S.stack e) .filtrate

def Spec.cancels (S : Spec) (e : Entry) : Bool := (S.decide e).2 != 0

def Spec.entryState (S : Spec) (e : Entry) : Sepn := (feedDep (S.globFns e) .filtrate).1

/-- as `Pipeline.shown` -/
def Spec.shown (S : Spec) (e : Entry) : List Sepn := statesOf (S.layerFns e) (S.entryState e)

/-- the separation with payload that a state stands for, above the `GlobWalker` adaptor -/
def mkSep (pv : Nat) (e : Entry) : Sepn → Sep
  | .filtrate => .filtrate ⟨e, pv⟩
  | .node => .node e
  | .tree => .tree e

theorem mkSep_state (pv : Nat) (e : Entry) (s : Sepn) : (mkSep pv e s).state? = some (e, s) := by
  cases s <;> rfl

theorem mkSep_item (pv : Nat) (e : Entry) (s : Sepn) : (mkSep pv e s).item = .ok e := by
  cases s <;> rfl

/-- one `Not` / `FilterEntry` adaptor is `applyVerdict` -/
theorem actSub_mkSep (f : Sub → Verdict) (pv : Nat) (e : Entry) (s : Sepn) :
    (Stage.sub f).act (mkSep pv e s) =
      ⟨mkSep pv e (applyVerdict s (f ⟨e, if s = .filtrate then pv else 0⟩)).1, some (mkSep pv e s),
        if (applyVerdict s (f ⟨e, if s = .filtrate then pv else 0⟩)).2 then 1 else 0⟩ := by
  cases s with
  | filtrate =>
    simp only [Stage.act, actSub, mkSep, applySub, if_true]
    cases f ⟨e, pv⟩ <;> rfl
  | node =>
    have : (if Sepn.node = Sepn.filtrate then pv else 0) = 0 := by simp
    simp only [Stage.act, actSub, mkSep, applySub, this]
    cases f ⟨e, 0⟩ <;> rfl
  | tree =>
    have : (if Sepn.tree = Sepn.filtrate then pv else 0) = 0 := by simp
    simp only [Stage.act, actSub, mkSep, applySub, this]
    cases f ⟨e, 0⟩ <;> rfl

/-- the `Not` / `FilterEntry` adaptors in turn are `feedDep` on their functions; each function is
    called once, on the separation the adaptors below have left -/
theorem thread_layers (pv : Nat) (e : Entry) : ∀ (fs : List (Sub → Verdict)) (s : Sepn),
    thread (fs.map Stage.sub) (mkSep pv e s) =
      ⟨mkSep pv e (feedDep (fs.map (fun f s => f ⟨e, if s = .filtrate then pv else 0⟩)) s).1,
       (statesOf (fs.map (fun f s => f ⟨e, if s = .filtrate then pv else 0⟩)) s).map
         (fun t => some (mkSep pv e t)),
       (feedDep (fs.map (fun f s => f ⟨e, if s = .filtrate then pv else 0⟩)) s).2⟩
  | [], s => rfl
  | f :: fs, s => by
    simp only [List.map_cons, thread, actSub_mkSep, thread_layers pv e fs, feedDep, statesOf]
    congr 1
    exact Nat.add_comm _ _

/-- the `GlobWalker` adaptor is `applyVerdict` on a filtrate of `WalkTree` -/
theorem actGlob_filtrate (pv : Nat) (g : Entry → Verdict) (e : Entry) :
    (Stage.glob pv g).act (.filtrate ⟨e, 0⟩) =
      ⟨mkSep pv e (applyVerdict .filtrate (g e)).1, some (.filtrate ⟨e, 0⟩),
        if (applyVerdict .filtrate (g e)).2 then 1 else 0⟩ := by
  simp only [Stage.act, actGlob, applyGlob]
  cases g e <;> rfl

/-- the calls of the `GlobWalker` closure during the feed of an entry: one, on the filtrate -/
def Spec.globCalls (S : Spec) (e : Entry) : List (Option Sep) :=
  match S.glob with
  | some _ => [some (.filtrate ⟨e, 0⟩)]
  | none => []

theorem Spec.globCalls_length (S : Spec) (e : Entry) : (S.globCalls e).length = S.globStages.length := by
  unfold Spec.globCalls Spec.globStages; cases S.glob <;> rfl

/-- **the stages of a walk on one entry are the collapsed decision**: the separation handed to the
    consumer is the state `Spec.decide` computes (with the payload that state has), the walk is
    cancelled as often as `Spec.decide` counts, and the function of layer `i` is called once, on the
    separation `Spec.shown` says -/
theorem Spec.obsOf_ok (S : Spec) (e : Entry) :
    S.chain.obsOf (.ok e) =
      ⟨mkSep S.pivot e (S.decide e).1,
       S.globCalls e ++ (S.shown e).map (fun t => some (mkSep S.pivot e t)),
       (S.decide e).2⟩ := by
  unfold Chain.obsOf Spec.chain Spec.stages
  rw [List.reverse_reverse, thread_append]
  unfold Spec.decide Spec.stack Spec.shown Spec.entryState Spec.layerFns Spec.globCalls Spec.globFns
    Spec.globStages Spec.pivot
  cases S.glob with
  | none =>
    have h0 : Sep.ofItem (.ok e) = mkSep 0 e .filtrate := rfl
    simp only [thread, h0, thread_layers, List.nil_append, feedDep, Nat.zero_add]
  | some g =>
    simp only [thread, Sep.ofItem, actGlob_filtrate, thread_layers, List.nil_append, feedDep,
      List.cons_append, Nat.add_zero, List.singleton_append]
    congr 1
    exact Nat.add_comm _ _

theorem Spec.obsOf_err (S : Spec) (p : List Str) (a : Bool) :
    S.chain.obsOf (.err p a) = ⟨.error p a, S.chain.reverse.map (fun _ => none), 0⟩ := by
  simp only [Chain.obsOf, Sep.ofItem, thread_error]

theorem Spec.cancelsB_eq (S : Spec) : S.chain.cancelsB = S.cancels := by
  funext e
  simp only [Chain.cancelsB, S.obsOf_ok, Spec.cancels]

/-! ### structure alone: a `Not` / `FilterEntry` adaptor is called once per feed, wherever it sits -/

theorem actSub_call (f : Sub → Verdict) (sep : Sep) :
    (actSub f sep).call = if sep.state?.isSome then some sep else none := by
  cases sep with
  | error p a => rfl
  | filtrate x => simp only [actSub, applySub]; cases f x <;> rfl
  | node e => simp only [actSub, applySub]; cases f ⟨e, 0⟩ <;> rfl
  | tree e => simp only [actSub, applySub]; cases f ⟨e, 0⟩ <;> rfl

theorem state_isSome_iff (sep : Sep) : sep.state?.isSome = (sep.item.entry?).isSome := by
  cases sep <;> rfl

theorem act_state_isSome (st : Stage) (sep : Sep) : (st.act sep).sep.state?.isSome = sep.state?.isSome := by
  rw [state_isSome_iff, state_isSome_iff, act_item]

/-- in ANY chain, the function of a `Not` / `FilterEntry` adaptor at ANY position `j` is called
    during a feed exactly when the item pulled is an entry (not an error) — whatever the adaptors
    below have made of it, residue included — once, and on that entry -/
theorem thread_sub_called : ∀ (l : List Stage) (j : Nat) (f : Sub → Verdict) (sep : Sep),
    l[j]? = some (.sub f) →
    ((thread l sep).callOf j).map Sep.item = if sep.state?.isSome then some sep.item else none
  | [], _, _, _, h => by cases h
  | st :: rest, 0, f, sep, h => by
    simp only [List.getElem?_cons_zero, Option.some.injEq] at h
    subst h
    simp only [Obs.callOf, thread, List.getElem?_cons_zero, Option.join_some, Stage.act, actSub_call]
    split <;> rfl
  | st :: rest, j + 1, f, sep, h => by
    simp only [List.getElem?_cons_succ] at h
    have ih := thread_sub_called rest j f (st.act sep).sep h
    simp only [Obs.callOf, thread, List.getElem?_cons_succ] at ih ⊢
    rw [ih, act_state_isSome, act_item]

theorem obs_log (l : List Stage) (j : Nat) (f : Sub → Verdict) (it : Item) (h : l[j]? = some (.sub f)) :
    okEntries ((((thread l (Sep.ofItem it)).callOf j).toList).map Sep.item) =
      okEntries [(thread l (Sep.ofItem it)).sep.item] := by
  have hc := thread_sub_called l j f (Sep.ofItem it) h
  rw [thread_item]
  cases it with
  | err p a =>
    have hc' : (thread l (Sep.error p a)).callOf j = none := by
      simpa [Sep.ofItem, Sep.state?] using hc
    simp only [Sep.ofItem, hc', Option.toList_none, List.map_nil]
    rfl
  | ok e =>
    have hc' : ∃ sp, (thread l (Sep.filtrate ⟨e, 0⟩)).callOf j = some sp ∧ sp.item = .ok e := by
      simpa [Sep.ofItem, Sep.state?, Sep.item] using hc
    obtain ⟨sp, hsp, hspi⟩ := hc'
    simp only [Sep.ofItem, hsp, Option.toList_some, List.map_cons, List.map_nil, hspi]
    rfl

/-- **"every layer observes every fed entry exactly once" is a consequence of the structure of the
    chain** (no model of what a layer observes is assumed): for any chain `c`, any position `j` of
    a `Not` / `FilterEntry` adaptor in it, any state of the machine, any bounds — the entries its
    function is called on over the whole walk are the Ok entries pulled from `WalkTree`, each as
    often as it is pulled, in that order -/
theorem sub_log_is_pulled (c : Chain) (mn : Nat) (mx : Option Nat) (k : Nat) (m : MState)
    (j : Nat) (f : Sub → Verdict) (hj : c.reverse[j]? = some (.sub f)) :
    okEntries ((callLog j (c.run mn mx k m)).map Sep.item) = okEntries (pulled (c.run mn mx k m)) := by
  induction k generalizing m with
  | zero => rfl
  | succ k ih =>
    simp only [Chain.run]
    cases hf : c.feed mn mx m with
    | none => rfl
    | some r =>
      obtain ⟨o, m'⟩ := r
      rw [feed_eq] at hf
      cases hp : m.pull mn mx with
      | none => rw [hp] at hf; cases hf
      | some r0 =>
        obtain ⟨it, m0⟩ := r0
        rw [hp] at hf
        simp only [Option.map_some, Option.some.injEq, Prod.mk.injEq] at hf
        obtain ⟨rfl, rfl⟩ := hf
        have h1 := obs_log c.reverse j f it hj
        have h2 := ih (m0.cancelN (thread c.reverse (Sep.ofItem it)).cancels)
        show okEntries ((callLog j (_ :: _)).map Sep.item) = okEntries (pulled (_ :: _))
        have e1 : ∀ (o : Obs) (t : List Obs), callLog j (o :: t) = (o.callOf j).toList ++ callLog j t := by
          intro o t
          simp only [callLog, List.filterMap_cons]
          cases o.callOf j <;> rfl
        have e2 : ∀ (o : Obs) (t : List Obs), pulled (o :: t) = [o.sep.item] ++ pulled t := fun _ _ => rfl
        rw [e1, e2, List.map_append, okEntries_append, okEntries_append, h1, h2]

/-! ## Part 5: the chain of a `Pipeline` against the collapsed model of `Wax/Walk.lean` -/

theorem filterMap_congr' {α β : Type} {f g : α → Option β} : ∀ {l : List α},
    (∀ a ∈ l, f a = g a) → l.filterMap f = l.filterMap g
  | [], _ => rfl
  | a :: l, h => by
    simp only [List.filterMap_cons, h a (List.mem_cons_self ..),
      filterMap_congr' (l := l) (fun b hb => h b (List.mem_cons_of_mem _ hb))]

theorem toNat_ite (b : Bool) : b.toNat = if b then 1 else 0 := by cases b <;> rfl

theorem le_one_ite (n : Nat) (h : n ≤ 1) : n = if (n != 0) then 1 else 0 := by
  obtain rfl | rfl : n = 0 ∨ n = 1 := by omega
  · rfl
  · rfl

def specOf (π : Pipeline) : Spec :=
  ⟨π.glob.map (fun g => (g.pivot, fun e => (globVerdict π.σ g (π.path e) e.depth).1)),
   π.layers.map (layerFn π)⟩

theorem ofPipeline_eq (π : Pipeline) : ofPipeline π = (specOf π).chain := by
  unfold ofPipeline Spec.chain Spec.stages Spec.globStages globStage specOf
  cases π.glob <;> simp [List.map_map, Function.comp_def]

theorem spec_pivot (π : Pipeline) : (specOf π).pivot = π.pivot := by
  unfold Spec.pivot specOf Pipeline.pivot
  cases π.glob <;> rfl

theorem spec_globFns (π : Pipeline) (e : Entry) : (specOf π).globFns e = π.globFns e := by
  unfold Spec.globFns specOf Pipeline.globFns
  cases π.glob <;> rfl

/-- the function of a layer on a substituent IS the verdict function of the collapsed model: the
    state an entry arrives in matters through the pivot of the payload only -/
theorem layerFn_verdict (π : Pipeline) (l : Layer) (e : Entry) (s : Sepn) :
    layerFn π l ⟨e, if s = .filtrate then π.pivot else 0⟩ = l.verdict π e s := by
  cases l <;> rfl

theorem spec_layerFns (π : Pipeline) (e : Entry) : (specOf π).layerFns e = π.layerFns e := by
  unfold Spec.layerFns Pipeline.layerFns
  rw [spec_pivot]
  simp only [specOf, List.map_map]
  apply List.map_congr_left
  intro l _
  funext s
  exact layerFn_verdict π l e s

theorem spec_stack (π : Pipeline) (e : Entry) : (specOf π).stack e = π.stack e := by
  rw [Spec.stack, spec_globFns, spec_layerFns, Pipeline.stack_eq]

theorem spec_decide (π : Pipeline) (e : Entry) : (specOf π).decide e = π.decide e := by
  rw [Spec.decide, spec_stack]; rfl

theorem spec_cancels (π : Pipeline) : (specOf π).cancels = π.cancels := by
  funext e; rw [Spec.cancels, spec_decide]; rfl

theorem spec_shown (π : Pipeline) (e : Entry) : (specOf π).shown e = π.shown e := by
  rw [Spec.shown, Spec.entryState, spec_globFns, spec_layerFns]; rfl

/-- the trace of the whole walk of `π`, chain level, with the fuel the machine needs -/
def trace (π : Pipeline) (mn : Nat) (mx : Option Nat) (rv : RootView) : List Obs :=
  (ofPipeline π).run mn mx (MState.init mn rv).size (MState.init mn rv)

/-- the separation the collapsed model gives an item: the state `π.decide` computes, with the
    payload that state has (a filtrate of a glob walk is a `GlobEntry` with the pivot) -/
def sepOf (π : Pipeline) : Item → Sep
  | .ok e => mkSep π.pivot e (π.decide e).1
  | .err p a => .error p a

/-- how often the collapsed model cancels the walk at an item -/
def cancelCount (π : Pipeline) : Item → Nat
  | .ok e => (π.decide e).2
  | .err .. => 0

/-- the position, counted from `WalkTree`, of layer `i` of `π.layers` in the chain -/
def layerPos (π : Pipeline) (i : Nat) : Nat := (globStage π).length + i

theorem obsOf_pipeline_ok (π : Pipeline) (e : Entry) :
    (ofPipeline π).obsOf (.ok e) =
      ⟨mkSep π.pivot e (π.decide e).1,
       (specOf π).globCalls e ++ (π.shown e).map (fun t => some (mkSep π.pivot e t)),
       (π.decide e).2⟩ := by
  rw [ofPipeline_eq, Spec.obsOf_ok, spec_pivot, spec_decide, spec_shown]

theorem cancelsB_pipeline (π : Pipeline) : (ofPipeline π).cancelsB = π.cancels := by
  rw [ofPipeline_eq, Spec.cancelsB_eq, spec_cancels]

/-- the trace of the chain, feed for feed, over the items of the collapsed model -/
theorem trace_eq (π : Pipeline) (mn : Nat) (mx : Option Nat) (rv : RootView) :
    trace π mn mx rv = (π.items mn mx rv).map (ofPipeline π).obsOf := by
  rw [trace, run_refines _ mn mx rv _ (Nat.le_refl _), cancelsB_pipeline]; rfl

/-- **(a) REFINEMENT, separations**: for every walk of the model (any glob or none, any stack of
    `not` / `filter_entry` layers), every tree as walkdir sees it under either link behaviour, any
    depth bounds — the separations the consumer of the CHAIN sees, feed for feed, are the items of
    the COLLAPSED model (`π.items`: same entries, same order), each in the final separation state
    `π.decide` computes, with the payload that state has; and the items pulled from `WalkTree` are
    `π.items` -/
theorem chain_refines_separations (π : Pipeline) (mn : Nat) (mx : Option Nat) (rv : RootView) :
    (trace π mn mx rv).map (·.sep) = (π.items mn mx rv).map (sepOf π) ∧
    pulled (trace π mn mx rv) = π.items mn mx rv := by
  rw [trace_eq]
  refine ⟨?_, ?_⟩
  · rw [List.map_map]
    apply List.map_congr_left
    intro it _
    cases it with
    | ok e => simp only [Function.comp, obsOf_pipeline_ok, sepOf]
    | err p a => simp only [Function.comp, Chain.obsOf, Sep.ofItem, thread_error, sepOf]
  · simp only [pulled, List.map_map]
    conv => rhs; rw [← List.map_id (π.items mn mx rv)]
    apply List.map_congr_left
    intro it _
    simp only [Function.comp, Chain.obsOf, thread_item, id]
    cases it <;> rfl

/-- **(b) REFINEMENT, cancellations**: during the feed of an item `cancel_walk_tree` reaches
    `WalkTree` exactly `(π.decide e).2` times: once if `π.cancels e` — which is when the entry ends
    up as tree residue — and not at all otherwise, never twice, and never for an error item; every
    call acts on the machine before the next item is pulled (that is `run_refines`: the trace is the
    machine `walkItems` driven by `π.cancels`) -/
theorem chain_refines_cancels (π : Pipeline) (mn : Nat) (mx : Option Nat) (rv : RootView) :
    (trace π mn mx rv).map (·.cancels) = (π.items mn mx rv).map (cancelCount π) ∧
    (∀ o ∈ trace π mn mx rv, o.cancels = (if o.sep.isTree then 1 else 0)) ∧
    (∀ e : Entry, cancelCount π (.ok e) = if π.cancels e then 1 else 0) := by
  refine ⟨?_, ?_, ?_⟩
  · rw [trace_eq, List.map_map]
    apply List.map_congr_left
    intro it _
    cases it with
    | ok e => simp only [Function.comp, obsOf_pipeline_ok, cancelCount]
    | err p a => simp only [Function.comp, Chain.obsOf, Sep.ofItem, thread_error, cancelCount]
  · intro o ho
    rw [trace_eq, List.mem_map] at ho
    obtain ⟨it, _, rfl⟩ := ho
    have h := (thread_cancels (ofPipeline π).reverse (Sep.ofItem it)).1
    have h0 : (Sep.ofItem it).isTree = false := by cases it <;> rfl
    rw [h0] at h
    simp only [Chain.obsOf, h, Bool.not_false, Bool.true_and]
    exact toNat_ite _
  · intro e
    exact le_one_ite _ (decide_cancels_le_one π e)

theorem getElem?_append_add {α : Type} (l₁ l₂ : List α) (i : Nat) :
    (l₁ ++ l₂)[l₁.length + i]? = l₂[i]? := by
  rw [List.getElem?_append_right (Nat.le_add_right _ _), Nat.add_sub_cancel_left]

theorem callOf_pipeline (π : Pipeline) (i : Nat) (it : Item) :
    ((ofPipeline π).obsOf it).callOf (layerPos π i) =
      (π.showTo i it).map (fun es => mkSep π.pivot es.1 es.2) := by
  cases it with
  | err p a =>
    simp only [Chain.obsOf, Sep.ofItem, thread_error, Obs.callOf, Pipeline.showTo, Option.map_none]
    cases h : (List.map (fun _ => (none : Option Sep)) (ofPipeline π).reverse)[layerPos π i]? with
    | none => rfl
    | some x =>
      rw [List.getElem?_eq_some_iff] at h
      obtain ⟨_, h⟩ := h
      simp only [List.getElem_map] at h
      subst h; rfl
  | ok e =>
    have hl : layerPos π i = ((specOf π).globCalls e).length + i := by
      rw [Spec.globCalls_length]
      unfold layerPos globStage Spec.globStages specOf
      cases π.glob <;> rfl
    simp only [obsOf_pipeline_ok, Obs.callOf, hl, getElem?_append_add, List.getElem?_map,
      Pipeline.showTo, Option.map_map]
    cases (π.shown e)[i]? <;> rfl

/-- **(c) REFINEMENT, logs**: the call log of the function of layer `i` of the stack, read off the
    trace of the CHAIN (the separations on whose substituent `FilterAny::residue` resp. the
    `filter_entry` function is called, in the order of the calls), is `Pipeline.observedS` — which
    `Wax/Proofs/WalkLogs.lean` DEFINES as what the layer observes — entry for entry, state for
    state, with the payload the state has.  For every `i` (both sides are empty where there is no
    layer). -/
theorem chain_log_eq_observedS (π : Pipeline) (mn : Nat) (mx : Option Nat) (rv : RootView) (i : Nat) :
    callLog (layerPos π i) (trace π mn mx rv) =
      (π.observedS mn mx rv i).map (fun es => mkSep π.pivot es.1 es.2) ∧
    (callLog (layerPos π i) (trace π mn mx rv)).filterMap Sep.state? = π.observedS mn mx rv i := by
  have h1 : callLog (layerPos π i) (trace π mn mx rv) =
      (π.observedS mn mx rv i).map (fun es => mkSep π.pivot es.1 es.2) := by
    rw [trace_eq, callLog, List.filterMap_map, Pipeline.observedS, List.map_filterMap]
    apply filterMap_congr'
    intro it _
    exact callOf_pipeline π i it
  refine ⟨h1, ?_⟩
  rw [h1, List.filterMap_map]
  have : (Sep.state? ∘ fun es : Entry × Sepn => mkSep π.pivot es.1 es.2) = some := by
    funext es; exact mkSep_state _ _ _
  rw [this, List.filterMap_some]

/-- ... and so is `Pipeline.observed`: the entries alone -/
theorem chain_log_eq_observed (π : Pipeline) (mn : Nat) (mx : Option Nat) (rv : RootView) (i : Nat) :
    okEntries ((callLog (layerPos π i) (trace π mn mx rv)).map Sep.item) = π.observed mn mx rv i := by
  rw [(chain_log_eq_observedS π mn mx rv i).1, Pipeline.observed, List.map_map]
  unfold okEntries
  rw [List.filterMap_map]
  have : (Item.entry? ∘ Sep.item ∘ fun es : Entry × Sepn => mkSep π.pivot es.1 es.2)
      = fun es => some es.1 := by
    funext es; simp only [Function.comp, mkSep_item, Item.entry?]
  rw [this]
  exact List.filterMap_eq_map (f := fun es : Entry × Sepn => es.1) ▸ rfl

/-- the `GlobWalker` closure is called once per entry pulled, on the filtrate `WalkTree` yields -/
theorem chain_log_glob (π : Pipeline) (g : GlobProgram) (hg : π.glob = some g) (mn : Nat)
    (mx : Option Nat) (rv : RootView) :
    callLog 0 (trace π mn mx rv) = (okEntries (π.items mn mx rv)).map (fun e => .filtrate ⟨e, 0⟩) := by
  rw [trace_eq, callLog, List.filterMap_map, okEntries, List.map_filterMap]
  apply filterMap_congr'
  intro it _
  cases it with
  | err p a =>
    simp only [Function.comp, Chain.obsOf, Sep.ofItem, thread_error, Obs.callOf, Item.entry?,
      Option.map_none]
    have hne : (ofPipeline π).reverse ≠ [] := by
      rw [ofPipeline_eq, Spec.chain, List.reverse_reverse, Spec.stages, Spec.globStages, specOf, hg]
      simp
    cases hc : (ofPipeline π).reverse with
    | nil => exact absurd hc hne
    | cons st rest => rfl
  | ok e =>
    simp only [Function.comp, obsOf_pipeline_ok, Obs.callOf, Item.entry?, Option.map_some,
      Spec.globCalls, specOf, hg, Option.map_some, List.singleton_append, List.getElem?_cons_zero,
      Option.join_some]

theorem yield_mkSep (pv : Nat) (e : Entry) (s : Sepn) :
    (mkSep pv e s).yield? = if decide (s = .filtrate) = true then some (Item.ok e) else none := by
  cases s <;> rfl

/-- **(a), the consumer**: iterating the outermost adaptor of the chain yields `Pipeline.yielded`,
    the items the collapsed model hands to its consumer — same items, same order -/
theorem chain_yields (π : Pipeline) (mn : Nat) (mx : Option Nat) (rv : RootView) :
    (ofPipeline π).collect mn mx (MState.init mn rv).size (MState.init mn rv) = π.yielded mn mx rv := by
  rw [collect_eq mn mx _ _ _ (Nat.le_refl _)]
  show yielded (trace π mn mx rv) = _
  rw [trace_eq, yielded, List.filterMap_map, Pipeline.yielded]
  rw [← List.filterMap_eq_filter]
  apply filterMap_congr'
  intro it _
  cases it with
  | err p a => simp only [Function.comp, Chain.obsOf, Sep.ofItem, thread_error, Sep.yield?]; rfl
  | ok e =>
    simp only [Function.comp, obsOf_pipeline_ok, Pipeline.keeps, Option.guard]
    exact yield_mkSep _ _ _

/-! ## Part 6: corollaries at chain level -/

/-! ### `observes_all_once` from the structure of the chain -/

theorem layer_stage (π : Pipeline) (i : Nat) (l : Layer) (hl : π.layers[i]? = some l) :
    (ofPipeline π).reverse[layerPos π i]? = some (.sub (layerFn π l)) := by
  unfold ofPipeline layerPos
  rw [List.reverse_append, List.reverse_reverse]
  have hlen : (globStage π).reverse.length = (globStage π).length := List.length_reverse
  rw [← hlen, getElem?_append_add, List.getElem?_map, hl]
  rfl

/-- **C16, logs, from the structure (`observes_all_once` as a theorem about the chain)**: the
    entries the function of layer `i` is called on, read off the trace of the chain, are the Ok
    entries pulled from `WalkTree` — whatever the layers below have made of them — and these are the
    Ok entries of the structural traversal pruned by `π.cancels`.  No definition of "what a layer
    observes" enters: the left-hand side is the call log of the iterator-level model. -/
theorem chain_observes_all_once (π : Pipeline) (mn : Nat) (mx : Option Nat) (rv : RootView) (i : Nat)
    (hi : i < π.layers.length) :
    okEntries ((callLog (layerPos π i) (trace π mn mx rv)).map Sep.item)
      = okEntries (pulled (trace π mn mx rv)) ∧
    okEntries (pulled (trace π mn mx rv)) = okEntries (π.traversal mn mx rv) := by
  have hl : π.layers[i]? = some π.layers[i] := List.getElem?_eq_getElem hi
  refine ⟨sub_log_is_pulled _ mn mx _ _ _ _ (layer_stage π i _ hl), ?_⟩
  rw [(chain_refines_separations π mn mx rv).2, Pipeline.items_eq_traversal]

/-- `observes_all_once` of `Wax/Proofs/WalkLogs.lean`, re-proved THROUGH the chain: `π.observed` is
    the call log of the chain (`chain_log_eq_observed`), and the call log of the chain is the list
    of Ok entries pulled (`sub_log_is_pulled`, structure alone) -/
theorem observes_all_once_via_chain (π : Pipeline) (mn : Nat) (mx : Option Nat) (rv : RootView)
    (i : Nat) (hi : i < π.layers.length) :
    π.observed mn mx rv i = okEntries (π.traversal mn mx rv) := by
  rw [← chain_log_eq_observed, (chain_observes_all_once π mn mx rv i hi).1,
    (chain_observes_all_once π mn mx rv i hi).2]

/-! ### nothing beneath a discarded tree is pulled at all -/

/-- **C13 at chain level**: the entries pulled from `WalkTree` during the whole walk are exactly
    the entries of the unpruned, unbounded traversal that lie within the depth bounds and are not
    beneath a reported directory whose feed ended in tree residue.  So nothing beneath a discarded
    tree is pulled at all — it is neither read, nor shown to any layer, nor handed up as residue. -/
theorem chain_nothing_beneath_discarded (π : Pipeline) (mn : Nat) (mx : Option Nat) (rv : RootView) :
    okEntries (pulled (trace π mn mx rv)) =
      (okEntries (walkItems 0 none never rv)).filter (fun e =>
        Walk.within mn mx e.depth && !cutAbove (silenced mn π.cancels) rv.isDirRoot e) ∧
    (∀ e ∈ okEntries (pulled (trace π mn mx rv)), ∀ k, k < e.names.length →
      (k ≠ 0 ∨ rv.isDirRoot = true) → mn ≤ k →
      ((ofPipeline π).obsOf (.ok ⟨e.names.take k, .d⟩)).sep.isTree = false) := by
  have h1 : okEntries (pulled (trace π mn mx rv)) =
      (okEntries (walkItems 0 none never rv)).filter (fun e =>
        Walk.within mn mx e.depth && !cutAbove (silenced mn π.cancels) rv.isDirRoot e) := by
    rw [(chain_refines_separations π mn mx rv).2, Pipeline.items, walk_cut_eq_filter_bounded]
  refine ⟨h1, ?_⟩
  intro e he k hk hg hm
  rw [h1, List.mem_filter] at he
  simp only [Bool.and_eq_true, Bool.not_eq_true', cutAbove_eq_false_iff] at he
  have := he.2.2 k hk hg
  have hlen : (e.names.take k).length = k := by rw [List.length_take]; omega
  have hc : π.cancels ⟨e.names.take k, .d⟩ = false := by
    simpa [silenced, Entry.depth, hlen, hm] using this
  rw [obsOf_pipeline_ok]
  cases hd : (π.decide ⟨e.names.take k, .d⟩).1 with
  | filtrate => rfl
  | node => rfl
  | tree =>
    have := (decide_cancels_iff_tree π _).mpr hd
    rw [hc] at this; cases this

/-- ... and, composed with `layer_consulted_exact` of `Wax/Proofs/WalkStack.lean`: the call log of
    every layer of the CHAIN is that same list — no function is consulted beneath a discarded
    tree — and has no entry twice when no directory has two children of the same name -/
theorem chain_layer_consulted_exact (π : Pipeline) (mn : Nat) (mx : Option Nat) (rv : RootView)
    (i : Nat) (hi : i < π.layers.length) :
    okEntries ((callLog (layerPos π i) (trace π mn mx rv)).map Sep.item) =
      (okEntries (walkItems 0 none never rv)).filter (fun e =>
        Walk.within mn mx e.depth && !cutAbove (silenced mn π.cancels) rv.isDirRoot e) ∧
    (rv.distinct = true →
      (okEntries ((callLog (layerPos π i) (trace π mn mx rv)).map Sep.item)).Nodup) := by
  rw [chain_log_eq_observed]
  have h := layer_consulted_exact π mn mx rv i hi
  exact ⟨h.1, fun hd => (h.2.2 hd).1⟩

/-! ### order independence at chain level -/

/-- **C16 at chain level, the model's walks**: under the proviso `Pipeline.StateFree` (decidably:
    no pivot, or `filter_entry` layers only), building the chain with the layers in another order
    changes neither the items pulled from `WalkTree`, nor what the consumer receives (entries and
    errors, in order), nor the call log of any layer whatever position it is moved to.  Without the
    proviso: `residue_pivot_order_dependence`. -/
theorem chain_order_independent (π : Pipeline) (h : π.StateFree) (ls : List Layer)
    (hp : π.layers.Perm ls) (mn : Nat) (mx : Option Nat) (rv : RootView) :
    pulled (trace (π.withLayers ls) mn mx rv) = pulled (trace π mn mx rv) ∧
    (ofPipeline (π.withLayers ls)).collect mn mx (MState.init mn rv).size (MState.init mn rv) =
      (ofPipeline π).collect mn mx (MState.init mn rv).size (MState.init mn rv) ∧
    (∀ i j, i < π.layers.length → j < ls.length →
      okEntries ((callLog (layerPos (π.withLayers ls) j) (trace (π.withLayers ls) mn mx rv)).map Sep.item) =
        okEntries ((callLog (layerPos π i) (trace π mn mx rv)).map Sep.item)) := by
  refine ⟨?_, ?_, ?_⟩
  · rw [(chain_refines_separations _ mn mx rv).2, (chain_refines_separations _ mn mx rv).2,
      items_perm π h ls hp]
  · rw [chain_yields, chain_yields, yielded_perm π h ls hp]
  · intro i j hi hj
    rw [chain_log_eq_observed, chain_log_eq_observed, observed_perm π h ls hp mn mx rv i j hi hj]

/-! ### walks with arbitrary `filter_entry` functions (`SWalk` of `Wax/Proofs/WalkStack.lean`) -/

def slayerFn (W : SWalk) : SLayer → Sub → Verdict
  | .not t => fun x =>
    (notProgram t).residue W.σ (Path.splitAtDepth (W.path x.entry) (x.entry.depth + x.pivot)).2
  | .filter f => fun x => f x.entry

def specOfS (W : SWalk) : Spec :=
  ⟨W.glob.map (fun g => (g.pivot, fun e => (globVerdict W.σ g (W.path e) e.depth).1)),
   W.layers.map (slayerFn W)⟩

/-- the chain of a walk with arbitrary `filter_entry` functions -/
def ofSWalk (W : SWalk) : Chain := (specOfS W).chain

theorem specS_stack (W : SWalk) (e : Entry) : (specOfS W).stack e = W.stack e := by
  have hp : (specOfS W).pivot = W.pivot := by
    unfold Spec.pivot specOfS SWalk.pivot; cases W.glob <;> rfl
  unfold Spec.stack Spec.globFns Spec.layerFns SWalk.stack
  rw [hp]
  congr 1
  · unfold specOfS; cases W.glob <;> rfl
  · simp only [specOfS, List.map_map]
    apply List.map_congr_left
    intro l _
    funext s
    cases l <;> rfl

theorem specS_decide (W : SWalk) (e : Entry) : (specOfS W).decide e = W.decide e := by
  rw [Spec.decide, specS_stack]; rfl

theorem specS_cancels (W : SWalk) : (specOfS W).cancels = W.cancels := by
  funext e; rw [Spec.cancels, specS_decide]; rfl

/-- the refinement for a described chain: trace, items pulled, entries received -/
theorem Spec.refines (S : Spec) (mn : Nat) (mx : Option Nat) (rv : RootView) :
    S.chain.run mn mx (MState.init mn rv).size (MState.init mn rv)
      = (walkItems mn mx S.cancels rv).map S.chain.obsOf ∧
    pulled (S.chain.run mn mx (MState.init mn rv).size (MState.init mn rv))
      = walkItems mn mx S.cancels rv ∧
    okEntries (S.chain.collect mn mx (MState.init mn rv).size (MState.init mn rv))
      = (okEntries (walkItems mn mx S.cancels rv)).filter
          (fun e => Decidable.decide ((S.decide e).1 = .filtrate)) := by
  have h1 : S.chain.run mn mx (MState.init mn rv).size (MState.init mn rv)
      = (walkItems mn mx S.cancels rv).map S.chain.obsOf := by
    rw [run_refines _ mn mx rv _ (Nat.le_refl _), Spec.cancelsB_eq]
  refine ⟨h1, ?_, ?_⟩
  · rw [h1]
    simp only [pulled, List.map_map]
    conv => rhs; rw [← List.map_id (walkItems mn mx S.cancels rv)]
    apply List.map_congr_left
    intro it _
    simp only [Function.comp, Chain.obsOf, thread_item, id]
    cases it <;> rfl
  · rw [collect_eq mn mx _ _ _ (Nat.le_refl _), h1]
    generalize walkItems mn mx S.cancels rv = items
    induction items with
    | nil => rfl
    | cons it rest ih =>
      cases it with
      | err p a =>
        simp only [yielded, List.map_cons, List.filterMap_cons, Spec.obsOf_err, Sep.yield?,
          okEntries_err] at ih ⊢
        exact ih
      | ok e =>
        simp only [yielded, List.map_cons, List.filterMap_cons, Spec.obsOf_ok, yield_mkSep,
          okEntries_ok, List.filter_cons] at ih ⊢
        by_cases hd : (S.decide e).1 = .filtrate
        · simp only [hd, decide_true, if_true, okEntries_ok, ih]
        · simp only [hd, decide_false, Bool.false_eq_true, if_false, ih]

/-- **the chain of an `SWalk` refines `SWalk.items` / `SWalk.filtrate`**, the collapsed objects the
    end-to-end theorems of `Wax/Proofs/WalkStack.lean` are about (`walk_stack_exact_partial`, …):
    those theorems therefore hold of what the consumer of the iterator chain receives -/
theorem swalk_chain_refines (W : SWalk) (mn : Nat) (mx : Option Nat) (rv : RootView) :
    pulled ((ofSWalk W).run mn mx (MState.init mn rv).size (MState.init mn rv)) = W.items mn mx rv ∧
    okEntries ((ofSWalk W).collect mn mx (MState.init mn rv).size (MState.init mn rv))
      = W.filtrate mn mx rv := by
  have h := (specOfS W).refines mn mx rv
  refine ⟨?_, ?_⟩
  · rw [ofSWalk, h.2.1, specS_cancels]; rfl
  · rw [ofSWalk, h.2.2, specS_cancels]
    unfold SWalk.filtrate SWalk.items
    apply List.filter_congr
    intro e _
    rw [specS_decide]

/-- **C16 at chain level, any `filter_entry` functions** (composed with `walk_stack_perm`): under
    the proviso (pivot 0, or no negation), permuting the adaptors of the chain changes neither the
    items pulled from `WalkTree` nor the entries the consumer receives nor their order -/
theorem swalk_chain_perm (W : SWalk) (hsf : W.stateFreeB = true) (ls : List SLayer)
    (hp : W.layers.Perm ls) (mn : Nat) (mx : Option Nat) (rv : RootView) :
    pulled ((ofSWalk (W.withLayers ls)).run mn mx (MState.init mn rv).size (MState.init mn rv)) =
      pulled ((ofSWalk W).run mn mx (MState.init mn rv).size (MState.init mn rv)) ∧
    okEntries ((ofSWalk (W.withLayers ls)).collect mn mx (MState.init mn rv).size (MState.init mn rv)) =
      okEntries ((ofSWalk W).collect mn mx (MState.init mn rv).size (MState.init mn rv)) := by
  have h := walk_stack_perm W hsf ls hp mn mx rv
  rw [(swalk_chain_refines _ mn mx rv).1, (swalk_chain_refines _ mn mx rv).1,
    (swalk_chain_refines _ mn mx rv).2, (swalk_chain_refines _ mn mx rv).2]
  exact h

/-- **the whole pipeline, end to end, at iterator level** (composed with `walk_stack_exact_partial`,
    same hypotheses): what the consumer of the CHAIN of adaptors receives is exactly — same entries,
    same order — the entries of the unpruned traversal within the bounds that the glob matches, no
    negation discards, every `filter_entry` function keeps, and that are not beneath a reported
    directory a `filter_entry` function discards as a tree -/
theorem swalk_chain_exact_partial (W : SWalk) (pre : List Str)
    (hsf : W.stateFreeB = true) (hdot : W.σ.dotall = true) (hneg : W.negsOk = true)
    (hglob : W.GlobOk pre) (mn : Nat) (mx : Option Nat) (rv : RootView)
    (hf0 : entryFaithfulP W.root pre [] = true)
    (hfaith : allPathsLB (entryFaithfulP W.root pre) [] (toWTList rv.children) = true) :
    okEntries ((ofSWalk W).collect mn mx (MState.init mn rv).size (MState.init mn rv)) =
      (okEntries (walkItems 0 none never rv)).filter (fun e =>
        Walk.within mn mx e.depth &&
        W.globMatches (WalkTree.relOf (pre ++ e.names)) &&
        negKeeps W.σ W.negs (WalkTree.relOf (pre ++ e.names)) &&
        stackKeeps W.filters e &&
        !cutAbove (silenced mn (stackTree W.filters)) rv.isDirRoot e) := by
  rw [(swalk_chain_refines W mn mx rv).2]
  exact (walk_stack_exact_partial W pre hsf hdot hneg hglob mn mx rv hf0 hfaith).1

/-! ### the `unreachable!()` of the `GlobWalker` closure is not reached -/

/-- the `GlobWalker` adaptor is handed residue (walk/glob.rs:287 would panic) -/
def Stage.panics : Stage → Sep → Bool
  | .glob .., .node _ => true
  | .glob .., .tree _ => true
  | _, _ => false

/-- some stage of the thread hits its unreachable arm -/
def threadPanics : List Stage → Sep → Bool
  | [], _ => false
  | st :: rest, sep => st.panics sep || threadPanics rest (st.act sep).sep

theorem threadPanics_subs : ∀ (fs : List (Sub → Verdict)) (sep : Sep),
    threadPanics (fs.map Stage.sub) sep = false
  | [], _ => rfl
  | f :: fs, sep => by
    simp only [List.map_cons, threadPanics, threadPanics_subs fs, Bool.or_false]
    cases sep <;> rfl

/-- in a chain the API can build (the `GlobWalker` adaptor, if any, directly on `WalkTree`) the
    closure never sees residue: `WalkTree` yields filtrates only -/
theorem Spec.no_unreachable (S : Spec) (it : Item) : threadPanics S.stages (Sep.ofItem it) = false := by
  unfold Spec.stages Spec.globStages
  cases S.glob with
  | none => exact threadPanics_subs _ _
  | some g =>
    simp only [List.singleton_append, threadPanics, threadPanics_subs, Bool.or_false]
    cases it <;> rfl

/-! ## Part 7: the code before the repair 06499ed — the chain cancels TWICE and loses a sibling

Before 06499ed `Separation::filter_map_tree` turned a discarded filtrate into NODE residue after
cancelling (filter.rs:317-320 of the pinned tree).  A second adaptor with a tree verdict on the same
directory then finds node residue, cancels again — `is_dir` is still set, nothing has been pulled in
between — and `skip_current_dir` pops the PARENT directory.  The collapsed model cannot express
this with its one Boolean; the chain can. -/

/-- `Not::feed` / `FilterEntry::feed` with the pinned `filter_map_tree` -/
def applySubPinned (f : Sub → Verdict) (sep : Sep) (m : MState) : Applied :=
  match sep with
  | .filtrate x =>
    match f x with
    | .tree => ⟨.node x.entry, some (.filtrate x), 1, m.cancel⟩
    | _ => applySub f sep m
  | _ => applySub f sep m

def Stage.applyPinned : Stage → Sep → MState → Applied
  | .glob pivot f => applyGlob pivot f
  | .sub f => applySubPinned f

def feedPinned (mn : Nat) (mx : Option Nat) : Chain → MState → Option (Obs × MState)
  | [], m =>
    match m.pull mn mx with
    | none => none
    | some (it, m') => some (⟨Sep.ofItem it, [], 0⟩, m')
  | st :: input, m =>
    match feedPinned mn mx input m with
    | none => none
    | some (o, m') =>
      let r := st.applyPinned o.sep m'
      some (⟨r.sep, o.calls ++ [r.call], o.cancels + r.cancels⟩, r.m)

def runPinned (mn : Nat) (mx : Option Nat) (c : Chain) : Nat → MState → List Obs
  | 0, _ => []
  | k + 1, m =>
    match feedPinned mn mx c m with
    | none => []
    | some (o, m') => o :: runPinned mn mx c k m'

/-- a layer that discards the directory `d` as a tree (as `.not("d/**")` does) -/
def dTree : Sub → Verdict := fun x => if x.entry.names = [['d']] then .tree else .keep

/-- `d/x` and `y` -/
def twoTree : RootView := .dir [.dir ['d'] [.leaf ['x'] .f], .leaf ['y'] .f]

/-- **the pinned chain cancels twice for one entry and loses the sibling `y`** (`.not(x).not(x)`,
    the finding 06499ed repairs); the repaired chain cancels once and reads `y` -/
theorem pinned_chain_twice :
    (runPinned 0 none [.sub dTree, .sub dTree] 6 (MState.init 0 twoTree)).map
        (fun o => (o.sep.item, o.cancels)) = [(.ok ⟨[], .d⟩, 0), (.ok ⟨[['d']], .d⟩, 2)] ∧
    (Chain.run 0 none [.sub dTree, .sub dTree] 6 (MState.init 0 twoTree)).map
        (fun o => (o.sep.item, o.cancels)) =
      [(.ok ⟨[], .d⟩, 0), (.ok ⟨[['d']], .d⟩, 1), (.ok ⟨[['y']], .f⟩, 0)] := by
  decide

/-! ## Part 8: the theorems at work (none is vacuous) -/

/-- `run_refines` / `chain_refines_*` / `chain_log_eq_observedS` on the walk of K-NOT-RESIDUE-PIVOT
    (`kπ`, `kTree` of `Wax/Proofs/WalkLogs.lean`: glob `a/b/**`, then `filter_entry(c ↦ File)`, then
    `not("c/**")`, over `a/b/{c/x.txt, y.txt}`): the fuel bound holds; the chain hands up `c` as TREE
    residue after one cancellation, `c/x.txt` is never pulled, and the call log of the outer layer
    has `c` as NODE residue (a `TreeEntry`: the pivot is gone, which is why `c/**` matches it) -/
example : (MState.init 0 kTree).size ≤ 6 ∧
    (trace kπ 0 none kTree).map (·.sep) =
      [.filtrate ⟨⟨[], .d⟩, 2⟩, .tree ⟨[['c']], .d⟩, .filtrate ⟨⟨["y.txt".toList], .f⟩, 2⟩] ∧
    (trace kπ 0 none kTree).map (·.cancels) = [0, 1, 0] ∧
    callLog (layerPos kπ 1) (trace kπ 0 none kTree) =
      [.filtrate ⟨⟨[], .d⟩, 2⟩, .node ⟨[['c']], .d⟩, .filtrate ⟨⟨["y.txt".toList], .f⟩, 2⟩] ∧
    callLog 0 (trace kπ 0 none kTree) =
      [.filtrate ⟨⟨[], .d⟩, 0⟩, .filtrate ⟨⟨[['c']], .d⟩, 0⟩, .filtrate ⟨⟨["y.txt".toList], .f⟩, 0⟩] ∧
    (ofPipeline kπ).collect 0 none 6 (MState.init 0 kTree) =
      [.ok ⟨[], .d⟩, .ok ⟨["y.txt".toList], .f⟩] := by
  decide

/-- `chain_observes_all_once`, `chain_layer_consulted_exact`, `chain_log_glob`: their hypotheses
    hold for that walk -/
example : 1 < kπ.layers.length ∧ kπ.glob = some kGlob ∧ kTree.distinct = true :=
  ⟨by decide, rfl, by decide⟩

/-- `chain_order_independent`: the proviso holds for the same stack over the same tree walked as a
    path (`pπ`), the reversed stack is a permutation, and both chains yield the same -/
example : pπ.StateFree ∧ pπ.layers.Perm kLayers.reverse ∧
    (ofPipeline (pπ.withLayers kLayers.reverse)).collect 0 none 6 (MState.init 0 kTree) =
      [.ok ⟨[], .d⟩, .ok ⟨["y.txt".toList], .f⟩] :=
  ⟨pπ.stateFree_of_B (by decide), (List.reverse_perm kLayers).symm, by decide⟩

/-- ... and without the proviso the CHAIN depends on the order, as the collapsed model does
    (`residue_pivot_order_dependence`): with `not` below `filter_entry`, `c/x.txt` is pulled and
    yielded -/
example : (ofPipeline (kπ.withLayers kLayers.reverse)).collect 0 none 6 (MState.init 0 kTree) =
    [.ok ⟨[], .d⟩, .ok ⟨[['c'], "x.txt".toList], .f⟩, .ok ⟨["y.txt".toList], .f⟩] := by
  decide

/-- `swalk_chain_perm`: its proviso holds for the path walk `sW` of `Wax/Proofs/WalkStack.lean`
    (arbitrary `filter_entry` functions and negations, no pivot) -/
example : sW.stateFreeB = true ∧ sW.layers.Perm sW.layers.reverse :=
  ⟨by decide, (List.reverse_perm _).symm⟩

/-- error items and `min_depth`: a tree with an unreadable directory and a dangling link followed,
    `min_depth = 1`: the root is not yielded (and cannot be cancelled), the errors pass every stage
    with no function called -/
example :
    (Chain.run 1 none [.sub dTree] 9
        (MState.init 1 (.dir [.dir ['d'] [.errHere], .errChild ['l'] false, .leaf ['y'] .f]))).map
      (fun o => (o.sep, o.calls, o.cancels)) =
      [(.tree ⟨[['d']], .d⟩, [some (.filtrate ⟨⟨[['d']], .d⟩, 0⟩)], 1),
       (.error [['l']] false, [none], 0),
       (.filtrate ⟨⟨[['y']], .f⟩, 0⟩, [some (.filtrate ⟨⟨[['y']], .f⟩, 0⟩)], 0)] := by
  decide

end Wax.Chain
