import Wax.Natural
/-! Spike: soundness of range conjunction w.r.t. the set denotation. -/
namespace Wax

def BVR.mem (x : Nat) : BVR → Prop
  | .lower n => n ≤ x
  | .upper n => x ≤ n
  | .both lo e => lo ≤ x ∧ x ≤ lo + e

def BVR.wf : BVR → Prop
  | .lower n => 0 < n
  | .upper n => 0 < n
  | .both lo e => 0 < lo ∧ 0 < e

theorem cadd_ok {w : String} {a b r : Nat} (h : cadd w a b = .ok r) : r = a + b := by
  unfold cadd at h
  split at h
  · cases h; rfl
  · cases h

theorem bind_ok {α β} {x : P α} {f : α → P β} {r : β} (h : (x >>= f) = .ok r) :
    ∃ a, x = .ok a ∧ f a = .ok r := by
  cases x with
  | error e => cases h
  | ok a => exact ⟨a, rfl, h⟩

/-- characterisation of a bounded result of `fromClosedOpen` when `lo ≤ hi` or `hi` is open -/
theorem fromClosedOpen_bounded_mem {lo : Nat} {hi : Option Nat} {r : BVR}
    (hord : ∀ h, hi = some h → lo ≤ h ∧ 0 < h)
    (h : NRange.fromClosedOpen lo hi = .var (.bounded r)) (x : Nat) :
    r.mem x ↔ lo ≤ x ∧ (∀ h', hi = some h' → x ≤ h') := by
  unfold NRange.fromClosedOpen at h
  cases hi with
  | none =>
    simp only [BVR.tryFrom, Option.getD] at h
    by_cases hl : lo = 0
    · subst hl; simp at h
    · have : (lo == 0) = false := by simpa using hl
      simp [this] at h
      cases h; simp [BVR.mem]
  | some hv =>
    obtain ⟨h1, h2⟩ := hord hv rfl
    have hgt : ¬ lo > hv := by omega
    simp only [hgt, if_false, BVR.tryFrom, Option.getD] at h
    have hv0 : (hv == 0) = false := by simp; omega
    by_cases hl : lo = 0
    · subst hl
      simp [hv0] at h
      cases h; simp [BVR.mem]
    · have hl' : (lo == 0) = false := by simpa using hl
      simp [hl', hv0] at h
      by_cases hlt : lo < hv
      · simp [hlt] at h
        cases h
        simp only [BVR.mem, Option.some.injEq, forall_eq']
        omega
      · simp [hlt] at h

theorem lowerB_sound {a : BVR} {x : Nat} (hx : a.mem x) : a.lowerB.lowerUsize ≤ x := by
  cases a <;> simp_all [BVR.lowerB, NBound.lowerUsize, BVR.mem]

theorem upperB_sound {a : BVR} {u : NBound} (ha : a.wf) (hu : a.upperB = .ok u) :
    u ≠ .zero ∧ ∀ h, u.upperUsize = some h →
      (0 < h ∧ a.lowerB.lowerUsize ≤ h ∧ ∀ x, a.mem x → x ≤ h) := by
  cases a with
  | lower n => simp only [BVR.upperB, pure, Except.pure] at hu; cases hu; simp [NBound.upperUsize]
  | upper n =>
    simp only [BVR.upperB, pure, Except.pure] at hu; cases hu
    simp only [BVR.wf] at ha
    simp [NBound.upperUsize, BVR.lowerB, NBound.lowerUsize, BVR.mem]; omega
  | both lo e =>
    simp only [BVR.upperB] at hu
    obtain ⟨s, hs, h2⟩ := bind_ok hu
    have := cadd_ok hs
    simp only [pure, Except.pure] at h2; cases h2
    simp only [BVR.wf] at ha
    subst this
    simp [NBound.upperUsize, BVR.lowerB, NBound.lowerUsize, BVR.mem]; omega

theorem conj_lower {l1 l2 l : NBound} (h : NBound.conj l1 l2 = .ok l) :
    l.lowerUsize ≤ l1.lowerUsize + l2.lowerUsize := by
  cases l1 <;> cases l2 <;> (try simp only [NBound.conj, pure, Except.pure] at h) <;>
    (try unfold NBound.conj at h) <;> (try simp only [pure, Except.pure] at h) <;>
    first
    | (cases h; simp [NBound.lowerUsize])
    | (obtain ⟨s, hs, h2⟩ := bind_ok h
       have := cadd_ok hs
       (try simp only [pure, Except.pure] at h2); cases h2; subst this; simp [NBound.lowerUsize])

theorem conj_upper {u1 u2 u : NBound} (h : NBound.conj u1 u2 = .ok u) (h1 : u1 ≠ .zero) (h2 : u2 ≠ .zero) :
    ∀ h', u.upperUsize = some h' →
      ∃ a b, u1.upperUsize = some a ∧ u2.upperUsize = some b ∧ h' = a + b := by
  cases u1 <;> cases u2 <;> (try simp only [NBound.conj, pure, Except.pure] at h) <;>
    (try unfold NBound.conj at h) <;> (try simp only [pure, Except.pure] at h) <;>
    first
    | contradiction
    | (cases h; simp [NBound.upperUsize])
    | (obtain ⟨s, hs, h3⟩ := bind_ok h
       have := cadd_ok hs
       (try simp only [pure, Except.pure] at h3); cases h3; subst this; simp [NBound.upperUsize])

/-- whenever the pinned conjunction returns (no overflow, not the unreachable arm) the result
    contains every sum -/
theorem BVR.conj_sound (a b r : BVR) (ha : a.wf) (hb : b.wf) (h : a.conj b = .ok r)
    (x y : Nat) (hx : a.mem x) (hy : b.mem y) : r.mem (x + y) := by
  unfold BVR.conj NRange.byBound at h
  obtain ⟨nr, h1, h2⟩ := bind_ok h
  obtain ⟨lo, hlo, h3⟩ := bind_ok h1
  obtain ⟨au, hau, h4⟩ := bind_ok h3
  obtain ⟨bu, hbu, h5⟩ := bind_ok h4
  obtain ⟨hi, hhi, h6⟩ := bind_ok h5
  cases h6
  simp only [NRange.lowerB, NRange.upperB] at hlo hau hbu
  obtain ⟨hau0, hauS⟩ := upperB_sound ha hau
  obtain ⟨hbu0, hbuS⟩ := upperB_sound hb hbu
  have hL := conj_lower hlo
  have hU := conj_upper hhi hau0 hbu0
  have hxl := lowerB_sound hx
  have hyl := lowerB_sound hy
  cases hnr : NRange.fromClosedOpen lo.lowerUsize hi.upperUsize with
  | inv n => rw [hnr] at h2; cases h2
  | var v =>
    cases v with
    | unbounded => rw [hnr] at h2; cases h2
    | bounded r' =>
      rw [hnr] at h2
      cases h2
      rw [fromClosedOpen_bounded_mem (hi := hi.upperUsize) ?_ hnr]
      · refine ⟨by omega, ?_⟩
        intro h' hh'
        obtain ⟨p, q, hp, hq, rfl⟩ := hU h' hh'
        have := (hauS p hp).2.2 x hx
        have := (hbuS q hq).2.2 y hy
        omega
      · intro h' hh'
        obtain ⟨p, q, hp, hq, rfl⟩ := hU h' hh'
        have := hauS p hp
        have := hbuS q hq
        omega

/-! more operators -/

def VRange.mem (x : Nat) : VRange → Prop
  | .unbounded => True
  | .bounded r => r.mem x

theorem translation_sound {a r : BVR} {k : Nat} (h : a.translation k = .ok r) {x : Nat} (hx : a.mem x) :
    r.mem (x + k) := by
  cases a with
  | lower n =>
    simp only [BVR.translation] at h
    obtain ⟨s, hs, h2⟩ := bind_ok h
    have := cadd_ok hs
    simp only [pure, Except.pure] at h2; cases h2; subst this
    simp only [BVR.mem] at hx ⊢; omega
  | upper n =>
    simp only [BVR.translation] at h
    obtain ⟨s, hs, h2⟩ := bind_ok h
    have := cadd_ok hs
    simp only [pure, Except.pure] at h2; cases h2; subst this
    simp only [BVR.mem] at hx ⊢; omega
  | both lo e =>
    simp only [BVR.translation] at h
    obtain ⟨s, hs, h2⟩ := bind_ok h
    have := cadd_ok hs
    simp only [pure, Except.pure] at h2; cases h2; subst this
    simp only [BVR.mem] at hx ⊢; omega

/-- dropping the upper bound only enlarges the range -/
theorem openedUpper_sound {a : BVR} {x : Nat} (hx : a.mem x) : a.openedUpper.mem x := by
  cases a <;> simp_all [BVR.openedUpper, VRange.mem, BVR.mem]

theorem lowerMin_le_left (a b : NBound) :
    (if lowerLe a b = true then a else b).lowerUsize ≤ a.lowerUsize := by
  by_cases h : lowerLe a b = true
  · simp [h]
  · simp only [h, Bool.false_eq_true, ↓reduceIte]
    cases a <;> cases b <;> (try simp [lowerLe] at h) <;> (try simp [NBound.lowerUsize]) <;>
      (try (simp [NBound.lowerUsize] at h)) <;> (try omega)

theorem upperMax_ge_left (a b : NBound) (h' : Nat)
    (h : (if upperLe a b = true then b else a).upperUsize = some h') :
    ∃ p, a.upperUsize = some p ∧ p ≤ h' := by
  by_cases hc : upperLe a b = true
  · simp only [hc, ↓reduceIte] at h
    cases a <;> cases b <;> (try simp [upperLe] at hc) <;> (try simp [NBound.upperUsize] at h hc ⊢) <;>
      (try omega)
  · simp only [hc, Bool.false_eq_true, ↓reduceIte] at h
    exact ⟨h', h, Nat.le_refl _⟩

/-- the hull of a range and another range or number contains the first -/
theorem union_sound_left {a : BVR} {o : NRange} {v : VRange} (ha : a.wf) (h : a.union o = .ok v) {x : Nat}
    (hx : a.mem x) : v.mem x := by
  unfold BVR.union at h
  obtain ⟨su, hsu, h2⟩ := bind_ok h
  obtain ⟨ou, hou, h3⟩ := bind_ok h2
  simp only [NRange.upperB] at hsu
  obtain ⟨hsu0, hsuS⟩ := upperB_sound ha hsu
  have hxl := lowerB_sound hx
  have hlo := lowerMin_le_left a.lowerB o.lowerB
  have hhi := upperMax_ge_left su ou
  have e1 : (NRange.var (VRange.bounded a)).lowerB = a.lowerB := rfl
  rw [e1] at h3
  generalize (if lowerLe a.lowerB o.lowerB = true then a.lowerB else o.lowerB) = lo at h3 hlo
  generalize (if upperLe su ou = true then ou else su) = hi at h3 hhi
  dsimp only at h3
  cases hnr : NRange.fromClosedOpen lo.lowerUsize hi.upperUsize with
  | inv n => rw [hnr] at h3; cases h3
  | var v' =>
    rw [hnr] at h3
    simp only [pure, Except.pure] at h3
    cases h3
    cases v with
    | unbounded => trivial
    | bounded r =>
      simp only [VRange.mem]
      rw [fromClosedOpen_bounded_mem (hi := hi.upperUsize) ?_ hnr]
      · refine ⟨by omega, ?_⟩
        intro h' hh'
        obtain ⟨p, hp, hle⟩ := hhi h' hh'
        have := (hsuS p hp).2.2 x hx
        omega
      · intro h' hh'
        obtain ⟨p, hp, hle⟩ := hhi h' hh'
        have := hsuS p hp
        omega

end Wax
