import Wax.DepthFold
/-! On a concatenation of leaves the general depth fold is the flat fold of `Wax/Depth.lean`,
so `depth_sound_partial` is a statement about the general model. -/
set_option linter.unusedSimpArgs false
namespace Wax

def isLeafTok : Tok → Bool
  | .alt .. | .cat .. | .rep .. => false
  | _ => true

theorem depthTok_leaf {t : Tok} (h : isLeafTok t = true) : depthTok t = .ok (some (.c (leafTerm t))) := by
  cases t <;> first | rfl | simp [isLeafTok] at h

theorem depthAll_leaves : ∀ (ts : List Tok), (∀ t ∈ ts, isLeafTok t = true) →
    depthAll ts = .ok (ts.map fun t => .c (leafTerm t))
  | [], _ => rfl
  | t :: ts, h => by
    rw [depthAll, depthTok_leaf (h t (by simp)), depthAll_leaves ts (fun u hu => h u (by simp [hu]))]
    rfl

theorem foldlP_c : ∀ (xs : List SepTerm) (a : SepTerm),
    foldlP DTerm.conj (.c a) (xs.map DTerm.c) =
      (xs.foldlM SepTerm.conj a >>= fun r => pure (DTerm.c r))
  | [], a => rfl
  | x :: xs, a => by
    simp only [List.map_cons, foldlP, List.foldlM_cons, DTerm.conj]
    cases h : a.conj x with
    | error e => rfl
    | ok v =>
      simp only [bind, Except.bind, pure, Except.pure]
      exact foldlP_c xs v

/-- the general fold on a concatenation of leaves is the flat fold -/
theorem depthVariance_flat (sp : Span) (ts : List Tok) (h : ∀ t ∈ ts, isLeafTok t = true) :
    depthVariance (.cat sp ts) = depthFlat ts := by
  unfold depthVariance
  rw [depthTok, depthAll_leaves ts h]
  cases ts with
  | nil => rfl
  | cons x xs =>
    simp only [List.map_cons, bind, Except.bind, reduceP, pure, Except.pure, depthFlat]
    have := foldlP_c (xs.map leafTerm) (leafTerm x)
    simp only [List.map_map] at this
    have hmap : (xs.map fun t => DTerm.c (leafTerm t)) = xs.map (DTerm.c ∘ leafTerm) := rfl
    rw [hmap, this]
    cases hf : List.foldlM SepTerm.conj (leafTerm x) (xs.map leafTerm) with
    | error e => rfl
    | ok v => rfl

end Wax
