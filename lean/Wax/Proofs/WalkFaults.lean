import Wax.Proofs.WalkMachine
/-!
Faults are isolated (C20); depth bounds select by depth (C15).

Part 1 (`Wax.WalkTree`, abstract traversal):
* `readableList` removes every error leaf of a forest, `okItems` / `errItems` split an item list.
* `fault_free_part_exact`: `okItems (visitList v p t) = okItems (visitList v p (readableList t))`,
  in the sharper form `visitList_readable`: the fault-free walk of the readable part *is* the list
  of Ok items of the faulty walk (and it has no error item, `readable_no_errors`).
* `visitList_eq_nodeItems`: the items are the nodes of the pruned forest in pre-order, one item per
  node (`prune` empties every directory the verdict discards), hence `error_items_exact`: erasing
  the Ok items leaves the error leaves of the pruned forest, each once, in pre-order.

Part 2 (`Wax.Walk`, `WNode` trees, the structural reading with depth bounds and the machine):
the same for `visitListB mn mx`, transported to `run` by `run_refinesB`, to whole walks
(`walkItems`) and, for `mn = 0`, `mx = none`, tied to the abstract statements through `toWT`.

Part 3 (C15): `bounded_eq_filter`, `bounded_eq_filter_general`, the counterexamples for what does
not hold, `bounded_none_when_excluded`.
-/
set_option linter.unusedSimpArgs false

/-! ## Part 1: the abstract traversal -/

namespace Wax.WalkTree
open Wax

def Node.isErr : Node → Bool
  | .errChild _ => true
  | .errHere => true
  | _ => false

mutual
  /-- the readable part of a tree: every error leaf removed (an error leaf itself has no readable
      part: it is removed by `readableList` from the directory that holds it) -/
  def readable : Node → Node
    | .file n => .file n
    | .dir n cs => .dir n (readableList cs)
    | .errChild n => .errChild n
    | .errHere => .errHere
  def readableList : List Node → List Node
    | [] => []
    | n :: ns => if n.isErr then readableList ns else readable n :: readableList ns
end

def Item.isOk : Item → Bool
  | .ok _ => true
  | .err _ => false

/-- the Ok items of an item list -/
def okItems (l : List Item) : List Item := l.filter Item.isOk
/-- the error items of an item list (the Ok items erased) -/
def errItems (l : List Item) : List Item := l.filter (fun it => !it.isOk)

theorem okItems_append (a b : List Item) : okItems (a ++ b) = okItems a ++ okItems b := by
  simp [okItems]
theorem errItems_append (a b : List Item) : errItems (a ++ b) = errItems a ++ errItems b := by
  simp [errItems]
@[simp] theorem okItems_nil : okItems [] = [] := rfl
@[simp] theorem errItems_nil : errItems [] = [] := rfl
@[simp] theorem okItems_cons_ok (e : Entry) (l : List Item) : okItems (.ok e :: l) = .ok e :: okItems l := rfl
@[simp] theorem okItems_cons_err (q : List Str) (l : List Item) : okItems (.err q :: l) = okItems l := rfl
@[simp] theorem errItems_cons_ok (e : Entry) (l : List Item) : errItems (.ok e :: l) = errItems l := rfl
@[simp] theorem errItems_cons_err (q : List Str) (l : List Item) :
    errItems (.err q :: l) = .err q :: errItems l := rfl
theorem okItems_idem (a : List Item) : okItems (okItems a) = okItems a := by
  simp [okItems, List.filter_filter]
theorem errItems_okItems (a : List Item) : errItems (okItems a) = [] := by
  simp [okItems, errItems, List.filter_filter]

mutual
  theorem visit_readable (v : Entry → Bool) : ∀ (n : Node) (p : List Str),
      okItems (visit v p n) = if n.isErr then [] else visit v p (readable n)
    | .file nm, p => by simp [visit, readable, Node.isErr]
    | .errChild nm, p => by simp [visit, Node.isErr]
    | .errHere, p => by simp [visit, Node.isErr]
    | .dir nm cs, p => by
      have ih := visitList_readable v cs (p ++ [nm])
      by_cases hv : v ⟨p ++ [nm], true⟩ = true
      · simp [visit, readable, Node.isErr, hv]
      · simp [visit, readable, Node.isErr, hv, ih]
  /-- the walk of the readable part is exactly the Ok part of the walk -/
  theorem visitList_readable (v : Entry → Bool) : ∀ (ns : List Node) (p : List Str),
      okItems (visitList v p ns) = visitList v p (readableList ns)
    | [], _ => rfl
    | n :: ns, p => by
      rw [visitList, okItems_append, visit_readable v n p, visitList_readable v ns p, readableList]
      by_cases h : n.isErr = true <;> simp [h, visitList]
end

/-- the fault-free walk yields no error item -/
theorem readable_no_errors (v : Entry → Bool) (ns : List Node) (p : List Str) :
    errItems (visitList v p (readableList ns)) = [] := by
  rw [← visitList_readable, errItems_okItems]

/-- **C20, Ok part**: for every verdict, the Ok entries of a walk with faults are exactly the Ok
    entries of the walk of the readable part, in the same order -/
theorem fault_free_part_exact (v : Entry → Bool) (p : List Str) (t : List Node) :
    okItems (visitList v p t) = okItems (visitList v p (readableList t)) := by
  rw [← visitList_readable, okItems_idem]

/-! ### the error items: the error leaves of the pruned forest, in pre-order -/

mutual
  /-- the forest the verdict leaves: a directory it discards keeps its entry and loses its children -/
  def prune (v : Entry → Bool) (p : List Str) : Node → Node
    | .file n => .file n
    | .dir n cs => .dir n (if v ⟨p ++ [n], true⟩ then [] else pruneList v (p ++ [n]) cs)
    | .errChild n => .errChild n
    | .errHere => .errHere
  def pruneList (v : Entry → Bool) (p : List Str) : List Node → List Node
    | [] => []
    | n :: ns => prune v p n :: pruneList v p ns
end

mutual
  /-- the nodes of a tree in pre-order, one item per node; no verdict is involved -/
  def nodeItems (p : List Str) : Node → List Item
    | .file n => [.ok ⟨p ++ [n], false⟩]
    | .dir n cs => .ok ⟨p ++ [n], true⟩ :: nodeItemsList (p ++ [n]) cs
    | .errChild n => [.err (p ++ [n])]
    | .errHere => [.err p]
  def nodeItemsList (p : List Str) : List Node → List Item
    | [] => []
    | n :: ns => nodeItems p n ++ nodeItemsList p ns
end

mutual
  /-- the error leaves of a tree in pre-order, as the error items they stand for -/
  def errLeaves (p : List Str) : Node → List Item
    | .file _ => []
    | .dir n cs => errLeavesList (p ++ [n]) cs
    | .errChild n => [.err (p ++ [n])]
    | .errHere => [.err p]
  def errLeavesList (p : List Str) : List Node → List Item
    | [] => []
    | n :: ns => errLeaves p n ++ errLeavesList p ns
end

mutual
  /-- the number of nodes of a tree -/
  def Node.count : Node → Nat
    | .dir _ cs => 1 + countList cs
    | _ => 1
  def countList : List Node → Nat
    | [] => 0
    | n :: ns => n.count + countList ns
end

mutual
  theorem visit_eq_nodeItems (v : Entry → Bool) : ∀ (n : Node) (p : List Str),
      visit v p n = nodeItems p (prune v p n)
    | .file nm, p => by simp [visit, prune, nodeItems]
    | .errChild nm, p => by simp [visit, prune, nodeItems]
    | .errHere, p => by simp [visit, prune, nodeItems]
    | .dir nm cs, p => by
      by_cases hv : v ⟨p ++ [nm], true⟩ = true
      · simp [visit, prune, nodeItems, hv, nodeItemsList]
      · simp [visit, prune, nodeItems, hv, visitList_eq_nodeItems v cs (p ++ [nm])]
  /-- **in place**: the walk is the pre-order listing of the pruned forest, one item per node:
      every entry and every error leaf not beneath a discarded directory, once, where it stands -/
  theorem visitList_eq_nodeItems (v : Entry → Bool) : ∀ (ns : List Node) (p : List Str),
      visitList v p ns = nodeItemsList p (pruneList v p ns)
    | [], _ => rfl
    | n :: ns, p => by
      simp [visitList, pruneList, nodeItemsList, visit_eq_nodeItems v n p,
        visitList_eq_nodeItems v ns p]
end

mutual
  theorem errItems_nodeItems : ∀ (n : Node) (p : List Str),
      errItems (nodeItems p n) = errLeaves p n
    | .file nm, p => by simp [nodeItems, errLeaves]
    | .errChild nm, p => by simp [nodeItems, errLeaves]
    | .errHere, p => by simp [nodeItems, errLeaves]
    | .dir nm cs, p => by
      simp [nodeItems, errLeaves, errItems_nodeItemsList cs (p ++ [nm])]
  theorem errItems_nodeItemsList : ∀ (ns : List Node) (p : List Str),
      errItems (nodeItemsList p ns) = errLeavesList p ns
    | [], _ => rfl
    | n :: ns, p => by
      rw [nodeItemsList, errItems_append, errItems_nodeItems n p, errItems_nodeItemsList ns p,
        errLeavesList]
end

/-- **C20, error part**: erasing the Ok items of a walk leaves the error leaves of the pruned
    forest (those not beneath a discarded directory), each once, in pre-order -/
theorem error_items_exact (v : Entry → Bool) (p : List Str) (t : List Node) :
    errItems (visitList v p t) = errLeavesList p (pruneList v p t) := by
  rw [visitList_eq_nodeItems, errItems_nodeItemsList]

mutual
  theorem length_nodeItems : ∀ (n : Node) (p : List Str), (nodeItems p n).length = n.count
    | .file nm, p => by simp [nodeItems, Node.count]
    | .errChild nm, p => by simp [nodeItems, Node.count]
    | .errHere, p => by simp [nodeItems, Node.count]
    | .dir nm cs, p => by
      simp [nodeItems, Node.count, length_nodeItemsList cs (p ++ [nm])]; omega
  theorem length_nodeItemsList : ∀ (ns : List Node) (p : List Str),
      (nodeItemsList p ns).length = countList ns
    | [], _ => rfl
    | n :: ns, p => by
      simp [nodeItemsList, countList, length_nodeItems n p, length_nodeItemsList ns p]
end

/-- one item per node of the pruned forest -/
theorem length_visitList (v : Entry → Bool) (p : List Str) (t : List Node) :
    (visitList v p t).length = countList (pruneList v p t) := by
  rw [visitList_eq_nodeItems, length_nodeItemsList]

mutual
  /-- removing the faults and pruning commute: a fault never changes what is discarded -/
  theorem prune_readable (v : Entry → Bool) : ∀ (n : Node) (p : List Str),
      prune v p (readable n) = readable (prune v p n)
    | .file nm, p => by simp [prune, readable]
    | .errChild nm, p => by simp [prune, readable]
    | .errHere, p => by simp [prune, readable]
    | .dir nm cs, p => by
      by_cases hv : v ⟨p ++ [nm], true⟩ = true
      · simp [prune, readable, hv, readableList]
      · simp [prune, readable, hv, pruneList_readable v cs (p ++ [nm])]
  theorem pruneList_readable (v : Entry → Bool) : ∀ (ns : List Node) (p : List Str),
      pruneList v p (readableList ns) = readableList (pruneList v p ns)
    | [], _ => rfl
    | n :: ns, p => by
      have he : (prune v p n).isErr = n.isErr := by cases n <;> rfl
      by_cases h : n.isErr = true
      · simp [readableList, pruneList, he, h, pruneList_readable v ns p]
      · simp [readableList, pruneList, he, h, pruneList_readable v ns p, prune_readable v n p]
end

/-! ### the statements are not vacuous -/

/-- `a/{x, <unreadable>, b -> broken}`, `c/{y}` (discarded below), a broken link `w` -/
def sampleForest : List Node :=
  [.dir ['a'] [.file ['x'], .errHere, .errChild ['b']], .dir ['c'] [.file ['y'], .errChild ['z']],
   .errChild ['w']]

def sampleVerdict : Entry → Bool := fun e => e.path == [['c']]

example : visitList sampleVerdict [] sampleForest =
    [.ok ⟨[['a']], true⟩, .ok ⟨[['a'], ['x']], false⟩, .err [['a']], .err [['a'], ['b']],
     .ok ⟨[['c']], true⟩, .err [['w']]] := by decide
example : readableList sampleForest = [.dir ['a'] [.file ['x']], .dir ['c'] [.file ['y']]] := by
  rfl
example : okItems (visitList sampleVerdict [] sampleForest) =
    [.ok ⟨[['a']], true⟩, .ok ⟨[['a'], ['x']], false⟩, .ok ⟨[['c']], true⟩] := by decide
example : errItems (visitList sampleVerdict [] sampleForest) =
    [.err [['a']], .err [['a'], ['b']], .err [['w']]] := by decide
example : errLeavesList [] sampleForest =
    [.err [['a']], .err [['a'], ['b']], .err [['c'], ['z']], .err [['w']]] := by decide

end Wax.WalkTree

/-! ## Part 2: `WNode` trees, the structural reading with depth bounds, the machine -/

namespace Wax.Walk
open Wax

def WNode.isErr : WNode → Bool
  | .errChild .. => true
  | .errHere => true
  | _ => false

mutual
  /-- the readable part of what walkdir sees: every error leaf removed -/
  def readable : WNode → WNode
    | .leaf n k => .leaf n k
    | .dir n cs => .dir n (readableList cs)
    | .errChild n a => .errChild n a
    | .errHere => .errHere
  def readableList : List WNode → List WNode
    | [] => []
    | n :: ns => if n.isErr then readableList ns else readable n :: readableList ns
end

def Item.isOk : Item → Bool
  | .ok _ => true
  | .err .. => false

def okItems (l : List Item) : List Item := l.filter Item.isOk
def errItems (l : List Item) : List Item := l.filter (fun it => !it.isOk)

theorem okItems_append (a b : List Item) : okItems (a ++ b) = okItems a ++ okItems b := by
  simp [okItems]
theorem errItems_append (a b : List Item) : errItems (a ++ b) = errItems a ++ errItems b := by
  simp [errItems]
@[simp] theorem okItems_nil : okItems [] = [] := rfl
@[simp] theorem errItems_nil : errItems [] = [] := rfl
@[simp] theorem okItems_cons_ok (e : Entry) (l : List Item) : okItems (.ok e :: l) = .ok e :: okItems l := rfl
@[simp] theorem okItems_cons_err (q : List Str) (a : Bool) (l : List Item) :
    okItems (.err q a :: l) = okItems l := rfl
@[simp] theorem errItems_cons_ok (e : Entry) (l : List Item) : errItems (.ok e :: l) = errItems l := rfl
@[simp] theorem errItems_cons_err (q : List Str) (a : Bool) (l : List Item) :
    errItems (.err q a :: l) = .err q a :: errItems l := rfl
theorem okItems_idem (a : List Item) : okItems (okItems a) = okItems a := by
  simp [okItems, List.filter_filter]
theorem errItems_okItems (a : List Item) : errItems (okItems a) = [] := by
  simp [okItems, errItems, List.filter_filter]

mutual
  theorem visitB_readable (mn : Nat) (mx : Option Nat) (v : Entry → Bool) :
      ∀ (n : WNode) (p : List Str),
      okItems (visitB mn mx v p n) = if n.isErr then [] else visitB mn mx v p (readable n)
    | .leaf nm k, p => by
      by_cases hm : p.length + 1 < mn <;> simp [visitB, readable, WNode.isErr, hm]
    | .errChild nm a, p => by simp [visitB, WNode.isErr]
    | .errHere, p => by simp [visitB, WNode.isErr]
    | .dir nm cs, p => by
      have ih := visitListB_readable mn mx v cs (p ++ [nm])
      by_cases hm : p.length + 1 < mn <;>
      by_cases ho : over (p.length + 1 + 1) mx = true <;>
      by_cases hv : v ⟨p ++ [nm], .d⟩ = true <;>
        simp [visitB, readable, WNode.isErr, hm, ho, hv, ih]
  /-- with any depth bounds: the walk of the readable part is exactly the Ok part of the walk -/
  theorem visitListB_readable (mn : Nat) (mx : Option Nat) (v : Entry → Bool) :
      ∀ (ns : List WNode) (p : List Str),
      okItems (visitListB mn mx v p ns) = visitListB mn mx v p (readableList ns)
    | [], _ => rfl
    | n :: ns, p => by
      rw [visitListB, okItems_append, visitB_readable mn mx v n p, visitListB_readable mn mx v ns p,
        readableList]
      by_cases h : n.isErr = true <;> simp [h, visitListB]
end

/-- **C20, Ok part, structural reading with any depth bounds** -/
theorem fault_free_part_exactB (mn : Nat) (mx : Option Nat) (v : Entry → Bool) (p : List Str)
    (t : List WNode) :
    okItems (visitListB mn mx v p t) = okItems (visitListB mn mx v p (readableList t)) := by
  rw [← visitListB_readable, okItems_idem]

theorem readable_no_errorsB (mn : Nat) (mx : Option Nat) (v : Entry → Bool) (p : List Str)
    (t : List WNode) : errItems (visitListB mn mx v p (readableList t)) = [] := by
  rw [← visitListB_readable, errItems_okItems]

/-- the machine started in a directory, with just enough fuel -/
def runFrom (mn : Nat) (mx : Option Nat) (v : Entry → Bool) (root : List Str) (cs : List WNode) :
    List Item :=
  run mn mx v (stackSize [⟨root, cs⟩]) [⟨root, cs⟩]

theorem runFrom_eq (mn : Nat) (mx : Option Nat) (v : Entry → Bool) (root : List Str)
    (cs : List WNode) :
    runFrom mn mx v root cs = if over (root.length + 1) mx then [] else visitListB mn mx v root cs := by
  unfold runFrom
  rw [run_refinesB mn mx v _ _ (Nat.le_refl _)]
  simp [specStack, frameSpec]

/-- **C20, Ok part, the executable machine with any depth bounds**: the Ok items the machine yields
    on a tree with faults are exactly what it yields on the readable part of the tree -/
theorem machine_fault_free (mn : Nat) (mx : Option Nat) (v : Entry → Bool) (root : List Str)
    (cs : List WNode) :
    okItems (runFrom mn mx v root cs) = runFrom mn mx v root (readableList cs) := by
  rw [runFrom_eq, runFrom_eq]
  by_cases ho : over (root.length + 1) mx = true
  · simp [ho]
  · simp [ho, visitListB_readable]

/-- and the machine yields no error item on the readable part -/
theorem machine_readable_no_errors (mn : Nat) (mx : Option Nat) (v : Entry → Bool) (root : List Str)
    (cs : List WNode) : errItems (runFrom mn mx v root (readableList cs)) = [] := by
  rw [← machine_fault_free, errItems_okItems]

/-! ### whole walks -/

/-- the readable part of the root of a walk; none when the root itself cannot be read -/
def readableRoot : RootView → Option RootView
  | .err _ => none
  | .leaf k => some (.leaf k)
  | .dir cs => some (.dir (readableList cs))
  | .link cs => some (.link (readableList cs))

theorem cancel_true_single (f : Frame) : cancel true [f] = [] := rfl

/-- **C20, Ok part, a whole walk** (root entry included, any depth bounds, any verdict) -/
theorem walkItems_fault_free (mn : Nat) (mx : Option Nat) (v : Entry → Bool) (rv : RootView) :
    okItems (walkItems mn mx v rv) =
      match readableRoot rv with
      | none => []
      | some rv' => walkItems mn mx v rv' := by
  cases rv with
  | err a => simp [walkItems, readableRoot]
  | leaf k => by_cases hm : 0 < mn <;> simp [walkItems, readableRoot, hm]
  | dir cs =>
    have h := machine_fault_free mn mx v [] cs
    unfold runFrom at h
    by_cases hm : 0 < mn
    · simp [walkItems, readableRoot, hm, h]
    · by_cases hv : v ⟨[], .d⟩ = true
      · simp [walkItems, readableRoot, hm, hv, cancel_true_single, run_nil]
      · simp [walkItems, readableRoot, hm, hv, h]
  | link cs =>
    have h := machine_fault_free mn mx v [] cs
    unfold runFrom at h
    by_cases hm : 0 < mn
    · simp [walkItems, readableRoot, hm, h]
    · simp [walkItems, readableRoot, hm, cancel, h]

/-- the same for the items of a walk with its glob and its stack of combinators -/
theorem items_fault_free (π : Pipeline) (mn : Nat) (mx : Option Nat) (rv : RootView) :
    okItems (π.items mn mx rv) =
      match readableRoot rv with
      | none => []
      | some rv' => π.items mn mx rv' :=
  walkItems_fault_free mn mx π.cancels rv

/-! ### the error items of the bounded walk: the error leaves of the pruned forest -/

/-- a directory's children are not read: it lies within the bounds and the verdict discards it, or
    its children lie beyond `max_depth` (`d` is the depth of the directory) -/
def cutAt (mn : Nat) (mx : Option Nat) (v : Entry → Bool) (q : List Str) : Bool :=
  (!decide (q.length < mn) && v ⟨q, .d⟩) || over (q.length + 1) mx

mutual
  /-- the forest the bounded walk reads: a directory that is discarded as a tree, or whose children
      lie beyond `max_depth`, keeps its entry and loses its children -/
  def pruneB (mn : Nat) (mx : Option Nat) (v : Entry → Bool) (p : List Str) : WNode → WNode
    | .leaf n k => .leaf n k
    | .dir n cs => .dir n (if cutAt mn mx v (p ++ [n]) then [] else pruneListB mn mx v (p ++ [n]) cs)
    | .errChild n a => .errChild n a
    | .errHere => .errHere
  def pruneListB (mn : Nat) (mx : Option Nat) (v : Entry → Bool) (p : List Str) :
      List WNode → List WNode
    | [] => []
    | n :: ns => pruneB mn mx v p n :: pruneListB mn mx v p ns
end

mutual
  /-- the nodes of a tree in pre-order, one item per node; no verdict and no bound is involved -/
  def nodeItems (p : List Str) : WNode → List Item
    | .leaf n k => [.ok ⟨p ++ [n], k.kind⟩]
    | .dir n cs => .ok ⟨p ++ [n], .d⟩ :: nodeItemsList (p ++ [n]) cs
    | .errChild n a => [.err (p ++ [n]) a]
    | .errHere => [.err p false]
  def nodeItemsList (p : List Str) : List WNode → List Item
    | [] => []
    | n :: ns => nodeItems p n ++ nodeItemsList p ns
end

mutual
  /-- the error leaves of a tree in pre-order, as the error items they stand for -/
  def errLeaves (p : List Str) : WNode → List Item
    | .leaf .. => []
    | .dir n cs => errLeavesList (p ++ [n]) cs
    | .errChild n a => [.err (p ++ [n]) a]
    | .errHere => [.err p false]
  def errLeavesList (p : List Str) : List WNode → List Item
    | [] => []
    | n :: ns => errLeaves p n ++ errLeavesList p ns
end

/-- `min_depth` hides an entry; it never hides an error item -/
def Item.shown (mn : Nat) : Item → Bool
  | .ok e => !decide (e.depth < mn)
  | .err .. => true

theorem filter_shown_cons_ok (mn : Nat) (e : Entry) (l : List Item) :
    (Item.ok e :: l).filter (Item.shown mn) =
      if e.depth < mn then l.filter (Item.shown mn) else .ok e :: l.filter (Item.shown mn) := by
  by_cases h : e.depth < mn <;> simp [List.filter_cons, Item.shown, h]

theorem filter_shown_cons_err (mn : Nat) (q : List Str) (a : Bool) (l : List Item) :
    (Item.err q a :: l).filter (Item.shown mn) = .err q a :: l.filter (Item.shown mn) := by
  simp [List.filter_cons, Item.shown]

mutual
  theorem visitB_eq_nodeItems (mn : Nat) (mx : Option Nat) (v : Entry → Bool) :
      ∀ (n : WNode) (p : List Str),
      visitB mn mx v p n = (nodeItems p (pruneB mn mx v p n)).filter (Item.shown mn)
    | .leaf nm k, p => by
      by_cases hm : p.length + 1 < mn <;>
        simp [visitB, pruneB, nodeItems, filter_shown_cons_ok, Entry.depth, hm]
    | .errChild nm a, p => by simp [visitB, pruneB, nodeItems, filter_shown_cons_err]
    | .errHere, p => by simp [visitB, pruneB, nodeItems, filter_shown_cons_err]
    | .dir nm cs, p => by
      have ih := visitListB_eq_nodeItems mn mx v cs (p ++ [nm])
      by_cases hm : p.length + 1 < mn <;>
      by_cases ho : over (p.length + 1 + 1) mx = true <;>
      by_cases hv : v ⟨p ++ [nm], .d⟩ = true <;>
        simp [visitB, pruneB, nodeItems, nodeItemsList, cutAt, filter_shown_cons_ok, Entry.depth,
          hm, ho, hv, ih]
  /-- **in place, with depth bounds**: the walk is the pre-order listing of the pruned forest, one
      item per node, with the entries below `min_depth` hidden (and nothing else) -/
  theorem visitListB_eq_nodeItems (mn : Nat) (mx : Option Nat) (v : Entry → Bool) :
      ∀ (ns : List WNode) (p : List Str),
      visitListB mn mx v p ns = (nodeItemsList p (pruneListB mn mx v p ns)).filter (Item.shown mn)
    | [], _ => rfl
    | n :: ns, p => by
      simp [visitListB, pruneListB, nodeItemsList, visitB_eq_nodeItems mn mx v n p,
        visitListB_eq_nodeItems mn mx v ns p]
end

theorem errItems_filter_shown (mn : Nat) (l : List Item) :
    errItems (l.filter (Item.shown mn)) = errItems l := by
  induction l with
  | nil => rfl
  | cons x xs ih =>
    cases x with
    | ok e => by_cases h : e.depth < mn <;> simp [filter_shown_cons_ok, h, ih]
    | err q a => simp [filter_shown_cons_err, ih]

mutual
  theorem errItems_nodeItems : ∀ (n : WNode) (p : List Str),
      errItems (nodeItems p n) = errLeaves p n
    | .leaf nm k, p => by simp [nodeItems, errLeaves]
    | .errChild nm a, p => by simp [nodeItems, errLeaves]
    | .errHere, p => by simp [nodeItems, errLeaves]
    | .dir nm cs, p => by
      simp [nodeItems, errLeaves, errItems_nodeItemsList cs (p ++ [nm])]
  theorem errItems_nodeItemsList : ∀ (ns : List WNode) (p : List Str),
      errItems (nodeItemsList p ns) = errLeavesList p ns
    | [], _ => rfl
    | n :: ns, p => by
      rw [nodeItemsList, errItems_append, errItems_nodeItems n p, errItems_nodeItemsList ns p,
        errLeavesList]
end

/-- **C20, error part, with any depth bounds**: erasing the Ok items of the walk leaves the error
    leaves of the pruned forest — those not beneath a discarded directory and not in a directory
    whose children lie beyond `max_depth` — each once, in pre-order; `min_depth` plays no part other
    than through the entries it hides from the verdict -/
theorem error_items_exactB (mn : Nat) (mx : Option Nat) (v : Entry → Bool) (p : List Str)
    (t : List WNode) :
    errItems (visitListB mn mx v p t) = errLeavesList p (pruneListB mn mx v p t) := by
  rw [visitListB_eq_nodeItems, errItems_filter_shown, errItems_nodeItemsList]

/-- the same for the executable machine -/
theorem machine_error_items (mn : Nat) (mx : Option Nat) (v : Entry → Bool) (root : List Str)
    (cs : List WNode) :
    errItems (runFrom mn mx v root cs) =
      if over (root.length + 1) mx then [] else errLeavesList root (pruneListB mn mx v root cs) := by
  rw [runFrom_eq]
  by_cases ho : over (root.length + 1) mx = true
  · simp [ho]
  · simp [ho, error_items_exactB]

/-! ### without depth bounds the machine is the abstract traversal: transport through `toWT` -/

theorem isErr_toWT (n : WNode) : n.toWT.isErr = n.isErr := by cases n <;> rfl

mutual
  theorem readable_toWT : ∀ n : WNode, (readable n).toWT = WalkTree.readable n.toWT
    | .leaf .. => rfl
    | .errChild .. => rfl
    | .errHere => rfl
    | .dir nm cs => by simp [readable, WNode.toWT, WalkTree.readable, readableList_toWT cs]
  /-- removing the error leaves commutes with forgetting link / anonymity flags -/
  theorem readableList_toWT : ∀ ns : List WNode,
      toWTList (readableList ns) = WalkTree.readableList (toWTList ns)
    | [] => rfl
    | n :: ns => by
      by_cases h : n.isErr = true
      · simp [readableList, toWTList, WalkTree.readableList, isErr_toWT, h, readableList_toWT ns]
      · simp [readableList, toWTList, WalkTree.readableList, isErr_toWT, h, readableList_toWT ns,
          readable_toWT n]
end

theorem isOk_toWT (it : Item) : it.toWT.isOk = it.isOk := by cases it <;> rfl

theorem okItems_map_toWT (l : List Item) :
    (okItems l).map Item.toWT = WalkTree.okItems (l.map Item.toWT) := by
  induction l with
  | nil => rfl
  | cons x xs ih =>
    cases x with
    | ok e => simp [Item.toWT, ih]
    | err q a => simp [Item.toWT, ih]

theorem errItems_map_toWT (l : List Item) :
    (errItems l).map Item.toWT = WalkTree.errItems (l.map Item.toWT) := by
  induction l with
  | nil => rfl
  | cons x xs ih =>
    cases x with
    | ok e => simp [Item.toWT, ih]
    | err q a => simp [Item.toWT, ih]

/-- **C20 for the executable machine, against the abstract tree** (`mn = 0`, `mx = none`): the Ok
    items the machine yields are, item for item, the abstract fault-free walk of the readable part of
    the corresponding abstract tree -/
theorem machine_fault_free_abstract (w : WalkTree.Entry → Bool) (root : List Str) (cs : List WNode) :
    (okItems (runFrom 0 none (fun e => w e.toWT) root cs)).map Item.toWT
      = WalkTree.visitList w root (WalkTree.readableList (toWTList cs)) := by
  rw [okItems_map_toWT]
  unfold runFrom
  rw [walk_machine_refines, WalkTree.visitList_readable]

/-- … and its error items are the error leaves of the abstract pruned forest, in pre-order -/
theorem machine_error_items_abstract (w : WalkTree.Entry → Bool) (root : List Str) (cs : List WNode) :
    (errItems (runFrom 0 none (fun e => w e.toWT) root cs)).map Item.toWT
      = WalkTree.errLeavesList root (WalkTree.pruneList w root (toWTList cs)) := by
  rw [errItems_map_toWT]
  unfold runFrom
  rw [walk_machine_refines, WalkTree.error_items_exact]

/-- the same for a walk with its glob and combinators (below the root entry) -/
theorem items_fault_free_abstract (π : Pipeline) (cs : List WNode) :
    (okItems (runFrom 0 none π.cancels [] cs)).map Item.toWT
      = WalkTree.visitList π.verdictWT [] (WalkTree.readableList (toWTList cs)) := by
  rw [okItems_map_toWT]
  unfold runFrom
  rw [items_refine, WalkTree.visitList_readable]

/-! ### the statements are not vacuous -/

/-- `a/{x, <unreadable>, b -> broken}`, `c/{y, z -> broken}`, a link `w` that cannot be opened -/
def sampleForest : List WNode :=
  [.dir ['a'] [.leaf ['x'] .f, .errHere, .errChild ['b'] false],
   .dir ['c'] [.leaf ['y'] .l, .errChild ['z'] false], .errChild ['w'] true]

def sampleVerdict : Entry → Bool := fun e => e.names == [['c']]

example : runFrom 0 none sampleVerdict [] sampleForest =
    [.ok ⟨[['a']], .d⟩, .ok ⟨[['a'], ['x']], .f⟩, .err [['a']] false, .err [['a'], ['b']] false,
     .ok ⟨[['c']], .d⟩, .err [['w']] true] := by decide
example : runFrom 0 none sampleVerdict [] (readableList sampleForest) =
    [.ok ⟨[['a']], .d⟩, .ok ⟨[['a'], ['x']], .f⟩, .ok ⟨[['c']], .d⟩] := by decide
-- with bounds: `c` lies below `min_depth`, is not discarded, and the fault beneath it is reported
example : runFrom 2 (some 2) sampleVerdict [] sampleForest =
    [.ok ⟨[['a'], ['x']], .f⟩, .err [['a']] false, .err [['a'], ['b']] false,
     .ok ⟨[['c'], ['y']], .l⟩, .err [['c'], ['z']] false, .err [['w']] true] := by decide
example : errLeavesList [] (pruneListB 2 (some 2) sampleVerdict [] sampleForest) =
    [.err [['a']] false, .err [['a'], ['b']] false, .err [['c'], ['z']] false, .err [['w']] true] := by
  decide
-- with `max_depth = 1` the directories are not read and their faults are not met
example : runFrom 0 (some 1) sampleVerdict [] sampleForest =
    [.ok ⟨[['a']], .d⟩, .ok ⟨[['c']], .d⟩, .err [['w']] true] := by decide

/-! ## Part 3 (C15): depth bounds select by depth -/

/-- the depth of an item: the number of names below the start of the walk -/
def Item.depth : Item → Nat
  | .ok e => e.depth
  | .err q _ => q.length

/-- `d ∈ [mn, mx]` -/
def within (mn : Nat) (mx : Option Nat) (d : Nat) : Bool := decide (mn ≤ d) && !over d mx

def Item.within (mn : Nat) (mx : Option Nat) (it : Item) : Bool := Walk.within mn mx it.depth

/-- the verdict that never discards -/
def never : Entry → Bool := fun _ => false

/-- a verdict made silent on the entries that `min_depth` hides -/
def silenced (mn : Nat) (v : Entry → Bool) : Entry → Bool := fun e => decide (mn ≤ e.depth) && v e

/-- an Ok item whose depth lies within the bounds -/
def sel (mn : Nat) (mx : Option Nat) (it : Item) : Bool := it.isOk && it.within mn mx

theorem over_none (d : Nat) : over d none = false := rfl

theorem over_mono {d d' : Nat} {mx : Option Nat} (h : over d mx = true) (hd : d ≤ d') :
    over d' mx = true := by
  cases mx with
  | none => simp [over] at h
  | some m => simp [over] at h ⊢; omega

theorem filter_sel_cons_ok (mn : Nat) (mx : Option Nat) (e : Entry) (l : List Item) :
    (Item.ok e :: l).filter (sel mn mx) =
      if Walk.within mn mx e.depth then .ok e :: l.filter (sel mn mx) else l.filter (sel mn mx) := by
  by_cases h : Walk.within mn mx e.depth = true <;>
    simp [List.filter_cons, sel, Item.isOk, Item.within, Item.depth, h]

theorem filter_sel_cons_err (mn : Nat) (mx : Option Nat) (q : List Str) (a : Bool) (l : List Item) :
    (Item.err q a :: l).filter (sel mn mx) = l.filter (sel mn mx) := by
  simp [List.filter_cons, sel, Item.isOk]

theorem filter_within_okItems (mn : Nat) (mx : Option Nat) (l : List Item) :
    (okItems l).filter (Item.within mn mx) = l.filter (sel mn mx) := by
  induction l with
  | nil => rfl
  | cons x xs ih =>
    cases x with
    | ok e =>
      rw [filter_sel_cons_ok, okItems_cons_ok, List.filter_cons, ih]
      rfl
    | err q a => simp [filter_sel_cons_err, ih]

theorem within_of_lt {mn d : Nat} (mx : Option Nat) (h : d < mn) : Walk.within mn mx d = false := by
  simp [Walk.within]; intro; omega

theorem within_of_over {mx : Option Nat} {d : Nat} (mn : Nat) (h : over d mx = true) :
    Walk.within mn mx d = false := by
  simp [Walk.within, h]

theorem within_of_bounds {mn d : Nat} {mx : Option Nat} (h1 : ¬ d < mn) (h2 : over d mx = false) :
    Walk.within mn mx d = true := by
  simp [Walk.within, h2]; omega

mutual
  /-- beyond `max_depth` the filter keeps nothing of the unbounded walk -/
  theorem filter_beyond (mn : Nat) (mx : Option Nat) (w : Entry → Bool) :
      ∀ (n : WNode) (p : List Str), over (p.length + 1) mx = true →
      (visitB 0 none w p n).filter (sel mn mx) = []
    | .leaf nm k, p, h => by
      simp [visitB, filter_sel_cons_ok, Entry.depth, within_of_over mn h]
    | .errChild nm a, p, _ => by simp [visitB, filter_sel_cons_err]
    | .errHere, p, _ => by simp [visitB, filter_sel_cons_err]
    | .dir nm cs, p, h => by
      have h2 : over ((p ++ [nm]).length + 1) mx = true := over_mono h (by simp)
      have ih := filter_beyondL mn mx w cs (p ++ [nm]) h2
      by_cases hv : w ⟨p ++ [nm], .d⟩ = true <;>
        simp [visitB, over_none, filter_sel_cons_ok, Entry.depth, within_of_over mn h, hv, ih]
  theorem filter_beyondL (mn : Nat) (mx : Option Nat) (w : Entry → Bool) :
      ∀ (ns : List WNode) (p : List Str), over (p.length + 1) mx = true →
      (visitListB 0 none w p ns).filter (sel mn mx) = []
    | [], _, _ => rfl
    | n :: ns, p, h => by
      simp [visitListB, filter_beyond mn mx w n p h, filter_beyondL mn mx w ns p h]
end

mutual
  theorem okVisitB_filter (mn : Nat) (mx : Option Nat) (v : Entry → Bool) :
      ∀ (n : WNode) (p : List Str), over (p.length + 1) mx = false →
      okItems (visitB mn mx v p n) = (visitB 0 none (silenced mn v) p n).filter (sel mn mx)
    | .leaf nm k, p, h => by
      by_cases hm : p.length + 1 < mn
      · simp [visitB, filter_sel_cons_ok, Entry.depth, hm, within_of_lt mx hm]
      · simp [visitB, filter_sel_cons_ok, Entry.depth, hm, within_of_bounds hm h]
    | .errChild nm a, p, _ => by simp [visitB, filter_sel_cons_err]
    | .errHere, p, _ => by simp [visitB, filter_sel_cons_err]
    | .dir nm cs, p, h => by
      by_cases hm : p.length + 1 < mn
      · have hs : silenced mn v ⟨p ++ [nm], .d⟩ = false := by
          simp [silenced, Entry.depth]; intro; omega
        by_cases ho : over (p.length + 1 + 1) mx = true
        · have hb := filter_beyondL mn mx (silenced mn v) cs (p ++ [nm]) (by simpa using ho)
          simp [visitB, over_none, filter_sel_cons_ok, Entry.depth, hm, within_of_lt mx hm, hs, ho, hb]
        · have ih := okVisitListB_filter mn mx v cs (p ++ [nm]) (by simpa using ho)
          simp [visitB, over_none, filter_sel_cons_ok, Entry.depth, hm, within_of_lt mx hm, hs, ho, ih]
      · have hs : silenced mn v ⟨p ++ [nm], .d⟩ = v ⟨p ++ [nm], .d⟩ := by
          simp [silenced, Entry.depth]; intro; omega
        by_cases hv : v ⟨p ++ [nm], .d⟩ = true
        · simp [visitB, over_none, filter_sel_cons_ok, Entry.depth, hm, within_of_bounds hm h, hs, hv]
        · by_cases ho : over (p.length + 1 + 1) mx = true
          · have hb := filter_beyondL mn mx (silenced mn v) cs (p ++ [nm]) (by simpa using ho)
            simp [visitB, over_none, filter_sel_cons_ok, Entry.depth, hm, within_of_bounds hm h, hs, hv,
              ho, hb]
          · have ih := okVisitListB_filter mn mx v cs (p ++ [nm]) (by simpa using ho)
            simp [visitB, over_none, filter_sel_cons_ok, Entry.depth, hm, within_of_bounds hm h, hs, hv,
              ho, ih]
  theorem okVisitListB_filter (mn : Nat) (mx : Option Nat) (v : Entry → Bool) :
      ∀ (ns : List WNode) (p : List Str), over (p.length + 1) mx = false →
      okItems (visitListB mn mx v p ns) = (visitListB 0 none (silenced mn v) p ns).filter (sel mn mx)
    | [], _, _ => rfl
    | n :: ns, p, h => by
      simp [visitListB, okItems_append, okVisitB_filter mn mx v n p h,
        okVisitListB_filter mn mx v ns p h]
end

theorem silenced_never (mn : Nat) : silenced mn never = never := by
  funext e; simp [silenced, never]

/-- **C15, any verdict**: the Ok items of the depth-bounded traversal are the Ok items, with depth in
    `[mn, mx]`, in the same order, of the *unbounded* traversal driven by the verdict made silent
    below `min_depth` (an entry that `min_depth` hides is never shown to the verdict, so a directory
    there is always read) -/
theorem bounded_eq_filter_general (mn : Nat) (mx : Option Nat) (v : Entry → Bool) (p : List Str)
    (t : List WNode) (h : over (p.length + 1) mx = false) :
    okItems (visitListB mn mx v p t) =
      (okItems (visitListB 0 none (silenced mn v) p t)).filter (Item.within mn mx) := by
  rw [filter_within_okItems, okVisitListB_filter mn mx v t p h]

/-- **C15**: with the verdict that never discards, the Ok items of the depth-bounded traversal are
    exactly the Ok items of the unbounded traversal whose depth lies in `[mn, mx]`, in the same order.
    (`h`: the directory being read is itself within `max_depth`: `visitListB` leaves this check to
    its caller, see `frameSpec`; `bounded_eq_filter_frame` has no hypothesis.) -/
theorem bounded_eq_filter (mn : Nat) (mx : Option Nat) (p : List Str) (t : List WNode)
    (h : over (p.length + 1) mx = false) :
    okItems (visitListB mn mx never p t) =
      (okItems (visitListB 0 none never p t)).filter (Item.within mn mx) := by
  have := bounded_eq_filter_general mn mx never p t h
  rwa [silenced_never] at this

/-- the hypothesis-free form, for what a frame still yields (`frameSpec`), any verdict -/
theorem bounded_eq_filter_frame (mn : Nat) (mx : Option Nat) (v : Entry → Bool) (p : List Str)
    (t : List WNode) :
    okItems (frameSpec mn mx v ⟨p, t⟩) =
      (okItems (visitListB 0 none (silenced mn v) p t)).filter (Item.within mn mx) := by
  by_cases ho : over (p.length + 1) mx = true
  · rw [filter_within_okItems, filter_beyondL mn mx _ t p ho]
    simp [frameSpec, ho]
  · simp only [frameSpec, ho]
    exact bounded_eq_filter_general mn mx v p t (by simpa using ho)

/-- … and for the executable machine: the bounded machine yields, as Ok items, the Ok items of the
    unbounded machine (verdict silenced below `min_depth`) whose depth lies within the bounds -/
theorem machine_bounded_eq_filter (mn : Nat) (mx : Option Nat) (v : Entry → Bool) (root : List Str)
    (cs : List WNode) :
    okItems (runFrom mn mx v root cs) =
      (okItems (runFrom 0 none (silenced mn v) root cs)).filter (Item.within mn mx) := by
  have h := bounded_eq_filter_frame mn mx v root cs
  rw [runFrom_eq, runFrom_eq]
  simpa [frameSpec, over_none] using h

/-! ### whole walks -/

theorem over_zero (mx : Option Nat) : over 0 mx = false := by
  cases mx <;> simp [over]

/-- **C15 for a whole walk** (root entry at depth 0 included), any verdict -/
theorem walkItems_bounded_eq_filter (mn : Nat) (mx : Option Nat) (v : Entry → Bool) (rv : RootView) :
    okItems (walkItems mn mx v rv) =
      (okItems (walkItems 0 none (silenced mn v) rv)).filter (Item.within mn mx) := by
  have hroot : ∀ k, 0 < mn → Walk.within mn mx (Entry.depth ⟨[], k⟩) = false := by
    intro k h; exact within_of_lt mx (by simpa [Entry.depth] using h)
  have hroot0 : ∀ k, ¬ 0 < mn → Walk.within mn mx (Entry.depth ⟨[], k⟩) = true := by
    intro k h; exact within_of_bounds (by simpa [Entry.depth] using h) (over_zero mx)
  rw [filter_within_okItems]
  cases rv with
  | err a => simp [walkItems, filter_sel_cons_err]
  | leaf k =>
    by_cases hm : 0 < mn
    · simp [walkItems, hm, filter_sel_cons_ok, hroot _ hm]
    · simp [walkItems, hm, filter_sel_cons_ok, hroot0 _ hm]
  | dir cs =>
    have h := machine_bounded_eq_filter mn mx v [] cs
    rw [filter_within_okItems] at h
    unfold runFrom at h
    by_cases hm : 0 < mn
    · have hs : silenced mn v ⟨[], .d⟩ = false := by simp [silenced, Entry.depth]; intro; omega
      simp [walkItems, hm, hs, filter_sel_cons_ok, hroot _ hm, h]
    · have hs : silenced mn v ⟨[], .d⟩ = v ⟨[], .d⟩ := by simp [silenced, Entry.depth]; intro; omega
      by_cases hv : v ⟨[], .d⟩ = true
      · simp [walkItems, hm, hs, hv, filter_sel_cons_ok, hroot0 _ hm, cancel_true_single, run_nil]
      · simp [walkItems, hm, hs, hv, filter_sel_cons_ok, hroot0 _ hm, h]
  | link cs =>
    have h := machine_bounded_eq_filter mn mx v [] cs
    rw [filter_within_okItems] at h
    unfold runFrom at h
    by_cases hm : 0 < mn
    · simp [walkItems, hm, cancel, filter_sel_cons_ok, hroot _ hm, h]
    · simp [walkItems, hm, cancel, filter_sel_cons_ok, hroot0 _ hm, h]

/-- C15 for a whole walk with the verdict that never discards -/
theorem walkItems_bounded_eq_filter_never (mn : Nat) (mx : Option Nat) (rv : RootView) :
    okItems (walkItems mn mx never rv) =
      (okItems (walkItems 0 none never rv)).filter (Item.within mn mx) := by
  have := walkItems_bounded_eq_filter mn mx never rv
  rwa [silenced_never] at this

/-- C15 for the items of a walk with its glob and its stack of combinators -/
theorem items_bounded_eq_filter (π : Pipeline) (mn : Nat) (mx : Option Nat) (rv : RootView) :
    okItems (π.items mn mx rv) =
      (okItems (walkItems 0 none (silenced mn π.cancels) rv)).filter (Item.within mn mx) :=
  walkItems_bounded_eq_filter mn mx π.cancels rv

/-! ### exactly when the verdict is consulted -/

mutual
  theorem visitB_congr (mn : Nat) (mx : Option Nat) (v v' : Entry → Bool)
      (H : ∀ q : List Str, mn ≤ q.length → over (q.length + 1) mx = false → v ⟨q, .d⟩ = v' ⟨q, .d⟩) :
      ∀ (n : WNode) (p : List Str), visitB mn mx v p n = visitB mn mx v' p n
    | .leaf nm k, p => by simp [visitB]
    | .errChild nm a, p => by simp [visitB]
    | .errHere, p => by simp [visitB]
    | .dir nm cs, p => by
      have ih := visitListB_congr mn mx v v' H cs (p ++ [nm])
      by_cases hm : p.length + 1 < mn
      · simp [visitB, hm, ih]
      · by_cases ho : over (p.length + 1 + 1) mx = true
        · simp [visitB, hm, ho]
        · have := H (p ++ [nm]) (by simp; omega) (by simpa using ho)
          simp [visitB, hm, ho, this, ih]
  /-- **C15, when the verdict matters**: the bounded traversal consults the verdict only on
      directories at a depth `d` with `mn ≤ d` and `d + 1 ≤ mx` (`d < mx`): two verdicts that agree
      there give the same items, errors included.  Below `min_depth` a directory is entered
      unconditionally; at `max_depth` discarding it changes nothing; on a non-directory a verdict
      never changes the traversal. -/
  theorem visitListB_congr (mn : Nat) (mx : Option Nat) (v v' : Entry → Bool)
      (H : ∀ q : List Str, mn ≤ q.length → over (q.length + 1) mx = false → v ⟨q, .d⟩ = v' ⟨q, .d⟩) :
      ∀ (ns : List WNode) (p : List Str), visitListB mn mx v p ns = visitListB mn mx v' p ns
    | [], _ => rfl
    | n :: ns, p => by
      simp [visitListB, visitB_congr mn mx v v' H n p, visitListB_congr mn mx v v' H ns p]
end

/-- the verdict restricted to the directories on which it is consulted -/
def consulted (mn : Nat) (mx : Option Nat) (v : Entry → Bool) : Entry → Bool :=
  fun e => e.isDir && decide (mn ≤ e.depth) && !over (e.depth + 1) mx && v e

theorem visitListB_consulted (mn : Nat) (mx : Option Nat) (v : Entry → Bool) (p : List Str)
    (t : List WNode) : visitListB mn mx v p t = visitListB mn mx (consulted mn mx v) p t := by
  apply visitListB_congr
  intro q h1 h2
  simp [consulted, Entry.isDir, Entry.depth, h1, h2]

theorem cutAt_never (mn : Nat) (mx : Option Nat) (q : List Str) :
    cutAt mn mx never q = over (q.length + 1) mx := by simp [cutAt, never]

mutual
  theorem pruneB_never (mn : Nat) (mx : Option Nat) : ∀ (n : WNode) (p : List Str),
      pruneB mn mx never p n = pruneB 0 mx never p n
    | .leaf .., _ => rfl
    | .errChild .., _ => rfl
    | .errHere, _ => rfl
    | .dir nm cs, p => by simp [pruneB, cutAt_never, pruneListB_never mn mx cs (p ++ [nm])]
  theorem pruneListB_never (mn : Nat) (mx : Option Nat) : ∀ (ns : List WNode) (p : List Str),
      pruneListB mn mx never p ns = pruneListB 0 mx never p ns
    | [], _ => rfl
    | n :: ns, p => by simp [pruneListB, pruneB_never mn mx n p, pruneListB_never mn mx ns p]
end

/-- the error items of the bounded walk that never discards: the error leaves of the tree cut
    below `max_depth` (`min_depth` plays no part: `pruneListB 0`) -/
theorem bounded_errors_never (mn : Nat) (mx : Option Nat) (p : List Str) (t : List WNode) :
    errItems (visitListB mn mx never p t) = errLeavesList p (pruneListB 0 mx never p t) := by
  rw [error_items_exactB, pruneListB_never]

/-! ### what does **not** hold (each refuted on a concrete input) -/

/-- the verdict that discards everything -/
def always : Entry → Bool := fun _ => true

/-- `a/b`: with `min_depth = 2` the directory `a` is hidden from the verdict and read all the same,
    so `a/b` is yielded; in the unbounded walk the same verdict discards `a` and `a/b` is never seen:
    the bounded walk is **not** the depth filter of the unbounded walk with the *same* verdict -/
theorem bounded_ne_filter_same_verdict :
    okItems (frameSpec 2 none always ⟨[], [.dir ['a'] [.leaf ['b'] .f]]⟩) ≠
      (okItems (visitListB 0 none always [] [.dir ['a'] [.leaf ['b'] .f]])).filter
        (Item.within 2 none) := by decide

example : okItems (frameSpec 2 none always ⟨[], [.dir ['a'] [.leaf ['b'] .f]]⟩) =
    [.ok ⟨[['a'], ['b']], .f⟩] := by decide
example : visitListB 0 none always [] [.dir ['a'] [.leaf ['b'] .f]] = [.ok ⟨[['a']], .d⟩] := by decide

/-- error items are **not** selected by their depth: an unreadable directory at `max_depth` is not
    opened, so its error (which has the depth of the directory, within the bounds) is not met -/
theorem errors_not_filtered_max :
    frameSpec 0 (some 1) never ⟨[], [.dir ['a'] [.errHere]]⟩ ≠
      (visitListB 0 none never [] [.dir ['a'] [.errHere]]).filter (Item.within 0 (some 1)) := by
  decide

/-- … and an error item above `min_depth` is reported although an entry there would be hidden -/
theorem errors_not_filtered_min :
    frameSpec 2 none never ⟨[], [.errChild ['x'] false]⟩ ≠
      (visitListB 0 none never [] [.errChild ['x'] false]).filter (Item.within 2 none) := by decide

/-- `visitListB` does not itself check that the directory it reads lies within `max_depth`
    (its callers `visitB` and `frameSpec` do): without the hypothesis of `bounded_eq_filter` the
    statement fails -/
theorem bounded_eq_filter_needs_hypothesis :
    okItems (visitListB 0 (some 0) never [] [.leaf ['x'] .f]) ≠
      (okItems (visitListB 0 none never [] [.leaf ['x'] .f])).filter (Item.within 0 (some 0)) := by
  decide

/-! ### bounds that exclude every depth of the tree -/

mutual
  /-- the number of levels of entries of a tree (error leaves do not count) -/
  def WNode.okHeight : WNode → Nat
    | .leaf .. => 1
    | .dir _ cs => 1 + okHeightList cs
    | .errChild .. => 0
    | .errHere => 0
  def okHeightList : List WNode → Nat
    | [] => 0
    | n :: ns => max n.okHeight (okHeightList ns)
end

mutual
  /-- below `min_depth` the filter keeps nothing of the unbounded walk -/
  theorem filter_shallow (mn : Nat) (mx : Option Nat) (w : Entry → Bool) :
      ∀ (n : WNode) (p : List Str), p.length + n.okHeight < max mn (p.length + 1) →
      (visitB 0 none w p n).filter (sel mn mx) = []
    | .leaf nm k, p, h => by
      have : p.length + 1 < mn := by simp only [WNode.okHeight] at h; omega
      simp [visitB, filter_sel_cons_ok, Entry.depth, within_of_lt mx this]
    | .errChild nm a, p, _ => by simp [visitB, filter_sel_cons_err]
    | .errHere, p, _ => by simp [visitB, filter_sel_cons_err]
    | .dir nm cs, p, h => by
      simp only [WNode.okHeight] at h
      have h1 : p.length + 1 < mn := by omega
      have ih := filter_shallowL mn mx w cs (p ++ [nm]) (by simp; omega)
      by_cases hv : w ⟨p ++ [nm], .d⟩ = true <;>
        simp [visitB, over_none, filter_sel_cons_ok, Entry.depth, within_of_lt mx h1, hv, ih]
  theorem filter_shallowL (mn : Nat) (mx : Option Nat) (w : Entry → Bool) :
      ∀ (ns : List WNode) (p : List Str), p.length + okHeightList ns < max mn (p.length + 1) →
      (visitListB 0 none w p ns).filter (sel mn mx) = []
    | [], _, _ => rfl
    | n :: ns, p, h => by
      simp only [okHeightList] at h
      simp [visitListB, filter_shallow mn mx w n p (by omega), filter_shallowL mn mx w ns p (by omega)]
end

/-- the bounds leave no depth at which the forest `t`, read in the directory `p`, has an entry
    (its entries lie at the depths `p.length + 1 … p.length + okHeightList t`):
    `max_depth < min_depth`, or the directory lies at `max_depth` already, or every entry lies above
    `min_depth` (in particular when there is no entry at all) -/
def excluded (mn : Nat) (mx : Option Nat) (p : List Str) (t : List WNode) : Bool :=
  over mn mx || over (p.length + 1) mx || decide (p.length + okHeightList t < max mn (p.length + 1))

theorem filter_sel_empty_of_over (mn : Nat) (mx : Option Nat) (h : over mn mx = true) (l : List Item) :
    l.filter (sel mn mx) = [] := by
  apply List.filter_eq_nil_iff.mpr
  intro it _
  have : Walk.within mn mx it.depth = false := by
    by_cases hd : mn ≤ it.depth
    · exact within_of_over mn (over_mono h hd)
    · exact within_of_lt mx (by omega)
  simp [sel, Item.within, this]

/-- **C15, excluded bounds**: when `max_depth < min_depth` (unclamped), or the bounds exclude every
    depth at which the tree has an entry, no Ok item is yielded, whatever the verdict -/
theorem bounded_none_when_excluded (mn : Nat) (mx : Option Nat) (v : Entry → Bool) (p : List Str)
    (t : List WNode) (h : excluded mn mx p t = true) :
    okItems (frameSpec mn mx v ⟨p, t⟩) = [] := by
  rw [bounded_eq_filter_frame, filter_within_okItems]
  simp only [excluded, Bool.or_eq_true, decide_eq_true_eq] at h
  rcases h with (h | h) | h
  · exact filter_sel_empty_of_over mn mx h _
  · exact filter_beyondL mn mx _ t p h
  · exact filter_shallowL mn mx _ t p h

/-- the same for the executable machine -/
theorem machine_none_when_excluded (mn : Nat) (mx : Option Nat) (v : Entry → Bool) (root : List Str)
    (cs : List WNode) (h : excluded mn mx root cs = true) :
    okItems (runFrom mn mx v root cs) = [] := by
  have := bounded_none_when_excluded mn mx v root cs h
  rw [runFrom_eq]
  simpa [frameSpec] using this

/-! the criterion is exact: with the verdict that never discards, an Ok item is yielded as soon as
    the bounds are not `excluded` -/

mutual
  theorem exists_at_depth (w : Entry → Bool) (hw : ∀ e, w e = false) :
      ∀ (n : WNode) (p : List Str) (d : Nat), p.length + 1 ≤ d → d ≤ p.length + n.okHeight →
      ∃ e, Item.ok e ∈ visitB 0 none w p n ∧ e.depth = d
    | .leaf nm k, p, d, h1, h2 => by
      simp only [WNode.okHeight] at h2
      exact ⟨⟨p ++ [nm], k.kind⟩, by simp [visitB], by simp [Entry.depth]; omega⟩
    | .errChild nm a, p, d, h1, h2 => by simp only [WNode.okHeight] at h2; omega
    | .errHere, p, d, h1, h2 => by simp only [WNode.okHeight] at h2; omega
    | .dir nm cs, p, d, h1, h2 => by
      simp only [WNode.okHeight] at h2
      by_cases hd : d = p.length + 1
      · exact ⟨⟨p ++ [nm], .d⟩, by simp [visitB], by simp [Entry.depth]; omega⟩
      · obtain ⟨e, he, hed⟩ := exists_at_depthL w hw cs (p ++ [nm]) d (by simp; omega) (by simp; omega)
        exact ⟨e, by simp [visitB, hw, over_none, he], hed⟩
  theorem exists_at_depthL (w : Entry → Bool) (hw : ∀ e, w e = false) :
      ∀ (ns : List WNode) (p : List Str) (d : Nat), p.length + 1 ≤ d → d ≤ p.length + okHeightList ns →
      ∃ e, Item.ok e ∈ visitListB 0 none w p ns ∧ e.depth = d
    | [], p, d, h1, h2 => by simp only [okHeightList] at h2; omega
    | n :: ns, p, d, h1, h2 => by
      simp only [okHeightList] at h2
      by_cases hn : d ≤ p.length + n.okHeight
      · obtain ⟨e, he, hed⟩ := exists_at_depth w hw n p d h1 hn
        exact ⟨e, by simp [visitListB, he], hed⟩
      · obtain ⟨e, he, hed⟩ := exists_at_depthL w hw ns p d h1 (by omega)
        exact ⟨e, by simp [visitListB, he], hed⟩
end

/-- **exactness of the criterion**: the walk that never discards yields no Ok item *only* when the
    bounds are excluded -/
theorem bounded_none_iff_excluded (mn : Nat) (mx : Option Nat) (p : List Str) (t : List WNode) :
    okItems (frameSpec mn mx never ⟨p, t⟩) = [] ↔ excluded mn mx p t = true := by
  constructor
  · intro h
    rw [bounded_eq_filter_frame, filter_within_okItems, silenced_never] at h
    cases hx : excluded mn mx p t with
    | true => rfl
    | false =>
      exfalso
      simp only [excluded, Bool.or_eq_false_iff, decide_eq_false_iff_not] at hx
      obtain ⟨⟨h1, h2⟩, h3⟩ := hx
      -- the shallowest admissible depth
      obtain ⟨e, he, hed⟩ := exists_at_depthL never (fun _ => rfl) t p (max mn (p.length + 1))
        (by omega) (by omega)
      have hw : Walk.within mn mx e.depth = true := by
        rw [hed]
        apply within_of_bounds (by omega)
        by_cases hc : mn ≤ p.length + 1
        · rw [Nat.max_eq_right hc]; exact h2
        · rw [Nat.max_eq_left (by omega)]; exact h1
      have hmem : Item.ok e ∈ (visitListB 0 none never p t).filter (sel mn mx) := by
        apply List.mem_filter.mpr
        exact ⟨he, by simp [sel, Item.isOk, Item.within, Item.depth, hw]⟩
      rw [h] at hmem
      cases hmem
  · exact bounded_none_when_excluded mn mx never p t

/-! ### whole walks; walkdir's clamping -/

/-- the number of levels of entries below the root entry of a walk -/
def RootView.okHeight : RootView → Nat
  | .err _ => 0
  | .leaf _ => 0
  | .dir cs => okHeightList cs
  | .link cs => okHeightList cs

/-- **C15, excluded bounds, a whole walk**: `max_depth < min_depth` (as handed to the machine), or
    `min_depth` beyond the deepest entry: no Ok item -/
theorem walkItems_none_when_excluded (mn : Nat) (mx : Option Nat) (v : Entry → Bool) (rv : RootView)
    (h : (over mn mx || decide (rv.okHeight < mn)) = true) :
    okItems (walkItems mn mx v rv) = [] := by
  have hmn : 0 < mn := by
    simp only [Bool.or_eq_true, decide_eq_true_eq] at h
    rcases h with h | h
    · cases hm : mn with
      | zero => rw [hm, over_zero] at h; cases h
      | succ k => omega
    · omega
  cases rv with
  | err a => simp [walkItems]
  | leaf k => simp [walkItems, hmn]
  | dir cs =>
    have := machine_none_when_excluded mn mx v [] cs (by
      simp only [RootView.okHeight, Bool.or_eq_true, decide_eq_true_eq] at h
      simp only [excluded, List.length_nil, Nat.zero_add, Bool.or_eq_true, decide_eq_true_eq]
      rcases h with h | h
      · exact Or.inl (Or.inl h)
      · have h := of_decide_eq_true h
        exact Or.inr (by omega))
    unfold runFrom at this
    simp [walkItems, hmn, this]
  | link cs =>
    have := machine_none_when_excluded mn mx v [] cs (by
      simp only [RootView.okHeight, Bool.or_eq_true, decide_eq_true_eq] at h
      simp only [excluded, List.length_nil, Nat.zero_add, Bool.or_eq_true, decide_eq_true_eq]
      rcases h with h | h
      · exact Or.inl (Or.inl h)
      · have h := of_decide_eq_true h
        exact Or.inr (by omega))
    unfold runFrom at this
    simp [walkItems, hmn, this]

/-- walkdir raises `max_depth` to `min_depth` when it is set below it … -/
theorem clampMax_some (mn m : Nat) : clampMax mn (some m) = some (max mn m) := by
  simp only [clampMax]
  by_cases h : m < mn
  · simp [h]; omega
  · simp [h]; omega

theorem not_over_clampMax (mn : Nat) (mx : Option Nat) : over mn (clampMax mn mx) = false := by
  cases mx with
  | none => rfl
  | some m => rw [clampMax_some]; simp [over]; omega

/-- … so after clamping `max_depth < min_depth` yields **not** nothing but the entries at depth
    exactly `min_depth` -/
theorem clamped_exact_depth (mn m : Nat) (hm : m < mn) (v : Entry → Bool) (rv : RootView)
    (it : Item) (h : it ∈ okItems (walkItems mn (clampMax mn (some m)) v rv)) : it.depth = mn := by
  rw [walkItems_bounded_eq_filter, clampMax_some, Nat.max_eq_left (by omega)] at h
  have := (List.mem_filter.mp h).2
  simp [Item.within, Walk.within, over] at this
  omega

/-- `max_depth = 1 < min_depth = 2`, clamped: the walk yields `a/b` -/
example : okItems (walkItems 2 (clampMax 2 (some 1)) never (.dir [.dir ['a'] [.leaf ['b'] .f]])) =
    [.ok ⟨[['a'], ['b']], .f⟩] := by decide
/-- … and unclamped it yields nothing -/
example : okItems (walkItems 2 (some 1) never (.dir [.dir ['a'] [.leaf ['b'] .f]])) = [] := by decide

/-- wax never lets it come to that: the bounds it hands to walkdir are ordered (it rejects
    `max < min` beforehand and subtracting the pivot keeps the order), so that the clamp in
    `depthBounds` is the identity -/
theorem depthBounds_ordered (a b : Option Nat) (pivot lo hi : Nat)
    (h : depthBounds a b pivot = some (lo, some hi)) : lo ≤ hi := by
  cases a with
  | none =>
    cases b with
    | none => simp [depthBounds] at h
    | some b => simp [depthBounds] at h; omega
  | some a =>
    cases b with
    | none => by_cases ha : a = 0 <;> simp [depthBounds, ha] at h
    | some b =>
      by_cases hc : (a == 0 || decide (b < a)) = true
      · simp [depthBounds, hc] at h
      · simp only [depthBounds, hc, clampMax_some] at h
        simp at h
        omega

theorem depthBounds_clamp_id (a b pivot : Nat) (h : (a == 0 || decide (b < a)) = false) :
    clampMax (a - pivot) (some (b - pivot)) = some (b - pivot) := by
  rw [clampMax_some]
  simp at h
  congr 1
  omega

/-- hence the bounds wax hands to walkdir are never `excluded` by `max < min` -/
theorem depthBounds_not_over (a b : Option Nat) (pivot lo : Nat) (mx : Option Nat)
    (h : depthBounds a b pivot = some (lo, mx)) : over lo mx = false := by
  cases mx with
  | none => rfl
  | some hi =>
    have := depthBounds_ordered a b pivot lo hi h
    simp [over]; omega

/-! ### the statements are not vacuous -/

/-- `a/{x, b/{y}}`, `c` -/
def depthForest : List WNode :=
  [.dir ['a'] [.leaf ['x'] .f, .dir ['b'] [.leaf ['y'] .f]], .leaf ['c'] .l]

example : okHeightList depthForest = 3 := by decide
-- the hypothesis of `bounded_eq_filter` at the start of a walk: `max_depth ≠ 0`
example : over (([] : List Str).length + 1) (some 2) = false := by decide
example : okItems (visitListB 2 (some 2) never [] depthForest) =
    [.ok ⟨[['a'], ['x']], .f⟩, .ok ⟨[['a'], ['b']], .d⟩] := by decide
example : okItems (visitListB 0 none never [] depthForest) =
    [.ok ⟨[['a']], .d⟩, .ok ⟨[['a'], ['x']], .f⟩, .ok ⟨[['a'], ['b']], .d⟩,
     .ok ⟨[['a'], ['b'], ['y']], .f⟩, .ok ⟨[['c']], .l⟩] := by decide
example : excluded 4 none [] depthForest = true := by decide
example : excluded 3 (some 2) [] depthForest = true := by decide
example : excluded 3 (some 3) [] depthForest = false := by decide
example : depthBounds (some 3) (some 5) 2 = some (1, some 3) := by decide

end Wax.Walk
