import Wax.Proofs.DepthTree
import Wax.Proofs.NoPanic
/-!
The value algebra of the depth fold (`NVar`: invariant / unbounded / bounded range) read as
intervals of natural numbers, *backwards*: whenever an operation of `Wax/Natural.lean`,
`Wax/Depth.lean`, `Wax/DepthFold.lean` RETURNS (`= .ok r`; no assumption on magnitudes), the
result is well formed and contains what it should: every sum (`conj`), every product with a
repetition count in the range (`prod`), both operands (`disj`).  Used by `DepthBranch.lean`.
-/
set_option linter.unusedSimpArgs false
set_option linter.unusedVariables false
namespace Wax

deriving instance ReflBEq for BVR
deriving instance LawfulBEq for BVR
deriving instance ReflBEq for NVar
deriving instance LawfulBEq for NVar
deriving instance ReflBEq for Termn
deriving instance LawfulBEq for Termn

/-! ### interval views -/

def NVar.lo : NVar → Nat | .inv n => n | .unb => 0 | .bnd r => r.lo
def NVar.hi : NVar → Option Nat | .inv n => some n | .unb => none | .bnd r => r.hi
def NVar.wf : NVar → Prop | .bnd r => r.wf | _ => True

def NRange.lo : NRange → Nat | .inv n => n | .var .unbounded => 0 | .var (.bounded r) => r.lo
def NRange.hi : NRange → Option Nat
  | .inv n => some n | .var .unbounded => none | .var (.bounded r) => r.hi
def NRange.wf : NRange → Prop | .var (.bounded r) => r.wf | _ => True
def NRange.mem (x : Nat) : NRange → Prop
  | .inv n => x = n | .var .unbounded => True | .var (.bounded r) => r.mem x

/-- sum of upper bounds: an open bound absorbs -/
def oadd : Option Nat → Option Nat → Option Nat
  | some a, some b => some (a + b)
  | _, _ => none

theorem BVR.mem_iff (r : BVR) (x : Nat) : r.mem x ↔ r.lo ≤ x ∧ ∀ h, r.hi = some h → x ≤ h := by
  cases r <;> simp [BVR.mem, BVR.lo, BVR.hi]

theorem NVar.mem_iff (v : NVar) (x : Nat) : v.mem x ↔ v.lo ≤ x ∧ ∀ h, v.hi = some h → x ≤ h := by
  cases v with
  | inv n => simp only [NVar.mem, NVar.lo, NVar.hi, Option.some.injEq, forall_eq']; omega
  | unb => simp [NVar.mem, NVar.lo, NVar.hi]
  | bnd r => exact BVR.mem_iff r x

theorem NRange.mem_iff (v : NRange) (x : Nat) :
    v.mem x ↔ v.lo ≤ x ∧ ∀ h, v.hi = some h → x ≤ h := by
  cases v with
  | inv n => simp only [NRange.mem, NRange.lo, NRange.hi, Option.some.injEq, forall_eq']; omega
  | var v =>
    cases v with
    | unbounded => simp [NRange.mem, NRange.lo, NRange.hi]
    | bounded r => exact BVR.mem_iff r x

/-- the denoted sets are intervals -/
theorem NVar.convex {v : NVar} {a b x : Nat} (ha : v.mem a) (hb : v.mem b) (h1 : a ≤ x)
    (h2 : x ≤ b) : v.mem x := by
  rw [NVar.mem_iff] at ha hb ⊢
  refine ⟨by omega, ?_⟩
  intro h hh
  have := hb.2 h hh
  omega

theorem BVR.lo_le_hi {a : BVR} (ha : a.wf) {h : Nat} (hh : a.hi = some h) : a.lo ≤ h :=
  Nat.le_of_lt (BVR.wf_hi ha hh)

theorem BVR.hi_pos {a : BVR} (ha : a.wf) {h : Nat} (hh : a.hi = some h) : 0 < h := by
  have := BVR.wf_hi ha hh; omega

/-! ### the monad, backwards -/

theorem cmul_ok {w : String} {a b r : Nat} (h : cmul w a b = .ok r) : r = a * b := by
  unfold cmul at h
  split at h
  · cases h; rfl
  · cases h

theorem ok_inj {α} {a b : α} (h : (Except.ok a : P α) = .ok b) : a = b := by injection h

theorem upperB_back {a : BVR} {u : NBound} (h : a.upperB = .ok u) : u.upperUsize = a.hi := by
  cases a with
  | lower n => cases h; rfl
  | upper n => cases h; rfl
  | both l e =>
    simp only [BVR.upperB] at h
    obtain ⟨s, hs, h2⟩ := bind_ok h
    have := cadd_ok hs; subst this
    cases h2; rfl

/-! ### `tryFrom`, `fromClosedOpen` -/

theorem tryFrom_some {lo : Nat} {hi : Option Nat} {r : BVR} (h : BVR.tryFrom lo hi = some r)
    (hpos : ∀ x, hi = some x → 0 < x) : r.wf ∧ r.lo = lo ∧ r.hi = hi := by
  cases hi with
  | none =>
    by_cases hl : lo = 0
    · subst hl; simp [BVR.tryFrom] at h
    · have hl' : (lo == 0) = false := by simpa using hl
      simp [BVR.tryFrom, hl'] at h
      subst h
      exact ⟨by simp only [BVR.wf]; omega, rfl, rfl⟩
  | some x =>
    have hx := hpos x rfl
    have hx0 : (x == 0) = false := by simp; omega
    by_cases hl : lo = 0
    · subst hl
      simp [BVR.tryFrom, hx0] at h
      subst h
      exact ⟨by simpa [BVR.wf] using hx, rfl, rfl⟩
    · have hl' : (lo == 0) = false := by simpa using hl
      by_cases hlt : lo < x
      · simp [BVR.tryFrom, hx0, hl', hlt] at h
        subst h
        refine ⟨by simp only [BVR.wf]; omega, rfl, ?_⟩
        simp only [BVR.hi, Option.some.injEq]; omega
      · simp [BVR.tryFrom, hx0, hl', hlt] at h

/-- a bounded result of `fromClosedOpen` has exactly the requested bounds -/
theorem fco_bounded {lo : Nat} {hi : Option Nat} {r : BVR}
    (h : NRange.fromClosedOpen lo hi = .var (.bounded r)) (hord : ∀ x, hi = some x → lo ≤ x) :
    r.wf ∧ r.lo = lo ∧ r.hi = hi := by
  cases hi with
  | none =>
    rcases fco_spec (lo := lo) (hi := none) (by intro x hx; cases hx) with ⟨_, _, h'⟩ | ⟨r', h', hw, h1, h2⟩
    · rw [h'] at h; cases h
    · rw [h'] at h; cases h; exact ⟨hw, h1, h2⟩
  | some x =>
    have hle := hord x rfl
    by_cases hlt : lo < x
    · rcases fco_spec (lo := lo) (hi := some x) (by intro y hy; cases hy; exact hlt) with
        ⟨_, h', _⟩ | ⟨r', h', hw, h1, h2⟩
      · cases h'
      · rw [h'] at h; cases h; exact ⟨hw, h1, h2⟩
    · have e : lo = x := by omega
      subst e
      exfalso
      have : NRange.fromClosedOpen lo (some lo) = .inv lo := by
        by_cases h0 : lo = 0
        · subst h0; rfl
        · have h0' : (lo == 0) = false := by simpa using h0
          simp [NRange.fromClosedOpen, BVR.tryFrom, h0']
      rw [this] at h; cases h

/-- the range of a repetition contains every admissible number of iterations -/
theorem fco_mem {lo n : Nat} {hi : Option Nat} (h1 : lo ≤ n) (h2 : ∀ h, hi = some h → n ≤ h) :
    (NRange.fromClosedOpen lo hi).wf ∧ (NRange.fromClosedOpen lo hi).mem n := by
  cases hi with
  | none =>
    rcases fco_spec (lo := lo) (hi := none) (by intro x hx; cases hx) with ⟨_, _, h'⟩ | ⟨r', h', hw, e1, e2⟩
    · rw [h']; exact ⟨trivial, trivial⟩
    · rw [h']
      refine ⟨hw, ?_⟩
      show r'.mem n
      rw [BVR.mem_iff, e1, e2]
      exact ⟨h1, by intro h hh; cases hh⟩
  | some x =>
    have hn := h2 x rfl
    by_cases hlt : lo < x
    · rcases fco_spec (lo := lo) (hi := some x) (by intro y hy; cases hy; exact hlt) with
        ⟨_, h', _⟩ | ⟨r', h', hw, e1, e2⟩
      · cases h'
      · rw [h']
        refine ⟨hw, ?_⟩
        show r'.mem n
        rw [BVR.mem_iff, e1, e2]
        exact ⟨h1, by intro h hh; cases hh; exact hn⟩
    · have e : lo = x := by omega
      subst e
      have : NRange.fromClosedOpen lo (some lo) = .inv lo := by
        by_cases h0 : lo = 0
        · subst h0; rfl
        · have h0' : (lo == 0) = false := by simpa using h0
          simp [NRange.fromClosedOpen, BVR.tryFrom, h0']
      rw [this]
      exact ⟨trivial, show n = lo by omega⟩

/-! ### conjunction (sum) -/

theorem translation_back {a r : BVR} {k : Nat} (ha : a.wf) (h : a.translation k = .ok r) :
    r.wf ∧ r.lo ≤ a.lo + k ∧ r.hi = oadd a.hi (some k) := by
  cases a with
  | lower n =>
    simp only [BVR.translation] at h
    obtain ⟨s, hs, h2⟩ := bind_ok h
    have := cadd_ok hs; subst this; cases h2
    simp only [BVR.wf] at ha
    exact ⟨by simp only [BVR.wf]; omega, Nat.le_refl _, rfl⟩
  | upper n =>
    simp only [BVR.translation] at h
    obtain ⟨s, hs, h2⟩ := bind_ok h
    have := cadd_ok hs; subst this; cases h2
    simp only [BVR.wf] at ha
    exact ⟨by simp only [BVR.wf]; omega, by simp [BVR.lo], rfl⟩
  | both l e =>
    simp only [BVR.translation] at h
    obtain ⟨s, hs, h2⟩ := bind_ok h
    have := cadd_ok hs; subst this; cases h2
    simp only [BVR.wf] at ha
    exact ⟨by simp only [BVR.wf]; omega, Nat.le_refl _,
      by simp only [BVR.hi, oadd, Option.some.injEq]; omega⟩

theorem conjFixed_back {a b r : BVR} (ha : a.wf) (hb : b.wf) (h : a.conjFixed b = .ok r) :
    r.wf ∧ r.lo = a.lo + b.lo ∧ r.hi = oadd a.hi b.hi := by
  unfold BVR.conjFixed at h
  obtain ⟨lo, hlo, h⟩ := bind_ok h
  obtain ⟨au, hau, h⟩ := bind_ok h
  obtain ⟨bu, hbu, h⟩ := bind_ok h
  have e1 := cadd_ok hlo
  rw [BVR.lowerB_lo, BVR.lowerB_lo] at e1
  subst e1
  have ea := upperB_back hau
  have eb := upperB_back hbu
  have hpos : ∀ z, oadd a.hi b.hi = some z → 0 < z := by
    intro z hz
    cases hx : a.hi with
    | none => rw [hx] at hz; cases hz
    | some x =>
      cases hy : b.hi with
      | none => rw [hx, hy] at hz; cases hz
      | some y =>
        rw [hx, hy] at hz; cases hz
        have := BVR.hi_pos ha hx
        omega
  have key : ∀ hi, hi = oadd a.hi b.hi →
      (match BVR.tryFrom (a.lo + b.lo) hi with
        | some r => (pure r : P BVR)
        | none => throw "conjunction of bounded ranges is unbounded or invariant") = .ok r →
      r.wf ∧ r.lo = a.lo + b.lo ∧ r.hi = oadd a.hi b.hi := by
    intro hi ehi h
    subst ehi
    cases ht : BVR.tryFrom (a.lo + b.lo) (oadd a.hi b.hi) with
    | none => rw [ht] at h; cases h
    | some r' =>
      rw [ht] at h; cases h
      exact tryFrom_some ht hpos
  dsimp only at h
  cases hx : au.upperUsize with
  | none =>
    rw [hx] at h ea
    exact key none (by rw [← ea]; rfl) h
  | some x =>
    cases hy : bu.upperUsize with
    | none =>
      rw [hx, hy] at h
      rw [hx] at ea; rw [hy] at eb
      exact key none (by rw [← ea, ← eb]; rfl) h
    | some y =>
      rw [hx, hy] at h
      rw [hx] at ea; rw [hy] at eb
      obtain ⟨s, hs, h2⟩ := bind_ok h
      have := cadd_ok hs; subst this
      exact key (some (x + y)) (by rw [← ea, ← eb]; rfl) h2

theorem openedUpper_back {b : BVR} (hb : b.wf) :
    (NVar.ofV b.openedUpper).wf ∧ (NVar.ofV b.openedUpper).lo = b.lo ∧
      (NVar.ofV b.openedUpper).hi = none := by
  cases b with
  | lower n => exact ⟨hb, rfl, rfl⟩
  | upper n => exact ⟨trivial, rfl, rfl⟩
  | both l e =>
    simp only [BVR.wf] at hb
    exact ⟨hb.1, rfl, rfl⟩

theorem lowerOrUnb_back (i : Nat) :
    (if (i == 0) = true then NVar.unb else NVar.bnd (.lower i)).wf ∧
    (if (i == 0) = true then NVar.unb else NVar.bnd (.lower i)).lo = i ∧
    (if (i == 0) = true then NVar.unb else NVar.bnd (.lower i)).hi = none := by
  by_cases h : i = 0
  · subst h; exact ⟨trivial, rfl, rfl⟩
  · have h' : (i == 0) = false := by simpa using h
    simp only [h', Bool.false_eq_true, ↓reduceIte]
    exact ⟨by simp only [NVar.wf, BVR.wf]; omega, rfl, rfl⟩

/-- **conjunction is interval addition** (the lower bound may be smaller: `[0, n] + k` is
`[0, n + k]`) -/
theorem NVar.conj_back {a b r : NVar} (ha : a.wf) (hb : b.wf) (h : a.conj b = .ok r) :
    r.wf ∧ r.lo ≤ a.lo + b.lo ∧ r.hi = oadd a.hi b.hi := by
  cases a with
  | inv x =>
    cases b with
    | inv y =>
      simp only [NVar.conj] at h
      obtain ⟨s, hs, h2⟩ := bind_ok h
      have := cadd_ok hs; subst this; cases h2
      exact ⟨trivial, Nat.le_refl _, rfl⟩
    | unb =>
      simp only [NVar.conj] at h
      cases h
      obtain ⟨h1, h2, h3⟩ := lowerOrUnb_back x
      refine ⟨h1, ?_, ?_⟩
      · rw [h2]; simp [NVar.lo]
      · rw [h3]; rfl
    | bnd r' =>
      simp only [NVar.conj] at h
      obtain ⟨s, hs, h2⟩ := bind_ok h
      cases h2
      obtain ⟨h1, h2, h3⟩ := translation_back hb hs
      refine ⟨h1, by simp only [NVar.lo]; omega, ?_⟩
      simp only [NVar.hi, h3]
      cases r'.hi <;> simp [oadd, Nat.add_comm]
  | unb =>
    cases b with
    | inv y =>
      simp only [NVar.conj] at h
      cases h
      obtain ⟨h1, h2, h3⟩ := lowerOrUnb_back y
      refine ⟨h1, ?_, ?_⟩
      · rw [h2]; simp [NVar.lo]
      · rw [h3]; rfl
    | unb => cases h; exact ⟨trivial, Nat.le_refl _, rfl⟩
    | bnd r' =>
      simp only [NVar.conj] at h
      cases h
      obtain ⟨h1, h2, h3⟩ := openedUpper_back hb
      refine ⟨h1, ?_, ?_⟩
      · rw [h2]; simp [NVar.lo]
      · rw [h3]; rfl
  | bnd l =>
    cases b with
    | inv y =>
      simp only [NVar.conj] at h
      obtain ⟨s, hs, h2⟩ := bind_ok h
      cases h2
      obtain ⟨h1, h2, h3⟩ := translation_back ha hs
      exact ⟨h1, h2, h3⟩
    | unb =>
      simp only [NVar.conj] at h
      cases h
      obtain ⟨h1, h2, h3⟩ := openedUpper_back ha
      refine ⟨h1, ?_, ?_⟩
      · rw [h2]; simp [NVar.lo]
      · rw [h3]; simp only [NVar.hi]; cases l.hi <;> rfl
    | bnd r' =>
      simp only [NVar.conj] at h
      obtain ⟨s, hs, h2⟩ := bind_ok h
      cases h2
      obtain ⟨h1, h2, h3⟩ := conjFixed_back ha hb hs
      exact ⟨h1, Nat.le_of_eq h2, h3⟩

/-- every sum of members is a member of the conjunction -/
theorem NVar.conj_mem {a b r : NVar} (ha : a.wf) (hb : b.wf) (h : a.conj b = .ok r) {x y : Nat}
    (hx : a.mem x) (hy : b.mem y) : r.mem (x + y) := by
  obtain ⟨_, h2, h3⟩ := NVar.conj_back ha hb h
  rw [NVar.mem_iff] at hx hy ⊢
  refine ⟨by omega, ?_⟩
  intro z hz
  rw [h3] at hz
  cases hp : a.hi with
  | none => rw [hp] at hz; cases hz
  | some p =>
    cases hq : b.hi with
    | none => rw [hp, hq] at hz; cases hz
    | some q =>
      rw [hp, hq] at hz; cases hz
      have := hx.2 p hp
      have := hy.2 q hq
      omega

/-! ### product with a repetition range -/

theorem NBound.prod_back {x y z : NBound} (h : x.prod y = .ok z) :
    z.lowerUsize = x.lowerUsize * y.lowerUsize ∧ z.upperUsize = omul x.upperUsize y.upperUsize := by
  cases x <;> cases y <;> simp only [NBound.prod, P.pure_eq] at h <;>
    first
    | (cases h; simp [NBound.lowerUsize, NBound.upperUsize, omul])
    | (obtain ⟨s, hs, h2⟩ := bind_ok h
       have := cmul_ok hs; subst this; cases h2
       simp [NBound.lowerUsize, NBound.upperUsize, omul])

theorem NRange.lowerB_lo (r : NRange) (hr : r.wf) : r.lowerB.lowerUsize = r.lo := by
  cases r with
  | inv n => exact NBound.ofNat_lower n
  | var v =>
    cases v with
    | unbounded => rfl
    | bounded b => exact BVR.lowerB_lo b

theorem NRange.upperB_back {r : NRange} {u : NBound} (h : r.upperB = .ok u) :
    u.upperUsize = r.hi := by
  cases r with
  | inv n => cases h; exact NBound.ofNat_upper n
  | var v =>
    cases v with
    | unbounded => cases h; rfl
    | bounded b => exact Wax.upperB_back h

theorem byBound_prod_back {l r q : NRange} (hl : l.wf) (hr : r.wf)
    (h : NRange.byBound l r NBound.prod = .ok q) :
    q = NRange.fromClosedOpen (l.lo * r.lo) (omul l.hi r.hi) := by
  unfold NRange.byBound at h
  obtain ⟨lo, hlo, h⟩ := bind_ok h
  obtain ⟨lu, hlu, h⟩ := bind_ok h
  obtain ⟨ru, hru, h⟩ := bind_ok h
  obtain ⟨hi, hhi, h⟩ := bind_ok h
  cases h
  rw [(NBound.prod_back hlo).1, (NBound.prod_back hhi).2, NRange.lowerB_lo l hl,
    NRange.lowerB_lo r hr, NRange.upperB_back hlu, NRange.upperB_back hru]

theorem mul_mem_of {lo1 lo2 x n : Nat} {hi1 hi2 : Option Nat}
    (hx : lo1 ≤ x ∧ ∀ h, hi1 = some h → x ≤ h) (hn : lo2 ≤ n ∧ ∀ h, hi2 = some h → n ≤ h) :
    lo1 * lo2 ≤ x * n ∧ ∀ h, omul hi1 hi2 = some h → x * n ≤ h := by
  refine ⟨Nat.mul_le_mul hx.1 hn.1, ?_⟩
  intro h hh
  cases hp : hi1 with
  | none => rw [hp] at hh; cases hh
  | some p =>
    cases hq : hi2 with
    | none => rw [hp, hq] at hh; cases hh
    | some q =>
      rw [hp, hq] at hh; cases hh
      exact Nat.mul_le_mul (hx.2 p hp) (hn.2 q hq)

theorem prodN_back {a r : BVR} {n : Nat} (ha : a.wf) (h : a.prodN n = .ok r) :
    r.wf ∧ ∀ x, a.mem x → r.mem (x * n) := by
  unfold BVR.prodN at h
  obtain ⟨q, hq, h⟩ := bind_ok h
  have e := byBound_prod_back (l := .var (.bounded a)) (r := .inv n) ha trivial hq
  subst e
  simp only [NRange.lo, NRange.hi] at h
  cases hf : NRange.fromClosedOpen (a.lo * n) (omul a.hi (some n)) with
  | inv k => rw [hf] at h; cases h
  | var v =>
    cases v with
    | unbounded => rw [hf] at h; cases h
    | bounded r' =>
      rw [hf] at h; cases h
      obtain ⟨hw, e1, e2⟩ := fco_bounded hf (by
        intro z hz
        cases hp : a.hi with
        | none => rw [hp] at hz; cases hz
        | some p =>
          rw [hp] at hz; cases hz
          exact Nat.mul_le_mul_right _ (BVR.lo_le_hi ha hp))
      refine ⟨hw, ?_⟩
      intro x hx
      rw [BVR.mem_iff] at hx ⊢
      rw [e1, e2]
      exact mul_mem_of (hi2 := some n) hx ⟨Nat.le_refl n, by intro h hh; cases hh; exact Nat.le_refl _⟩

theorem prodB_back {a b : BVR} {v : VRange} (ha : a.wf) (hb : b.wf) (h : a.prodB b = .ok v) :
    (NVar.ofV v).wf ∧ ∀ x n, a.mem x → b.mem n → (NVar.ofV v).mem (x * n) := by
  unfold BVR.prodB at h
  obtain ⟨q, hq, h⟩ := bind_ok h
  have e := byBound_prod_back (l := .var (.bounded a)) (r := .var (.bounded b)) ha hb hq
  subst e
  simp only [NRange.lo, NRange.hi] at h
  cases hf : NRange.fromClosedOpen (a.lo * b.lo) (omul a.hi b.hi) with
  | inv k => rw [hf] at h; cases h
  | var v' =>
    rw [hf] at h; cases h
    cases v with
    | unbounded => exact ⟨trivial, fun _ _ _ _ => trivial⟩
    | bounded r' =>
      obtain ⟨hw, e1, e2⟩ := fco_bounded hf (by
        intro z hz
        cases hp : a.hi with
        | none => rw [hp] at hz; cases hz
        | some p =>
          cases hq' : b.hi with
          | none => rw [hp, hq'] at hz; cases hz
          | some q =>
            rw [hp, hq'] at hz; cases hz
            exact Nat.mul_le_mul (BVR.lo_le_hi ha hp) (BVR.lo_le_hi hb hq'))
      refine ⟨hw, ?_⟩
      intro x n hx hn
      show r'.mem (x * n)
      rw [BVR.mem_iff] at hx hn ⊢
      rw [e1, e2]
      exact mul_mem_of hx hn

/-- **product**: a member times an admissible number of iterations is a member -/
theorem NVar.prod_back {l v : NVar} {r : NRange} (hl : l.wf) (hr : r.wf) (h : l.prod r = .ok v) :
    v.wf ∧ ∀ x n, l.mem x → r.mem n → v.mem (x * n) := by
  cases l with
  | inv a =>
    cases r with
    | inv n =>
      simp only [NVar.prod] at h
      obtain ⟨s, hs, h2⟩ := bind_ok h
      have := cmul_ok hs; subst this; cases h2
      refine ⟨trivial, ?_⟩
      intro x n' hx hn
      simp only [NVar.mem] at hx; simp only [NRange.mem] at hn
      subst hx; subst hn; rfl
    | var w =>
      by_cases ha0 : a = 0
      · subst ha0
        simp only [NVar.prod, BEq.rfl, ↓reduceIte, P.pure_eq] at h
        cases h
        refine ⟨trivial, ?_⟩
        intro x n hx _
        simp only [NVar.mem] at hx ⊢
        subst hx; simp
      · have ha0' : (a == 0) = false := by simpa using ha0
        cases w with
        | unbounded =>
          simp [NVar.prod, ha0'] at h
          cases h
          exact ⟨trivial, fun _ _ _ _ => trivial⟩
        | bounded b =>
          simp only [NVar.prod, ha0', Bool.false_eq_true, ↓reduceIte] at h
          obtain ⟨s, hs, h2⟩ := bind_ok h
          cases h2
          obtain ⟨hw, hm⟩ := prodN_back (a := b) hr hs
          refine ⟨hw, ?_⟩
          intro x n hx hn
          simp only [NVar.mem] at hx
          subst hx
          rw [Nat.mul_comm]
          exact hm n hn
  | unb =>
    cases r with
    | inv n =>
      by_cases hn0 : n = 0
      · subst hn0
        simp only [NVar.prod, BEq.rfl, ↓reduceIte, P.pure_eq] at h
        cases h
        refine ⟨trivial, ?_⟩
        intro x n _ hn
        simp only [NRange.mem] at hn
        subst hn; simp [NVar.mem]
      · have hn0' : (n == 0) = false := by simpa using hn0
        simp [NVar.prod, hn0'] at h
        cases h
        exact ⟨trivial, fun _ _ _ _ => trivial⟩
    | var w =>
      simp only [NVar.prod, P.pure_eq] at h
      cases h
      exact ⟨trivial, fun _ _ _ _ => trivial⟩
  | bnd b =>
    cases r with
    | inv n =>
      by_cases hn0 : n = 0
      · subst hn0
        simp only [NVar.prod, BEq.rfl, ↓reduceIte, P.pure_eq] at h
        cases h
        refine ⟨trivial, ?_⟩
        intro x n _ hn
        simp only [NRange.mem] at hn
        subst hn; simp [NVar.mem]
      · have hn0' : (n == 0) = false := by simpa using hn0
        simp only [NVar.prod, hn0', Bool.false_eq_true, ↓reduceIte] at h
        obtain ⟨s, hs, h2⟩ := bind_ok h
        cases h2
        obtain ⟨hw, hm⟩ := prodN_back (a := b) hl hs
        refine ⟨hw, ?_⟩
        intro x n' hx hn
        simp only [NRange.mem] at hn
        subst hn
        exact hm x hx
    | var w =>
      cases w with
      | unbounded =>
        simp only [NVar.prod, P.pure_eq] at h
        cases h
        exact ⟨trivial, fun _ _ _ _ => trivial⟩
      | bounded c =>
        simp only [NVar.prod] at h
        obtain ⟨s, hs, h2⟩ := bind_ok h
        cases h2
        obtain ⟨hw, hm⟩ := prodB_back hl hr hs
        exact ⟨hw, fun x n hx hn => hm x n hx hn⟩

/-! ### disjunction (hull) -/

theorem union_back {a : BVR} {o : NRange} {v : VRange} (ha : a.wf) (ho : o.wf)
    (hoh : ∀ h, o.hi = some h → o.lo ≤ h) (h : a.union o = .ok v) :
    (NVar.ofV v).wf ∧ (∀ x, a.mem x → (NVar.ofV v).mem x) ∧ (∀ x, o.mem x → (NVar.ofV v).mem x) := by
  unfold BVR.union at h
  obtain ⟨su, hsu, h⟩ := bind_ok h
  obtain ⟨ou, hou, h⟩ := bind_ok h
  have e1 : (NRange.var (VRange.bounded a)).lowerB = a.lowerB := rfl
  have e2 : su.upperUsize = a.hi := Wax.upperB_back hsu
  have e3 : ou.upperUsize = o.hi := NRange.upperB_back hou
  simp only [e1, lowerMin_eq, upperMax_eq, BVR.lowerB_lo, NRange.lowerB_lo o ho, e2, e3] at h
  cases hf : NRange.fromClosedOpen (min a.lo o.lo) (omax a.hi o.hi) with
  | inv k => rw [hf] at h; cases h
  | var v' =>
    rw [hf] at h; cases h
    cases v with
    | unbounded => exact ⟨trivial, fun _ _ => trivial, fun _ _ => trivial⟩
    | bounded r =>
      obtain ⟨hw, l1, l2⟩ := fco_bounded hf (by
        intro z hz
        cases hp : a.hi with
        | none => rw [hp] at hz; cases hz
        | some p =>
          cases hq : o.hi with
          | none => rw [hp, hq] at hz; cases hz
          | some q =>
            rw [hp, hq] at hz; cases hz
            have := BVR.lo_le_hi ha hp
            omega)
      refine ⟨hw, ?_, ?_⟩
      · intro x hx
        show r.mem x
        rw [BVR.mem_iff] at hx ⊢
        rw [l1, l2]
        refine ⟨by omega, ?_⟩
        intro z hz
        cases hp : a.hi with
        | none => rw [hp] at hz; cases hz
        | some p =>
          cases hq : o.hi with
          | none => rw [hp, hq] at hz; cases hz
          | some q =>
            rw [hp, hq] at hz; cases hz
            have := hx.2 p hp
            omega
      · intro x hx
        show r.mem x
        rw [NRange.mem_iff] at hx
        rw [BVR.mem_iff, l1, l2]
        refine ⟨by omega, ?_⟩
        intro z hz
        cases hp : a.hi with
        | none => rw [hp] at hz; cases hz
        | some p =>
          cases hq : o.hi with
          | none => rw [hp, hq] at hz; cases hz
          | some q =>
            rw [hp, hq] at hz; cases hz
            have := hx.2 q hq
            omega

/-- **disjunction**: both operands are contained in the hull -/
theorem NVar.disj_back {a b r : NVar} (ha : a.wf) (hb : b.wf) (h : a.disj b = .ok r) :
    r.wf ∧ (∀ x, a.mem x → r.mem x) ∧ (∀ x, b.mem x → r.mem x) := by
  unfold NVar.disj at h
  by_cases heq : (a == b) = true
  · simp only [heq, ↓reduceIte, P.pure_eq] at h
    cases h
    have : a = b := eq_of_beq heq
    subst this
    exact ⟨ha, fun _ hx => hx, fun _ hx => hx⟩
  · simp only [heq, Bool.false_eq_true, ↓reduceIte] at h
    cases a with
    | inv x =>
      cases b with
      | inv y =>
        simp only [P.pure_eq] at h
        cases ht : BVR.tryFrom (min x y) (some (max x y)) with
        | none =>
          rw [ht] at h; cases h
          exact ⟨trivial, fun _ _ => trivial, fun _ _ => trivial⟩
        | some r' =>
          rw [ht] at h; cases h
          have hpos : ∀ z, some (max x y) = some z → 0 < z := by
            intro z hz; cases hz
            by_cases h0 : max x y = 0
            · exfalso
              have : min x y = 0 := by omega
              rw [h0, this] at ht
              simp [BVR.tryFrom] at ht
            · omega
          obtain ⟨hw, l1, l2⟩ := tryFrom_some ht hpos
          refine ⟨hw, ?_, ?_⟩
          · intro z hz
            simp only [NVar.mem] at hz; subst hz
            show r'.mem z
            rw [BVR.mem_iff, l1, l2]
            exact ⟨by omega, by intro w hw'; cases hw'; omega⟩
          · intro z hz
            simp only [NVar.mem] at hz; subst hz
            show r'.mem z
            rw [BVR.mem_iff, l1, l2]
            exact ⟨by omega, by intro w hw'; cases hw'; omega⟩
      | unb => cases h; exact ⟨trivial, fun _ _ => trivial, fun _ _ => trivial⟩
      | bnd r' =>
        obtain ⟨s, hs, h2⟩ := bind_ok h
        cases h2
        obtain ⟨hw, m1, m2⟩ := union_back (o := .inv x) hb trivial
          (by intro z hz; cases hz; exact Nat.le_refl _) hs
        exact ⟨hw, fun z hz => m2 z hz, fun z hz => m1 z hz⟩
    | unb => cases b <;> (cases h; exact ⟨trivial, fun _ _ => trivial, fun _ _ => trivial⟩)
    | bnd l =>
      cases b with
      | inv y =>
        obtain ⟨s, hs, h2⟩ := bind_ok h
        cases h2
        obtain ⟨hw, m1, m2⟩ := union_back (o := .inv y) ha trivial
          (by intro z hz; cases hz; exact Nat.le_refl _) hs
        exact ⟨hw, fun z hz => m1 z hz, fun z hz => m2 z hz⟩
      | unb => cases h; exact ⟨trivial, fun _ _ => trivial, fun _ _ => trivial⟩
      | bnd r' =>
        obtain ⟨s, hs, h2⟩ := bind_ok h
        cases h2
        obtain ⟨hw, m1, m2⟩ := union_back (o := .var (.bounded r')) ha hb
          (by intro z hz; exact BVR.lo_le_hi hb hz) hs
        exact ⟨hw, fun z hz => m1 z hz, fun z hz => m2 z hz⟩

theorem foldlP_disj_back : ∀ (vs : List NVar) (acc r : NVar), acc.wf → (∀ v ∈ vs, NVar.wf v) →
    foldlP NVar.disj acc vs = .ok r →
    r.wf ∧ (∀ x, acc.mem x → r.mem x) ∧ ∀ v ∈ vs, ∀ x, NVar.mem x v → r.mem x
  | [], acc, r, ha, _, h => by
    cases h
    exact ⟨ha, fun _ hx => hx, by intro v hv; cases hv⟩
  | v :: vs, acc, r, ha, hvs, h => by
    simp only [foldlP] at h
    obtain ⟨a', ha', h⟩ := bind_ok h
    obtain ⟨hw, m1, m2⟩ := NVar.disj_back ha (hvs v (List.mem_cons_self ..)) ha'
    obtain ⟨hr, n1, n2⟩ := foldlP_disj_back vs a' r hw
      (fun z hz => hvs z (List.mem_cons_of_mem _ hz)) h
    refine ⟨hr, fun x hx => n1 x (m1 x hx), ?_⟩
    intro z hz x hx
    rcases List.mem_cons.mp hz with rfl | hz
    · exact n1 x (m2 x hx)
    · exact n2 z hz x hx

end Wax
