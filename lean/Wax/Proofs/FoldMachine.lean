/-! The explicit-stack loop of `Token::fold_with_sequence` (token/walk.rs:108-182, `Forward`
sequencer) against the structural fold.  Generic in the leaf, branch and term types. -/
namespace Wax.FoldMachine

inductive T (L B : Type) where
  | leaf (l : L)
  | branch (b : B) (cs : List (T L B))

structure Fold (L B Term : Type) where
  term : L → Term
  init : B → Option Term
  fold : B → List Term → Option Term
  finalize : B → Term → Term

variable {L B Term : Type}

mutual
  def nodes : T L B → Nat
    | .leaf _ => 1
    | .branch _ cs => 1 + nodesList cs
  def nodesList : List (T L B) → Nat
    | [] => 0
    | c :: cs => nodes c + nodesList cs
end

mutual
  /-- the structural fold: children in order, the initr term *last* -/
  def sfold (f : Fold L B Term) : T L B → Option Term
    | .leaf l => some (f.term l)
    | .branch b cs => (f.fold b (sfoldList f cs ++ (f.init b).toList)).map (f.finalize b)
  def sfoldList (f : Fold L B Term) : List (T L B) → List Term
    | [] => []
    | c :: cs => (sfold f c).toList ++ sfoldList f cs
end

/-! the machine: both stacks with their top at the head -/

abbrev Frame (B Term : Type) := B × List Term

def frameFold (f : Fold L B Term) (fr : Frame B Term) : Option Term :=
  (f.fold fr.1 fr.2).map (f.finalize fr.1)

/-- `TokenBranch::push` on the top frame (`push_front`) -/
def pushOpt (o : Option Term) (bs : List (Frame B Term)) : List (Frame B Term) :=
  match o, bs with
  | some t, (b, ts) :: r => (b, t :: ts) :: r
  | _, bs => bs

/-- `fold_n`: `min(n, len - 1)` times pop, fold, push onto the new top -/
def foldN (f : Fold L B Term) : Nat → List (Frame B Term) → List (Frame B Term)
  | n + 1, fr :: p :: r => foldN f n (pushOpt (frameFold f fr) (p :: r))
  | _, bs => bs

/-- `TokenPath::pop(depth)` -/
def pop (f : Fold L B Term) (d : Nat) (bs : List (Frame B Term)) : List (Frame B Term) :=
  if d ≤ bs.length then foldN f (bs.length - d) bs else bs

def run (f : Fold L B Term) : Nat → List (T L B × Nat) → List (Frame B Term) → Option Term
  | 0, _, _ => none
  | _ + 1, [], bs =>
    match foldN f bs.length bs with
    | fr :: _ => frameFold f fr
    | [] => none
  | n + 1, (t, d) :: toks, bs =>
    let bs1 := pop f d bs
    match t with
    | .branch b cs =>
      run f n ((cs.reverse.map fun c => (c, d + 1)) ++ toks) ((b, (f.init b).toList) :: bs1)
    | .leaf l =>
      match bs1 with
      | [] => some (f.term l)
      | (b, ts) :: r => run f n toks ((b, f.term l :: ts) :: r)

/-! ### lemmas about `fold_n` -/

theorem pushOpt_length (o : Option Term) (bs : List (Frame B Term)) :
    (pushOpt o bs).length = bs.length := by
  unfold pushOpt
  split <;> simp

theorem foldN_length (f : Fold L B Term) : ∀ (n : Nat) (bs : List (Frame B Term)),
    (foldN f n bs).length = bs.length - min n (bs.length - 1)
  | 0, bs => by simp [foldN]
  | n + 1, [] => by simp [foldN]
  | n + 1, [x] => by simp [foldN]
  | n + 1, fr :: p :: r => by
    rw [foldN, foldN_length f n, pushOpt_length]
    simp only [List.length_cons]
    omega

theorem foldN_add (f : Fold L B Term) : ∀ (a b : Nat) (bs : List (Frame B Term)),
    foldN f (a + b) bs = foldN f b (foldN f a bs)
  | 0, b, bs => by simp [foldN]
  | a + 1, b, [] => by
    have : foldN f (a + 1 + b) ([] : List (Frame B Term)) = [] := by
      rw [show a + 1 + b = (a + b) + 1 by omega]; simp [foldN]
    rw [this]; simp [foldN]
  | a + 1, b, [x] => by
    have : foldN f (a + 1 + b) [x] = [x] := by
      rw [show a + 1 + b = (a + b) + 1 by omega]; simp [foldN]
    rw [this]; simp [foldN]
  | a + 1, b, fr :: p :: r => by
    rw [show a + 1 + b = (a + b) + 1 by omega, foldN, foldN, foldN_add f a b]

theorem foldN_sat (f : Fold L B Term) : ∀ (n : Nat) (bs : List (Frame B Term)),
    bs.length - 1 ≤ n → foldN f n bs = foldN f (bs.length - 1) bs := by
  intro n bs h
  obtain ⟨k, rfl⟩ : ∃ k, n = (bs.length - 1) + k := ⟨n - (bs.length - 1), by omega⟩
  rw [foldN_add]
  have hl := foldN_length f (bs.length - 1) bs
  generalize foldN f (bs.length - 1) bs = cs at hl ⊢
  have : cs.length ≤ 1 := by rw [hl]; omega
  match cs, this with
  | [], _ => cases k <;> simp [foldN]
  | [x], _ => cases k <;> simp [foldN]

/-- fold the stack down to `d` frames -/
def settle (f : Fold L B Term) (d : Nat) (bs : List (Frame B Term)) : List (Frame B Term) :=
  foldN f (bs.length - d) bs

theorem settle_length (f : Fold L B Term) (d : Nat) (bs : List (Frame B Term))
    (h1 : 1 ≤ d) (h2 : d ≤ bs.length) : (settle f d bs).length = d := by
  unfold settle; rw [foldN_length]; omega

theorem settle_settle (f : Fold L B Term) (d d' : Nat) (bs : List (Frame B Term))
    (h1 : 1 ≤ d) (h2 : d ≤ d') (h3 : d' ≤ bs.length) :
    settle f d (settle f d' bs) = settle f d bs := by
  have hl := settle_length f d' bs (by omega) h3
  unfold settle at *
  rw [hl, ← foldN_add]
  congr 1; omega

theorem settle_self (f : Fold L B Term) (bs : List (Frame B Term)) :
    settle f bs.length bs = bs := by
  simp [settle, foldN]

theorem pop_eq_settle (f : Fold L B Term) (d : Nat) (bs : List (Frame B Term))
    (h : d ≤ bs.length) : pop f d bs = settle f d bs := by
  simp [pop, settle, h]

/-! ### the refinement -/

/-- prepend terms to the top frame -/
def pushList (ts : List Term) (bs : List (Frame B Term)) : List (Frame B Term) :=
  match bs with
  | (b, old) :: r => (b, ts ++ old) :: r
  | [] => []

theorem pushList_nil (bs : List (Frame B Term)) : pushList [] bs = bs := by
  cases bs with
  | nil => rfl
  | cons fr r => obtain ⟨b, old⟩ := fr; simp [pushList]

theorem pushList_pushOpt (ts : List Term) (o : Option Term) (bs : List (Frame B Term)) :
    pushList ts (pushOpt o bs) = pushList (ts ++ o.toList) bs := by
  cases bs with
  | nil => cases o <;> simp [pushList, pushOpt]
  | cons fr r =>
    obtain ⟨b, old⟩ := fr
    cases o <;> simp [pushList, pushOpt]

theorem sfoldList_append (f : Fold L B Term) : ∀ (a b : List (T L B)),
    sfoldList f (a ++ b) = sfoldList f a ++ sfoldList f b
  | [], b => by simp [sfoldList]
  | x :: a, b => by simp [sfoldList, sfoldList_append f a b]

theorem nodesList_append : ∀ (a b : List (T L B)), nodesList (a ++ b) = nodesList a + nodesList b
  | [], b => by simp [nodesList]
  | x :: a, b => by simp [nodesList, nodesList_append a b]; omega

theorem nodesList_reverse : ∀ (a : List (T L B)), nodesList a.reverse = nodesList a
  | [] => rfl
  | x :: a => by
    simp [nodesList_append, nodesList, nodesList_reverse a]; omega

theorem nodes_le_of_mem : ∀ (cs : List (T L B)) (c : T L B), c ∈ cs → nodes c ≤ nodesList cs
  | x :: cs, c, h => by
    rcases List.mem_cons.mp h with rfl | h
    · simp [nodesList]
    · have := nodes_le_of_mem cs c h; simp [nodesList]; omega

/-- what processing one token (with its whole subtree) does to the machine -/
def PropA (f : Fold L B Term) (t : T L B) : Prop :=
  ∀ (d : Nat) (rest : List (T L B × Nat)) (bs : List (Frame B Term)), 1 ≤ d → d ≤ bs.length →
    ∃ bs2, d ≤ bs2.length ∧ settle f d bs2 = pushOpt (sfold f t) (settle f d bs) ∧
      ∀ k, run f (nodes t + k) ((t, d) :: rest) bs = run f k rest bs2

theorem lemmaB (f : Fold L B Term) : ∀ (xs : List (T L B)), (∀ x ∈ xs, PropA f x) →
    ∀ (e : Nat) (rest : List (T L B × Nat)) (bs : List (Frame B Term)), 1 ≤ e → e ≤ bs.length →
      ∃ bs2, e ≤ bs2.length ∧
        settle f e bs2 = pushList (sfoldList f xs.reverse) (settle f e bs) ∧
        ∀ k, run f (nodesList xs + k) ((xs.map fun c => (c, e)) ++ rest) bs = run f k rest bs2
  | [], _, e, rest, bs, _, h2 =>
    ⟨bs, h2, by simp [sfoldList, pushList_nil], by intro k; simp [nodesList]⟩
  | x :: xs, hA, e, rest, bs, h1, h2 => by
    obtain ⟨bs1, l1, s1, r1⟩ := hA x (by simp) e ((xs.map fun c => (c, e)) ++ rest) bs h1 h2
    obtain ⟨bs2, l2, s2, r2⟩ :=
      lemmaB f xs (fun y hy => hA y (by simp [hy])) e rest bs1 h1 l1
    refine ⟨bs2, l2, ?_, ?_⟩
    · rw [s2, s1, pushList_pushOpt]
      simp [sfoldList_append, sfoldList]
    · intro k
      have : nodesList (x :: xs) + k = nodes x + (nodesList xs + k) := by
        simp [nodesList]; omega
      rw [this]
      simp only [List.map_cons, List.cons_append]
      rw [r1, r2]

theorem nodes_pos (t : T L B) : 1 ≤ nodes t := by
  cases t <;> simp [nodes]

theorem propA_all (f : Fold L B Term) : ∀ (n : Nat) (t : T L B), nodes t ≤ n → PropA f t
  | 0, t, h => by have := nodes_pos t; omega
  | n + 1, .leaf l, _ => by
    intro d rest bs h1 h2
    have hl := settle_length f d bs h1 h2
    have hp := pop_eq_settle f d bs h2
    cases hS : settle f d bs with
    | nil => rw [hS] at hl; simp at hl; omega
    | cons fr r =>
      obtain ⟨b, ts⟩ := fr
      rw [hS] at hl hp
      refine ⟨(b, f.term l :: ts) :: r, by simp at hl ⊢; omega, ?_, ?_⟩
      · have : ((b, f.term l :: ts) :: r).length = d := by simpa using hl
        have hs := settle_self f ((b, f.term l :: ts) :: r)
        rw [this] at hs
        rw [hs]; simp [sfold, pushOpt]
      · intro k
        have : nodes (T.leaf l : T L B) + k = k + 1 := by simp [nodes]; omega
        rw [this, run]
        simp only [hp]
  | n + 1, .branch b cs, hn => by
    intro d rest bs h1 h2
    have hl := settle_length f d bs h1 h2
    have hp := pop_eq_settle f d bs h2
    have hch : ∀ x ∈ cs.reverse, PropA f x := by
      intro x hx
      have hx' : x ∈ cs := List.mem_reverse.mp hx
      have := nodes_le_of_mem cs x hx'
      simp only [nodes] at hn
      exact propA_all f n x (by omega)
    obtain ⟨bs2, l2, s2, r2⟩ :=
      lemmaB f cs.reverse hch (d + 1) rest ((b, (f.init b).toList) :: settle f d bs)
        (by omega) (by simp [hl])
    have hself : settle f (d + 1) ((b, (f.init b).toList) :: settle f d bs) =
        (b, (f.init b).toList) :: settle f d bs := by
      have := settle_self f ((b, (f.init b).toList) :: settle f d bs)
      simpa [hl] using this
    rw [hself, List.reverse_reverse] at s2
    refine ⟨bs2, by omega, ?_, ?_⟩
    · rw [← settle_settle f d (d + 1) bs2 h1 (by omega) l2, s2]
      cases hS : settle f d bs with
      | nil => rw [hS] at hl; simp at hl; omega
      | cons p r =>
        rw [hS] at hl
        have hlen : ((b, sfoldList f cs ++ (f.init b).toList) :: p :: r).length - d = 1 := by
          simp at hl ⊢; omega
        simp only [pushList, settle, hlen, foldN]
        simp [frameFold, sfold]
    · intro k
      have : nodes (T.branch b cs) + k = (nodesList cs.reverse + k) + 1 := by
        simp [nodes, nodesList_reverse]; omega
      rw [this, run]
      simp only [hp]
      exact r2 k

/-- **the loop computes the structural fold**, for every tree and every fold -/
theorem run_eq_sfold (f : Fold L B Term) (t : T L B) :
    run f (nodes t + 1) [(t, 0)] [] = sfold f t := by
  cases t with
  | leaf l => simp [run, pop, foldN, sfold, nodes]
  | branch b cs =>
    have hch : ∀ x ∈ cs.reverse, PropA f x := fun x _ => propA_all f (nodes x) x (Nat.le_refl _)
    obtain ⟨bs2, l2, s2, r2⟩ :=
      lemmaB f cs.reverse hch 1 [] [(b, (f.init b).toList)] (by omega) (by simp)
    have hself : settle f 1 [(b, (f.init b).toList)] = [(b, (f.init b).toList)] :=
      settle_self f [(b, (f.init b).toList)]
    rw [hself, List.reverse_reverse] at s2
    have : nodes (T.branch b cs) + 1 = (nodesList cs.reverse + 1) + 1 := by
      simp [nodes, nodesList_reverse]; omega
    rw [this, run]
    have hpop : pop f 0 ([] : List (Frame B Term)) = [] := by simp [pop, foldN]
    simp only [hpop]
    have := r2 1
    simp only [Nat.zero_add]
    rw [this, run]
    rw [foldN_sat f bs2.length bs2 (by omega)]
    have hs : foldN f (bs2.length - 1) bs2 = settle f 1 bs2 := rfl
    rw [hs, s2]
    simp [pushList, frameFold, sfold]

end Wax.FoldMachine
