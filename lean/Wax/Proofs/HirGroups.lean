import Wax.Proofs.HirAlt
import Wax.Exec
/-!
# `Re.hirNorm` keeps the capture groups, in order

`Re.groupList r` lists the bodies of the capture groups of `r` in the order of their opening
parentheses, which is the numbering `Re.run` uses for the slots (`groupList_length`,
and `Wax/Proofs/ExecCaps.lean`).  Headline:

`hirNorm_groups : r.capsKept = true → (r.hirNorm orbit σ).groupList = r.groupList.map (Re.hirNorm orbit σ)`

the `i`-th group of the normal form is the normal form of the `i`-th group; in particular
`hirNorm_ncaps : (r.hirNorm orbit σ).ncaps = r.ncaps`.

The hypothesis `capsKept` (no capture group inside an `x{0,0}`) is necessary: `Hir::repetition`
turns `x{0,0}` into the empty expression, groups and all (`hirNorm_ncaps_false_of_dropped`).
The encoder never emits a group inside a repetition.

The prefix factoring `(?:PA|PB)` → `P(?:A|B)` cannot move a group: a factored prefix is a sequence
of elements that are `Hir`-equal in all branches, and nothing that contains a capture group is
`Hir`-equal to anything (`beq_groupList`).
-/
namespace Wax

mutual
  /-- the bodies of the capture groups, in the order of their opening parentheses -/
  def Re.groupList : Re → List Re
    | .lit .. | .chr _ | .never => []
    | .cat l | .alt l => Re.groupListL l
    | .star r | .lazyStar r | .opt r | .rep r _ _ | .grp r => r.groupList
    | .cap r => r :: r.groupList
  def Re.groupListL : List Re → List Re
    | [] => []
    | r :: rs => r.groupList ++ Re.groupListL rs
end

mutual
  theorem groupList_length : ∀ (r : Re), r.groupList.length = r.ncaps
    | .lit .. => by simp [Re.groupList, Re.ncaps]
    | .chr _ => by simp [Re.groupList, Re.ncaps]
    | .never => by simp [Re.groupList, Re.ncaps]
    | .cat l => by simp only [Re.groupList, Re.ncaps]; exact groupListL_length l
    | .alt l => by simp only [Re.groupList, Re.ncaps]; exact groupListL_length l
    | .star r => by simp only [Re.groupList, Re.ncaps]; exact groupList_length r
    | .lazyStar r => by simp only [Re.groupList, Re.ncaps]; exact groupList_length r
    | .opt r => by simp only [Re.groupList, Re.ncaps]; exact groupList_length r
    | .rep r _ _ => by simp only [Re.groupList, Re.ncaps]; exact groupList_length r
    | .grp r => by simp only [Re.groupList, Re.ncaps]; exact groupList_length r
    | .cap r => by simp only [Re.groupList, Re.ncaps, List.length_cons, groupList_length r]
  theorem groupListL_length : ∀ (l : List Re), (Re.groupListL l).length = Re.ncapsList l
    | [] => by simp [Re.groupListL, Re.ncapsList]
    | r :: rs => by
      simp only [Re.groupListL, Re.ncapsList, List.length_append, groupList_length r, groupListL_length rs]
end

/-- the sub-regex of the `i`-th capture group (`i = 0`: the whole pattern; out of range: `never`) -/
def Re.group (r : Re) : Nat → Re
  | 0 => r
  | i + 1 => (r.groupList[i]?).getD .never

mutual
  /-- no capture group is inside an `x{0,0}` -/
  def Re.capsKept : Re → Bool
    | .lit .. | .chr _ | .never => true
    | .cat l | .alt l => Re.capsKeptL l
    | .star r | .lazyStar r | .opt r | .cap r | .grp r => r.capsKept
    | .rep r lo hi => (!(lo == 0 && hi == some 0) || r.ncaps == 0) && r.capsKept
  def Re.capsKeptL : List Re → Bool
    | [] => true
    | r :: rs => r.capsKept && Re.capsKeptL rs
end

/-! ### groups of a normal form -/

mutual
  def H.groupList : H → List H
    | .empty | .lit _ | .set .. | .fail => []
    | .rep _ _ _ s => s.groupList
    | .cap s => s :: s.groupList
    | .cat l | .alt l => H.groupListL l
  def H.groupListL : List H → List H
    | [] => []
    | x :: xs => x.groupList ++ H.groupListL xs
end

/-- the implementation of a class has no groups -/
def SetPlain (_ : Ranges) (impl : Re) : Prop := impl.groupList = []

theorem H.groupListL_append : ∀ (a b : List H), H.groupListL (a ++ b) = H.groupListL a ++ H.groupListL b
  | [], b => by simp [H.groupListL]
  | x :: a, b => by simp only [List.cons_append, H.groupListL, H.groupListL_append a b, List.append_assoc]

theorem H.groupListL_eq_flatMap : ∀ (l : List H), H.groupListL l = l.flatMap H.groupList
  | [] => by simp [H.groupListL]
  | x :: xs => by simp only [H.groupListL, List.flatMap_cons, H.groupListL_eq_flatMap xs]

theorem Re.groupListL_eq_flatMap : ∀ (l : List Re), Re.groupListL l = l.flatMap Re.groupList
  | [] => by simp [Re.groupListL]
  | x :: xs => by simp only [Re.groupListL, List.flatMap_cons, Re.groupListL_eq_flatMap xs]

mutual
  theorem toRe_groupList : ∀ (h : H), H.WF SetPlain h → h.toRe.groupList = h.groupList.map H.toRe
    | .empty, _ => by simp [H.toRe, Re.groupList, H.groupList]
    | .lit _, _ => by simp [H.toRe, Re.groupList, H.groupList]
    | .set _ _, hw => by simp only [H.toRe, H.groupList, List.map_nil]; exact hw.of_set
    | .fail, _ => by simp [H.toRe, Re.groupList, H.groupList]
    | .rep lo hi lz s, hw => by
      simp only [H.toRe, H.groupList]
      split <;> simp only [Re.groupList] <;> exact toRe_groupList s hw.of_rep
    | .cap s, hw => by
      simp only [H.toRe, H.groupList, Re.groupList, List.map_cons, toRe_groupList s hw.of_cap]
    | .cat l, hw => by
      simp only [H.toRe, H.groupList, Re.groupList]
      exact toReList_groupList l hw.of_cat
    | .alt l, hw => by
      simp only [H.toRe, H.groupList, Re.groupList]
      exact toReList_groupList l hw.of_alt
  theorem toReList_groupList : ∀ (l : List H), (∀ x ∈ l, H.WF SetPlain x) →
      Re.groupListL (H.toReList l) = (H.groupListL l).map H.toRe
    | [], _ => by simp [H.toReList, Re.groupListL, H.groupListL]
    | x :: xs, hw => by
      simp only [H.toReList, Re.groupListL, H.groupListL, List.map_append,
        toRe_groupList x (hw x (List.mem_cons_self ..)),
        toReList_groupList xs (fun y hy => hw y (List.mem_cons_of_mem _ hy))]
end

/-! ### `mkCat` -/

theorem groupListL_catFlat (x : H) : H.groupListL (catFlat x) = x.groupList := by
  cases x <;> simp [catFlat, H.groupListL, H.groupList]

theorem groupListL_flatMap_catFlat : ∀ (l : List H), H.groupListL (l.flatMap catFlat) = H.groupListL l
  | [] => by simp
  | x :: xs => by
    simp only [List.flatMap_cons, H.groupListL_append, groupListL_catFlat, groupListL_flatMap_catFlat xs,
      H.groupListL]

theorem groupListL_mergeLits (l : List H) : H.groupListL (mergeLits l) = H.groupListL l := by
  fun_induction mergeLits l with
  | case1 a rest b rest' hm ih =>
    rw [hm] at ih
    simp only [H.groupListL, H.groupList, List.nil_append] at ih ⊢
    exact ih
  | case2 a rest hne ih => simp only [H.groupListL, ih]
  | case3 x rest hx ih => simp only [H.groupListL, ih]
  | case4 => rfl

theorem groupList_catOf : ∀ (xs : List H), (catOf xs).groupList = H.groupListL xs
  | [] => by simp [catOf, H.groupList, H.groupListL]
  | [x] => by simp [catOf, H.groupListL]
  | x :: y :: ys => by simp only [catOf, H.groupList]

theorem groupList_mkCat (l : List H) : (mkCat l).groupList = H.groupListL l := by
  rw [mkCat_eq, groupList_catOf, groupListL_mergeLits, groupListL_flatMap_catFlat]

/-! ### `mkRep` -/

theorem groupList_repOf (lo : Nat) (hi : Option Nat) (lz : Bool) (sub : H)
    (h : lo = 0 → hi = some 0 → sub.groupList = []) : (repOf lo hi lz sub).groupList = sub.groupList := by
  unfold repOf
  split
  · rename_i hc
    simp only [Bool.and_eq_true, beq_iff_eq] at hc
    rw [h hc.1 hc.2]; simp [H.groupList]
  · split
    · rfl
    · simp only [H.groupList]

theorem groupList_mkRep (lo : Nat) (hi : Option Nat) (lz : Bool) (sub : H)
    (h : lo = 0 → hi = some 0 → sub.groupList = []) : (mkRep lo hi lz sub).groupList = sub.groupList := by
  rw [mkRep_eq]
  split
  · apply groupList_repOf
    intro h1 h2
    apply h
    · omega
    · cases hi with
      | none => simp at h2
      | some n =>
        simp only [Option.some.injEq] at h2
        have : n = 0 := by omega
        rw [this]
  · exact groupList_repOf _ _ _ _ h

/-! ### `mkAltF` -/

mutual
  /-- nothing with a capture group in it is `Hir`-equal to anything -/
  theorem beq_groupList : ∀ (x y : H), H.beq x y = true → x.groupList = [] ∧ y.groupList = []
    | .empty, y, h => by cases y <;> simp [H.beq] at h; simp [H.groupList]
    | .lit a, y, h => by cases y <;> simp [H.beq] at h; simp [H.groupList]
    | .set a i, y, h => by cases y <;> simp [H.beq] at h; simp [H.groupList]
    | .fail, y, h => by cases y <;> simp [H.beq] at h; simp [H.groupList]
    | .rep lo hi lz s, y, h => by
      cases y <;> simp [H.beq] at h
      simp only [H.groupList]
      exact beq_groupList s _ h.2
    | .cap s, y, h => by cases y <;> simp [H.beq] at h
    | .cat l, y, h => by
      cases y <;> simp [H.beq] at h
      simp only [H.groupList]
      exact beqList_groupList l _ h
    | .alt l, y, h => by
      cases y <;> simp [H.beq] at h
      simp only [H.groupList]
      exact beqList_groupList l _ h
  theorem beqList_groupList : ∀ (xs ys : List H), H.beqList xs ys = true →
      H.groupListL xs = [] ∧ H.groupListL ys = []
    | [], ys, h => by cases ys <;> simp [H.beqList] at h; simp [H.groupListL]
    | x :: xs, ys, h => by
      cases ys with
      | nil => simp [H.beqList] at h
      | cons y ys =>
        simp only [H.beqList, Bool.and_eq_true] at h
        have h1 := beq_groupList x y h.1
        have h2 := beqList_groupList xs ys h.2
        simp only [H.groupListL, h1.1, h1.2, h2.1, h2.2, List.append_nil, and_self]
end

theorem groupListL_altFlat (x : H) : H.groupListL (altFlat x) = x.groupList := by
  cases x <;> simp [altFlat, H.groupListL, H.groupList]

theorem groupListL_flat : ∀ (l : List H), H.groupListL (l.flatMap altFlat) = H.groupListL l
  | [] => by simp
  | x :: xs => by
    simp only [List.flatMap_cons, H.groupListL_append, groupListL_altFlat, groupListL_flat xs, H.groupListL]

theorem groupList_mkClass (key : Ranges) (impl : Re) : (mkClass key impl).groupList = [] := by
  rcases mkClass_cases key impl with ⟨_, he⟩ | ⟨a, _, he⟩ | ⟨_, _, he⟩ <;> rw [he] <;> simp [H.groupList]

theorem wf_mkClass {key : Ranges} {impl : Re} (h : impl.groupList = []) : H.WF SetPlain (mkClass key impl) := by
  rcases mkClass_cases key impl with ⟨_, he⟩ | ⟨a, _, he⟩ | ⟨_, _, he⟩ <;> rw [he]
  · exact .fail
  · exact .lit _
  · exact .set h

theorem singletons_groups : ∀ (l : List H) (cs : List Nat), singletons l = some cs → H.groupListL l = [] := by
  intro l
  fun_induction singletons l with
  | case1 => intro _ _; rfl
  | case2 c rest ih =>
    intro cs h
    cases hr : singletons rest with
    | none => rw [hr] at h; cases h
    | some cs' => simp only [H.groupListL, H.groupList, ih cs' hr, List.append_nil]
  | case3 l _ _ => intro cs h; cases h

theorem classKeys_groups : ∀ (l : List H) (k : Ranges), classKeys l = some k → H.groupListL l = [] := by
  intro l
  fun_induction classKeys l with
  | case1 => intro _ _; rfl
  | case2 key impl rest ih =>
    intro k h
    cases hr : classKeys rest with
    | none => rw [hr] at h; cases h
    | some k' => simp only [H.groupListL, H.groupList, ih k' hr, List.append_nil]
  | case3 rest ih =>
    intro k h
    simp only [H.groupListL, H.groupList, ih k h, List.append_nil]
  | case4 l _ _ _ => intro k h; cases h

/-- what is to be shown of an alternation of the branches `l` -/
def AltGroups (l : List H) (h : H) : Prop :=
  H.WF SetPlain h ∧ h.groupList = H.groupListL l

theorem altGroups_alt {flat : List H} (hwf : ∀ x ∈ flat, H.WF SetPlain x) : AltGroups flat (.alt flat) :=
  ⟨.alt hwf, by simp only [H.groupList]⟩

theorem impl_groupList {flat : List H} (hwf : ∀ x ∈ flat, H.WF SetPlain x) (h : H.groupListL flat = []) :
    (Re.grp (.alt (H.toReList flat))).groupList = [] := by
  simp only [Re.groupList, toReList_groupList flat hwf, h, List.map_nil]

theorem groupListL_take_nil : ∀ (p ys : List H) (len : Nat), len ≤ commonLen p ys →
    H.groupListL (p.take len) = [] ∧ H.groupListL (ys.take len) = [] := fun p ys len h =>
  beqList_groupList _ _ (beqList_take p ys len h)

theorem groupListL_map_cat : ∀ (l : List (List H)),
    H.groupListL (l.map H.cat) = l.flatMap H.groupListL
  | [] => by simp [H.groupListL]
  | x :: xs => by
    simp only [List.map_cons, H.groupListL, H.groupList, List.flatMap_cons, groupListL_map_cat xs]

theorem flatMap_congr' {α β : Type} {f g : α → List β} : ∀ {l : List α}, (∀ x ∈ l, f x = g x) →
    l.flatMap f = l.flatMap g
  | [], _ => rfl
  | x :: xs, h => by
    simp only [List.flatMap_cons, h x (List.mem_cons_self ..),
      flatMap_congr' (l := xs) (fun y hy => h y (List.mem_cons_of_mem _ hy))]

theorem groupListL_nil_of_all : ∀ (l : List H), (∀ x ∈ l, x.groupList = []) → H.groupListL l = []
  | [], _ => rfl
  | x :: xs, h => by
    simp only [H.groupListL, h x (List.mem_cons_self ..),
      groupListL_nil_of_all xs (fun y hy => h y (List.mem_cons_of_mem _ hy)), List.append_nil]

theorem groupListL_split (len : Nat) (xs : List H) :
    H.groupListL xs = H.groupListL (xs.take len) ++ H.groupListL (xs.drop len) := by
  rw [← H.groupListL_append, List.take_append_drop]

theorem liftPrefix_groups (fuel : Nat) (p : List H) (rest : List (List H)) (flat : List H)
    (hflat : flat = (p :: rest).map H.cat)
    (hwf : ∀ xs ∈ p :: rest, ∀ x ∈ xs, H.WF SetPlain x)
    (ih : ∀ l, (∀ x ∈ l, H.WF SetPlain x) → AltGroups l (mkAltF fuel l)) :
    AltGroups flat (liftPrefix fuel flat p rest) := by
  have hflatwf : ∀ x ∈ flat, H.WF SetPlain x := by
    intro x hx
    rw [hflat] at hx
    obtain ⟨xs, hxs, rfl⟩ := List.mem_map.mp hx
    exact .cat (hwf xs hxs)
  unfold liftPrefix
  obtain ⟨hlen1, hlen2⟩ := foldl_min_le p rest p.length
  dsimp only
  generalize List.foldl (fun n ys => min n (commonLen p ys)) p.length rest = len at hlen1 hlen2 ⊢
  split
  · exact altGroups_alt hflatwf
  · have hsw : ∀ s ∈ (p :: rest).map (fun xs => mkCat (xs.drop len)), H.WF SetPlain s := by
      intro s hs
      obtain ⟨xs, hxs, rfl⟩ := List.mem_map.mp hs
      exact wf_mkCat (fun x hx => hwf xs hxs x (List.mem_of_mem_drop hx))
    obtain ⟨ihw, ihl⟩ := ih _ hsw
    constructor
    · apply wf_mkCat
      intro x hx
      rcases List.mem_append.mp hx with hx | hx
      · exact hwf p (List.mem_cons_self ..) x (List.mem_of_mem_take hx)
      · rw [List.mem_singleton.mp hx]; exact ihw
    · rw [groupList_mkCat, H.groupListL_append, hflat, groupListL_map_cat]
      simp only [H.groupListL, ihl, List.append_nil]
      have hsuf : ∀ (l : List (List H)), H.groupListL (l.map fun xs => mkCat (xs.drop len)) =
          l.flatMap fun xs => H.groupListL (xs.drop len) := by
        intro l
        induction l with
        | nil => simp [H.groupListL]
        | cons x xs ih => simp only [List.map_cons, H.groupListL, groupList_mkCat, List.flatMap_cons, ih]
      rw [hsuf]
      cases rest with
      | nil =>
        simp only [List.flatMap_cons, List.flatMap_nil, List.append_nil]
        exact (groupListL_split len p).symm
      | cons y ys =>
        have hp : H.groupListL (p.take len) = [] :=
          (groupListL_take_nil p y len (hlen2 y (List.mem_cons_self ..))).1
        rw [hp, List.nil_append]
        have : ∀ xs ∈ p :: y :: ys, H.groupListL (xs.drop len) = H.groupListL xs := by
          intro xs hxs
          rw [groupListL_split len xs]
          rcases List.mem_cons.mp hxs with rfl | hxs'
          · rw [hp, List.nil_append]
          · rw [(groupListL_take_nil p xs len (hlen2 xs hxs')).2, List.nil_append]
        exact flatMap_congr' this

theorem altLift_groups (fuel : Nat) (flat : List H) (first : H) (others : List H)
    (hflat : flat = first :: others) (hwf : ∀ x ∈ flat, H.WF SetPlain x)
    (ih : ∀ f, fuel = f + 1 → ∀ l, (∀ x ∈ l, H.WF SetPlain x) → AltGroups l (mkAltF f l)) :
    AltGroups flat (altLift fuel flat first others) := by
  cases fuel with
  | zero => exact altGroups_alt hwf
  | succ f =>
    simp only [altLift]
    split
    · rename_i p rest hp hrest
      have hflat' : flat = (p :: rest).map H.cat := by
        rw [hflat, catElems_some hp, allCats_some hrest]; rfl
      refine liftPrefix_groups f p rest flat hflat' ?_ (ih f rfl)
      intro xs hxs
      have : H.cat xs ∈ flat := by rw [hflat']; exact List.mem_map.mpr ⟨xs, hxs, rfl⟩
      exact (hwf _ this).of_cat
    · exact altGroups_alt hwf

theorem altMain_groups (fuel : Nat) (flat : List H) (first : H) (others : List H)
    (hflat : flat = first :: others) (hwf : ∀ x ∈ flat, H.WF SetPlain x)
    (ih : ∀ f, fuel = f + 1 → ∀ l, (∀ x ∈ l, H.WF SetPlain x) → AltGroups l (mkAltF f l)) :
    AltGroups flat (altMain fuel flat first others) := by
  unfold altMain
  dsimp only
  split
  · rename_i cs hcs
    have hg := singletons_groups flat cs hcs
    exact ⟨wf_mkClass (impl_groupList hwf hg), by rw [groupList_mkClass, hg]⟩
  · split
    · rename_i k hk
      have hg := classKeys_groups flat k hk
      exact ⟨wf_mkClass (impl_groupList hwf hg), by rw [groupList_mkClass, hg]⟩
    · exact altLift_groups fuel flat first others hflat hwf ih

theorem mkAltF_groups_core (fuel : Nat) (l : List H) (hwf : ∀ x ∈ l, H.WF SetPlain x)
    (ih : ∀ f, fuel = f + 1 → ∀ l, (∀ x ∈ l, H.WF SetPlain x) → AltGroups l (mkAltF f l)) :
    AltGroups l (mkAltF fuel l) := by
  rw [mkAltF_eq]
  have hfw := wf_flat hwf
  have hfl := groupListL_flat l
  generalize l.flatMap altFlat = flat at hfw hfl
  match flat, hfw, hfl with
  | [], _, hfl => exact ⟨.fail, by rw [← hfl]; simp [H.groupList, H.groupListL]⟩
  | [x], hfw, hfl =>
    exact ⟨hfw x (List.mem_cons_self ..), by rw [← hfl]; simp [H.groupListL]⟩
  | first :: y :: others, hfw, hfl =>
    obtain ⟨h1, h2⟩ := altMain_groups fuel (first :: y :: others) first (y :: others) rfl hfw ih
    exact ⟨h1, h2.trans hfl⟩

theorem mkAltF_groups : ∀ (fuel : Nat) (l : List H), (∀ x ∈ l, H.WF SetPlain x) →
    AltGroups l (mkAltF fuel l) := by
  intro fuel
  induction fuel with
  | zero => intro l hwf; exact mkAltF_groups_core 0 l hwf (fun f hf => by cases hf)
  | succ n ih => intro l hwf; exact mkAltF_groups_core (n + 1) l hwf (fun f hf => by cases hf; exact ih)

theorem mkAlt_groups (l : List H) (hwf : ∀ x ∈ l, H.WF SetPlain x) : AltGroups l (mkAlt l) := by
  rw [mkAlt_eq]; exact mkAltF_groups _ l hwf

/-! ### the translation -/

theorem litCharH_plain (orbit : Char → List Char) (ci : Bool) (c : Char) :
    H.WF SetPlain (if ci then mkClass (Ranges.canon ((c :: orbit c).map fun d => (d.toNat, d.toNat))) (.lit [c] true)
      else .lit [c]) ∧
    (if ci then mkClass (Ranges.canon ((c :: orbit c).map fun d => (d.toNat, d.toNat))) (.lit [c] true)
      else H.lit [c]).groupList = [] := by
  cases ci with
  | false => exact ⟨.lit _, by simp [H.groupList]⟩
  | true => exact ⟨wf_mkClass (by simp [Re.groupList]), groupList_mkClass _ _⟩

theorem lit_toH_groups (orbit : Char → List Char) (σ : Sem) (s : Str) (ci : Bool) :
    H.WF SetPlain ((Re.lit s ci).toH orbit σ) ∧ ((Re.lit s ci).toH orbit σ).groupList = [] := by
  simp only [Re.toH]
  constructor
  · apply wf_mkCat
    intro x hx
    obtain ⟨c, _, rfl⟩ := List.mem_map.mp hx
    exact (litCharH_plain orbit ci c).1
  · rw [groupList_mkCat]
    apply groupListL_nil_of_all
    intro x hx
    obtain ⟨c, _, rfl⟩ := List.mem_map.mp hx
    exact (litCharH_plain orbit ci c).2

mutual
  theorem toH_groups (orbit : Char → List Char) (σ : Sem) : ∀ (r : Re), r.capsKept = true →
      H.WF SetPlain (r.toH orbit σ) ∧ (r.toH orbit σ).groupList = r.groupList.map (Re.toH orbit σ)
    | .lit s ci, _ => by
      obtain ⟨h1, h2⟩ := lit_toH_groups orbit σ s ci
      exact ⟨h1, by rw [h2]; simp [Re.groupList]⟩
    | .chr p, _ => by
      simp only [Re.toH, Re.groupList, List.map_nil]
      exact ⟨wf_mkClass (by simp [Re.groupList]), groupList_mkClass _ _⟩
    | .never, _ => by
      simp only [Re.toH, Re.groupList, List.map_nil]
      exact ⟨.fail, by simp [H.groupList]⟩
    | .cat l, hk => by
      simp only [Re.capsKept] at hk
      obtain ⟨h1, h2⟩ := toHList_groups orbit σ l hk
      simp only [Re.toH, Re.groupList]
      exact ⟨wf_mkCat h1, by rw [groupList_mkCat, h2]⟩
    | .alt l, hk => by
      simp only [Re.capsKept] at hk
      obtain ⟨h1, h2⟩ := toHList_groups orbit σ l hk
      simp only [Re.toH, Re.groupList]
      obtain ⟨h3, h4⟩ := mkAlt_groups _ h1
      exact ⟨h3, by rw [h4, h2]⟩
    | .star r, hk => by
      simp only [Re.capsKept] at hk
      obtain ⟨h1, h2⟩ := toH_groups orbit σ r hk
      simp only [Re.toH, Re.groupList]
      exact ⟨wf_mkRep h1, by rw [groupList_mkRep _ _ _ _ (by intro _ e; cases e), h2]⟩
    | .lazyStar r, hk => by
      simp only [Re.capsKept] at hk
      obtain ⟨h1, h2⟩ := toH_groups orbit σ r hk
      simp only [Re.toH, Re.groupList]
      exact ⟨wf_mkRep h1, by rw [groupList_mkRep _ _ _ _ (by intro _ e; cases e), h2]⟩
    | .opt r, hk => by
      simp only [Re.capsKept] at hk
      obtain ⟨h1, h2⟩ := toH_groups orbit σ r hk
      simp only [Re.toH, Re.groupList]
      exact ⟨wf_mkRep h1, by rw [groupList_mkRep _ _ _ _ (by intro _ e; cases e), h2]⟩
    | .rep r lo hi, hk => by
      simp only [Re.capsKept, Bool.and_eq_true, Bool.or_eq_true, Bool.not_eq_true', beq_iff_eq] at hk
      obtain ⟨h1, h2⟩ := toH_groups orbit σ r hk.2
      simp only [Re.toH, Re.groupList]
      refine ⟨wf_mkRep h1, ?_⟩
      rw [groupList_mkRep _ _ _ _ ?_, h2]
      intro hlo hhi
      rcases hk.1 with h | h
      · simp [hlo, hhi] at h
      · have : r.groupList = [] := List.eq_nil_of_length_eq_zero (by rw [groupList_length]; exact h)
        rw [h2, this]; rfl
    | .cap r, hk => by
      simp only [Re.capsKept] at hk
      obtain ⟨h1, h2⟩ := toH_groups orbit σ r hk
      simp only [Re.toH, Re.groupList, H.groupList, List.map_cons, h2]
      exact ⟨.cap h1, trivial⟩
    | .grp r, hk => by
      simp only [Re.capsKept] at hk
      obtain ⟨h1, h2⟩ := toH_groups orbit σ r hk
      simp only [Re.toH, Re.groupList]
      exact ⟨h1, h2⟩
  theorem toHList_groups (orbit : Char → List Char) (σ : Sem) : ∀ (l : List Re), Re.capsKeptL l = true →
      (∀ x ∈ Re.toHList orbit σ l, H.WF SetPlain x) ∧
      H.groupListL (Re.toHList orbit σ l) = (Re.groupListL l).map (Re.toH orbit σ)
    | [], _ => by
      simp only [Re.toHList, Re.groupListL, H.groupListL, List.map_nil, and_true]
      intro _ h; cases h
    | r :: rs, hk => by
      simp only [Re.capsKeptL, Bool.and_eq_true] at hk
      obtain ⟨h1, h2⟩ := toH_groups orbit σ r hk.1
      obtain ⟨i1, i2⟩ := toHList_groups orbit σ rs hk.2
      simp only [Re.toHList, Re.groupListL, H.groupListL, List.map_append, h2, i2, and_true]
      intro x hx
      rcases List.mem_cons.mp hx with rfl | hx
      · exact h1
      · exact i1 x hx
end

/-- **the `i`-th group of the normal form is the normal form of the `i`-th group** -/
theorem hirNorm_groups {orbit : Char → List Char} {σ : Sem} {r : Re} (h : r.capsKept = true) :
    (r.hirNorm orbit σ).groupList = r.groupList.map (Re.hirNorm orbit σ) := by
  obtain ⟨h1, h2⟩ := toH_groups orbit σ r h
  unfold Re.hirNorm
  rw [toRe_groupList _ h1, h2, List.map_map]
  rfl

/-- **group count preserved** -/
theorem hirNorm_ncaps {orbit : Char → List Char} {σ : Sem} {r : Re} (h : r.capsKept = true) :
    (r.hirNorm orbit σ).ncaps = r.ncaps := by
  rw [← groupList_length, ← groupList_length, hirNorm_groups h, List.length_map]

/-- without `capsKept` the statement is false: `(){0,0}` has one group, its normal form has none -/
theorem hirNorm_ncaps_false_of_dropped :
    ∃ (r : Re), (r.hirNorm (fun _ => []) ⟨fun a b => a == b, true⟩).ncaps ≠ r.ncaps :=
  ⟨.rep (.cap (.lit [] false)) 0 (some 0), by decide⟩

/-- `({*a,*b})x(?)`-like: two groups, the first containing the alternation that gets factored -/
example : (Re.cat [.cap (.alt [.grp (.cat [.grp (.star (.chr .nsep)), .lit ['a'] false]),
    .grp (.cat [.grp (.star (.chr .nsep)), .lit ['b'] false])]), .lit ['x'] false,
    .cap (.chr .nsep)]).capsKept = true := by decide

theorem hirNorm_group {orbit : Char → List Char} {σ : Sem} {r : Re} (h : r.capsKept = true) (i : Nat)
    (hi : i ≤ r.ncaps) : (r.hirNorm orbit σ).group i = (r.group i).hirNorm orbit σ := by
  cases i with
  | zero => rfl
  | succ i =>
    simp only [Re.group, hirNorm_groups h, List.getElem?_map]
    have : i < r.groupList.length := by rw [groupList_length]; omega
    rw [List.getElem?_eq_getElem this]
    rfl

end Wax
