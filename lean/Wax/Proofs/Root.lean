import Wax.Query
import Wax.Proofs.Compose
/-!
C12: a pattern that reports `Always` for `has_root` matches only paths that begin with a
separator (in the documented language; with C01 also in the compiled program on `F01`).
-/
namespace Wax

mutual
  /-- what the parser guarantees: no empty concatenation or alternation, bounds ordered, not `0,0` -/
  def shaped : Tok → Bool
    | .alt _ bs => !bs.isEmpty && shapedL bs
    | .cat _ ts => !ts.isEmpty && shapedL ts
    | .rep _ b lo hi => shaped b && (match hi with | some h => decide (lo ≤ h) && decide (0 < h) | none => true)
    | _ => true
  def shapedL : List Tok → Bool
    | [] => true
    | t :: ts => shaped t && shapedL ts
end

def Rooted (w : Str) : Prop := ∃ r, w = '/' :: r

theorem certainty_always {x y : When} (h : x.certainty y = .always) : x = .always ∧ y = .always := by
  cases x <;> cases y <;> simp_all [When.certainty]

theorem and_sometimes_ne_always (x : When) : x.and .sometimes ≠ .always := by
  cases x <;> simp [When.and]

theorem rooted_append {u v : Str} (h : Rooted u) : Rooted (u ++ v) := by
  obtain ⟨r, rfl⟩ := h; exact ⟨r ++ v, by simp⟩

theorem treeLang_rooted {c : Ctx} {w : Str} (hf : c.first = true) (h : TreeLang c true w) : Rooted w := by
  obtain ⟨cf, cl⟩ := c
  simp only at hf; subst hf
  cases cl <;> simp only [TreeLang, ↓reduceIte, Bool.false_eq_true, Bool.not_true, Bool.or_false] at h
  · obtain ⟨r, _, rfl⟩ := h; exact ⟨r, rfl⟩
  · exact h

mutual
  theorem rootTok_isSome : ∀ (t : Tok), shaped t = true → rootTok t ≠ none
    | .sep _, _ => by simp [rootTok]
    | .tree .., _ => by simp [rootTok]
    | .lit .., _ => by simp [rootTok]
    | .cls .., _ => by simp [rootTok]
    | .one _, _ => by simp [rootTok]
    | .zom .., _ => by simp [rootTok]
    | .alt _ bs, hs => by
      simp only [shaped, Bool.and_eq_true] at hs
      simp only [rootTok]
      cases bs with
      | nil => simp at hs
      | cons b bs => exact rootBranches_isSome (b :: bs) hs.2 ⟨b, List.mem_cons_self ..⟩
    | .cat _ ts, hs => by
      simp only [shaped, Bool.and_eq_true] at hs
      simp only [rootTok]
      cases ts with
      | nil => simp at hs
      | cons t ts =>
        simp only [shapedL, Bool.and_eq_true] at hs
        simp only [rootFirst]
        exact rootTok_isSome t hs.2.1
    | .rep _ b lo hi, hs => by
      simp only [shaped, Bool.and_eq_true] at hs
      simp only [rootTok]
      have := rootTok_isSome b hs.1
      cases h : rootTok b with
      | none => exact absurd h this
      | some x => simp
  theorem rootBranches_isSome : ∀ (bs : List Tok), shapedL bs = true → (∃ b, b ∈ bs) → rootBranches bs ≠ none
    | [], _, ⟨_, hb⟩ => by cases hb
    | b :: bs, hs, _ => by
      simp only [shapedL, Bool.and_eq_true] at hs
      simp only [rootBranches]
      have := rootTok_isSome b hs.1
      cases h : rootTok b with
      | none => exact absurd h this
      | some x => cases rootBranches bs <;> simp
end

/-- matching the token list a branch / body stands for is matching the token -/
theorem sms_conc_iff {σ : Sem} {c : Ctx} (b : Tok) {w : Str} : SMs σ c b.concatenation w ↔ SM σ c b w := by
  cases b with
  | cat sp ts => simp only [Tok.concatenation]; exact ⟨.cat, fun h => by cases h; assumption⟩
  | lit => simp only [Tok.concatenation]; exact sms_singleton
  | sep => simp only [Tok.concatenation]; exact sms_singleton
  | cls => simp only [Tok.concatenation]; exact sms_singleton
  | one => simp only [Tok.concatenation]; exact sms_singleton
  | zom => simp only [Tok.concatenation]; exact sms_singleton
  | tree => simp only [Tok.concatenation]; exact sms_singleton
  | alt => simp only [Tok.concatenation]; exact sms_singleton
  | rep => simp only [Tok.concatenation]; exact sms_singleton

mutual
  theorem rootTok_sound (σ : Sem) : ∀ (t : Tok), shaped t = true → rootTok t = some .always →
      ∀ (c : Ctx) (w : Str), c.first = true → SM σ c t w → Rooted w
    | .sep _, _, _, c, w, _, h => by cases h; exact ⟨[], rfl⟩
    | .tree _ r, _, hr, c, w, hf, h => by
      cases r with
      | false => simp [rootTok] at hr
      | true => cases h with | tree h => exact treeLang_rooted hf h
    | .lit .., _, hr, _, _, _, _ => by simp [rootTok] at hr
    | .cls .., _, hr, _, _, _, _ => by simp [rootTok] at hr
    | .one _, _, hr, _, _, _, _ => by simp [rootTok] at hr
    | .zom .., _, hr, _, _, _, _ => by simp [rootTok] at hr
    | .alt _ bs, hs, hr, c, w, hf, h => by
      simp only [shaped, Bool.and_eq_true] at hs
      simp only [rootTok] at hr
      cases h with
      | alt hb hm => exact rootBranches_sound σ bs hs.2 hr _ hb c w hf ((sms_conc_iff _).mp hm)
    | .cat _ ts, hs, hr, c, w, hf, h => by
      simp only [shaped, Bool.and_eq_true] at hs
      simp only [rootTok] at hr
      cases h with
      | cat hm => exact rootFirst_sound σ ts hs.2 hr c w hf hm
    | .rep _ body lo hi, hs, hr, c, w, hf, h => by
      simp only [shaped, Bool.and_eq_true] at hs
      simp only [rootTok] at hr
      cases hb : rootTok body with
      | none => simp [hb] at hr
      | some x =>
        simp only [hb, Option.some.injEq] at hr
        by_cases hl : lowerUnbounded lo hi = true
        · simp only [hl, ↓reduceIte] at hr
          exact absurd hr (and_sometimes_ne_always x)
        · simp only [hl, Bool.false_eq_true, ↓reduceIte] at hr
          subst hr
          have hlo : 1 ≤ lo := by
            cases hi with
            | none => simp [lowerUnbounded] at hl; omega
            | some h' =>
              simp only [Bool.and_eq_true, decide_eq_true_eq] at hs
              simp only [lowerUnbounded, Bool.and_eq_true, beq_iff_eq, bne_iff_ne, ne_eq, not_and,
                Decidable.not_not] at hl
              have := hs.2
              rcases Nat.eq_zero_or_pos lo with h0 | h0
              · subst h0
                have := hl (by simp)
                omega
              · exact h0
          cases h with
          | rep h1 _ h3 =>
            cases h3 with
            | zero => omega
            | one hm => exact rootTok_sound σ body hs.1 hb c _ hf ((sms_conc_iff _).mp hm)
            | more hu _ =>
              exact rooted_append (rootTok_sound σ body hs.1 hb ⟨c.first, false⟩ _ hf ((sms_conc_iff _).mp hu))
  theorem rootFirst_sound (σ : Sem) : ∀ (ts : List Tok), shapedL ts = true → rootFirst ts = some .always →
      ∀ (c : Ctx) (w : Str), c.first = true → SMs σ c ts w → Rooted w
    | [], _, hr, _, _, _, _ => by simp [rootFirst] at hr
    | t :: ts, hs, hr, c, w, hf, h => by
      simp only [shapedL, Bool.and_eq_true] at hs
      simp only [rootFirst] at hr
      cases h with
      | cons hu _ =>
        exact rooted_append (rootTok_sound σ t hs.1 hr ⟨c.first, c.last && ts.isEmpty⟩ _ hf hu)
  theorem rootBranches_sound (σ : Sem) : ∀ (bs : List Tok), shapedL bs = true → rootBranches bs = some .always →
      ∀ b ∈ bs, ∀ (c : Ctx) (w : Str), c.first = true → SM σ c b w → Rooted w
    | [], _, _, _, hb, _, _, _, _ => by cases hb
    | b0 :: bs, hs, hr, b, hb, c, w, hf, h => by
      simp only [shapedL, Bool.and_eq_true] at hs
      simp only [rootBranches] at hr
      -- both the head and (if any) the tail verdicts are `always`
      cases h0 : rootTok b0 with
      | none =>
        simp only [h0] at hr
        cases hb with
        | head => exact absurd h0 (rootTok_isSome b0 hs.1)
        | tail _ hm => exact rootBranches_sound σ bs hs.2 hr b hm c w hf h
      | some x =>
        cases h1 : rootBranches bs with
        | none =>
          simp only [h0, h1, Option.some.injEq] at hr
          subst hr
          cases hb with
          | head => exact rootTok_sound σ b0 hs.1 h0 c w hf h
          | tail _ hm =>
            -- a non-empty tail has a verdict
            exact absurd h1 (rootBranches_isSome bs hs.2 ⟨b, hm⟩)
        | some y =>
          simp only [h0, h1, Option.some.injEq] at hr
          obtain ⟨rfl, rfl⟩ := certainty_always hr
          cases hb with
          | head => exact rootTok_sound σ b0 hs.1 h0 c w hf h
          | tail _ hm => exact rootBranches_sound σ bs hs.2 h1 b hm c w hf h
end

/-- **C12**: `has_root() = Always` implies every matched path begins with a separator -/
theorem root_sound (σ : Sem) (t : Tok) (hs : shaped t = true) (hr : hasRoot t = .always) (w : Str)
    (h : Spec.Matches σ t w) : Rooted w := by
  unfold hasRoot at hr
  cases hrt : rootTok t with
  | none => simp [hrt] at hr
  | some x =>
    simp only [hrt, Option.getD_some] at hr
    subst hr
    exact rootTok_sound σ t hs hrt ⟨true, true⟩ w rfl ((sms_conc_iff t).mp h)

end Wax
