import Wax.RuleS
import Wax.Proofs.RootRule
/-!
C06, last clause, on the structural verdict model `checkS` (validated against `Glob::new`): every
expression the checker accepts is either always rooted or never rooted.
-/
set_option linter.unusedSimpArgs false
namespace Wax

def isCatT : Tok → Bool | .cat .. => true | _ => false

mutual
  /-- the parser never puts a concatenation directly inside a concatenation -/
  def noCatIn : Tok → Bool
    | .cat _ ts => noCatInL true ts
    | .alt _ bs => noCatInL false bs
    | .rep _ b _ _ => noCatIn b
    | _ => true
  def noCatInL (inCat : Bool) : List Tok → Bool
    | [] => true
    | t :: ts => !(inCat && isCatT t) && noCatIn t && noCatInL inCat ts
end

theorem rootTok_never_of_not_rootsIt : ∀ (s : Tok), shaped s = true → rootsIt s = false →
    rootTok s = some .never := by
  intro s hs hr
  have hsome := rootTok_isSome s hs
  cases s with
  | sep => simp [rootsIt, Tok.isSepT] at hr
  | tree sp r =>
    cases r with
    | true => simp [rootsIt, Tok.isSepT, Tok.isRootedTreeT] at hr
    | false => rfl
  | lit => rfl
  | cls => rfl
  | one => rfl
  | zom => rfl
  | alt sp bs =>
    simp only [rootsIt, Tok.isSepT, Tok.isRootedTreeT, Tok.isBranchT, Bool.false_or, Bool.true_and,
      bne_eq_false_iff_eq] at hr
    unfold hasRoot at hr
    cases h : rootTok (.alt sp bs) with
    | none => exact absurd h hsome
    | some x => rw [h] at hr; simp at hr; rw [hr]
  | cat sp ts =>
    simp only [rootsIt, Tok.isSepT, Tok.isRootedTreeT, Tok.isBranchT, Bool.false_or, Bool.true_and,
      bne_eq_false_iff_eq] at hr
    unfold hasRoot at hr
    cases h : rootTok (.cat sp ts) with
    | none => exact absurd h hsome
    | some x => rw [h] at hr; simp at hr; rw [hr]
  | rep sp b lo hi =>
    simp only [rootsIt, Tok.isSepT, Tok.isRootedTreeT, Tok.isBranchT, Bool.false_or, Bool.true_and,
      bne_eq_false_iff_eq] at hr
    unfold hasRoot at hr
    cases h : rootTok (.rep sp b lo hi) with
    | none => exact absurd h hsome
    | some x => rw [h] at hr; simp at hr; rw [hr]

/-- a branch whose starting terminal does not root it is never rooted -/
theorem startNever_of_terms (b : Tok) (hs : shaped b = true) (f : Terms → Bool)
    (h : termsOk f b = true) (hf : ∀ ts, f ts = true → rootsIt ts.start = false) :
    startNever b = true := by
  unfold termsOk at h
  cases b with
  | cat sp ts =>
    simp only [Tok.concatenation] at h
    cases ts with
    | nil => simp [shaped] at hs
    | cons s rest =>
      simp only [shaped, shapedL, Bool.and_eq_true] at hs
      have hstart : rootsIt s = false := by
        cases rest with
        | nil => simp only [terminals] at h; exact hf _ h
        | cons x xs => simp only [terminals] at h; exact hf _ h
      have := rootTok_never_of_not_rootsIt s hs.2.1 hstart
      simp [startNever, rootTok, rootFirst, this]
  | lit => rfl
  | cls => rfl
  | one => rfl
  | zom => rfl
  | sep sp =>
    simp only [Tok.concatenation, terminals] at h
    have := hf _ h
    simp [Terms.start, rootsIt, Tok.isSepT] at this
  | tree sp r =>
    simp only [Tok.concatenation, terminals] at h
    have := hf _ h
    cases r with
    | true => simp [Terms.start, rootsIt, Tok.isSepT, Tok.isRootedTreeT] at this
    | false => rfl
  | alt sp bs =>
    simp only [Tok.concatenation, terminals] at h
    have := rootTok_never_of_not_rootsIt _ hs (hf _ h)
    simp [startNever, this]
  | rep sp body lo hi =>
    simp only [Tok.concatenation, terminals] at h
    have := rootTok_never_of_not_rootsIt _ hs (hf _ h)
    simp [startNever, this]

theorem or_left_isNone (inh : Outer) (prev right : Option Tok) :
    (inh.or prev right).left.isNone = (prev.isNone && inh.left.isNone) := by
  cases prev <;> simp [Outer.or]

mutual
  theorem okBody_rootRule : ∀ (t : Tok) (outer : Outer), shaped t = true → noCatIn t = true →
      okBody outer t = true →
      rootRule outer.left.isNone t = true
    | .cat _ ts, outer, hs, hn, h => by
      simp only [shaped, Bool.and_eq_true] at hs
      simp only [noCatIn] at hn
      simp only [okBody, Bool.and_eq_true] at h
      simp only [rootRule]
      have := okSeq_rootRule ts outer none hs.2 hn h.2
      simpa using this
    | .alt _ bs, outer, hs, hn, h => by
      simp only [shaped, Bool.and_eq_true] at hs
      simp only [noCatIn] at hn
      simp only [okBody] at h
      simp only [rootRule]
      exact okBranches_rootRule bs outer hs.2 hn h
    | .rep _ body lo hi, outer, hs, hn, h => by
      simp only [shaped, Bool.and_eq_true] at hs
      simp only [noCatIn] at hn
      simp only [okBody, Bool.and_eq_true] at h
      simp only [rootRule, Bool.and_eq_true]
      refine ⟨?_, okBody_rootRule body outer hs.1 hn h.2⟩
      by_cases hc : (outer.left.isNone && lowerUnbounded lo hi) = true
      · have := startNever_of_terms body hs.1 _ h.1.2 (by
          intro ts hts
          simp only [Bool.and_eq_true, checkRepetitionOk, Bool.not_eq_true', Bool.and_eq_false_iff] at hts
          have h1 := hts.2.1.1.1
          simp only [Bool.and_eq_true] at hc
          rcases h1 with (h1 | h1) | h1
          · rw [hc.1] at h1; cases h1
          · rw [hc.2] at h1; cases h1
          · exact h1)
        simp [this]
      · simp [hc]
    | .lit .., _, _, _, _ => rfl
    | .sep _, _, _, _, _ => rfl
    | .cls .., _, _, _, _ => rfl
    | .one _, _, _, _, _ => rfl
    | .zom .., _, _, _, _ => rfl
    | .tree .., _, _, _, _ => rfl
  theorem okSeq_rootRule : ∀ (ts : List Tok) (inh : Outer) (prev : Option Tok), shapedL ts = true →
      noCatInL true ts = true → okSeq inh prev ts = true → rootRuleList (prev.isNone && inh.left.isNone) ts = true
    | [], _, _, _, _, _ => rfl
    | .alt sp bs :: rest, inh, prev, hs, hn, h => by
      simp only [noCatInL, noCatIn, Bool.and_eq_true] at hn
      simp only [shapedL, shaped, Bool.and_eq_true] at hs
      simp only [okSeq, Bool.and_eq_true] at h
      simp only [rootRuleList, rootRule, Bool.and_eq_true]
      have h1 := okBranches_rootRule bs (inh.or prev rest.head?) hs.1.2 hn.1.2 h.1
      rw [or_left_isNone] at h1
      have h2 := okSeq_rootRule rest inh (some (.alt ⟨0, 0⟩ bs)) hs.2 hn.2 h.2
      exact ⟨h1, by simpa using h2⟩
    | .rep sp body lo hi :: rest, inh, prev, hs, hn, h => by
      simp only [noCatInL, noCatIn, Bool.and_eq_true] at hn
      simp only [shapedL, shaped, Bool.and_eq_true] at hs
      simp only [okSeq, Bool.and_eq_true] at h
      simp only [rootRuleList, Bool.and_eq_true]
      have hb : okBody (inh.or prev rest.head?) (.rep sp body lo hi) = true := by
        simp only [okBody, Bool.and_eq_true]; exact ⟨⟨h.1.1.1, h.1.1.2⟩, h.1.2⟩
      have h1 := okBody_rootRule (.rep sp body lo hi) (inh.or prev rest.head?)
        (by simp only [shaped, Bool.and_eq_true]; exact hs.1) (by simp only [noCatIn]; exact hn.1.2) hb
      rw [or_left_isNone] at h1
      have h2 := okSeq_rootRule rest inh (some (.rep ⟨0, 0⟩ body lo hi)) hs.2 hn.2 h.2
      exact ⟨h1, by simpa using h2⟩
    | .lit a b c :: rest, inh, prev, hs, hn, h => by
      simp only [shapedL, Bool.and_eq_true] at hs
      simp only [noCatInL, Bool.and_eq_true] at hn
      simp only [okSeq] at h
      simpa [rootRuleList, rootRule] using okSeq_rootRule rest inh (some (.lit a b c)) hs.2 hn.2 h
    | .sep a :: rest, inh, prev, hs, hn, h => by
      simp only [shapedL, Bool.and_eq_true] at hs
      simp only [noCatInL, Bool.and_eq_true] at hn
      simp only [okSeq] at h
      simpa [rootRuleList, rootRule] using okSeq_rootRule rest inh (some (.sep a)) hs.2 hn.2 h
    | .cls a b c :: rest, inh, prev, hs, hn, h => by
      simp only [shapedL, Bool.and_eq_true] at hs
      simp only [noCatInL, Bool.and_eq_true] at hn
      simp only [okSeq] at h
      simpa [rootRuleList, rootRule] using okSeq_rootRule rest inh (some (.cls a b c)) hs.2 hn.2 h
    | .one a :: rest, inh, prev, hs, hn, h => by
      simp only [shapedL, Bool.and_eq_true] at hs
      simp only [noCatInL, Bool.and_eq_true] at hn
      simp only [okSeq] at h
      simpa [rootRuleList, rootRule] using okSeq_rootRule rest inh (some (.one a)) hs.2 hn.2 h
    | .zom a b :: rest, inh, prev, hs, hn, h => by
      simp only [shapedL, Bool.and_eq_true] at hs
      simp only [noCatInL, Bool.and_eq_true] at hn
      simp only [okSeq] at h
      simpa [rootRuleList, rootRule] using okSeq_rootRule rest inh (some (.zom a b)) hs.2 hn.2 h
    | .tree a b :: rest, inh, prev, hs, hn, h => by
      simp only [shapedL, Bool.and_eq_true] at hs
      simp only [noCatInL, Bool.and_eq_true] at hn
      simp only [okSeq] at h
      simpa [rootRuleList, rootRule] using okSeq_rootRule rest inh (some (.tree a b)) hs.2 hn.2 h
    | .cat a b :: rest, inh, prev, hs, hn, h => by
      -- excluded: the parser never nests a concatenation directly in a concatenation
      simp [noCatInL, isCatT] at hn
  theorem okBranches_rootRule : ∀ (bs : List Tok) (outer : Outer), shapedL bs = true →
      noCatInL false bs = true → okBranchesR outer bs = true → rootRuleBranches outer.left.isNone bs = true
    | [], _, _, _, _ => rfl
    | b :: bs, outer, hs, hn, h => by
      simp only [shapedL, Bool.and_eq_true] at hs
      simp only [noCatInL, Bool.false_and, Bool.not_false, Bool.true_and, Bool.and_eq_true] at hn
      simp only [okBranchesR, Bool.and_eq_true] at h
      simp only [rootRuleBranches, Bool.and_eq_true]
      refine ⟨⟨?_, okBody_rootRule b outer hs.1 hn.1 h.1.2⟩, okBranches_rootRule bs outer hs.2 hn.2 h.2⟩
      by_cases hc : outer.left.isNone = true
      · have := startNever_of_terms b hs.1 _ h.1.1 (by
          intro ts hts
          simp only [Bool.and_eq_true, checkAlternationOk, Bool.not_eq_true', Bool.and_eq_false_iff] at hts
          rcases hts.2 with h1 | h1
          · rw [hc] at h1; cases h1
          · exact h1)
        simp [this]
      · simp [hc]
end

/-- **C06, last clause**: an expression the (repaired) checker accepts is always rooted or never
rooted — on the structural verdict model, for every token tree the parser can produce -/
theorem checkS_root_certain (t : Tok) (hs : shaped t = true) (hn : noCatIn t = true)
    (h : checkS t = true) : hasRoot t ≠ .sometimes :=
  glob_never_sometimes t hs (by simpa using okBody_rootRule t ⟨none, none⟩ hs hn h)

end Wax
