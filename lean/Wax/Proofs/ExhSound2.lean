import Wax.Proofs.ExhSound
import Wax.Proofs.Compose
/-!
C09, second shape: a pattern that ends in a tree wildcard followed by one zero-or-more wildcard
(`**/*`, `a/**/*.`-less shapes such as `src/**/*`) is closed under descending as well.
-/
set_option linter.unusedSimpArgs false
namespace Wax

/-- split off the longest separator-free suffix -/
theorem split_last_piece : ∀ (x : Str), ∃ x1 x2, x = x1 ++ x2 ∧ SepFree x2 ∧
    (x1 = [] ∨ ∃ m, x1 = m ++ ['/'])
  | [] => ⟨[], [], rfl, sepFree_nil, Or.inl rfl⟩
  | c :: xs => by
    obtain ⟨x1, x2, rfl, h2, h1⟩ := split_last_piece xs
    rcases h1 with rfl | ⟨m, rfl⟩
    · by_cases hc : c = '/'
      · subst hc
        exact ⟨['/'], x2, by simp, h2, Or.inr ⟨[], by simp⟩⟩
      · exact ⟨[], c :: x2, by simp, sepFree_cons.mpr ⟨hc, h2⟩, Or.inl rfl⟩
    · exact ⟨c :: (m ++ ['/']), x2, by simp, h2, Or.inr ⟨c :: m, by simp⟩⟩

theorem star_compSep_extend {m z x1 : Str} (h1 : x1 = [] ∨ ∃ k, x1 = k ++ ['/']) :
    Star CompSep (m ++ (z ++ '/' :: x1)) := by
  rcases h1 with rfl | ⟨k, rfl⟩
  · have : m ++ (z ++ ['/']) = (m ++ z) ++ ['/'] := by simp
    rw [this]; exact star_compSep_of_endsSep _
  · have : m ++ (z ++ '/' :: (k ++ ['/'])) = (m ++ z ++ '/' :: k) ++ ['/'] := by simp
    rw [this]; exact star_compSep_of_endsSep _

/-- the two-token tail `** *` -/
theorem treeZom_tail_desc (σ : Sem) (f l : Bool) (sp sp' : Span) (r lz : Bool) (v x : Str)
    (h : SMs σ ⟨f, l⟩ [.tree sp r, .zom sp' lz] v) :
    SMs σ ⟨f, l⟩ [.tree sp r, .zom sp' lz] (v ++ '/' :: x) := by
  obtain ⟨t, rest, rfl, ht, hrest⟩ := sms_cons.mp h
  obtain ⟨z, e, rfl, hz, he⟩ := sms_cons.mp hrest
  rw [sms_nil] at he; subst he
  obtain ⟨x1, x2, rfl, hx2, hx1⟩ := split_last_piece x
  have hz' : SepFree z := by cases hz; assumption
  have htl : TreeLang ⟨f, false⟩ r t := by
    cases ht with
    | tree h' => simpa using h'
  have htl' : TreeLang ⟨f, false⟩ r (t ++ (z ++ '/' :: x1)) := by
    by_cases hc : (r || !f) = true
    · simp only [TreeLang, Bool.false_eq_true, ↓reduceIte, hc] at htl ⊢
      obtain ⟨m, hm, rfl⟩ := htl
      exact ⟨m ++ (z ++ '/' :: x1), star_compSep_extend hx1, by simp⟩
    · simp only [TreeLang, Bool.false_eq_true, ↓reduceIte, hc] at htl ⊢
      exact star_compSep_extend hx1
  have : SMs σ ⟨f, l⟩ [.tree sp r, .zom sp' lz] ((t ++ (z ++ '/' :: x1)) ++ (x2 ++ [])) :=
    sms_cons.mpr ⟨_, _, rfl, .tree (by simpa using htl'),
      sms_cons.mpr ⟨x2, [], rfl, .zom hx2, .nil⟩⟩
  simpa using this

/-- **C09, `** *` shape**: whatever precedes, a pattern ending in a tree wildcard followed by a
zero-or-more wildcard matches, with every path, every path beneath it -/
theorem treeZom_descClosed (σ : Sem) (sp0 sp sp' : Span) (pre : List Tok) (r lz : Bool) (w x : Str)
    (h : Spec.Matches σ (.cat sp0 (pre ++ [.tree sp r, .zom sp' lz])) w) :
    Spec.Matches σ (.cat sp0 (pre ++ [.tree sp r, .zom sp' lz])) (w ++ '/' :: x) := by
  unfold Spec.Matches at h ⊢
  simp only [Tok.concatenation] at h ⊢
  rw [sms_append] at h ⊢
  obtain ⟨u, v, rfl, hu, hv⟩ := h
  exact ⟨u, v ++ '/' :: x, by simp, hu, treeZom_tail_desc σ _ _ sp sp' r lz v x hv⟩

end Wax
