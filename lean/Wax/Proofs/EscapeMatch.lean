import Wax.Proofs.Escape
import Wax.Proofs.EncodeSpec
/-! C18, matching half: the tokens an escaped text parses to are in the fragment `F01`, and the
program compiled from them accepts exactly the original text. -/
namespace Wax

theorem litEq_false_iff (σ : Sem) : ∀ (s w : Str), litEq σ false s w = true ↔ w = s
  | [], [] => by simp [litEq]
  | [], _ :: _ => by simp [litEq]
  | _ :: _, [] => by simp [litEq]
  | a :: s, b :: w => by
    simp only [litEq, Bool.false_eq_true, if_false, Bool.and_eq_true, beq_iff_eq, List.cons.injEq]
    rw [litEq_false_iff σ s w]
    constructor
    · rintro ⟨rfl, rfl⟩; exact ⟨rfl, rfl⟩
    · rintro ⟨rfl, rfl⟩; exact ⟨rfl, rfl⟩

theorem spells_ok {loc : Nat} {toks : List Tok} {s : Str} (h : Spells loc toks s) :
    ∀ (sup : Option Pos) (c : Ctx) (i n : Nat), okList sup c toks i n = true := by
  induction h with
  | nil => intro sup c i n; simp [okList]
  | lit loc w ts s _ _ _ _ ih => intro sup c i n; simp [okList, okTok, ih]
  | sep loc ts s _ ih => intro sup c i n; simp [okList, okTok, ih]

theorem spells_sms (σ : Sem) {loc : Nat} {toks : List Tok} {s : Str} (h : Spells loc toks s) :
    ∀ (c : Ctx) (w : Str), SMs σ c toks w ↔ w = s := by
  induction h with
  | nil =>
    intro c w
    constructor
    · intro h; cases h; rfl
    · rintro rfl; exact SMs.nil
  | lit loc x ts s _ _ _ _ ih =>
    intro c w
    constructor
    · intro h
      cases h with
      | cons h1 h2 =>
        cases h1 with
        | lit hl => rw [(litEq_false_iff σ _ _).mp hl, (ih _ _).mp h2]
    · rintro rfl
      exact SMs.cons (SM.lit ((litEq_false_iff σ _ _).mpr rfl)) ((ih _ _).mpr rfl)
  | sep loc ts s _ ih =>
    intro c w
    constructor
    · intro h
      cases h with
      | cons h1 h2 =>
        cases h1 with
        | sep => rw [(ih _ _).mp h2]; rfl
    · rintro rfl
      exact SMs.cons (u := ['/']) SM.sep ((ih _ _).mpr rfl)

/-- **C18**: for every non-empty text without a backslash, the escaped text parses, the parsed
tokens are inside the fragment on which the encoder is proved faithful, and the compiled program
accepts the text and nothing else. -/
theorem escape_matches_exactly (σ : Sem) (hdot : σ.dotall = true) (s : Str) (hne : s ≠ [])
    (hb : '\\' ∉ s) :
    ∃ t, parse (escape s) = .ok t ∧ F01 t = true ∧ ∀ w, Matches σ (encodeTop t) w ↔ w = s := by
  obtain ⟨toks, hp, hs⟩ := parse_escape s hne hb
  refine ⟨_, hp, ?_, ?_⟩
  · simp only [F01]; exact spells_ok hs _ _ _ _
  · intro w
    rw [encode_eq_spec_partial σ hdot _ (by simp only [F01]; exact spells_ok hs _ _ _ _) w]
    exact spells_sms σ hs _ w

end Wax
