import Wax.Parse
import Wax.Proofs.RuleRoot
/-!
What the parser guarantees about the shape of a token tree: no empty concatenation or alternation,
and no concatenation directly inside a concatenation.  With the bounds rule of the checker this
discharges the structural hypotheses (`shaped`, `noCatIn`) of the theorems about queries.
-/
set_option linter.unusedSimpArgs false
namespace Wax

mutual
  def pshape : Tok → Bool
    | .alt _ bs => !bs.isEmpty && pshapeL false bs
    | .cat _ ts => !ts.isEmpty && pshapeL true ts
    | .rep _ b _ _ => pshape b
    | _ => true
  def pshapeL (inCat : Bool) : List Tok → Bool
    | [] => true
    | t :: ts => !(inCat && isCatT t) && pshape t && pshapeL inCat ts
end

theorem pshapeL_append (c : Bool) : ∀ (a b : List Tok), pshapeL c (a ++ b) = (pshapeL c a && pshapeL c b)
  | [], b => by simp [pshapeL]
  | t :: a, b => by simp [pshapeL, pshapeL_append c a b, Bool.and_assoc]

theorem pshapeL_snoc {c : Bool} {a : List Tok} {t : Tok} (ha : pshapeL c a = true)
    (ht : pshape t = true) (hc : (c && isCatT t) = false) : pshapeL c (a ++ [t]) = true := by
  rw [pshapeL_append]; simp [pshapeL, ha, ht, hc]

structure PInv (fuel : Nat) : Prop where
  glob : ∀ t i tok j, parseGlob fuel t i = some (tok, j) → pshape tok = true ∧ isCatT tok = true
  tokens : ∀ t i acc toks j, parseTokens fuel t i acc = some (toks, j) → pshapeL true acc = true →
    pshapeL true toks = true
  token : ∀ t i tok j, parseToken fuel t i = some (tok, j) → pshape tok = true ∧ isCatT tok = false
  rep : ∀ i body lo hi j, parseRepetition fuel i = some (body, lo, hi, j) → pshape body = true
  alt : ∀ i bs j, parseAlternation fuel i = some (bs, j) → pshapeL false bs = true ∧ bs ≠ []
  branches : ∀ i acc bs j, parseBranches fuel i acc = (bs, j) → pshapeL false acc = true → acc ≠ [] →
    pshapeL false bs = true ∧ bs ≠ []

theorem pinv_zero : PInv 0 where
  glob := by intro t i tok j h; simp [parseGlob] at h
  tokens := by
    intro t i acc toks j h ha
    simp only [parseTokens, Option.some.injEq, Prod.mk.injEq] at h
    obtain ⟨rfl, rfl⟩ := h; exact ha
  token := by intro t i tok j h; simp [parseToken] at h
  rep := by intro i body lo hi j h; simp [parseRepetition] at h
  alt := by intro i bs j h; simp [parseAlternation] at h
  branches := by
    intro i acc bs j h ha hne
    simp only [parseBranches, Prod.mk.injEq] at h
    obtain ⟨rfl, rfl⟩ := h; exact ⟨ha, hne⟩

theorem pinv_succ (fuel : Nat) (ih : PInv fuel) : PInv (fuel + 1) where
  glob := by
    intro t i0 tok j h
    rw [parseGlob] at h
    dsimp only at h
    split at h
    · cases h
    · rename_i toks k hk
      have hts := ih.tokens _ _ _ _ _ hk rfl
      split at h
      · cases h
      · rename_i hne
        split at h
        · injection h with h; injection h with h1 h2; subst h1 h2
          have : toks.isEmpty = false := by simpa using hne
          exact ⟨by simp [pshape, this, hts], rfl⟩
        · cases h
  tokens := by
    intro t i acc toks j h ha
    rw [parseTokens] at h
    split at h
    · rename_i tok k hk
      obtain ⟨ht, hc⟩ := ih.token _ _ _ _ hk
      split at h
      · injection h with h; injection h with h1 h2; subst h1 h2; exact ha
      · exact ih.tokens _ _ _ _ _ h (pshapeL_snoc ha ht (by simp [hc]))
    · injection h with h; injection h with h1 h2; subst h1 h2; exact ha
  token := by
    intro t i tok j h
    rw [parseToken] at h
    dsimp only at h
    split at h
    · injection h with h; injection h with h1 h2; subst h1 h2; exact ⟨rfl, rfl⟩
    · split at h
      · rename_i body lo hi k hk
        injection h with h; injection h with h1 h2; subst h1 h2
        exact ⟨by simpa [pshape] using ih.rep _ _ _ _ _ hk, rfl⟩
      · split at h
        · rename_i bs k hk
          injection h with h; injection h with h1 h2; subst h1 h2
          obtain ⟨hb, hne⟩ := ih.alt _ _ _ hk
          have : bs.isEmpty = false := by cases bs <;> simp_all
          exact ⟨by simp [pshape, this, hb], rfl⟩
        · split at h
          · injection h with h; injection h with h1 h2; subst h1 h2; exact ⟨rfl, rfl⟩
          · injection h with h; injection h with h1 h2; subst h1 h2; exact ⟨rfl, rfl⟩
          · injection h with h; injection h with h1 h2; subst h1 h2; exact ⟨rfl, rfl⟩
          · split at h
            · injection h with h; injection h with h1 h2; subst h1 h2; exact ⟨rfl, rfl⟩
            · split at h
              · injection h with h; injection h with h1 h2; subst h1 h2; exact ⟨rfl, rfl⟩
              · cases h
  rep := by
    intro i body lo hi j h
    rw [parseRepetition] at h
    split at h
    · cases h
    · split at h
      · cases h
      · rename_i b k hk
        obtain ⟨hb, _⟩ := ih.glob _ _ _ _ hk
        generalize parseBounds k = R at h
        obtain ⟨lo', hi', l⟩ := R
        dsimp only at h
        split at h
        · injection h with h; injection h with h1 h; subst h1; exact hb
        · cases h
  alt := by
    intro i bs j h
    rw [parseAlternation] at h
    split at h
    · cases h
    · split at h
      · cases h
      · rename_i b k hk
        obtain ⟨hb, _⟩ := ih.glob _ _ _ _ hk
        have hB := ih.branches k [b]
        generalize parseBranches fuel k [b] = R at h hB
        obtain ⟨bs', l⟩ := R
        obtain ⟨h1, h2⟩ := hB bs' l rfl (by simp [pshapeL, hb]) (by simp)
        dsimp only at h
        split at h
        · injection h with h; injection h with e1 e2; subst e1; exact ⟨h1, h2⟩
        · cases h
  branches := by
    intro i acc bs j h ha hne
    rw [parseBranches] at h
    split at h
    · injection h with h1 h2; subst h1 h2; exact ⟨ha, hne⟩
    · split at h
      · injection h with h1 h2; subst h1 h2; exact ⟨ha, hne⟩
      · rename_i b k hk
        obtain ⟨hb, _⟩ := ih.glob _ _ _ _ hk
        exact ih.branches _ _ _ _ h (pshapeL_snoc ha hb (by simp)) (by simp)

theorem pinv_all : ∀ fuel, PInv fuel
  | 0 => pinv_zero
  | n + 1 => pinv_succ n (pinv_all n)

/-- every token tree the parser returns has the parser shape -/
theorem parse_pshape (e : Str) (t : Tok) (h : parse e = .ok t) : pshape t = true := by
  unfold parse at h
  split at h
  · injection h with h; subst h; rfl
  · dsimp only at h
    split at h
    · cases h
    · rename_i toks j hj
      have hts := (pinv_all _).tokens _ _ _ _ _ hj rfl
      split at h
      · cases h
      · rename_i hne
        split at h
        · injection h with h; subst h
          have : toks.isEmpty = false := by simpa using hne
          simp [pshape, this, hts]
        · cases h

end Wax

namespace Wax

mutual
  theorem pshape_noCatIn : ∀ (t : Tok), pshape t = true → noCatIn t = true
    | .alt _ bs, h => by
      simp only [pshape, Bool.and_eq_true] at h
      simp only [noCatIn]; exact pshapeL_noCatInL false bs h.2
    | .cat _ ts, h => by
      simp only [pshape, Bool.and_eq_true] at h
      simp only [noCatIn]; exact pshapeL_noCatInL true ts h.2
    | .rep _ b _ _, h => by
      simp only [pshape] at h
      simp only [noCatIn]; exact pshape_noCatIn b h
    | .lit .., _ => rfl
    | .sep _, _ => rfl
    | .cls .., _ => rfl
    | .one _, _ => rfl
    | .zom .., _ => rfl
    | .tree .., _ => rfl
  theorem pshapeL_noCatInL (c : Bool) : ∀ (ts : List Tok), pshapeL c ts = true → noCatInL c ts = true
    | [], _ => rfl
    | t :: ts, h => by
      simp only [pshapeL, Bool.and_eq_true] at h
      simp only [noCatInL, Bool.and_eq_true]
      exact ⟨⟨h.1.1, pshape_noCatIn t h.1.2⟩, pshapeL_noCatInL c ts h.2⟩
end

theorem bounds_shaped (lo : Nat) : ∀ (hi : Option Nat), boundsOk lo hi = true →
    (match hi with | some x => decide (lo ≤ x) && decide (0 < x) | none => true) = true
  | none, _ => rfl
  | some x, h => by
    simp only [boundsOk, Bool.not_eq_true', Bool.or_eq_false_iff, decide_eq_false_iff_not,
      Bool.and_eq_false_iff, beq_eq_false_iff_ne] at h
    simp only [Bool.and_eq_true, decide_eq_true_eq]
    omega

mutual
  theorem okBody_shaped : ∀ (t : Tok) (outer : Outer), pshape t = true → okBody outer t = true →
      shaped t = true
    | .cat _ ts, outer, hp, h => by
      simp only [pshape, Bool.and_eq_true] at hp
      simp only [okBody, Bool.and_eq_true] at h
      simp only [shaped, Bool.and_eq_true]
      exact ⟨hp.1, okSeq_shaped ts outer none hp.2 h.2⟩
    | .alt _ bs, outer, hp, h => by
      simp only [pshape, Bool.and_eq_true] at hp
      simp only [okBody] at h
      simp only [shaped, Bool.and_eq_true]
      exact ⟨hp.1, okBranches_shaped bs outer hp.2 h⟩
    | .rep _ body lo hi, outer, hp, h => by
      simp only [pshape] at hp
      simp only [okBody, Bool.and_eq_true] at h
      simp only [shaped, Bool.and_eq_true]
      exact ⟨okBody_shaped body outer hp h.2, bounds_shaped lo hi h.1.1⟩
    | .lit .., _, _, _ => rfl
    | .sep _, _, _, _ => rfl
    | .cls .., _, _, _ => rfl
    | .one _, _, _, _ => rfl
    | .zom .., _, _, _ => rfl
    | .tree .., _, _, _ => rfl
  theorem okSeq_shaped : ∀ (ts : List Tok) (inh : Outer) (prev : Option Tok),
      pshapeL true ts = true → okSeq inh prev ts = true → shapedL ts = true
    | [], _, _, _, _ => rfl
    | .alt sp bs :: rest, inh, prev, hp, h => by
      simp only [pshapeL, pshape, Bool.and_eq_true] at hp
      simp only [okSeq, Bool.and_eq_true] at h
      simp only [shapedL, shaped, Bool.and_eq_true]
      exact ⟨⟨hp.1.2.1, okBranches_shaped bs _ hp.1.2.2 h.1⟩, okSeq_shaped rest inh _ hp.2 h.2⟩
    | .rep sp body lo hi :: rest, inh, prev, hp, h => by
      simp only [pshapeL, pshape, Bool.and_eq_true] at hp
      simp only [okSeq, Bool.and_eq_true] at h
      simp only [shapedL, shaped, Bool.and_eq_true]
      exact ⟨⟨okBody_shaped body _ hp.1.2 h.1.2, bounds_shaped lo hi h.1.1.1⟩,
        okSeq_shaped rest inh _ hp.2 h.2⟩
    | .lit a b c :: rest, inh, prev, hp, h => by
      simp only [pshapeL, Bool.and_eq_true] at hp
      simp only [okSeq] at h
      simpa [shapedL, shaped] using okSeq_shaped rest inh _ hp.2 h
    | .sep a :: rest, inh, prev, hp, h => by
      simp only [pshapeL, Bool.and_eq_true] at hp
      simp only [okSeq] at h
      simpa [shapedL, shaped] using okSeq_shaped rest inh _ hp.2 h
    | .cls a b c :: rest, inh, prev, hp, h => by
      simp only [pshapeL, Bool.and_eq_true] at hp
      simp only [okSeq] at h
      simpa [shapedL, shaped] using okSeq_shaped rest inh _ hp.2 h
    | .one a :: rest, inh, prev, hp, h => by
      simp only [pshapeL, Bool.and_eq_true] at hp
      simp only [okSeq] at h
      simpa [shapedL, shaped] using okSeq_shaped rest inh _ hp.2 h
    | .zom a b :: rest, inh, prev, hp, h => by
      simp only [pshapeL, Bool.and_eq_true] at hp
      simp only [okSeq] at h
      simpa [shapedL, shaped] using okSeq_shaped rest inh _ hp.2 h
    | .tree a b :: rest, inh, prev, hp, h => by
      simp only [pshapeL, Bool.and_eq_true] at hp
      simp only [okSeq] at h
      simpa [shapedL, shaped] using okSeq_shaped rest inh _ hp.2 h
    | .cat a b :: rest, _, _, hp, _ => by
      simp [pshapeL, isCatT] at hp
  theorem okBranches_shaped : ∀ (bs : List Tok) (outer : Outer), pshapeL false bs = true →
      okBranchesR outer bs = true → shapedL bs = true
    | [], _, _, _ => rfl
    | b :: bs, outer, hp, h => by
      simp only [pshapeL, Bool.false_and, Bool.not_false, Bool.true_and, Bool.and_eq_true] at hp
      simp only [okBranchesR, Bool.and_eq_true] at h
      simp only [shapedL, Bool.and_eq_true]
      exact ⟨okBody_shaped b outer hp.1 h.1.2, okBranches_shaped bs outer hp.2 h.2⟩
end

/-- **C06 / C12, end to end on the model**: an expression that parses and that the checker accepts
is always rooted or never rooted — no structural hypothesis left -/
theorem build_root_certain (e : Str) (t : Tok) (hp : parse e = .ok t) (hc : checkS t = true) :
    hasRoot t ≠ .sometimes := by
  have hps := parse_pshape e t hp
  exact checkS_root_certain t (okBody_shaped t ⟨none, none⟩ hps hc) (pshape_noCatIn t hps) hc

/-- ... and if it says `Always`, every path it matches (documented language) begins with `/` -/
theorem build_root_sound (σ : Sem) (e : Str) (t : Tok) (hp : parse e = .ok t) (hc : checkS t = true)
    (hr : hasRoot t = .always) (w : Str) (hm : Spec.Matches σ t w) : Rooted w :=
  root_sound σ t (okBody_shaped t ⟨none, none⟩ (parse_pshape e t hp) hc) hr w hm

end Wax
