import Wax.Behavior
/-! Theorems about the depth configuration (`src/walk/behavior.rs`): what interval of depths each
public constructor denotes, and that the bounds handed to `walkdir` below a pivot select exactly
the depths the configuration admits (property C15). -/
namespace Wax
open Wax.Walk
namespace DepthBehavior

/-- values with a zero minimum cannot be represented in the crate (`NonZeroUsize`) -/
def wf : DepthBehavior → Prop
  | .min n => 0 < n
  | .minMax a _ => 0 < a
  | _ => True

theorem fromMinOrUnbounded_wf (m : Nat) : (fromMinOrUnbounded m).wf := by
  unfold fromMinOrUnbounded; split <;> simp_all [wf]; omega

theorem fromDepthsOrMax_wf (p q : Nat) : (fromDepthsOrMax p q).wf := by
  unfold fromDepthsOrMax
  by_cases hpq : p ≤ q
  · by_cases h0 : p = 0 <;> simp [hpq, h0, wf]; omega
  · by_cases h0 : q = 0 <;> simp [hpq, h0, wf]; omega

theorem bounded_wf {mn mx b} (h : bounded mn mx = some b) : b.wf := by
  unfold bounded at h
  split at h
  · split at h <;> simp_all [wf]; subst h; simp [wf]; omega
  · simp_all [wf]; subst h; simp [wf]
  · split at h
    · split at h <;> simp_all [wf]; subst h; simp [wf]; omega
    · simp at h
  · simp at h

/-- `from_depths_or_max p q` admits exactly the depths between the smaller and the larger of its
    arguments, in either order (C15: "the depths need not be ordered") -/
theorem fromDepthsOrMax_admits (p q d : Nat) :
    (fromDepthsOrMax p q).admits d ↔ Min.min p q ≤ d ∧ d ≤ Max.max p q := by
  unfold fromDepthsOrMax admits
  by_cases hpq : p ≤ q
  · by_cases h0 : p = 0 <;> simp [hpq, h0, lower, upper] <;> omega
  · have hp : p ≠ 0 := by omega
    by_cases h0 : q = 0 <;> simp [hpq, h0, hp, lower, upper] <;> omega

theorem fromDepthsOrMax_comm (p q : Nat) : fromDepthsOrMax p q = fromDepthsOrMax q p := by
  unfold fromDepthsOrMax
  by_cases h1 : p ≤ q <;> by_cases h2 : q ≤ p <;> simp [h1, h2]
  · have : p = q := by omega
    subst this; rfl
  · omega

theorem fromMinOrUnbounded_admits (m d : Nat) : (fromMinOrUnbounded m).admits d ↔ m ≤ d := by
  unfold fromMinOrUnbounded admits
  split <;> simp_all [lower, upper]

/-- `bounded` refuses exactly: no closed depth, a zero minimum, or misordered closed depths -/
theorem bounded_none_iff (mn mx : Option Nat) :
    bounded mn mx = none ↔
      (mn = none ∧ mx = none) ∨ mn = some 0 ∨ (∃ a b, mn = some a ∧ mx = some b ∧ b < a) := by
  unfold bounded
  cases mn with
  | none => cases mx <;> simp
  | some a =>
    cases mx with
    | none => by_cases h : a = 0 <;> simp [h]
    | some b => by_cases h : a ≤ b <;> by_cases h0 : a = 0 <;> simp [h, h0] <;> omega

/-- what `bounded` builds admits exactly the depths within the closed bounds given -/
theorem bounded_admits {mn mx b} (h : bounded mn mx = some b) (d : Nat) :
    b.admits d ↔ (∀ a, mn = some a → a ≤ d) ∧ (∀ u, mx = some u → d ≤ u) := by
  unfold bounded at h
  split at h
  · split at h <;> simp_all [admits]; subst h; simp [lower, upper]
  · simp_all [admits]; subst h; simp [lower, upper]
  · split at h
    · split at h <;> simp_all [admits]; subst h; simp [lower, upper]; omega
    · simp at h
  · simp at h

/-- `bounded_at_depth_variance` is `bounded` on depths shifted by the lower depth of the pattern,
    and refuses when a shifted depth does not fit a `usize` -/
theorem boundedAtDepthVariance_admits {mn mx l b} (h : boundedAtDepthVariance mn mx l = some b) (d : Nat) :
    b.admits d ↔ (∀ a, mn = some a → a + l ≤ d) ∧ (∀ u, mx = some u → d ≤ u + l) := by
  unfold boundedAtDepthVariance at h
  cases mn with
  | none =>
    cases mx with
    | none => simp [bounded] at h
    | some u =>
      by_cases hu : u + l ≤ usizeMax <;> simp [hu] at h
      simp [bounded_admits h]
  | some a =>
    cases mx with
    | none =>
      by_cases ha : a + l ≤ usizeMax <;> simp [ha] at h
      simp [bounded_admits h]
    | some u =>
      by_cases ha : a + l ≤ usizeMax <;> by_cases hu : u + l ≤ usizeMax <;> simp [ha, hu] at h
      simp [bounded_admits h]

/-- the interval handed to walkdir -/
def pivotAdmits (r : Nat × Option Nat) (d : Nat) : Prop :=
  r.1 ≤ d ∧ (match r.2 with | some u => d ≤ u | none => True)

/-- Below a pivot the bounds handed to `walkdir` select exactly the depths the configuration
    admits, counted from the root path segment — provided the configured maximum reaches the
    pivot (`pivot ≤ upper`); see `atPivot_short` for the other case. -/
theorem atPivot_admits (b : DepthBehavior) (hw : b.wf) (pivot d : Nat)
    (hreach : ∀ u, b.upper = some u → pivot ≤ u) :
    pivotAdmits (b.atPivot pivot) d ↔ b.admits (d + pivot) := by
  cases b with
  | unbounded => simp [atPivot, pivotAdmits, admits, lower, upper]
  | min n => simp [atPivot, pivotAdmits, admits, lower, upper]
  | max n =>
    have := hreach n rfl
    simp [atPivot, pivotAdmits, admits, lower, upper]; omega
  | minMax a e =>
    have := hreach (a + e) rfl
    simp only [atPivot, pivotAdmits, admits, lower, upper, clampMax]
    split <;> constructor <;> intro h <;> omega

/-- When the configured maximum lies above the walk root (`upper < pivot`), `walkdir` is handed a
    maximum of 0 (saturating subtraction): exactly the walk root itself is within the bounds it
    applies although the configuration admits no depth at or below the pivot. (The root of a glob
    walk with a non-empty invariant prefix is never matched by the glob's complete program unless
    the remainder matches the empty path, so this is observable only for such globs.) -/
theorem atPivot_short (n pivot d : Nat) (h : n < pivot) :
    pivotAdmits ((DepthBehavior.max n).atPivot pivot) d ↔ d = 0 := by
  simp [atPivot, pivotAdmits]; omega

/-- the collapsed function the walk driver used before this file existed agrees with the
    constructor followed by the translation -/
theorem depthBounds_eq (mn mx : Option Nat) (pivot : Nat) :
    depthBounds mn mx pivot = (ofRoute .bounded mn mx).map (fun b => b.atPivot pivot) := by
  unfold depthBounds
  cases mn with
  | none => cases mx <;> simp [ofRoute, bounded, atPivot]
  | some a =>
    cases mx with
    | none => by_cases h : a = 0 <;> simp [ofRoute, bounded, h, atPivot]
    | some b =>
      by_cases h0 : a = 0 <;> by_cases h : a ≤ b <;> simp [ofRoute, bounded, h0, h, atPivot]
      all_goals first
        | omega
        | (intro; omega)
        | (have : a + (b - a) = b := by omega
           rw [this])

example : (fromDepthsOrMax 3 2).admits 2 ∧ ¬ (fromDepthsOrMax 3 2).admits 1 := by decide
example : bounded (some 3) (some 2) = none ∧ bounded (some 2) (some 3) = some (.minMax 2 1) := by decide

end DepthBehavior
end Wax
