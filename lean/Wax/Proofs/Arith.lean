import Wax.Syntax
/-! Small arithmetic facts behind C15 (depth bounds at a pivot) and C17 (span unions). -/
namespace Wax

/-! ### C15: `min_at_pivot` / `max_at_pivot` are saturating subtractions -/

/-- when the maximum is at least the prefix length, bounding the walk at `max - pivot` is bounding
    the entry depth (`walk depth + pivot`) at `max` -/
theorem max_at_pivot_exact (d pivot max : Nat) (h : pivot ≤ max) : d ≤ max - pivot ↔ d + pivot ≤ max := by
  omega

theorem min_at_pivot_exact (d pivot min : Nat) : min - pivot ≤ d ↔ min ≤ d + pivot := by
  omega

/-- the pinned defect: a maximum smaller than the prefix length saturates to zero, so the prefix
    directory itself (walk depth 0, entry depth `pivot > max`) is still yielded -/
theorem max_at_pivot_saturates (pivot max : Nat) (h : max < pivot) : 0 ≤ max - pivot ∧ ¬ (0 + pivot ≤ max) := by
  omega

/-- walkdir's clamping: `min_depth(a).max_depth(b)` with `b < a` collapses to `[a', a']`, never to an
    empty range -/
theorem walkdir_clamp_nonempty (a b : Nat) : ∃ d, Nat.min a (Nat.max b (Nat.min a b)) ≤ d ∧ d ≤ Nat.max b (Nat.min a b) := by
  exact ⟨Nat.max b (Nat.min a b), Nat.min_le_right _ _, Nat.le_refl _⟩

/-! ### C17: unions of spans -/

def Span.stop (s : Span) : Nat := s.start + s.len

def Span.union (a b : Span) : Span :=
  let s := min a.start b.start
  let e := max a.stop b.stop
  ⟨s, e - s⟩

/-- a span is valid for an expression of `L` bytes whose character boundaries are `B` -/
def Span.Valid (B : Nat → Prop) (L : Nat) (s : Span) : Prop := s.stop ≤ L ∧ B s.start ∧ B s.stop

theorem Span.union_start (a b : Span) : (a.union b).start = a.start ∨ (a.union b).start = b.start := by
  simp only [Span.union]; omega

theorem Span.union_stop (a b : Span) : (a.union b).stop = a.stop ∨ (a.union b).stop = b.stop := by
  simp only [Span.union, Span.stop]; omega

/-- the union of two valid spans is valid: it stays inside the expression and starts and ends on
    character boundaries, because its ends are ends of the operands -/
theorem Span.union_valid {B : Nat → Prop} {L : Nat} {a b : Span} (ha : a.Valid B L) (hb : b.Valid B L) :
    (a.union b).Valid B L := by
  obtain ⟨ha1, ha2, ha3⟩ := ha
  obtain ⟨hb1, hb2, hb3⟩ := hb
  refine ⟨?_, ?_, ?_⟩
  · rcases Span.union_stop a b with h | h <;> rw [h] <;> assumption
  · rcases Span.union_start a b with h | h <;> rw [h] <;> assumption
  · rcases Span.union_stop a b with h | h <;> rw [h] <;> assumption

/-- it also covers both operands -/
theorem Span.union_covers (a b : Span) :
    (a.union b).start ≤ a.start ∧ a.stop ≤ (a.union b).stop ∧ (a.union b).start ≤ b.start ∧ b.stop ≤ (a.union b).stop := by
  simp only [Span.union, Span.stop]; omega

end Wax
