import Wax.Proofs.CapTile
import Wax.Proofs.HirGroups
import Wax.Proofs.HirLang
/-!
# Capture-annotated derivations survive the `regex-syntax` normalisation (C04)

`Runs σ r n u c c'` (`Wax/Proofs/CapRuns.lean`) is `Matches` with the capture slots threaded
through.  `Wax/Proofs/CapTile.lean` reads the capture clauses of C04 off a derivation of the pattern
wax *prints* (`encodeTop t`).  The crate, and the driver's match command `cmdM`, run the
`regex-syntax` *normal form* `Re.hirNorm` of that pattern.  Here:

`hirNorm_runs : HirHyp orbit σ r → r.capsKept = true →
    Runs σ (r.hirNorm orbit σ) n u c c' → Runs σ r n u c c'`

every annotated derivation of the normal form can be rearranged into one of the printed pattern,
with the same word and the same slot updates.  The proof goes pass by pass, as `HirLang` does:
`mkCat_runs` (flattening, dropping of empty pieces, literal fusion), `mkRep_runs` (clipping of
repetitions of empty-only bodies: this needs that a derivation on the empty word can be *repeated*
without changing the slots, `runs_idem`), `mkAltF_runs` (flattening of alternations, alternations
of characters / classes as one class, and the prefix factoring `(?:PA|PB)` → `P(?:A|B)`: the
factored prefix is group-free (`beq_groupList`), so its part of the derivation only contributes a
word, which `beq_lang` moves to the chosen branch).

The converse is false (`hirNorm_runs_converse_false`): derivations forget the preference order but
not which groups took part, and the clipping `x{2}` → `x` of an empty-only `x` loses the derivations
in which two rounds set different groups.

End to end: `match_model_runs`, `match_model_tiling`, `model_caps_tile`, and the token-level
statements of `CapTile` for the captures the *normal form* reports (`model_one_capture_one_char`,
`model_class_capture_one_char`, `model_zom_capture_sepFree`, `model_tree_token_capture`,
`model_top_caps_ordered`), and the same for the driver tables (`cmdM_…`).
-/
namespace Wax

/-! ### derivations of group-free pieces, inversion of loops -/

theorem ncapsList_mem_zero {l : List Re} (h : Re.ncapsList l = 0) : ∀ r ∈ l, r.ncaps = 0 := by
  intro r hr
  obtain ⟨pre, post, rfl⟩ := List.append_of_mem hr
  rw [ncapsList_append] at h
  simp only [Re.ncapsList] at h
  omega

mutual
  /-- a match of a piece without groups is a derivation that leaves the slots alone -/
  theorem runs_of_matches {σ : Sem} : ∀ {r : Re} {u : Str}, Matches σ r u → r.ncaps = 0 →
      ∀ (n : Nat) (c : Caps), Runs σ r n u c c
    | _, _, .lit h, _, _, _ => .lit h
    | _, _, .chr h, _, _, _ => .chr h
    | _, _, .cat h, h0, n, c => .cat (runsAll_of_matchesAll h (by simpa only [Re.ncaps] using h0) n c)
    | _, _, .alt (l := l) (r := r) hm h, h0, n, c => by
      obtain ⟨pre, post, e⟩ := List.append_of_mem hm
      have h0' : r.ncaps = 0 := ncapsList_mem_zero (by simpa only [Re.ncaps] using h0) r hm
      exact .alt e (runs_of_matches h h0' _ c)
    | _, _, .starNil, _, _, _ => .starNil
    | _, _, .starCons h1 h2, h0, n, c =>
      .starCons (runs_of_matches h1 (by simpa only [Re.ncaps] using h0) n c) (runs_of_matches h2 h0 n c)
    | _, _, .lazyStar h, h0, n, c => .lazyStar (runs_of_matches h (by simpa only [Re.ncaps] using h0) n c)
    | _, _, .optNone, _, _, _ => .optNone
    | _, _, .optSome h, h0, n, c => .optSome (runs_of_matches h (by simpa only [Re.ncaps] using h0) n c)
    | _, _, .rep h1 h2 h, h0, n, c =>
      .rep h1 h2 (runsIter_of_iter h (by simpa only [Re.ncaps] using h0) n c)
    | _, _, .cap _, h0, _, _ => by simp only [Re.ncaps] at h0; omega
    | _, _, .grp h, h0, n, c => .grp (runs_of_matches h (by simpa only [Re.ncaps] using h0) n c)
  theorem runsAll_of_matchesAll {σ : Sem} : ∀ {l : List Re} {u : Str}, MatchesAll σ l u →
      Re.ncapsList l = 0 → ∀ (n : Nat) (c : Caps), RunsAll σ l n u c c
    | _, _, .nil, _, _, _ => .nil
    | _, _, .cons h1 h2, h0, n, c => by
      simp only [Re.ncapsList] at h0
      exact .cons (runs_of_matches h1 (by omega) n c) (runsAll_of_matchesAll h2 (by omega) _ c)
  theorem runsIter_of_iter {σ : Sem} : ∀ {r : Re} {m : Nat} {u : Str}, Iter σ r m u → r.ncaps = 0 →
      ∀ (n : Nat) (c : Caps), RunsIter σ r n m u c c
    | _, _, _, .zero, _, _, _ => .zero
    | _, _, _, .succ h1 h2, h0, n, c => .succ (runs_of_matches h1 h0 n c) (runsIter_of_iter h2 h0 n c)
end

/-- a piece without groups: a derivation is a match, and the slots stay -/
theorem runs_plain_iff {σ : Sem} {r : Re} (h0 : r.ncaps = 0) {n : Nat} {u : Str} {c c' : Caps} :
    Runs σ r n u c c' ↔ Matches σ r u ∧ c' = c :=
  ⟨fun h => ⟨h.matches, runs_nocap h h0⟩, fun ⟨h, e⟩ => e ▸ runs_of_matches h h0 n c⟩

theorem runsAll_nocap {σ : Sem} {l : List Re} {n : Nat} {u : Str} {c c' : Caps}
    (h : RunsAll σ l n u c c') (h0 : Re.ncapsList l = 0) : c' = c := by
  have t := runsAll_touch h
  apply List.ext_getElem?
  intro i
  exact t.out i (by omega)

theorem runsAll_plain_iff {σ : Sem} {l : List Re} (h0 : Re.ncapsList l = 0) {n : Nat} {u : Str}
    {c c' : Caps} : RunsAll σ l n u c c' ↔ MatchesAll σ l u ∧ c' = c :=
  ⟨fun h => ⟨h.matches, runsAll_nocap h h0⟩, fun ⟨h, e⟩ => e ▸ runsAll_of_matchesAll h h0 n c⟩

theorem iterR_of_star_aux {σ : Sem} : ∀ {r' : Re} {n : Nat} {u : Str} {c c' : Caps},
    Runs σ r' n u c c' → ∀ r, r' = .star r → ∃ m, IterR (Runs σ r n) m u c c'
  | _, _, _, _, _, .starNil, _, e => by cases e; exact ⟨0, .zero⟩
  | _, _, _, _, _, .starCons h1 h2, r, e => by
    cases e
    obtain ⟨m, hm⟩ := iterR_of_star_aux h2 _ rfl
    exact ⟨m + 1, .succ h1 hm⟩
  | _, _, _, _, _, .lit _, _, e => nomatch e
  | _, _, _, _, _, .chr _, _, e => nomatch e
  | _, _, _, _, _, .cat _, _, e => nomatch e
  | _, _, _, _, _, .alt _ _, _, e => nomatch e
  | _, _, _, _, _, .lazyStar _, _, e => nomatch e
  | _, _, _, _, _, .optNone, _, e => nomatch e
  | _, _, _, _, _, .optSome _, _, e => nomatch e
  | _, _, _, _, _, .rep _ _ _, _, e => nomatch e
  | _, _, _, _, _, .cap _, _, e => nomatch e
  | _, _, _, _, _, .grp _, _, e => nomatch e

theorem iterR_of_runs_star {σ : Sem} {r : Re} {n : Nat} {u : Str} {c c' : Caps}
    (h : Runs σ (.star r) n u c c') : ∃ m, IterR (Runs σ r n) m u c c' :=
  iterR_of_star_aux h r rfl

theorem iterR_of_runsIter {σ : Sem} : ∀ {r : Re} {n m : Nat} {u : Str} {c c' : Caps},
    RunsIter σ r n m u c c' → IterR (Runs σ r n) m u c c'
  | _, _, _, _, _, _, .zero => .zero
  | _, _, _, _, _, _, .succ h1 h2 => .succ h1 (iterR_of_runsIter h2)

theorem IterR.mono {R S : Str → Caps → Caps → Prop} (h : ∀ u c c', R u c c' → S u c c') {m : Nat}
    {u : Str} {c c' : Caps} (hr : IterR R m u c c') : IterR S m u c c' := by
  induction hr with
  | zero => exact .zero
  | succ ha _ ih => exact .succ (h _ _ _ ha) ih

theorem IterR.zero_inv {R : Str → Caps → Caps → Prop} {u : Str} {c c' : Caps}
    (h : IterR R 0 u c c') : u = [] ∧ c' = c := by
  cases h; exact ⟨rfl, rfl⟩

theorem IterR.one_inv {R : Str → Caps → Caps → Prop} {u : Str} {c c' : Caps}
    (h : IterR R 1 u c c') : R u c c' := by
  cases h with
  | succ ha hb =>
    obtain ⟨rfl, rfl⟩ := hb.zero_inv
    simpa using ha

theorem IterR.const {R : Str → Caps → Caps → Prop} {c : Caps} (h : R [] c c) : ∀ m, IterR R m [] c c
  | 0 => .zero
  | m + 1 => by
    have := IterR.succ h (IterR.const h m)
    simpa using this

/-! ### a derivation is a list of writes; on the same text it can be repeated -/

/-- slot writes, applied left to right -/
def applyW (W : List (Nat × Option Str)) (c : Caps) : Caps := W.foldl (fun c p => c.set p.1 p.2) c

theorem applyW_nil (c : Caps) : applyW [] c = c := rfl

theorem applyW_append (W V : List (Nat × Option Str)) (c : Caps) :
    applyW (W ++ V) c = applyW V (applyW W c) := by
  simp only [applyW, List.foldl_append]

theorem applyW_snoc (W : List (Nat × Option Str)) (i : Nat) (v : Option Str) (c : Caps) :
    applyW (W ++ [(i, v)]) c = (applyW W c).set i v := by
  rw [applyW_append]; rfl

theorem applyW_cons (W : List (Nat × Option Str)) (i : Nat) (v : Option Str) (c : Caps) :
    applyW ((i, v) :: W) c = applyW W (c.set i v) := rfl

theorem set_set_same (c : Caps) (i : Nat) (x v : Option Str) : (c.set i x).set i v = c.set i v := by
  apply List.ext_getElem?
  intro j
  simp only [List.getElem?_set, List.length_set]
  by_cases h : i = j <;> simp [h]

theorem set_set_comm (c : Caps) {i j : Nat} (h : i ≠ j) (x v : Option Str) :
    (c.set i x).set j v = (c.set j v).set i x := by
  apply List.ext_getElem?
  intro k
  simp only [List.getElem?_set, List.length_set]
  by_cases h1 : i = k <;> by_cases h2 : j = k <;> simp [h1, h2]
  omega

/-- a write that is overwritten at the end may be dropped -/
theorem applyW_absorb : ∀ (W : List (Nat × Option Str)) (i : Nat) (x v : Option Str) (c : Caps),
    (applyW W (c.set i x)).set i v = (applyW W c).set i v
  | [], i, x, v, c => by simp only [applyW_nil, set_set_same]
  | (j, y) :: W, i, x, v, c => by
    simp only [applyW_cons]
    by_cases h : i = j
    · subst h
      rw [set_set_same]
    · rw [set_set_comm c h, applyW_absorb W i x v (c.set j y)]

theorem applyW_idem_aux : ∀ (k : Nat) (W : List (Nat × Option Str)), W.length = k →
    ∀ (c : Caps), applyW W (applyW W c) = applyW W c
  | 0, W, hk, c => by
    have : W = [] := List.eq_nil_of_length_eq_zero hk
    subst this; rfl
  | k + 1, W, hk, c => by
    have hne : W ≠ [] := by intro h; subst h; simp at hk
    have e := List.dropLast_concat_getLast hne
    have hl : W.dropLast.length = k := by simp [hk]
    have ih := applyW_idem_aux k W.dropLast hl
    generalize W.dropLast = W' at e ih
    generalize W.getLast hne = p at e
    subst e
    obtain ⟨i, v⟩ := p
    rw [applyW_snoc, applyW_snoc, applyW_absorb, ih]

theorem applyW_idem (W : List (Nat × Option Str)) (c : Caps) : applyW W (applyW W c) = applyW W c :=
  applyW_idem_aux W.length W rfl c

mutual
  theorem runs_writes {σ : Sem} : ∀ {r : Re} {n : Nat} {u : Str} {c c' : Caps}, Runs σ r n u c c' →
      ∃ W, c' = applyW W c ∧ ∀ d, Runs σ r n u d (applyW W d)
    | _, _, _, _, _, .lit h => ⟨[], rfl, fun _ => .lit h⟩
    | _, _, _, _, _, .chr h => ⟨[], rfl, fun _ => .chr h⟩
    | _, _, _, _, _, .cat h => by
      obtain ⟨W, e, hd⟩ := runsAll_writes h
      exact ⟨W, e, fun d => .cat (hd d)⟩
    | _, _, _, _, _, .alt e h => by
      obtain ⟨W, e', hd⟩ := runs_writes h
      exact ⟨W, e', fun d => .alt e (hd d)⟩
    | _, _, _, _, _, .starNil => ⟨[], rfl, fun _ => .starNil⟩
    | _, _, _, _, _, .starCons h1 h2 => by
      obtain ⟨W1, e1, hd1⟩ := runs_writes h1
      obtain ⟨W2, e2, hd2⟩ := runs_writes h2
      refine ⟨W1 ++ W2, by rw [applyW_append, ← e1, e2], fun d => ?_⟩
      rw [applyW_append]
      exact .starCons (hd1 d) (hd2 _)
    | _, _, _, _, _, .lazyStar h => by
      obtain ⟨W, e, hd⟩ := runs_writes h
      exact ⟨W, e, fun d => .lazyStar (hd d)⟩
    | _, _, _, _, _, .optNone => ⟨[], rfl, fun _ => .optNone⟩
    | _, _, _, _, _, .optSome h => by
      obtain ⟨W, e, hd⟩ := runs_writes h
      exact ⟨W, e, fun d => .optSome (hd d)⟩
    | _, _, _, _, _, .rep h1 h2 h => by
      obtain ⟨W, e, hd⟩ := runsIter_writes h
      exact ⟨W, e, fun d => .rep h1 h2 (hd d)⟩
    | _, _, _, _, _, .cap (n := n) (w := w) h => by
      obtain ⟨W, e, hd⟩ := runs_writes h
      refine ⟨W ++ [(n, some w)], by rw [applyW_snoc, ← e], fun d => ?_⟩
      rw [applyW_snoc]
      exact .cap (hd d)
    | _, _, _, _, _, .grp h => by
      obtain ⟨W, e, hd⟩ := runs_writes h
      exact ⟨W, e, fun d => .grp (hd d)⟩
  theorem runsAll_writes {σ : Sem} : ∀ {l : List Re} {n : Nat} {u : Str} {c c' : Caps},
      RunsAll σ l n u c c' → ∃ W, c' = applyW W c ∧ ∀ d, RunsAll σ l n u d (applyW W d)
    | _, _, _, _, _, .nil => ⟨[], rfl, fun _ => .nil⟩
    | _, _, _, _, _, .cons h1 h2 => by
      obtain ⟨W1, e1, hd1⟩ := runs_writes h1
      obtain ⟨W2, e2, hd2⟩ := runsAll_writes h2
      refine ⟨W1 ++ W2, by rw [applyW_append, ← e1, e2], fun d => ?_⟩
      rw [applyW_append]
      exact .cons (hd1 d) (hd2 _)
  theorem runsIter_writes {σ : Sem} : ∀ {r : Re} {n m : Nat} {u : Str} {c c' : Caps},
      RunsIter σ r n m u c c' → ∃ W, c' = applyW W c ∧ ∀ d, RunsIter σ r n m u d (applyW W d)
    | _, _, _, _, _, _, .zero => ⟨[], rfl, fun _ => .zero⟩
    | _, _, _, _, _, _, .succ h1 h2 => by
      obtain ⟨W1, e1, hd1⟩ := runs_writes h1
      obtain ⟨W2, e2, hd2⟩ := runsIter_writes h2
      refine ⟨W1 ++ W2, by rw [applyW_append, ← e1, e2], fun d => ?_⟩
      rw [applyW_append]
      exact .succ (hd1 d) (hd2 _)
end

/-- **a derivation can be repeated on its own result**: the same text, the same writes, and writing
    the same values again changes nothing -/
theorem runs_idem {σ : Sem} {r : Re} {n : Nat} {u : Str} {c c' : Caps} (h : Runs σ r n u c c') :
    Runs σ r n u c' c' := by
  obtain ⟨W, e, hd⟩ := runs_writes h
  have := hd c'
  rw [e, applyW_idem] at this
  rw [e]
  exact this

/-! ### derivations of a normal form -/

/-- number of groups of a normal form -/
def H.nc (h : H) : Nat := h.toRe.ncaps
def H.ncL (l : List H) : Nat := Re.ncapsList (H.toReList l)

/-- derivations of a normal form -/
def H.R (σ : Sem) (h : H) (n : Nat) (u : Str) (c c' : Caps) : Prop := Runs σ h.toRe n u c c'
/-- derivations of a concatenation of normal forms -/
def H.Rs (σ : Sem) (l : List H) (n : Nat) (u : Str) (c c' : Caps) : Prop :=
  RunsAll σ (H.toReList l) n u c c'
/-- derivations of one of the branches `l`, with the slot base of that branch -/
def H.Rany (σ : Sem) (l : List H) (n : Nat) (u : Str) (c c' : Caps) : Prop :=
  ∃ pre x post, l = pre ++ x :: post ∧ H.R σ x (n + H.ncL pre) u c c'

@[simp] theorem H.ncL_nil : H.ncL [] = 0 := by simp [H.ncL, H.toReList, Re.ncapsList]
@[simp] theorem H.ncL_cons (x : H) (xs : List H) : H.ncL (x :: xs) = x.nc + H.ncL xs := by
  simp [H.ncL, H.nc, H.toReList, Re.ncapsList]
theorem H.ncL_append (a b : List H) : H.ncL (a ++ b) = H.ncL a + H.ncL b := by
  simp only [H.ncL, H.toReList_eq_map, List.map_append, ncapsList_append]
theorem H.ncL_single (x : H) : H.ncL [x] = x.nc := by simp

@[simp] theorem H.nc_empty : H.empty.nc = 0 := by simp [H.nc, H.toRe, Re.ncaps]
@[simp] theorem H.nc_lit (s : Str) : (H.lit s).nc = 0 := by simp [H.nc, H.toRe, Re.ncaps]
@[simp] theorem H.nc_fail : H.fail.nc = 0 := by simp [H.nc, H.toRe, Re.ncaps]
@[simp] theorem H.nc_set (k : Ranges) (i : Re) : (H.set k i).nc = i.ncaps := by simp [H.nc, H.toRe]
@[simp] theorem H.nc_cat (l : List H) : (H.cat l).nc = H.ncL l := by simp [H.nc, H.ncL, H.toRe, Re.ncaps]
@[simp] theorem H.nc_alt (l : List H) : (H.alt l).nc = H.ncL l := by simp [H.nc, H.ncL, H.toRe, Re.ncaps]
@[simp] theorem H.nc_cap (s : H) : (H.cap s).nc = s.nc + 1 := by simp [H.nc, H.toRe, Re.ncaps]
@[simp] theorem H.nc_rep (lo : Nat) (hi : Option Nat) (lz : Bool) (s : H) : (H.rep lo hi lz s).nc = s.nc := by
  simp only [H.nc, H.toRe]
  split <;> simp [Re.ncaps]

theorem H.nc_eq_groups {h : H} (hw : H.WF SetPlain h) : h.nc = h.groupList.length := by
  rw [H.nc, ← groupList_length, toRe_groupList h hw, List.length_map]

theorem H.ncL_eq_groups {l : List H} (hw : ∀ x ∈ l, H.WF SetPlain x) : H.ncL l = (H.groupListL l).length := by
  rw [H.ncL, ← groupListL_length, toReList_groupList l hw, List.length_map]

theorem H.ncL_mem_zero {l : List H} (h : H.ncL l = 0) : ∀ x ∈ l, x.nc = 0 := by
  intro x hx
  apply ncapsList_mem_zero h
  rw [H.toReList_eq_map]
  exact List.mem_map.mpr ⟨x, hx, rfl⟩

theorem H.R.congr_n {σ : Sem} {x : H} {n n' : Nat} {u : Str} {c c' : Caps} (h : H.R σ x n u c c')
    (e : n = n') : H.R σ x n' u c c' := e ▸ h

theorem H.Rs.congr_n {σ : Sem} {l : List H} {n n' : Nat} {u : Str} {c c' : Caps} (h : H.Rs σ l n u c c')
    (e : n = n') : H.Rs σ l n' u c c' := e ▸ h

section runsH
variable {σ : Sem}

theorem H.R_plain {h : H} (h0 : h.nc = 0) {n : Nat} {u : Str} {c c' : Caps} :
    H.R σ h n u c c' ↔ H.L σ h u ∧ c' = c := runs_plain_iff h0

theorem H.Rs_plain {l : List H} (h0 : H.ncL l = 0) {n : Nat} {u : Str} {c c' : Caps} :
    H.Rs σ l n u c c' ↔ H.Ls σ l u ∧ c' = c := runsAll_plain_iff h0

theorem H.R_cat {l : List H} {n : Nat} {u : Str} {c c' : Caps} :
    H.R σ (.cat l) n u c c' ↔ H.Rs σ l n u c c' := by
  simp only [H.R, H.Rs, H.toRe]
  exact ⟨fun h => runs_cat_inv (runs_grp_inv h), fun h => .grp (.cat h)⟩

theorem H.R_empty {n : Nat} {u : Str} {c c' : Caps} : H.R σ .empty n u c c' ↔ u = [] ∧ c' = c := by
  rw [H.R_plain H.nc_empty, H.L_empty]

theorem H.R_lit {s : Str} {n : Nat} {u : Str} {c c' : Caps} : H.R σ (.lit s) n u c c' ↔ u = s ∧ c' = c := by
  rw [H.R_plain (H.nc_lit s), H.L_lit]

theorem H.R_fail {n : Nat} {u : Str} {c c' : Caps} : ¬ H.R σ .fail n u c c' := by
  intro h
  exact H.L_fail ((H.R_plain H.nc_fail).mp h).1

theorem H.R_cap {s : H} {n : Nat} {u : Str} {c c' : Caps} :
    H.R σ (.cap s) n u c c' ↔ ∃ c1, H.R σ s (n + 1) u c c1 ∧ c' = c1.set n (some u) := by
  simp only [H.R, H.toRe]
  exact ⟨runs_cap_inv, fun ⟨c1, h, e⟩ => e ▸ .cap h⟩

theorem H.Rs_nil {n : Nat} {u : Str} {c c' : Caps} : H.Rs σ [] n u c c' ↔ u = [] ∧ c' = c := by
  simp only [H.Rs, H.toReList]
  exact ⟨runsAll_nil_inv, fun ⟨e1, e2⟩ => e1 ▸ e2 ▸ .nil⟩

theorem H.Rs_cons {x : H} {xs : List H} {n : Nat} {w : Str} {c c' : Caps} :
    H.Rs σ (x :: xs) n w c c' ↔
      ∃ u v c1, w = u ++ v ∧ H.R σ x n u c c1 ∧ H.Rs σ xs (n + x.nc) v c1 c' := by
  simp only [H.Rs, H.toReList, H.R, H.nc]
  exact ⟨runsAll_cons_inv, fun ⟨u, v, c1, e, h1, h2⟩ => e ▸ .cons h1 h2⟩

theorem H.Rs_single {x : H} {n : Nat} {w : Str} {c c' : Caps} : H.Rs σ [x] n w c c' ↔ H.R σ x n w c c' := by
  rw [H.Rs_cons]
  constructor
  · rintro ⟨u, v, c1, rfl, h1, h2⟩
    obtain ⟨rfl, rfl⟩ := H.Rs_nil.mp h2
    simpa using h1
  · intro h
    exact ⟨w, [], c', by simp, h, H.Rs_nil.mpr ⟨rfl, rfl⟩⟩

theorem H.Rs_append : ∀ {a b : List H} {n : Nat} {w : Str} {c c' : Caps},
    H.Rs σ (a ++ b) n w c c' ↔
      ∃ u v c1, w = u ++ v ∧ H.Rs σ a n u c c1 ∧ H.Rs σ b (n + H.ncL a) v c1 c'
  | [], b, n, w, c, c' => by
    simp only [List.nil_append, H.Rs_nil, H.ncL_nil, Nat.add_zero]
    constructor
    · intro h; exact ⟨[], w, c, rfl, ⟨rfl, rfl⟩, h⟩
    · rintro ⟨u, v, c1, rfl, ⟨rfl, rfl⟩, h⟩; exact h
  | x :: a, b, n, w, c, c' => by
    simp only [List.cons_append, H.Rs_cons, H.Rs_append (a := a) (b := b), H.ncL_cons]
    constructor
    · rintro ⟨u, v, c1, rfl, h1, u2, v2, c2, rfl, h2, h3⟩
      exact ⟨u ++ u2, v2, c2, by simp, ⟨u, u2, c1, rfl, h1, h2⟩, h3.congr_n (by omega)⟩
    · rintro ⟨u, v, c1, rfl, ⟨u1, u2, c2, rfl, h1, h2⟩, h3⟩
      exact ⟨u1, u2 ++ v, c2, by simp, h1, u2, v, c1, rfl, h2, h3.congr_n (by omega)⟩

/-! ### `mkCat` -/

theorem ncL_catFlat (x : H) : H.ncL (catFlat x) = x.nc := by
  cases x <;> simp [catFlat]

theorem Rs_catFlat (x : H) {n : Nat} {u : Str} {c c' : Caps} :
    H.Rs σ (catFlat x) n u c c' ↔ H.R σ x n u c c' := by
  cases x <;> simp only [catFlat, H.Rs_single, H.R_cat, H.Rs_nil, H.R_empty]

theorem ncL_flatMap_catFlat : ∀ (l : List H), H.ncL (l.flatMap catFlat) = H.ncL l
  | [] => rfl
  | x :: xs => by
    rw [List.flatMap_cons, H.ncL_append, ncL_catFlat, ncL_flatMap_catFlat xs, H.ncL_cons]

theorem Rs_flatMap_catFlat : ∀ (l : List H) {n : Nat} {w : Str} {c c' : Caps},
    H.Rs σ (l.flatMap catFlat) n w c c' ↔ H.Rs σ l n w c c'
  | [], _, _, _, _ => by simp only [List.flatMap_nil]
  | x :: xs, n, w, c, c' => by
    simp only [List.flatMap_cons, H.Rs_append, H.Rs_cons, Rs_catFlat, ncL_catFlat,
      Rs_flatMap_catFlat xs]

theorem ncL_mergeLits (l : List H) : H.ncL (mergeLits l) = H.ncL l := by
  fun_induction mergeLits l with
  | case1 a rest b rest' hm ih =>
    rw [hm] at ih
    simp only [H.ncL_cons, H.nc_lit, Nat.zero_add] at ih ⊢
    exact ih
  | case2 a rest hne ih => simp only [H.ncL_cons, ih]
  | case3 x rest hx ih => simp only [H.ncL_cons, ih]
  | case4 => rfl

theorem Rs_mergeLits (l : List H) : ∀ {n : Nat} {w : Str} {c c' : Caps},
    H.Rs σ (mergeLits l) n w c c' ↔ H.Rs σ l n w c c' := by
  fun_induction mergeLits l with
  | case1 a rest b rest' hm ih =>
    intro n w c c'
    simp only [H.Rs_cons, H.R_lit, H.nc_lit, Nat.add_zero]
    constructor
    · rintro ⟨u, v, c1, rfl, ⟨rfl, rfl⟩, hv⟩
      refine ⟨a, b ++ v, c1, by simp, ⟨rfl, rfl⟩, ?_⟩
      rw [← ih, hm, H.Rs_cons]
      exact ⟨b, v, c1, rfl, H.R_lit.mpr ⟨rfl, rfl⟩, by simpa using hv⟩
    · rintro ⟨u, v, c1, rfl, ⟨rfl, rfl⟩, hv⟩
      rw [← ih, hm, H.Rs_cons] at hv
      obtain ⟨b', v', c2, rfl, hb, hv'⟩ := hv
      obtain ⟨rfl, rfl⟩ := H.R_lit.mp hb
      exact ⟨u ++ b', v', c2, by simp, ⟨rfl, rfl⟩, by simpa using hv'⟩
  | case2 a rest hne ih =>
    intro n w c c'
    simp only [H.Rs_cons, ih]
  | case3 x rest hx ih =>
    intro n w c c'
    simp only [H.Rs_cons, ih]
  | case4 => intro n w c c'; exact Iff.rfl

theorem nc_catOf : ∀ (xs : List H), (catOf xs).nc = H.ncL xs
  | [] => by simp [catOf]
  | [x] => by simp [catOf]
  | x :: y :: ys => by simp only [catOf, H.nc_cat]

theorem R_catOf {n : Nat} {w : Str} {c c' : Caps} : ∀ (xs : List H),
    H.R σ (catOf xs) n w c c' ↔ H.Rs σ xs n w c c'
  | [] => by simp only [catOf, H.R_empty, H.Rs_nil]
  | [x] => by simp only [catOf, H.Rs_single]
  | x :: y :: ys => by simp only [catOf, H.R_cat]

/-- `Hir::concat` has as many groups as its elements -/
theorem nc_mkCat (l : List H) : (mkCat l).nc = H.ncL l := by
  rw [mkCat_eq, nc_catOf, ncL_mergeLits, ncL_flatMap_catFlat]

/-- **pass 1, `Hir::concat`** (flattening, empty pieces dropped, adjacent literals fused): the
    derivations of the result are the chained derivations of the elements -/
theorem mkCat_runs (l : List H) {n : Nat} {w : Str} {c c' : Caps} :
    H.R σ (mkCat l) n w c c' ↔ H.Rs σ l n w c c' := by
  rw [mkCat_eq, R_catOf, Rs_mergeLits, Rs_flatMap_catFlat]

/-! ### `mkRep` -/

theorem R_rep {lo : Nat} {hi : Option Nat} {lz : Bool} {s : H} {n : Nat} {u : Str} {c c' : Caps}
    (h : H.R σ (.rep lo hi lz s) n u c c') :
    ∃ m, lo ≤ m ∧ (∀ x, hi = some x → m ≤ x) ∧ IterR (H.R σ s n) m u c c' := by
  simp only [H.R, H.toRe] at h
  split at h
  · cases h with
    | lazyStar h =>
      obtain ⟨m, hm⟩ := iterR_of_runs_star h
      rename_i hc
      simp only [Bool.and_eq_true, beq_iff_eq] at hc
      obtain ⟨⟨_, rfl⟩, rfl⟩ := hc
      exact ⟨m, Nat.zero_le _, (by intro _ e; cases e), hm⟩
  · cases h with
    | rep h1 h2 h3 => exact ⟨_, h1, h2, iterR_of_runsIter h3⟩

theorem repOf_runs {lo : Nat} {hi : Option Nat} {lz : Bool} {s : H} {n : Nat} {u : Str} {c c' : Caps}
    (h : H.R σ (repOf lo hi lz s) n u c c') :
    ∃ m, lo ≤ m ∧ (∀ x, hi = some x → m ≤ x) ∧ IterR (H.R σ s n) m u c c' := by
  unfold repOf at h
  split at h
  · rename_i hc
    simp only [Bool.and_eq_true, beq_iff_eq] at hc
    obtain ⟨rfl, rfl⟩ := hc
    obtain ⟨rfl, rfl⟩ := H.R_empty.mp h
    exact ⟨0, Nat.le_refl _, (by intro x e; cases e; exact Nat.le_refl _), .zero⟩
  · split at h
    · rename_i hc
      simp only [Bool.and_eq_true, beq_iff_eq] at hc
      obtain ⟨rfl, rfl⟩ := hc
      exact ⟨1, Nat.le_refl _, (by intro x e; cases e; exact Nat.le_refl _), IterR.one h⟩
    · exact R_rep h

/-- **pass 2, `Hir::repetition`** (`x{0,0}` dropped, `x{1,1}` unwrapped, the bounds of a body that
    can only match the empty string clipped to at most one round): a derivation of the result is a
    chain of rounds of the body, their number within the *original* bounds.  Where the clipping
    removed rounds (`x{3,5}` → `x`, `x` empty-only), the missing rounds are repetitions of the one
    round there is (`runs_idem`). -/
theorem mkRep_runs {lo : Nat} {hi : Option Nat} {lz : Bool} {s : H} (hle : ∀ x, hi = some x → lo ≤ x)
    {n : Nat} {u : Str} {c c' : Caps} (h : H.R σ (mkRep lo hi lz s) n u c c') :
    ∃ m, lo ≤ m ∧ (∀ x, hi = some x → m ≤ x) ∧ IterR (H.R σ s n) m u c c' := by
  rw [mkRep_eq] at h
  split at h
  · rename_i hz
    obtain ⟨m, h1, h2, h3⟩ := repOf_runs h
    have hm1 : m ≤ 1 := by
      have := h2 _ rfl
      cases hi with
      | none => simpa using this
      | some x => simp only at this; omega
    match m, h3, hm1, h1, h2 with
    | 0, h3, _, h1, _ =>
      exact ⟨0, by omega, fun x _ => Nat.zero_le _, h3⟩
    | 1, h3, _, h1, h2 =>
      have hr := h3.one_inv
      have hu : u = [] := maxZero_null s u hz hr.matches
      subst hu
      have hi1 : ∀ x, hi = some x → 1 ≤ x := by
        intro x e
        subst e
        have := h2 _ rfl
        simp only at this
        omega
      refine ⟨max lo 1, Nat.le_max_left _ _, ?_, ?_⟩
      · intro x e
        have := hle x e
        have := hi1 x e
        omega
      · have e : max lo 1 = 1 + (max lo 1 - 1) := by omega
        rw [e]
        have := (IterR.one hr).append (IterR.const (R := H.R σ s n) (runs_idem hr) (max lo 1 - 1))
        simpa using this
    | m + 2, _, hm1, _, _ => omega
  · exact repOf_runs h

end runsH

/-! ### alternations -/

section altH
variable {σ : Sem}

theorem Rany_nil {n : Nat} {u : Str} {c c' : Caps} : ¬ H.Rany σ [] n u c c' := by
  rintro ⟨pre, x, post, e, _⟩
  cases pre <;> cases e

theorem Rany_cons {x : H} {xs : List H} {n : Nat} {u : Str} {c c' : Caps} :
    H.Rany σ (x :: xs) n u c c' ↔ H.R σ x n u c c' ∨ H.Rany σ xs (n + x.nc) u c c' := by
  constructor
  · rintro ⟨pre, y, post, e, h⟩
    cases pre with
    | nil =>
      simp only [List.nil_append, List.cons.injEq] at e
      obtain ⟨rfl, _⟩ := e
      exact Or.inl (h.congr_n (by simp))
    | cons p pre =>
      simp only [List.cons_append, List.cons.injEq] at e
      obtain ⟨rfl, rfl⟩ := e
      exact Or.inr ⟨pre, y, post, rfl, h.congr_n (by simp only [H.ncL_cons]; omega)⟩
  · rintro (h | ⟨pre, y, post, rfl, h⟩)
    · exact ⟨[], x, xs, rfl, h.congr_n (by simp)⟩
    · exact ⟨x :: pre, y, post, rfl, h.congr_n (by simp only [H.ncL_cons]; omega)⟩

theorem Rany_single {x : H} {n : Nat} {u : Str} {c c' : Caps} : H.Rany σ [x] n u c c' ↔ H.R σ x n u c c' := by
  rw [Rany_cons]
  exact ⟨fun h => h.elim id (fun h => absurd h Rany_nil), Or.inl⟩

theorem Rany_append : ∀ {a b : List H} {n : Nat} {u : Str} {c c' : Caps},
    H.Rany σ (a ++ b) n u c c' ↔ H.Rany σ a n u c c' ∨ H.Rany σ b (n + H.ncL a) u c c'
  | [], b, n, u, c, c' => by
    simp only [List.nil_append, H.ncL_nil, Nat.add_zero]
    exact ⟨Or.inr, fun h => h.elim (fun h => absurd h Rany_nil) id⟩
  | x :: a, b, n, u, c, c' => by
    simp only [List.cons_append, Rany_cons, Rany_append (a := a) (b := b), H.ncL_cons, or_assoc, Nat.add_assoc]

theorem H.Rany.congr_n {l : List H} {n n' : Nat} {u : Str} {c c' : Caps} (h : H.Rany σ l n u c c')
    (e : n = n') : H.Rany σ l n' u c c' := e ▸ h

/-- the derivations of `(?:x1|…|xk)` are the derivations of the branches -/
theorem R_alt {l : List H} {n : Nat} {u : Str} {c c' : Caps} :
    H.R σ (.alt l) n u c c' ↔ H.Rany σ l n u c c' := by
  simp only [H.R, H.toRe, H.Rany, H.ncL]
  constructor
  · intro h
    cases runs_grp_inv h with
    | alt e h' =>
      rename_i pre r post
      rw [H.toReList_eq_map] at e
      obtain ⟨l1, l2, rfl, e1, e2⟩ := List.map_eq_append_iff.mp e
      obtain ⟨x, l3, rfl, rfl, e3⟩ := List.map_eq_cons_iff.mp e2
      refine ⟨l1, x, l3, rfl, ?_⟩
      rw [H.toReList_eq_map, e1]
      exact h'
  · rintro ⟨pre, x, post, rfl, h⟩
    refine .grp (.alt (pre := H.toReList pre) (r := x.toRe) (post := H.toReList post) ?_ h)
    simp only [H.toReList_eq_map, List.map_append, List.map_cons]

theorem ncL_altFlat (x : H) : H.ncL (altFlat x) = x.nc := by
  cases x <;> simp [altFlat]

theorem Rany_altFlat (x : H) {n : Nat} {u : Str} {c c' : Caps} :
    H.Rany σ (altFlat x) n u c c' ↔ H.R σ x n u c c' := by
  cases x <;> simp only [altFlat, Rany_single, R_alt]

theorem ncL_flat : ∀ (l : List H), H.ncL (l.flatMap altFlat) = H.ncL l
  | [] => rfl
  | x :: xs => by rw [List.flatMap_cons, H.ncL_append, ncL_altFlat, ncL_flat xs, H.ncL_cons]

theorem Rany_flat : ∀ (l : List H) {n : Nat} {u : Str} {c c' : Caps},
    H.Rany σ (l.flatMap altFlat) n u c c' ↔ H.Rany σ l n u c c'
  | [], _, _, _, _ => by simp only [List.flatMap_nil]
  | x :: xs, n, u, c, c' => by
    rw [List.flatMap_cons, Rany_append, Rany_altFlat, ncL_altFlat, Rany_flat xs, Rany_cons]

theorem Rany_map {α : Type} (f : α → H) (l : List α) {n : Nat} {u : Str} {c c' : Caps} :
    H.Rany σ (l.map f) n u c c' ↔
      ∃ l1 a l2, l = l1 ++ a :: l2 ∧ H.R σ (f a) (n + H.ncL (l1.map f)) u c c' := by
  constructor
  · rintro ⟨pre, x, post, e, h⟩
    obtain ⟨l1, l2, rfl, rfl, e2⟩ := List.map_eq_append_iff.mp e
    obtain ⟨a, l3, rfl, rfl, _⟩ := List.map_eq_cons_iff.mp e2
    exact ⟨l1, a, l3, rfl, h⟩
  · rintro ⟨l1, a, l2, rfl, h⟩
    exact ⟨l1.map f, f a, l2.map f, by simp, h⟩

theorem ncL_map_congr {α : Type} {f g : α → H} : ∀ {l : List α}, (∀ a ∈ l, (f a).nc = (g a).nc) →
    H.ncL (l.map f) = H.ncL (l.map g)
  | [], _ => rfl
  | a :: l, h => by
    simp only [List.map_cons, H.ncL_cons, h a (List.mem_cons_self ..),
      ncL_map_congr (l := l) (fun b hb => h b (List.mem_cons_of_mem _ hb))]

/-- what is to be shown of an alternation of the branches `l`: every derivation of the result is a
    derivation of one of the branches, with the slot base of that branch -/
def AltRuns (σ : Sem) (l : List H) (h : H) : Prop :=
  ∀ n u c c', H.R σ h n u c c' → H.Rany σ l n u c c'

theorem altRuns_alt {flat : List H} : AltRuns σ flat (.alt flat) := fun _ _ _ _ h => R_alt.mp h

/-- a group-free alternation that has the right language (the class cases of `Hir::alternation`) -/
theorem altRuns_of_plain {l : List H} {h : H} (hl : H.ncL l = 0) (hh : h.nc = 0)
    (hsem : ∀ w, H.L σ h w ↔ H.Lany σ l w) : AltRuns σ l h := by
  intro n u c c' hr
  obtain ⟨hL, rfl⟩ := (H.R_plain hh).mp hr
  obtain ⟨x, hx, hxl⟩ := (hsem u).mp hL
  obtain ⟨pre, post, rfl⟩ := List.append_of_mem hx
  exact ⟨pre, x, post, rfl, (H.R_plain (H.ncL_mem_zero hl x hx)).mpr ⟨hxl, rfl⟩⟩

theorem ncL_zero_of_groups {l : List H} (hw : ∀ x ∈ l, H.WF SetPlain x) (hg : H.groupListL l = []) :
    H.ncL l = 0 := by
  rw [H.ncL_eq_groups hw, hg]; rfl

theorem ncL_split (len : Nat) (xs : List H) : H.ncL xs = H.ncL (xs.take len) + H.ncL (xs.drop len) := by
  rw [← H.ncL_append, List.take_append_drop]

/-- **pass 3b, `lift_common_prefix`**: `(?:P A1|…|P Ak)` → `P(?:A1|…|Ak)`.  A derivation of the result
    is a derivation of `P` (group-free: it contributes a word only) followed by a derivation of one
    suffix `Ai`; the word of `P` is also a word of the copy of `P` in branch `i` (`beq_lang`). -/
theorem liftPrefix_runs (fuel : Nat) (p : List H) (rest : List (List H)) (flat : List H)
    (hflat : flat = (p :: rest).map H.cat) (hne : rest ≠ [])
    (hsem : ∀ xs ∈ p :: rest, ∀ x ∈ xs, H.WF (SetSem σ) x)
    (hpl : ∀ xs ∈ p :: rest, ∀ x ∈ xs, H.WF SetPlain x)
    (ih : ∀ l, (∀ x ∈ l, H.WF (SetSem σ) x) → (∀ x ∈ l, H.WF SetPlain x) → AltRuns σ l (mkAltF fuel l)) :
    AltRuns σ flat (liftPrefix fuel flat p rest) := by
  unfold liftPrefix
  obtain ⟨_, hlen2⟩ := foldl_min_le p rest p.length
  dsimp only
  generalize List.foldl (fun n ys => min n (commonLen p ys)) p.length rest = len at hlen2 ⊢
  split
  · exact altRuns_alt
  · have hsw1 : ∀ s ∈ (p :: rest).map (fun xs => mkCat (xs.drop len)), H.WF (SetSem σ) s := by
      intro s hs
      obtain ⟨xs, hxs, rfl⟩ := List.mem_map.mp hs
      exact wf_mkCat (fun x hx => hsem xs hxs x (List.mem_of_mem_drop hx))
    have hsw2 : ∀ s ∈ (p :: rest).map (fun xs => mkCat (xs.drop len)), H.WF SetPlain s := by
      intro s hs
      obtain ⟨xs, hxs, rfl⟩ := List.mem_map.mp hs
      exact wf_mkCat (fun x hx => hpl xs hxs x (List.mem_of_mem_drop hx))
    have ihl := ih _ hsw1 hsw2
    -- the prefix is group-free in every branch
    have htake0 : ∀ xs ∈ p :: rest, H.ncL (xs.take len) = 0 := by
      intro xs hxs
      apply ncL_zero_of_groups (fun x hx => hpl xs hxs x (List.mem_of_mem_take hx))
      rcases List.mem_cons.mp hxs with rfl | hxs'
      · obtain ⟨y, hy⟩ := List.exists_mem_of_ne_nil rest hne
        exact (groupListL_take_nil xs y len (hlen2 y hy)).1
      · exact (groupListL_take_nil p xs len (hlen2 xs hxs')).2
    have take_eq : ∀ xs ∈ p :: rest, ∀ u, H.Ls σ (xs.take len) u ↔ H.Ls σ (p.take len) u := by
      intro xs hxs u
      rcases List.mem_cons.mp hxs with rfl | hxs'
      · exact Iff.rfl
      · exact Ls_take_eq (hlen2 xs hxs') (hsem p (List.mem_cons_self ..)) (hsem xs hxs) u
    have hnc : ∀ xs ∈ p :: rest, (mkCat (xs.drop len)).nc = (H.cat xs).nc := by
      intro xs hxs
      rw [nc_mkCat, H.nc_cat, ncL_split len xs, htake0 xs hxs, Nat.zero_add]
    intro n w c c' h
    rw [mkCat_runs, H.Rs_append] at h
    obtain ⟨u, v, c1, rfl, hu, hv⟩ := h
    have hp0 := htake0 p (List.mem_cons_self ..)
    obtain ⟨huL, rfl⟩ := (H.Rs_plain hp0).mp hu
    rw [hp0, Nat.add_zero, H.Rs_single] at hv
    obtain ⟨l1, xs, l2, e, hx⟩ := (Rany_map _ _).mp (ihl _ _ _ _ hv)
    have hxs : xs ∈ p :: rest := by rw [e]; simp
    rw [mkCat_runs] at hx
    have hl1 : ∀ ys ∈ l1, ys ∈ p :: rest := by
      intro ys hys; rw [e]; exact List.mem_append_left _ hys
    have hbase : H.ncL (l1.map fun xs => mkCat (xs.drop len)) = H.ncL (l1.map H.cat) :=
      ncL_map_congr (fun ys hys => hnc ys (hl1 ys hys))
    rw [hbase] at hx
    have htk : H.Rs σ (xs.take len) (n + H.ncL (l1.map H.cat)) u c1 c1 :=
      (H.Rs_plain (htake0 xs hxs)).mpr ⟨(take_eq xs hxs u).mpr huL, rfl⟩
    have hall : H.Rs σ (xs.take len ++ xs.drop len) (n + H.ncL (l1.map H.cat)) (u ++ v) c1 c' :=
      H.Rs_append.mpr ⟨u, v, c1, rfl, htk, hx.congr_n (by rw [htake0 xs hxs]; rfl)⟩
    rw [List.take_append_drop] at hall
    rw [hflat, e]
    exact ⟨l1.map H.cat, H.cat xs, l2.map H.cat, by simp, H.R_cat.mpr hall⟩

theorem altLift_runs (fuel : Nat) (flat : List H) (first : H) (others : List H)
    (hflat : flat = first :: others) (hne : others ≠ [])
    (hsem : ∀ x ∈ flat, H.WF (SetSem σ) x) (hpl : ∀ x ∈ flat, H.WF SetPlain x)
    (ih : ∀ f, fuel = f + 1 → ∀ l, (∀ x ∈ l, H.WF (SetSem σ) x) → (∀ x ∈ l, H.WF SetPlain x) →
      AltRuns σ l (mkAltF f l)) :
    AltRuns σ flat (altLift fuel flat first others) := by
  cases fuel with
  | zero => exact altRuns_alt
  | succ f =>
    simp only [altLift]
    split
    · rename_i p rest hp hrest
      have hflat' : flat = (p :: rest).map H.cat := by
        rw [hflat, catElems_some hp, allCats_some hrest]; rfl
      have hne' : rest ≠ [] := by
        intro h0
        rw [allCats_some hrest, h0] at hne
        exact hne rfl
      refine liftPrefix_runs f p rest flat hflat' hne' ?_ ?_ (ih f rfl)
      · intro xs hxs
        have : H.cat xs ∈ flat := by rw [hflat']; exact List.mem_map.mpr ⟨xs, hxs, rfl⟩
        exact (hsem _ this).of_cat
      · intro xs hxs
        have : H.cat xs ∈ flat := by rw [hflat']; exact List.mem_map.mpr ⟨xs, hxs, rfl⟩
        exact (hpl _ this).of_cat
    · exact altRuns_alt

theorem altMain_of_none {fuel : Nat} {flat : List H} {first : H} {others : List H}
    (h1 : singletons flat = none) (h2 : classKeys flat = none) :
    altMain fuel flat first others = altLift fuel flat first others := by
  unfold altMain
  simp only [h1, h2]

/-- **pass 3a**: an alternation of single characters / of classes becomes one class.  All branches
    are group-free, so only the language matters. -/
theorem altMain_runs (fuel : Nat) (flat : List H) (first : H) (others : List H)
    (hflat : flat = first :: others) (hne : others ≠ [])
    (hsem : ∀ x ∈ flat, H.WF (SetSem σ) x) (hpl : ∀ x ∈ flat, H.WF SetPlain x)
    (ih : ∀ f, fuel = f + 1 → ∀ l, (∀ x ∈ l, H.WF (SetSem σ) x) → (∀ x ∈ l, H.WF SetPlain x) →
      AltRuns σ l (mkAltF f l)) :
    AltRuns σ flat (altMain fuel flat first others) := by
  have hS := altMain_sem fuel flat first others hflat hsem (fun f _ l hl => mkAltF_sem f l hl)
  obtain ⟨hGw, hGl⟩ := altMain_groups fuel flat first others hflat hpl (fun f _ l hl => mkAltF_groups f l hl)
  have plain : H.groupListL flat = [] → AltRuns σ flat (altMain fuel flat first others) := by
    intro hg
    refine altRuns_of_plain (ncL_zero_of_groups hpl hg) ?_ hS.2
    rw [H.nc_eq_groups hGw, hGl, hg]; rfl
  cases h1 : singletons flat with
  | some cs => exact plain (singletons_groups flat cs h1)
  | none =>
    cases h2 : classKeys flat with
    | some k => exact plain (classKeys_groups flat k h2)
    | none =>
      rw [altMain_of_none h1 h2]
      exact altLift_runs fuel flat first others hflat hne hsem hpl ih

theorem mkAltF_runs_core (fuel : Nat) (l : List H)
    (hsem : ∀ x ∈ l, H.WF (SetSem σ) x) (hpl : ∀ x ∈ l, H.WF SetPlain x)
    (ih : ∀ f, fuel = f + 1 → ∀ l, (∀ x ∈ l, H.WF (SetSem σ) x) → (∀ x ∈ l, H.WF SetPlain x) →
      AltRuns σ l (mkAltF f l)) :
    AltRuns σ l (mkAltF fuel l) := by
  rw [mkAltF_eq]
  have hfw1 := wf_flat hsem
  have hfw2 := wf_flat hpl
  have hfl : ∀ n u c c', H.Rany σ (l.flatMap altFlat) n u c c' → H.Rany σ l n u c c' :=
    fun n u c c' h => (Rany_flat l).mp h
  generalize l.flatMap altFlat = flat at hfw1 hfw2 hfl
  match flat, hfw1, hfw2, hfl with
  | [], _, _, _ => exact fun n u c c' h => absurd h H.R_fail
  | [x], _, _, hfl => exact fun n u c c' h => hfl _ _ _ _ (Rany_single.mpr h)
  | first :: y :: others, hfw1, hfw2, hfl =>
    have := altMain_runs fuel (first :: y :: others) first (y :: others) rfl (by simp) hfw1 hfw2 ih
    exact fun n u c c' h => hfl _ _ _ _ (this _ _ _ _ h)

theorem mkAltF_runs : ∀ (fuel : Nat) (l : List H), (∀ x ∈ l, H.WF (SetSem σ) x) →
    (∀ x ∈ l, H.WF SetPlain x) → AltRuns σ l (mkAltF fuel l) := by
  intro fuel
  induction fuel with
  | zero => intro l h1 h2; exact mkAltF_runs_core 0 l h1 h2 (fun f hf => by cases hf)
  | succ k ih => intro l h1 h2; exact mkAltF_runs_core (k + 1) l h1 h2 (fun f hf => by cases hf; exact ih)

/-- **pass 3, `Hir::alternation`** (flattening, classes, `lift_common_prefix`): every derivation of
    the result is a derivation of one of the branches, with the slot base of that branch -/
theorem mkAlt_runs (l : List H) (hsem : ∀ x ∈ l, H.WF (SetSem σ) x) (hpl : ∀ x ∈ l, H.WF SetPlain x) :
    AltRuns σ l (mkAlt l) := by
  rw [mkAlt_eq]; exact mkAltF_runs _ l hsem hpl

end altH

/-! ### the translation -/

theorem nc_toH (orbit : Char → List Char) (σ : Sem) (r : Re) (hk : r.capsKept = true) :
    (r.toH orbit σ).nc = r.ncaps := by
  obtain ⟨h1, h2⟩ := toH_groups orbit σ r hk
  rw [H.nc_eq_groups h1, h2, List.length_map, groupList_length]

theorem ncL_toHList (orbit : Char → List Char) (σ : Sem) (l : List Re) (hk : Re.capsKeptL l = true) :
    H.ncL (Re.toHList orbit σ l) = Re.ncapsList l := by
  obtain ⟨h1, h2⟩ := toHList_groups orbit σ l hk
  rw [H.ncL_eq_groups h1, h2, List.length_map, groupListL_length]

/-- a pattern without groups: only the language matters (`hirNorm_lang`) -/
theorem toH_runs_plain (orbit : Char → List Char) (σ : Sem) (r : Re) (hb : r.boundsOk = true)
    (ho : ∀ c ∈ r.ciChars, OrbitAt orbit σ c) (hk : r.capsKept = true) (h0 : r.ncaps = 0)
    {n : Nat} {u : Str} {c c' : Caps} (h : H.R σ (r.toH orbit σ) n u c c') : Runs σ r n u c c' := by
  have hn : (r.toH orbit σ).nc = 0 := by rw [nc_toH orbit σ r hk, h0]
  obtain ⟨hL, e⟩ := (H.R_plain hn).mp h
  rw [e]
  exact runs_of_matches (((toH_sem orbit σ r hb ho).2 u).mp hL) h0 n c

mutual
  theorem toH_runs (orbit : Char → List Char) (σ : Sem) : ∀ (r : Re), r.boundsOk = true →
      (∀ c ∈ r.ciChars, OrbitAt orbit σ c) → r.capsKept = true →
      ∀ (n : Nat) (u : Str) (c c' : Caps), H.R σ (r.toH orbit σ) n u c c' → Runs σ r n u c c'
    | .lit s ci, hb, ho, hk, _, _, _, _, h => toH_runs_plain orbit σ _ hb ho hk (by simp [Re.ncaps]) h
    | .chr p, hb, ho, hk, _, _, _, _, h => toH_runs_plain orbit σ _ hb ho hk (by simp [Re.ncaps]) h
    | .never, hb, ho, hk, _, _, _, _, h => toH_runs_plain orbit σ _ hb ho hk (by simp [Re.ncaps]) h
    | .cat l, hb, ho, hk, n, u, c, c', h => by
      simp only [Re.boundsOk] at hb
      simp only [Re.ciChars] at ho
      simp only [Re.capsKept] at hk
      simp only [Re.toH] at h
      rw [mkCat_runs] at h
      exact .cat ((toHList_runs orbit σ l hb ho hk).1 n u c c' h)
    | .alt l, hb, ho, hk, n, u, c, c', h => by
      simp only [Re.boundsOk] at hb
      simp only [Re.ciChars] at ho
      simp only [Re.capsKept] at hk
      simp only [Re.toH] at h
      have h1 := (toHList_sem orbit σ l hb ho).1
      have h2 := (toHList_groups orbit σ l hk).1
      obtain ⟨pre, r, post, e, hr⟩ := (toHList_runs orbit σ l hb ho hk).2 n u c c' (mkAlt_runs _ h1 h2 n u c c' h)
      exact .alt e hr
    | .star r, hb, ho, hk, n, u, c, c', h => by
      simp only [Re.boundsOk] at hb
      simp only [Re.ciChars] at ho
      simp only [Re.capsKept] at hk
      simp only [Re.toH] at h
      obtain ⟨m, _, _, hm⟩ := mkRep_runs (by intro _ e; cases e) h
      exact runs_star_of_iterR (hm.mono (fun u c c' => toH_runs orbit σ r hb ho hk n u c c'))
    | .lazyStar r, hb, ho, hk, n, u, c, c', h => by
      simp only [Re.boundsOk] at hb
      simp only [Re.ciChars] at ho
      simp only [Re.capsKept] at hk
      simp only [Re.toH] at h
      obtain ⟨m, _, _, hm⟩ := mkRep_runs (by intro _ e; cases e) h
      exact .lazyStar (runs_star_of_iterR (hm.mono (fun u c c' => toH_runs orbit σ r hb ho hk n u c c')))
    | .opt r, hb, ho, hk, n, u, c, c', h => by
      simp only [Re.boundsOk] at hb
      simp only [Re.ciChars] at ho
      simp only [Re.capsKept] at hk
      simp only [Re.toH] at h
      obtain ⟨m, _, h2, hm⟩ := mkRep_runs (by intro _ e; cases e; omega) h
      have hm1 := h2 1 rfl
      match m, hm, hm1 with
      | 0, hm, _ =>
        obtain ⟨rfl, rfl⟩ := hm.zero_inv
        exact .optNone
      | 1, hm, _ => exact .optSome (toH_runs orbit σ r hb ho hk n u c c' hm.one_inv)
      | m + 2, _, hm1 => omega
    | .rep r lo hi, hb, ho, hk, n, u, c, c', h => by
      simp only [Re.boundsOk, Bool.and_eq_true] at hb
      simp only [Re.ciChars] at ho
      simp only [Re.capsKept, Bool.and_eq_true] at hk
      simp only [Re.toH] at h
      obtain ⟨m, h1, h2, hm⟩ := mkRep_runs (by intro x e; subst e; simpa using hb.1) h
      exact .rep h1 h2 (runsIter_of_iterR (hm.mono (fun u c c' => toH_runs orbit σ r hb.2 ho hk.2 n u c c')))
    | .cap r, hb, ho, hk, n, u, c, c', h => by
      simp only [Re.boundsOk] at hb
      simp only [Re.ciChars] at ho
      simp only [Re.capsKept] at hk
      simp only [Re.toH] at h
      obtain ⟨c1, h1, rfl⟩ := H.R_cap.mp h
      exact .cap (toH_runs orbit σ r hb ho hk (n + 1) u c c1 h1)
    | .grp r, hb, ho, hk, n, u, c, c', h => by
      simp only [Re.boundsOk] at hb
      simp only [Re.ciChars] at ho
      simp only [Re.capsKept] at hk
      simp only [Re.toH] at h
      exact .grp (toH_runs orbit σ r hb ho hk n u c c' h)
  theorem toHList_runs (orbit : Char → List Char) (σ : Sem) : ∀ (l : List Re), Re.boundsOkList l = true →
      (∀ c ∈ Re.ciCharsList l, OrbitAt orbit σ c) → Re.capsKeptL l = true →
      (∀ (n : Nat) (u : Str) (c c' : Caps), H.Rs σ (Re.toHList orbit σ l) n u c c' → RunsAll σ l n u c c') ∧
      (∀ (n : Nat) (u : Str) (c c' : Caps), H.Rany σ (Re.toHList orbit σ l) n u c c' →
        ∃ pre r post, l = pre ++ r :: post ∧ Runs σ r (n + Re.ncapsList pre) u c c')
    | [], _, _, _ => by
      simp only [Re.toHList]
      refine ⟨fun n u c c' h => ?_, fun n u c c' h => absurd h Rany_nil⟩
      obtain ⟨rfl, rfl⟩ := H.Rs_nil.mp h
      exact .nil
    | r :: rs, hb, ho, hk => by
      simp only [Re.boundsOkList, Bool.and_eq_true] at hb
      simp only [Re.ciCharsList, List.mem_append] at ho
      simp only [Re.capsKeptL, Bool.and_eq_true] at hk
      have hr := toH_runs orbit σ r hb.1 (fun c hc => ho c (Or.inl hc)) hk.1
      obtain ⟨i1, i2⟩ := toHList_runs orbit σ rs hb.2 (fun c hc => ho c (Or.inr hc)) hk.2
      have hn := nc_toH orbit σ r hk.1
      simp only [Re.toHList]
      refine ⟨fun n w c c' h => ?_, fun n u c c' h => ?_⟩
      · obtain ⟨u, v, c1, rfl, h1, h2⟩ := H.Rs_cons.mp h
        rw [hn] at h2
        exact .cons (hr n u c c1 h1) (i1 _ v c1 c' h2)
      · rcases Rany_cons.mp h with h | h
        · exact ⟨[], r, rs, rfl, by simpa [Re.ncapsList] using hr n u c c' h⟩
        · rw [hn] at h
          obtain ⟨pre, r', post, e, h'⟩ := i2 _ u c c' h
          refine ⟨r :: pre, r', post, by rw [e]; rfl, ?_⟩
          simpa [Re.ncapsList, Nat.add_assoc] using h'
end

/-- **derivations survive the normalisation**: a capture-annotated derivation of the
    `regex-syntax` normal form is one of the pattern as printed — the same word, the same slot base,
    the same slots before and after.  Hypotheses as for `hirNorm_lang` (`HirHyp`: repetition bounds in
    order, `orbit` agrees with `σ.ceq` on the case-insensitive literals) and `hirNorm_groups`
    (`capsKept`: no group inside an `x{0,0}`). -/
theorem hirNorm_runs {orbit : Char → List Char} {σ : Sem} {r : Re} (h : HirHyp orbit σ r)
    (hk : r.capsKept = true) {n : Nat} {u : Str} {c c' : Caps}
    (hr : Runs σ (r.hirNorm orbit σ) n u c c') : Runs σ r n u c c' :=
  toH_runs orbit σ r h.bounds h.orbit hk n u c c' hr

/-- `((?:a*xx)|(?:a*(yy)))z` (`exFactored`): hypotheses of `hirNorm_runs` hold, and there is a
    derivation of the normal form `(a*(?:xx|(yy)))z` on `aayyz` to transfer -/
example : HirHyp trivOrbit trivSem exFactored ∧ exFactored.capsKept = true ∧
    Runs trivSem (exFactored.hirNorm trivOrbit trivSem) 0 ['a', 'a', 'y', 'y', 'z'] [none, none]
      [some ['a', 'a', 'y', 'y'], some ['y', 'y']] := by
  refine ⟨hirHyp_triv (by decide), by decide, ?_⟩
  have h : (exFactored.hirNorm trivOrbit trivSem).exec trivSem ['a', 'a', 'y', 'y', 'z'] =
      some (some ['a', 'a', 'y', 'y', 'z'] :: [some ['a', 'a', 'y', 'y'], some ['y', 'y']]) := by
    decide +kernel
  have := exec_runs h
  rwa [hirNorm_ncaps (by decide)] at this

/-- **the captures the match model reports come from a derivation of the printed pattern** -/
theorem match_model_runs {orbit : Char → List Char} {σ : Sem} {r : Re} (h : HirHyp orbit σ r)
    (hk : r.capsKept = true) {s : Str} {caps : Caps}
    (he : (r.hirNorm orbit σ).exec σ s = some (some s :: caps)) :
    Runs σ r 0 s (List.replicate r.ncaps none) caps := by
  have := exec_runs he
  rw [hirNorm_ncaps hk] at this
  exact hirNorm_runs h hk this

/-! ### the converse is false -/

/-- `(?:()|()){2}`: two rounds can set both groups; `Hir::repetition` clips the bounds of the
    empty-only body to `{1,1}` and unwraps it, and one round sets one group only -/
def exClipped : Re := .rep (.alt [.cap (.lit [] false), .cap (.lit [] false)]) 2 (some 2)

theorem exClipped_norm :
    exClipped.hirNorm trivOrbit trivSem = .grp (.alt [.cap (.lit [] false), .cap (.lit [] false)]) := by
  simp [exClipped, Re.hirNorm, Re.toH, Re.toHList, mkCat, mkAlt, mkAltF, mergeLits, mkRep, H.maxZero,
    H.maxZeroList, singletons, classKeys, catElems, allCats, H.toRe, H.toReList, branchLen]

/-- **the converse of `hirNorm_runs` is false**: derivations forget the preference order but not
    which groups took part.  (No successful run of `Re.exec` is lost by this: `hirNorm_runs` is the
    direction the soundness statements need.) -/
theorem hirNorm_runs_converse_false :
    ∃ (r : Re) (u : Str) (c c' : Caps), HirHyp trivOrbit trivSem r ∧ r.capsKept = true ∧
      Runs trivSem r 0 u c c' ∧ ¬ Runs trivSem (r.hirNorm trivOrbit trivSem) 0 u c c' := by
  refine ⟨exClipped, [], [none, none], [some [], some []], hirHyp_triv (by decide), by decide, ?_, ?_⟩
  · have r1 : Runs trivSem (.alt [.cap (.lit [] false), .cap (.lit [] false)]) 0 [] [none, none] [some [], none] :=
      .alt (pre := []) (post := [.cap (.lit [] false)]) rfl
        (Runs.cap (c' := [none, none]) (.lit (by decide)))
    have r2 : Runs trivSem (.alt [.cap (.lit [] false), .cap (.lit [] false)]) 0 [] [some [], none] [some [], some []] :=
      .alt (pre := [.cap (.lit [] false)]) (post := []) rfl
        (Runs.cap (c' := [some [], none]) (.lit (by decide)))
    exact .rep (m := 2) (by decide) (by intro h e; cases e; decide)
      (RunsIter.succ (u := []) (v := []) r1 (RunsIter.succ (u := []) (v := []) r2 .zero))
  · rw [exClipped_norm]
    intro h
    rcases runs_alt2_inv (runs_grp_inv h) with h | h
    · obtain ⟨_, e⟩ := runs_cap_plain h (by decide)
      revert e; decide
    · obtain ⟨_, e⟩ := runs_cap_plain h (by decide)
      revert e; decide

/-! ### end to end: the tiling for what the match model reports -/

/-- `exec_tiling` from a derivation (the route of `Wax/Proofs/CapTile.lean`, which starts from
    `Re.exec` on the same pattern) -/
theorem runs_tiling {σ : Sem} {rs : List Re} {s : Str} {caps : Caps}
    (h : Runs σ (.cat rs) 0 s (List.replicate (Re.ncapsList rs) none) caps) : ∃ us, Tiling σ rs s caps us := by
  have hr := runs_cat_inv h
  have t := runsAll_touch hr
  obtain ⟨us, hl, hc, hel⟩ := runsAll_tiling rs 0 s _ _ hr
  refine ⟨us, hl, hc, by simpa using t.len, ?_⟩
  intro e r u hre hue
  obtain ⟨ce, ce', hrun, hlen, hs⟩ := hel e r u hre hue
  simp only [Nat.zero_add] at hrun hs
  refine ⟨ce, ce', hrun, by rw [hlen, t.len], fun i hi1 hi2 => ?_⟩
  obtain ⟨a1, a2⟩ := hs i hi1 hi2
  refine ⟨?_, a2⟩
  rw [a1, List.getElem?_replicate]
  have := slotBase_le rs e r hre
  simp only [ite_eq_left_iff]
  omega

/-- **the result of the match model on a top-level concatenation is a tiling along the elements of
    the pattern as printed**, although the normal form that ran has other elements (fused literals,
    factored sites) -/
theorem match_model_tiling {orbit : Char → List Char} {σ : Sem} {rs : List Re}
    (h : HirHyp orbit σ (.cat rs)) (hk : (Re.cat rs).capsKept = true) {s : Str} {caps : Caps}
    (he : ((Re.cat rs).hirNorm orbit σ).exec σ s = some (some s :: caps)) :
    ∃ us, Tiling σ rs s caps us := by
  have := match_model_runs h hk he
  simp only [Re.ncaps] at this
  exact runs_tiling this

/-- **C04, captures tile the path, for the match model** (`exec_caps_tile` for the normal form) -/
theorem model_caps_tile {orbit : Char → List Char} {σ : Sem} {rs : List Re}
    (h : HirHyp orbit σ (.cat rs)) (hk : (Re.cat rs).capsKept = true) {s : Str} {caps : Caps}
    (he : ((Re.cat rs).hirNorm orbit σ).exec σ s = some (some s :: caps)) :
    ∃ us : List Str, us.length = rs.length ∧ s = us.flatten ∧
      (∀ (e : Nat) (r : Re) (u : Str), rs[e]? = some r → us[e]? = some u → Matches σ r u) ∧
      ∀ (e : Nat) (r : Re) (u : Str) (i : Nat) (x : Str), rs[e]? = some r → us[e]? = some u →
        slotBase rs e ≤ i → i < slotBase rs e + r.ncaps → caps[i]? = some (some x) →
        ∃ a, segStart us e ≤ a ∧ a + x.length ≤ segStart us e + u.length ∧
          x = (s.drop a).take x.length := by
  obtain ⟨us, ht⟩ := match_model_tiling h hk he
  exact ⟨us, ht.len, ht.cover, fun e r u hr hu => ht.matches hr hu,
    fun e r u i x hr hu h1 h2 hx => ht.window hr hu h1 h2 hx⟩

/-- what the match model reports on a compiled glob is a tiling along the top-level tokens -/
theorem model_tok_tiling {orbit : Char → List Char} {σ : Sem} {t : Tok}
    (h : HirHyp orbit σ (encodeTop t)) {s : Str} {caps : Caps}
    (he : ((encodeTop t).hirNorm orbit σ).exec σ s = some (some s :: caps)) :
    ∃ us, Tiling σ (topRs t.concatenation) s caps us := by
  have hk := capsKept_encodeTop t
  rw [encodeTop_eq] at h hk he
  exact match_model_tiling h hk he

section model
variable {orbit : Char → List Char} {σ : Sem} {t : Tok} {s : Str} {caps : Caps}

/-- `?`, for the captures the normal form reports -/
theorem model_one_capture_one_char (hh : HirHyp orbit σ (encodeTop t))
    (hc : ∀ x ∈ t.concatenation, x.isCat = false)
    (he : ((encodeTop t).hirNorm orbit σ).exec σ s = some (some s :: caps)) {e : Nat} {sp : Span}
    (hte : t.concatenation[e]? = some (.one sp)) :
    ∃ ch, ch ≠ '/' ∧ caps[capIdx t.concatenation e]? = some (some [ch]) := by
  obtain ⟨us, ht⟩ := model_tok_tiling hh he
  obtain ⟨u, hu⟩ := ht.seg_exists (tok_index_lt hte)
  obtain ⟨ch, h1, _, h3⟩ := one_capture_one_char hc ht hte hu
  exact ⟨ch, h1, h3⟩

/-- classes -/
theorem model_class_capture_one_char (hh : HirHyp orbit σ (encodeTop t))
    (hc : ∀ x ∈ t.concatenation, x.isCat = false)
    (he : ((encodeTop t).hirNorm orbit σ).exec σ s = some (some s :: caps)) {e : Nat} {sp : Span}
    {neg : Bool} {items : List Arch} (hte : t.concatenation[e]? = some (.cls sp neg items)) :
    ∃ ch, ch ≠ '/' ∧ (CharPred.cls neg items).holds σ ch = true ∧
      caps[capIdx t.concatenation e]? = some (some [ch]) := by
  obtain ⟨us, ht⟩ := model_tok_tiling hh he
  obtain ⟨u, hu⟩ := ht.seg_exists (tok_index_lt hte)
  obtain ⟨ch, h1, h2, _, h3⟩ := class_capture_one_char hc ht hte hu
  exact ⟨ch, h1, h2, h3⟩

/-- `*`, `$` -/
theorem model_zom_capture_sepFree (hh : HirHyp orbit σ (encodeTop t))
    (hc : ∀ x ∈ t.concatenation, x.isCat = false)
    (he : ((encodeTop t).hirNorm orbit σ).exec σ s = some (some s :: caps)) {e : Nat} {sp : Span}
    {lazy : Bool} (hte : t.concatenation[e]? = some (.zom sp lazy)) :
    ∃ x, SepFree x ∧ caps[capIdx t.concatenation e]? = some (some x) := by
  obtain ⟨us, ht⟩ := model_tok_tiling hh he
  obtain ⟨u, hu⟩ := ht.seg_exists (tok_index_lt hte)
  exact ⟨u, zom_capture_sepFree hc ht hte hu⟩

/-- tree wildcards: the group did not participate and its segment `u` is empty or `/`; or the
    capture `x` is the segment up to a leading `/`, and it is a run of complete components — unless
    the wildcard ends the pattern or is a rooted wildcard that starts a longer pattern
    (K-ENC-ROOTED-FIRST) -/
theorem model_tree_token_capture (hh : HirHyp orbit σ (encodeTop t))
    (hc : ∀ x ∈ t.concatenation, x.isCat = false)
    (he : ((encodeTop t).hirNorm orbit σ).exec σ s = some (some s :: caps)) {e : Nat} {sp : Span}
    {hasRoot : Bool} (hte : t.concatenation[e]? = some (.tree sp hasRoot)) :
    ∃ us u, Tiling σ (topRs t.concatenation) s caps us ∧ us[e]? = some u ∧
      (((u = [] ∨ u = ['/']) ∧ caps[capIdx t.concatenation e]? = some none) ∨
        ∃ x, caps[capIdx t.concatenation e]? = some (some x) ∧ (u = x ∨ u = '/' :: x) ∧
          (Star CompSep x ∨ e + 1 = t.concatenation.length ∨
            (e = 0 ∧ hasRoot = true ∧ t.concatenation.length ≠ 1))) := by
  obtain ⟨us, ht⟩ := model_tok_tiling hh he
  obtain ⟨u, hu⟩ := ht.seg_exists (tok_index_lt hte)
  exact ⟨us, u, ht, hu, tree_token_capture hc ht hte hu⟩

/-- the same without the segment (`exec_tree_capture_components` for the normal form) -/
theorem model_tree_capture_components (hh : HirHyp orbit σ (encodeTop t))
    (hc : ∀ x ∈ t.concatenation, x.isCat = false)
    (he : ((encodeTop t).hirNorm orbit σ).exec σ s = some (some s :: caps)) {e : Nat} {sp : Span}
    {hasRoot : Bool} (hte : t.concatenation[e]? = some (.tree sp hasRoot)) :
    caps[capIdx t.concatenation e]? = some none ∨
      ∃ x, caps[capIdx t.concatenation e]? = some (some x) ∧
        (Star CompSep x ∨ e + 1 = t.concatenation.length ∨
          (e = 0 ∧ hasRoot = true ∧ t.concatenation.length ≠ 1)) := by
  obtain ⟨_, _, _, _, h | ⟨x, h1, _, h3⟩⟩ := model_tree_token_capture hh hc he hte
  · exact Or.inl h.2
  · exact Or.inr ⟨x, h1, h3⟩

/-- every capturing top-level token other than a tree wildcard captures exactly its segment -/
theorem model_nontree_capture_segment (hh : HirHyp orbit σ (encodeTop t))
    (hc : ∀ x ∈ t.concatenation, x.isCat = false)
    (he : ((encodeTop t).hirNorm orbit σ).exec σ s = some (some s :: caps)) {e : Nat} {tk : Tok}
    (hte : t.concatenation[e]? = some tk) (hcap : tk.capturing = true)
    (htree : ∀ sp r, tk ≠ .tree sp r) :
    ∃ us u, Tiling σ (topRs t.concatenation) s caps us ∧ us[e]? = some u ∧
      caps[capIdx t.concatenation e]? = some (some u) := by
  obtain ⟨us, ht⟩ := model_tok_tiling hh he
  obtain ⟨u, hu⟩ := ht.seg_exists (tok_index_lt hte)
  exact ⟨us, u, ht, hu, nontree_capture_segment hc ht hte hcap htree hu⟩

/-- **(a) for the match model**: the captures of two capturing top-level tokens `e1 < e2` are
    numbered in that order, and the first ends in the path before the second starts -/
theorem model_top_caps_ordered (hh : HirHyp orbit σ (encodeTop t))
    (hc : ∀ x ∈ t.concatenation, x.isCat = false)
    (he : ((encodeTop t).hirNorm orbit σ).exec σ s = some (some s :: caps)) {e1 e2 : Nat} (hlt : e1 < e2)
    {t1 t2 : Tok} (ht1 : t.concatenation[e1]? = some t1) (ht2 : t.concatenation[e2]? = some t2)
    (hc1 : t1.capturing = true) (hc2 : t2.capturing = true) {x1 x2 : Str}
    (hx1 : caps[capIdx t.concatenation e1]? = some (some x1))
    (hx2 : caps[capIdx t.concatenation e2]? = some (some x2)) :
    capIdx t.concatenation e1 < capIdx t.concatenation e2 ∧
      ∃ a1 a2, x1 = (s.drop a1).take x1.length ∧ x2 = (s.drop a2).take x2.length ∧
        a1 + x1.length ≤ a2 ∧ a2 + x2.length ≤ s.length := by
  obtain ⟨us, ht⟩ := model_tok_tiling hh he
  obtain ⟨u1, hu1⟩ := ht.seg_exists (tok_index_lt ht1)
  obtain ⟨u2, hu2⟩ := ht.seg_exists (tok_index_lt ht2)
  obtain ⟨r1, hr1, hn1⟩ := ncaps_topRs ht1 (hc t1 (List.mem_of_getElem? ht1))
  obtain ⟨r2, hr2, hn2⟩ := ncaps_topRs ht2 (hc t2 (List.mem_of_getElem? ht2))
  rw [hc1] at hn1
  rw [hc2] at hn2
  simp only [if_true] at hn1 hn2
  have b1 := slotBase_topRs t.concatenation hc e1
  have b2 := slotBase_topRs t.concatenation hc e2
  exact caps_ordered ht hlt hr1 hu1 hr2 hu2 (i1 := capIdx t.concatenation e1)
    (i2 := capIdx t.concatenation e2) (by omega) (by rw [hn1]; omega) (by omega) (by rw [hn2]; omega) hx1 hx2

/-- one entry per capturing top-level token -/
theorem model_caps_length_top (hh : HirHyp orbit σ (encodeTop t))
    (hc : ∀ x ∈ t.concatenation, x.isCat = false)
    (he : ((encodeTop t).hirNorm orbit σ).exec σ s = some (some s :: caps)) :
    caps.length = (t.concatenation.filter Tok.capturing).length := by
  obtain ⟨us, ht⟩ := model_tok_tiling hh he
  exact caps_length_top hc ht

end model

/-! ### the same for the driver command `M` -/

/-- what the token-level statements ask of the expression, for the tables of the driver: it parses,
    passes the rule check, and the characters of its case-insensitive literals are in the driver
    alphabet and are not `ß` (as in `cmdM_caps_sound`) -/
theorem cmdM_model_hyps (e : Str) (t : Tok) (hp : parse e = .ok t) (hc : checkS t = true)
    (hci : ∀ c ∈ (encodeTop t).ciChars, c ∈ drvAlphabet ∧ c.toNat ≠ 0xdf) :
    HirHyp drvOrbit drvSem (encodeTop t) ∧ ∀ x ∈ t.concatenation, x.isCat = false :=
  ⟨hirHyp_drv (boundsOk_encodeTop t (okBody_shaped t ⟨none, none⟩ (parse_pshape e t hp) hc)) hci,
    parse_noTopCat e t hp⟩

/-- **C04 for `cmdM`, the tiling**: what the driver's match command computes (`exec` with the
    driver tables on the normal form of the encoded pattern) is a tiling of the path along the
    top-level tokens of the expression -/
theorem cmdM_tiling (e : Str) (t : Tok) (hp : parse e = .ok t) (hc : checkS t = true)
    (hci : ∀ c ∈ (encodeTop t).ciChars, c ∈ drvAlphabet ∧ c.toNat ≠ 0xdf) {s : Str} {res : List (Option Str)}
    (he : ((encodeTop t).hirNorm drvOrbit drvSem).exec drvSem s = some res) :
    ∃ caps us, res = some s :: caps ∧ Tiling drvSem (topRs t.concatenation) s caps us := by
  obtain ⟨caps, rfl⟩ := exec_shape he
  obtain ⟨us, ht⟩ := model_tok_tiling (cmdM_model_hyps e t hp hc hci).1 he
  exact ⟨caps, us, rfl, ht⟩

section cmdM
variable {e : Str} {t : Tok} {s : Str} {caps : Caps}

/-- `?` in what `cmdM` prints -/
theorem cmdM_one_capture_one_char (hp : parse e = .ok t) (hc : checkS t = true)
    (hci : ∀ c ∈ (encodeTop t).ciChars, c ∈ drvAlphabet ∧ c.toNat ≠ 0xdf)
    (he : ((encodeTop t).hirNorm drvOrbit drvSem).exec drvSem s = some (some s :: caps)) {i : Nat} {sp : Span}
    (hte : t.concatenation[i]? = some (.one sp)) :
    ∃ ch, ch ≠ '/' ∧ caps[capIdx t.concatenation i]? = some (some [ch]) :=
  model_one_capture_one_char (cmdM_model_hyps e t hp hc hci).1 (cmdM_model_hyps e t hp hc hci).2 he hte

/-- classes in what `cmdM` prints -/
theorem cmdM_class_capture_one_char (hp : parse e = .ok t) (hc : checkS t = true)
    (hci : ∀ c ∈ (encodeTop t).ciChars, c ∈ drvAlphabet ∧ c.toNat ≠ 0xdf)
    (he : ((encodeTop t).hirNorm drvOrbit drvSem).exec drvSem s = some (some s :: caps)) {i : Nat} {sp : Span}
    {neg : Bool} {items : List Arch} (hte : t.concatenation[i]? = some (.cls sp neg items)) :
    ∃ ch, ch ≠ '/' ∧ (CharPred.cls neg items).holds drvSem ch = true ∧
      caps[capIdx t.concatenation i]? = some (some [ch]) :=
  model_class_capture_one_char (cmdM_model_hyps e t hp hc hci).1 (cmdM_model_hyps e t hp hc hci).2 he hte

/-- `*`, `$` in what `cmdM` prints -/
theorem cmdM_zom_capture_sepFree (hp : parse e = .ok t) (hc : checkS t = true)
    (hci : ∀ c ∈ (encodeTop t).ciChars, c ∈ drvAlphabet ∧ c.toNat ≠ 0xdf)
    (he : ((encodeTop t).hirNorm drvOrbit drvSem).exec drvSem s = some (some s :: caps)) {i : Nat} {sp : Span}
    {lazy : Bool} (hte : t.concatenation[i]? = some (.zom sp lazy)) :
    ∃ x, SepFree x ∧ caps[capIdx t.concatenation i]? = some (some x) :=
  model_zom_capture_sepFree (cmdM_model_hyps e t hp hc hci).1 (cmdM_model_hyps e t hp hc hci).2 he hte

/-- tree wildcards in what `cmdM` prints -/
theorem cmdM_tree_capture_components (hp : parse e = .ok t) (hc : checkS t = true)
    (hci : ∀ c ∈ (encodeTop t).ciChars, c ∈ drvAlphabet ∧ c.toNat ≠ 0xdf)
    (he : ((encodeTop t).hirNorm drvOrbit drvSem).exec drvSem s = some (some s :: caps)) {i : Nat} {sp : Span}
    {hasRoot : Bool} (hte : t.concatenation[i]? = some (.tree sp hasRoot)) :
    caps[capIdx t.concatenation i]? = some none ∨
      ∃ x, caps[capIdx t.concatenation i]? = some (some x) ∧
        (Star CompSep x ∨ i + 1 = t.concatenation.length ∨
          (i = 0 ∧ hasRoot = true ∧ t.concatenation.length ≠ 1)) :=
  model_tree_capture_components (cmdM_model_hyps e t hp hc hci).1 (cmdM_model_hyps e t hp hc hci).2 he hte

/-- order of the captures in what `cmdM` prints -/
theorem cmdM_top_caps_ordered (hp : parse e = .ok t) (hc : checkS t = true)
    (hci : ∀ c ∈ (encodeTop t).ciChars, c ∈ drvAlphabet ∧ c.toNat ≠ 0xdf)
    (he : ((encodeTop t).hirNorm drvOrbit drvSem).exec drvSem s = some (some s :: caps)) {e1 e2 : Nat}
    (hlt : e1 < e2) {t1 t2 : Tok} (ht1 : t.concatenation[e1]? = some t1) (ht2 : t.concatenation[e2]? = some t2)
    (hc1 : t1.capturing = true) (hc2 : t2.capturing = true) {x1 x2 : Str}
    (hx1 : caps[capIdx t.concatenation e1]? = some (some x1))
    (hx2 : caps[capIdx t.concatenation e2]? = some (some x2)) :
    capIdx t.concatenation e1 < capIdx t.concatenation e2 ∧
      ∃ a1 a2, x1 = (s.drop a1).take x1.length ∧ x2 = (s.drop a2).take x2.length ∧
        a1 + x1.length ≤ a2 ∧ a2 + x2.length ≤ s.length :=
  model_top_caps_ordered (cmdM_model_hyps e t hp hc hci).1 (cmdM_model_hyps e t hp hc hci).2 he hlt ht1 ht2
    hc1 hc2 hx1 hx2

end cmdM

/-- the hypotheses of the `cmdM_…` theorems hold for the expression `{*a,*b}` and the path `xab`
    (the pattern whose captures the prefix factoring changes: the normal form is `([^/]*(?:a|b))`),
    so what `cmdM` prints for it is a tiling along the tokens of the expression as written -/
example : ∃ t res caps us, parse ['{', '*', 'a', ',', '*', 'b', '}'] = .ok t ∧ checkS t = true ∧
    ((encodeTop t).hirNorm drvOrbit drvSem).exec drvSem ['x', 'a', 'b'] = some res ∧
    res = some ['x', 'a', 'b'] :: caps ∧ Tiling drvSem (topRs t.concatenation) ['x', 'a', 'b'] caps us := by
  have hk : cmdMHyps ['{', '*', 'a', ',', '*', 'b', '}'] ['x', 'a', 'b'] = true := by decide +kernel
  unfold cmdMHyps at hk
  cases hp : parse ['{', '*', 'a', ',', '*', 'b', '}'] with
  | err l => rw [hp] at hk; cases hk
  | ok t =>
    rw [hp] at hk
    simp only [Bool.and_eq_true, List.isEmpty_iff] at hk
    obtain ⟨⟨⟨hc, hl⟩, hci⟩, hm⟩ := hk
    have hci' : ∀ c ∈ (encodeTop t).ciChars, c ∈ drvAlphabet ∧ c.toNat ≠ 0xdf := by
      rw [hci]; intro c h; cases h
    have hh := (cmdM_model_hyps _ t hp hc hci').1
    obtain ⟨res, hres⟩ := match_model_complete_partial' hh hl ((matchB_iff _ _ _).mp hm)
    obtain ⟨caps, us, e1, ht⟩ := cmdM_tiling _ t hp hc hci' hres
    exact ⟨t, res, caps, us, rfl, hc, hres, e1, ht⟩

/-- the hypotheses of the `model_…` theorems hold on a concrete input with four captures:
    `a/**/?[xb]*` on `a/x/y/bbc` (tokens `exToks` of `Wax/Proofs/CapTile.lean`) -/
theorem exModelHyp (orbit : Char → List Char) : HirHyp orbit σcs (encodeTop (.cat exSp exToks)) :=
  hirHyp_of_cs (by decide) (by decide)

theorem exModelExec :
    ((encodeTop (.cat exSp exToks)).hirNorm trivOrbit σcs).exec σcs exPath = some (some exPath :: exCaps) := by
  decide +kernel

example : ∃ us, Tiling σcs (topRs exToks) exPath exCaps us :=
  model_tok_tiling (t := .cat exSp exToks) (exModelHyp _) exModelExec
example : ∃ ch, ch ≠ '/' ∧ exCaps[capIdx exToks 2]? = some (some [ch]) :=
  model_one_capture_one_char (t := .cat exSp exToks) (exModelHyp _) exToks_noCat exModelExec (e := 2) (sp := exSp) rfl
example : ∃ ch, ch ≠ '/' ∧ (CharPred.cls false [.chr 'x', .chr 'b']).holds σcs ch = true ∧
    exCaps[capIdx exToks 3]? = some (some [ch]) :=
  model_class_capture_one_char (t := .cat exSp exToks) (exModelHyp _) exToks_noCat exModelExec (e := 3) (sp := exSp) rfl
example : ∃ x, SepFree x ∧ exCaps[capIdx exToks 4]? = some (some x) :=
  model_zom_capture_sepFree (t := .cat exSp exToks) (exModelHyp _) exToks_noCat exModelExec (e := 4) (sp := exSp) rfl
example : exCaps[capIdx exToks 1]? = some none ∨ ∃ x, exCaps[capIdx exToks 1]? = some (some x) ∧
    (Star CompSep x ∨ 1 + 1 = exToks.length ∨ (1 = 0 ∧ false = true ∧ exToks.length ≠ 1)) :=
  model_tree_capture_components (t := .cat exSp exToks) (exModelHyp _) exToks_noCat exModelExec (e := 1) (sp := exSp) rfl
example : capIdx exToks 1 < capIdx exToks 4 ∧
    ∃ a1 a2, "x/y/".toList = (exPath.drop a1).take "x/y/".toList.length ∧ ['c'] = (exPath.drop a2).take ['c'].length ∧
      a1 + "x/y/".toList.length ≤ a2 ∧ a2 + ['c'].length ≤ exPath.length :=
  model_top_caps_ordered (t := .cat exSp exToks) (exModelHyp _) exToks_noCat exModelExec (e1 := 1) (e2 := 4)
    (by decide) (t1 := .tree exSp false) (t2 := .zom exSp false) rfl rfl rfl rfl rfl rfl

end Wax
