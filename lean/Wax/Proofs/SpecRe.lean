import Wax.SpecRe
import Wax.Proofs.EncodeSpec
import Wax.Proofs.Root
/-! `specRe_correct`: the executable oracle denotes exactly the documented language, for every
token tree, every context and every string. -/
set_option linter.unusedSimpArgs false
namespace Wax

theorem star_to_Star_aux {σ : Sem} {r : Re} {L : Str → Prop} (h : ∀ u, Matches σ r u → L u) :
    ∀ {q : Re} {w : Str}, Matches σ q w → q = .star r → Star L w
  | _, _, .starNil, _ => .nil
  | _, _, .starCons hu hv, e => by
    injection e with e; subst e
    exact .cons (h _ hu) (star_to_Star_aux h hv rfl)
  | _, _, .lit _, e => by cases e
  | _, _, .chr _, e => by cases e
  | _, _, .cat _, e => by cases e
  | _, _, .alt _ _, e => by cases e
  | _, _, .lazyStar _, e => by cases e
  | _, _, .optNone, e => by cases e
  | _, _, .optSome _, e => by cases e
  | _, _, .rep _ _ _, e => by cases e
  | _, _, .cap _, e => by cases e
  | _, _, .grp _, e => by cases e

theorem star_to_Star {σ : Sem} {r : Re} {L : Str → Prop} (h : ∀ u, Matches σ r u → L u)
    {w : Str} (hm : Matches σ (.star r) w) : Star L w := star_to_Star_aux h hm rfl

theorem star_iff_Star {σ : Sem} {r : Re} {L : Str → Prop} (h : ∀ u, Matches σ r u ↔ L u) (w : Str) :
    Matches σ (.star r) w ↔ Star L w := by
  constructor
  · exact star_to_Star (fun u => (h u).mp)
  · intro hs
    induction hs with
    | nil => exact .starNil
    | cons hu _ ih => exact .starCons ((h _).mpr hu) ih

theorem compSepRe_iff (σ : Sem) (u : Str) :
    Matches σ (.grp (.cat [.star (.chr .nsep), .chr .sepc])) u ↔ CompSep u := by
  rw [matches_grp, matches_cat, matchesAll_cons]
  constructor
  · rintro ⟨a, b, rfl, ha, hb⟩
    rw [matchesAll_cons] at hb
    obtain ⟨b1, b2, rfl, hb1, hb2⟩ := hb
    rw [matchesAll_nil] at hb2; subst hb2
    rw [matches_sepc] at hb1; subst hb1
    exact ⟨a, (star_nsep_iff σ a).mp ha, by simp⟩
  · rintro ⟨c, hc, rfl⟩
    exact ⟨c, ['/'], rfl, (star_nsep_iff σ c).mpr hc,
      matchesAll_cons.mpr ⟨['/'], [], by simp, matches_sepc.mpr rfl, .nil⟩⟩

theorem compStarRe_iff (σ : Sem) (w : Str) : Matches σ compStarRe w ↔ Star CompSep w :=
  star_iff_Star (compSepRe_iff σ) w

theorem matches_sep_then {σ : Sem} {r : Re} {w : Str} :
    Matches σ (.cat [.chr .sepc, r]) w ↔ ∃ v, w = '/' :: v ∧ Matches σ r v := by
  rw [matches_cat, matchesAll_cons]
  constructor
  · rintro ⟨a, b, rfl, ha, hb⟩
    rw [matches_sepc] at ha; subst ha
    rw [matchesAll_cons] at hb
    obtain ⟨b1, b2, rfl, hb1, hb2⟩ := hb
    rw [matchesAll_nil] at hb2; subst hb2
    exact ⟨b1, by simp, hb1⟩
  · rintro ⟨v, rfl, hv⟩
    exact ⟨['/'], v, rfl, matches_sepc.mpr rfl, matchesAll_cons.mpr ⟨v, [], by simp, hv, .nil⟩⟩

theorem anyStar_all (σ : Sem) (hdot : σ.dotall = true) (w : Str) : Matches σ anyStar w :=
  (anyStar_iff σ w).mpr (dotOk_of_dotall hdot w)

theorem specTreeRe_correct (σ : Sem) (hdot : σ.dotall = true) (c : Ctx) (r : Bool) (w : Str) :
    Matches σ (specTreeRe c r) w ↔ TreeLang c r w := by
  obtain ⟨f, l⟩ := c
  cases l with
  | true =>
    cases f with
    | true =>
      cases r with
      | true =>
        simp only [specTreeRe, TreeLang, ↓reduceIte]
        rw [matches_sep_then]
        exact ⟨fun ⟨v, hv, _⟩ => ⟨v, hv⟩, fun ⟨v, hv⟩ => ⟨v, hv, anyStar_all σ hdot v⟩⟩
      | false =>
        simp only [specTreeRe, TreeLang, ↓reduceIte, Bool.false_eq_true]
        exact ⟨fun _ => trivial, fun _ => anyStar_all σ hdot w⟩
    | false =>
      simp only [specTreeRe, TreeLang, ↓reduceIte, Bool.false_eq_true]
      rw [matches_opt, matches_grp, matches_sep_then]
      exact ⟨fun h => h.imp id (fun ⟨v, hv, _⟩ => ⟨v, hv⟩),
        fun h => h.imp id (fun ⟨v, hv⟩ => ⟨v, hv, anyStar_all σ hdot v⟩)⟩
  | false =>
    by_cases hc : (r || !f) = true
    · simp only [specTreeRe, TreeLang, Bool.false_eq_true, ↓reduceIte, hc]
      rw [matches_sep_then]
      exact ⟨fun ⟨v, hv, hm⟩ => ⟨v, (compStarRe_iff σ v).mp hm, hv⟩,
        fun ⟨v, hm, hv⟩ => ⟨v, hv, (compStarRe_iff σ v).mpr hm⟩⟩
    · simp only [specTreeRe, TreeLang, Bool.false_eq_true, ↓reduceIte, hc]
      exact compStarRe_iff σ w

theorem altOrNever_iff {σ : Sem} {l : List Re} {w : Str} :
    Matches σ (altOrNever l) w ↔ ∃ r ∈ l, Matches σ r w := by
  unfold altOrNever
  cases l with
  | nil => simp only [List.isEmpty_nil, ↓reduceIte]; exact ⟨fun h => absurd h not_matches_never, fun ⟨_, h, _⟩ => by cases h⟩
  | cons a as => simp only [List.isEmpty_cons, Bool.false_eq_true, ↓reduceIte]; rw [matches_grp, matches_alt]

theorem mem_invalid {a : Arch} (h : archValid a = false) (c : Char) : Arch.mem c a = false := by
  cases a with
  | chr x => simp [archValid] at h
  | rng x y =>
    simp only [archValid, decide_eq_false_iff_not, Nat.not_le] at h
    simp only [Arch.mem, Bool.and_eq_false_iff, decide_eq_false_iff_not, Nat.not_le]
    omega

theorem any_filter_valid (items : List Arch) (c : Char) :
    (items.filter archValid).any (Arch.mem c) = items.any (Arch.mem c) := by
  induction items with
  | nil => rfl
  | cons a as ih =>
    by_cases hv : archValid a = true
    · simp [List.filter_cons, hv, ih]
    · have hv' : archValid a = false := by simpa using hv
      simp [List.filter_cons, hv', ih, mem_invalid hv' c]

theorem specClsRe_correct (σ : Sem) (neg : Bool) (items : List Arch) (w : Str) :
    Matches σ (specClsRe neg items) w ↔ ∃ ch, w = [ch] ∧ classHolds neg items ch = true := by
  unfold specClsRe
  by_cases he : (items.filter archValid).isEmpty = true
  · have hany : ∀ c, items.any (Arch.mem c) = false := by
      intro c; rw [← any_filter_valid]
      have : items.filter archValid = [] := by simpa using he
      rw [this]; rfl
    simp only [he, ↓reduceIte]
    cases neg with
    | true =>
      simp only [↓reduceIte, matches_chr, CharPred.holds, classHolds, hany, Bool.not_false,
        Bool.and_true]
    | false =>
      simp only [Bool.false_eq_true, ↓reduceIte, classHolds, hany, Bool.and_false]
      exact ⟨fun h => absurd h not_matches_never, fun ⟨_, _, h⟩ => by cases h⟩
  · simp only [he, Bool.false_eq_true, ↓reduceIte, matches_chr, CharPred.holds, classHolds,
      any_filter_valid]

/-! ### repetition -/

/-- `k + 1` iterations with nothing before: `k` middle iterations, then the last one -/
theorem srep_tail {σ : Sem} {bm : Re} {body : List Tok}
    (hm : ∀ u, Matches σ bm u ↔ SMs σ ⟨false, false⟩ body u) (l : Bool) :
    ∀ (k : Nat) (w : Str), SRep σ ⟨false, l⟩ body (k + 1) w ↔
      ∃ m v, w = m ++ v ∧ Iter σ bm k m ∧ SMs σ ⟨false, l⟩ body v
  | 0, w => by
    constructor
    · intro h
      cases h with
      | one h => exact ⟨[], w, rfl, .zero, h⟩
    · rintro ⟨m, v, rfl, hi, hv⟩
      rw [iter_zero] at hi; subst hi
      simpa using SRep.one hv
  | k + 1, w => by
    constructor
    · intro h
      cases h with
      | more hu hv =>
        obtain ⟨m, v, rfl, hi, hl⟩ := (srep_tail hm l k _).mp hv
        exact ⟨_ ++ m, v, by simp, iter_succ.mpr ⟨_, m, rfl, (hm _).mpr hu, hi⟩, hl⟩
    · rintro ⟨m, v, rfl, hi, hv⟩
      obtain ⟨u, m', rfl, hu, hi'⟩ := iter_succ.mp hi
      have := SRep.more (c := ⟨false, l⟩) ((hm u).mp hu) ((srep_tail hm l k _).mpr ⟨m', v, rfl, hi', hv⟩)
      simpa using this

/-- two or more iterations: first, middle ones, last -/
theorem srep_two {σ : Sem} {bm : Re} {body : List Tok}
    (hm : ∀ u, Matches σ bm u ↔ SMs σ ⟨false, false⟩ body u) (c : Ctx) (k : Nat) (w : Str) :
    SRep σ c body (k + 2) w ↔
      ∃ u m v, w = u ++ (m ++ v) ∧ SMs σ ⟨c.first, false⟩ body u ∧ Iter σ bm k m ∧
        SMs σ ⟨false, c.last⟩ body v := by
  constructor
  · intro h
    cases h with
    | more hu hv =>
      obtain ⟨m, v, rfl, hi, hl⟩ := (srep_tail hm c.last k _).mp hv
      exact ⟨_, m, v, rfl, hu, hi, hl⟩
  · rintro ⟨u, m, v, rfl, hu, hi, hv⟩
    exact .more hu ((srep_tail hm c.last k _).mpr ⟨m, v, rfl, hi, hv⟩)

theorem allows_iff {k : Nat} {hi : Option Nat} : allows k hi = true ↔ ∀ h, hi = some h → k ≤ h := by
  cases hi with
  | none => simp [allows]
  | some x => simp [allows]

theorem specRepRe_correct {σ : Sem} {b1 bf bm bl : Re} {body : List Tok} (c : Ctx)
    (h1 : ∀ u, Matches σ b1 u ↔ SMs σ c body u)
    (hf : ∀ u, Matches σ bf u ↔ SMs σ ⟨c.first, false⟩ body u)
    (hm : ∀ u, Matches σ bm u ↔ SMs σ ⟨false, false⟩ body u)
    (hl : ∀ u, Matches σ bl u ↔ SMs σ ⟨false, c.last⟩ body u)
    (lo : Nat) (hi : Option Nat) (w : Str) :
    Matches σ (specRepRe b1 bf bm bl lo hi) w ↔
      ∃ n, lo ≤ n ∧ (∀ h, hi = some h → n ≤ h) ∧ SRep σ c body n w := by
  unfold specRepRe
  rw [altOrNever_iff]
  simp only [List.mem_append]
  constructor
  · rintro ⟨r, (hr | hr) | hr, hmr⟩
    · -- zero iterations
      split at hr
      · rename_i h0
        simp only [List.mem_singleton] at hr; subst hr
        rw [matches_cat, matchesAll_nil] at hmr; subst hmr
        exact ⟨0, by omega, fun _ _ => Nat.zero_le _, .zero⟩
      · cases hr
    · -- one iteration
      split at hr
      · rename_i h01
        simp only [List.mem_singleton] at hr; subst hr
        exact ⟨1, h01.1, allows_iff.mp h01.2, .one ((h1 w).mp hmr)⟩
      · cases hr
    · -- two or more
      split at hr
      · rename_i h2
        simp only [List.mem_singleton] at hr; subst hr
        rw [matches_cat, matchesAll_cons] at hmr
        obtain ⟨u, rest, rfl, hu, hrest⟩ := hmr
        rw [matchesAll_cons] at hrest
        obtain ⟨m, rest2, rfl, hmm, hrest2⟩ := hrest
        rw [matchesAll_cons] at hrest2
        obtain ⟨v, e, rfl, hv, he⟩ := hrest2
        rw [matchesAll_nil] at he; subst he
        rw [matches_rep] at hmm
        obtain ⟨k, hk1, hk2, hit⟩ := hmm
        have hit' : Iter σ bm k m := by
          have : ∀ n x, Iter σ (.grp bm) n x → Iter σ bm n x := by
            intro n
            induction n with
            | zero => intro x hx; rw [iter_zero] at hx; subst hx; exact .zero
            | succ n ih =>
              intro x hx
              obtain ⟨a, b, rfl, ha, hb⟩ := iter_succ.mp hx
              exact .succ (matches_grp.mp ha) (ih _ hb)
          exact this _ _ hit
        refine ⟨k + 2, by omega, ?_, ?_⟩
        · intro h e
          have := hk2 (h - 2) (by simp [e])
          have := allows_iff.mp h2 h e
          omega
        · have := (srep_two hm c k (u ++ (m ++ (v ++ [])))).mpr
            ⟨u, m, v, by simp, (hf u).mp hu, hit', (hl v).mp hv⟩
          exact this
      · cases hr
  · rintro ⟨n, hlo, hhi, hs⟩
    match n, hs with
    | 0, hs =>
      cases hs
      refine ⟨.cat [], Or.inl (Or.inl ?_), matches_cat.mpr .nil⟩
      have : lo = 0 := by omega
      simp [this]
    | 1, hs =>
      cases hs with
      | one hb =>
        refine ⟨b1, Or.inl (Or.inr ?_), (h1 w).mpr hb⟩
        have : lo ≤ 1 ∧ allows 1 hi = true := ⟨hlo, allows_iff.mpr hhi⟩
        simp [this]
    | k + 2, hs =>
      obtain ⟨u, m, v, rfl, hu, hit, hv⟩ := (srep_two hm c k w).mp hs
      have hal : allows 2 hi = true := allows_iff.mpr (fun h e => by have := hhi h e; omega)
      refine ⟨.cat [bf, .rep (.grp bm) (lo - 2) (hi.map (· - 2)), bl],
        Or.inr (by simp only [hal, ↓reduceIte, List.mem_singleton]), ?_⟩
      have hit' : Iter σ (.grp bm) k m := by
        have : ∀ n x, Iter σ bm n x → Iter σ (.grp bm) n x := by
          intro n
          induction n with
          | zero => intro x hx; rw [iter_zero] at hx; subst hx; exact .zero
          | succ n ih =>
            intro x hx
            obtain ⟨a, b, rfl, ha, hb⟩ := iter_succ.mp hx
            exact .succ (matches_grp.mpr ha) (ih _ hb)
        exact this _ _ hit
      rw [matches_cat]
      refine matchesAll_cons.mpr ⟨u, m ++ v, rfl, (hf u).mpr hu, ?_⟩
      refine matchesAll_cons.mpr ⟨m, v, rfl, ?_, ?_⟩
      · rw [matches_rep]
        refine ⟨k, by omega, ?_, hit'⟩
        intro h e
        cases hi with
        | none => simp at e
        | some x =>
          simp only [Option.map_some, Option.some.injEq] at e
          have := hhi x rfl
          omega
      · exact matchesAll_cons.mpr ⟨v, [], by simp, (hl v).mpr hv, .nil⟩

/-! ### the whole tree -/

mutual
  theorem specTok_correct (σ : Sem) (hdot : σ.dotall = true) : ∀ (t : Tok) (c : Ctx) (w : Str),
      Matches σ (specTok c t) w ↔ SM σ c t w
    | .lit _ s ci, c, w => by simp only [specTok]; rw [matches_lit, sm_lit]
    | .sep _, c, w => by simp only [specTok]; rw [matches_sepc, sm_sep]
    | .cls _ neg items, c, w => by simp only [specTok]; rw [specClsRe_correct, sm_cls]
    | .one _, c, w => by
      simp only [specTok]; rw [matches_chr, sm_one]
      simp [CharPred.holds]
    | .zom .., c, w => by simp only [specTok]; rw [star_nsep_iff, sm_zom]
    | .tree _ r, c, w => by simp only [specTok]; rw [specTreeRe_correct σ hdot, sm_tree]
    | .alt _ bs, c, w => by
      simp only [specTok]
      rw [altOrNever_iff, sm_alt, specBranches_correct σ hdot bs c w]
      exact ⟨fun ⟨b, hb, hm⟩ => ⟨b, hb, (sms_conc_iff b).mpr hm⟩,
        fun ⟨b, hb, hm⟩ => ⟨b, hb, (sms_conc_iff b).mp hm⟩⟩
    | .cat _ ts, c, w => by
      simp only [specTok]
      rw [matches_cat, sm_cat]
      exact specList_correct σ hdot ts c w
    | .rep _ body lo hi, c, w => by
      simp only [specTok]
      rw [sm_rep]
      exact specRepRe_correct c
        (fun u => (specTok_correct σ hdot body c u).trans (sms_conc_iff body).symm)
        (fun u => (specTok_correct σ hdot body ⟨c.first, false⟩ u).trans (sms_conc_iff body).symm)
        (fun u => (specTok_correct σ hdot body ⟨false, false⟩ u).trans (sms_conc_iff body).symm)
        (fun u => (specTok_correct σ hdot body ⟨false, c.last⟩ u).trans (sms_conc_iff body).symm)
        lo hi w
  theorem specList_correct (σ : Sem) (hdot : σ.dotall = true) : ∀ (ts : List Tok) (c : Ctx) (w : Str),
      MatchesAll σ (specList c ts) w ↔ SMs σ c ts w
    | [], c, w => by simp only [specList]; rw [matchesAll_nil, sms_nil]
    | t :: ts, c, w => by
      simp only [specList]
      rw [matchesAll_cons, sms_cons]
      constructor
      · rintro ⟨u, v, rfl, hu, hv⟩
        exact ⟨u, v, rfl, (specTok_correct σ hdot t _ u).mp hu, (specList_correct σ hdot ts _ v).mp hv⟩
      · rintro ⟨u, v, rfl, hu, hv⟩
        exact ⟨u, v, rfl, (specTok_correct σ hdot t _ u).mpr hu, (specList_correct σ hdot ts _ v).mpr hv⟩
  theorem specBranches_correct (σ : Sem) (hdot : σ.dotall = true) : ∀ (bs : List Tok) (c : Ctx) (w : Str),
      (∃ r ∈ specBranches c bs, Matches σ r w) ↔ ∃ b ∈ bs, SM σ c b w
    | [], c, w => by simp [specBranches]
    | b :: bs, c, w => by
      simp only [specBranches, List.mem_cons]
      constructor
      · rintro ⟨r, rfl | hr, hm⟩
        · exact ⟨b, Or.inl rfl, (specTok_correct σ hdot b c w).mp hm⟩
        · obtain ⟨b', hb', hm'⟩ := (specBranches_correct σ hdot bs c w).mp ⟨r, hr, hm⟩
          exact ⟨b', Or.inr hb', hm'⟩
      · rintro ⟨b', rfl | hb', hm⟩
        · exact ⟨_, Or.inl rfl, (specTok_correct σ hdot b' c w).mpr hm⟩
        · obtain ⟨r, hr, hm'⟩ := (specBranches_correct σ hdot bs c w).mpr ⟨b', hb', hm⟩
          exact ⟨r, Or.inr hr, hm'⟩
end

/-- **the oracle is the specification**: for every token tree and every string, the regular
expression `specRe t` (whose printed text the checks hand to the automata tool) accepts the string
iff the documented language of `t` contains it. No fragment, no bound. -/
theorem specRe_correct (σ : Sem) (hdot : σ.dotall = true) (t : Tok) (w : Str) :
    Matches σ (specRe t) w ↔ Spec.Matches σ t w := by
  unfold specRe Spec.Matches
  rw [specTok_correct σ hdot t ⟨true, true⟩ w, sms_conc_iff]

/-- C01 on the fragment, restated against the oracle: inside `F01` the crate's program (as
modelled) and the oracle accept the same strings -/
theorem encode_eq_oracle_partial (σ : Sem) (hdot : σ.dotall = true) (t : Tok) (hF : F01 t = true)
    (w : Str) : Matches σ (encodeTop t) w ↔ Matches σ (specRe t) w := by
  rw [encode_eq_spec_partial σ hdot t hF w, specRe_correct σ hdot t w]

end Wax
