import Wax.GeneratedKinds
import Wax.RuleS
import Wax.Proofs.Captures
/-!
The tie by regeneration for the predicates of token kinds: `LeafKind::boundary`, `LeafKind::is_rooting`,
`LeafKind::is_capturing` and `BranchKind::is_capturing` of `/repo/src/token/mod.rs`, evaluated by
`tools/kindtables.py` on every kind of token, are the model's `Tok.isBoundaryT` / `isSepT` / `isTreeT`,
`isSepT || isRootedTreeT` and `Tok.capturing`.
-/
namespace Wax
open Generated (KLeaf KBranch)

def ofKLeaf : KLeaf → Tok
  | .lit => .lit ⟨0, 0⟩ [] false
  | .sep => .sep ⟨0, 0⟩
  | .cls => .cls ⟨0, 0⟩ false []
  | .one => .one ⟨0, 0⟩
  | .zom => .zom ⟨0, 0⟩ false
  | .treeR => .tree ⟨0, 0⟩ true
  | .treeU => .tree ⟨0, 0⟩ false

def ofKBranch : KBranch → Tok
  | .alt => .alt ⟨0, 0⟩ []
  | .cat => .cat ⟨0, 0⟩ []
  | .rep => .rep ⟨0, 0⟩ (.cat ⟨0, 0⟩ []) 0 none

/-- the kind predicates read from token/mod.rs are the model's, on every kind (and every kind has a row) -/
theorem kinds_are_source :
    (Generated.leafKinds.all fun r =>
      let t := ofKLeaf r.1
      (t.isBoundaryT == (r.2.1 != 0)) && (t.isSepT == (r.2.1 == 1)) && (t.isTreeT == (r.2.1 == 2)) &&
      ((t.isSepT || t.isRootedTreeT) == r.2.2.1) && (t.capturing == r.2.2.2)) = true ∧
    (Generated.branchKinds.all fun r =>
      let t := ofKBranch r.1
      (t.capturing == r.2) && (t.isBoundaryT == false)) = true ∧
    Generated.leafKinds.map (·.1) = [.lit, .sep, .cls, .one, .zom, .treeR, .treeU] ∧
    Generated.branchKinds.map (·.1) = [.alt, .cat, .rep] := by decide

end Wax
