import Wax.Proofs.ExecCaps
/-!
# Capture-annotated derivations: what `Re.run` does to the slots, declaratively

`Runs σ r n u c c'`: the piece `r`, whose first group has slot `n`, matches the text `u` and turns
the slots `c` into `c'`.  It is `Matches` with the slots threaded through: a group that closes writes
the text it matched into its slot (`Runs.cap`), everything else passes the slots along, iterations
of a loop and elements of a concatenation are chained left to right, an alternation runs one of its
branches (with the slot base of that branch).

`run_runs` : every success of `Re.run` is a success of its continuation after a prefix `u`, with
slots `c'`, such that `Runs σ r n u c c'`.  `exec_runs` : the captures `Re.exec` reports are the
result of a derivation of the whole haystack from the all-`none` slots.

This is `run_inv` of `Wax/Proofs/ExecCaps.lean` with a *relational* invariant (the loops lemmas are
redone for relations between the slots before and after: `StepRel`, `IterR`).  The derivation
forgets the preference order and the visited sets (it is a soundness statement), but keeps where
every reported capture was taken from; `Wax/Proofs/CapTile.lean` reads the offsets off it.
-/
namespace Wax

/-- every success of `f` is a success of the continuation after a prefix `u`, the slots before and
    after being related by `R u` -/
def StepRel (R : Str → Caps → Caps → Prop) (f : Step) : Prop :=
  ∀ w v c k res, f w v c k = some res →
    ∃ u w' v' c', w = u ++ w' ∧ R u c c' ∧ k w' v' c' = some res

/-- `m` rounds of `R`, chained -/
inductive IterR (R : Str → Caps → Caps → Prop) : Nat → Str → Caps → Caps → Prop
  | zero {c} : IterR R 0 [] c c
  | succ {m a b c c1 c2} : R a c c1 → IterR R m b c1 c2 → IterR R (m + 1) (a ++ b) c c2

theorem IterR.one {R : Str → Caps → Caps → Prop} {u : Str} {c c' : Caps} (h : R u c c') :
    IterR R 1 u c c' := by
  have := IterR.succ h (IterR.zero (R := R) (c := c'))
  simpa using this

theorem IterR.append {R : Str → Caps → Caps → Prop} {a : Nat} {u : Str} {c c1 : Caps}
    (hu : IterR R a u c c1) : ∀ {b : Nat} {v : Str} {c2 : Caps},
    IterR R b v c1 c2 → IterR R (a + b) (u ++ v) c c2 := by
  induction hu with
  | zero => intro b v c2 hv; simpa using hv
  | @succ m x y c c1 c2 hx _ ih =>
    intro b v c3 hv
    have e : m + 1 + b = (m + b) + 1 := by omega
    rw [e, List.append_assoc]
    exact .succ hx (ih hv)

section loops
variable {R : Str → Caps → Caps → Prop}

theorem loopU_rel {body : Step} (hb : StepRel R body) (u : Sid) (lazy : Bool) :
    ∀ n, StepRel (fun x c c' => ∃ m, IterR R m x c c') (loopU body u lazy n) := by
  intro n
  induction n with
  | zero =>
    intro w v c k res h
    simp only [loopU] at h
    obtain ⟨v', h⟩ := enter_some h
    exact ⟨[], w, v', c, rfl, ⟨0, .zero⟩, h⟩
  | succ n ih =>
    intro w v c k res h
    simp only [loopU] at h
    obtain ⟨v', h⟩ := enter_some h
    rcases prefer_some h with h | h
    · obtain ⟨a, w1, v1, c1, rfl, ha, h1⟩ := hb _ _ _ _ _ h
      have h1 := ite_some h1
      obtain ⟨b, w2, v2, c2, rfl, ⟨m, hm⟩, h2⟩ := ih _ _ _ _ _ h1
      exact ⟨a ++ b, w2, v2, c2, by simp, ⟨m + 1, .succ ha hm⟩, h2⟩
    · exact ⟨[], w, v', c, rfl, ⟨0, .zero⟩, h⟩

theorem plusLoop_rel {body : Step} (hb : StepRel R body) (p : Sid) (lazy : Bool) :
    ∀ n, StepRel (fun x c c' => ∃ m, IterR R (m + 1) x c c') (plusLoop body p lazy n) := by
  intro n
  induction n with
  | zero =>
    intro w v c k res h
    simp only [plusLoop] at h
    obtain ⟨a, w1, v1, c1, rfl, ha, h1⟩ := hb _ _ _ _ _ h
    obtain ⟨v2, h2⟩ := enter_some h1
    exact ⟨a, w1, v2, c1, rfl, ⟨0, IterR.one ha⟩, h2⟩
  | succ n ih =>
    intro w v c k res h
    simp only [plusLoop] at h
    obtain ⟨a, w1, v1, c1, rfl, ha, h1⟩ := hb _ _ _ _ _ h
    obtain ⟨v2, h2⟩ := enter_some h1
    rcases prefer_some h2 with h3 | h3
    · have h3 := ite_some h3
      obtain ⟨b, w2, v3, c2, rfl, ⟨m, hm⟩, h4⟩ := ih _ _ _ _ _ h3
      exact ⟨a ++ b, w2, v3, c2, by simp, ⟨m + 1, .succ ha hm⟩, h4⟩
    · exact ⟨a, w1, v2, c1, rfl, ⟨0, IterR.one ha⟩, h3⟩

theorem starQ_rel {body : Step} (hb : StepRel R body) (q p : Sid) (lazy : Bool) :
    StepRel (fun x c c' => ∃ m, IterR R m x c c') (starQ body q p lazy) := by
  intro w v c k res h
  simp only [starQ] at h
  obtain ⟨v', h⟩ := enter_some h
  rcases prefer_some h with h | h
  · obtain ⟨a, w1, v1, c1, e, ⟨m, hm⟩, h1⟩ := plusLoop_rel hb p lazy _ _ _ _ _ _ h
    exact ⟨a, w1, v1, c1, e, ⟨m + 1, hm⟩, h1⟩
  · exact ⟨[], w, v', c, rfl, ⟨0, .zero⟩, h⟩

theorem starLoop_rel {body : Nat → Step} (hb : ∀ i, StepRel R (body i))
    (nn : Bool) (un : Nat → Sid) (lazy : Bool) :
    StepRel (fun x c c' => ∃ m, IterR R m x c c') (starLoop nn body un lazy) := by
  intro w v c k res h
  simp only [starLoop] at h
  split at h
  · exact loopU_rel (hb 0) _ _ _ _ _ _ _ _ h
  · exact starQ_rel (hb 0) _ _ _ _ _ _ _ _ h

theorem exactly_rel {body : Nat → Step} (hb : ∀ i, StepRel R (body i)) :
    ∀ n i, StepRel (IterR R n) (exactly body n i) := by
  intro n
  induction n with
  | zero =>
    intro i w v c k res h
    simp only [exactly] at h
    exact ⟨[], w, v, c, rfl, .zero, h⟩
  | succ n ih =>
    intro i w v c k res h
    simp only [exactly] at h
    obtain ⟨a, w1, v1, c1, rfl, ha, h1⟩ := hb i _ _ _ _ _ h
    obtain ⟨b, w2, v2, c2, rfl, hm, h2⟩ := ih _ _ _ _ _ _ h1
    exact ⟨a ++ b, w2, v2, c2, by simp, .succ ha hm, h2⟩

theorem optNest_rel {body : Nat → Step} (hb : ∀ i, StepRel R (body i)) (un : Nat → Sid) :
    ∀ n i, StepRel (fun x c c' => ∃ m, m ≤ n ∧ IterR R m x c c') (optNest body un n i) := by
  intro n
  induction n with
  | zero =>
    intro i w v c k res h
    simp only [optNest] at h
    exact ⟨[], w, v, c, rfl, ⟨0, Nat.le_refl _, .zero⟩, h⟩
  | succ n ih =>
    intro i w v c k res h
    simp only [optNest] at h
    obtain ⟨v', h⟩ := enter_some h
    rcases orElse'_some h with h | h
    · obtain ⟨a, w1, v1, c1, rfl, ha, h1⟩ := hb i _ _ _ _ _ h
      obtain ⟨b, w2, v2, c2, rfl, ⟨m, hmn, hm⟩, h2⟩ := ih _ _ _ _ _ _ h1
      exact ⟨a ++ b, w2, v2, c2, by simp, ⟨m + 1, by omega, .succ ha hm⟩, h2⟩
    · exact ⟨[], w, v', c, rfl, ⟨0, Nat.zero_le _, .zero⟩, h⟩

theorem repLoop_rel {body : Nat → Step} (hb : ∀ i, StepRel R (body i))
    (nn : Bool) (un : Nat → Sid) (lo : Nat) (hi : Option Nat) :
    StepRel (fun x c c' => ∃ m, lo ≤ m ∧ (∀ h, hi = some h → m ≤ h) ∧ IterR R m x c c')
      (repLoop nn body un lo hi) := by
  intro w v c k res h
  simp only [repLoop] at h
  cases hi with
  | some hh =>
    simp only at h
    split at h
    · rename_i hle
      obtain ⟨a, w1, v1, c1, rfl, ha, h1⟩ := exactly_rel hb _ _ _ _ _ _ _ h
      obtain ⟨b, w2, v2, c2, rfl, ⟨m, hmn, hm⟩, h2⟩ := optNest_rel hb un _ _ _ _ _ _ _ h1
      refine ⟨a ++ b, w2, v2, c2, by simp, ⟨lo + m, Nat.le_add_right _ _, ?_, ha.append hm⟩, h2⟩
      intro h' e
      cases e
      omega
    · cases h
  | none =>
    simp only at h
    cases lo with
    | zero =>
      simp only at h
      obtain ⟨a, w1, v1, c1, e, ⟨m, hm⟩, h1⟩ := starLoop_rel hb nn un false _ _ _ _ _ h
      exact ⟨a, w1, v1, c1, e, ⟨m, Nat.zero_le _, (by intro _ e; cases e), hm⟩, h1⟩
    | succ lo' =>
      simp only at h
      obtain ⟨a, w1, v1, c1, rfl, ha, h1⟩ := exactly_rel hb _ _ _ _ _ _ _ h
      obtain ⟨b, w2, v2, c2, rfl, ⟨m, hm⟩, h2⟩ := plusLoop_rel (hb lo') _ _ _ _ _ _ _ _ h1
      exact ⟨a ++ b, w2, v2, c2, by simp,
        ⟨lo' + (m + 1), by omega, (by intro _ e; cases e), ha.append hm⟩, h2⟩

end loops

/-! ### derivations -/

mutual
  /-- `Runs σ r n u c c'`: `r` (first group in slot `n`) matches `u` and turns the slots `c` into `c'` -/
  inductive Runs (σ : Sem) : Re → Nat → Str → Caps → Caps → Prop
    | lit {s ci w n c} : litEq σ ci s w = true → Runs σ (.lit s ci) n w c c
    | chr {p a n c} : p.holds σ a = true → Runs σ (.chr p) n [a] c c
    | cat {l w n c c'} : RunsAll σ l n w c c' → Runs σ (.cat l) n w c c'
    | alt {l pre r post w n c c'} : l = pre ++ r :: post → Runs σ r (n + Re.ncapsList pre) w c c' →
        Runs σ (.alt l) n w c c'
    | starNil {r n c} : Runs σ (.star r) n [] c c
    | starCons {r n u v c c1 c2} : Runs σ r n u c c1 → Runs σ (.star r) n v c1 c2 →
        Runs σ (.star r) n (u ++ v) c c2
    | lazyStar {r n w c c'} : Runs σ (.star r) n w c c' → Runs σ (.lazyStar r) n w c c'
    | optNone {r n c} : Runs σ (.opt r) n [] c c
    | optSome {r n w c c'} : Runs σ r n w c c' → Runs σ (.opt r) n w c c'
    | rep {r lo hi m n w c c'} : lo ≤ m → (∀ h, hi = some h → m ≤ h) → RunsIter σ r n m w c c' →
        Runs σ (.rep r lo hi) n w c c'
    | cap {r n w c c'} : Runs σ r (n + 1) w c c' → Runs σ (.cap r) n w c (c'.set n (some w))
    | grp {r n w c c'} : Runs σ r n w c c' → Runs σ (.grp r) n w c c'
  /-- the elements of a concatenation, left to right; element `r` owns the slots `n .. n + r.ncaps` -/
  inductive RunsAll (σ : Sem) : List Re → Nat → Str → Caps → Caps → Prop
    | nil {n c} : RunsAll σ [] n [] c c
    | cons {r rs n u v c c1 c2} : Runs σ r n u c c1 → RunsAll σ rs (n + r.ncaps) v c1 c2 →
        RunsAll σ (r :: rs) n (u ++ v) c c2
  /-- `m` rounds of the same piece (all rounds write the same slots; the last one wins) -/
  inductive RunsIter (σ : Sem) : Re → Nat → Nat → Str → Caps → Caps → Prop
    | zero {r n c} : RunsIter σ r n 0 [] c c
    | succ {r n m u v c c1 c2} : Runs σ r n u c c1 → RunsIter σ r n m v c1 c2 →
        RunsIter σ r n (m + 1) (u ++ v) c c2
end

theorem runs_star_of_iterR {σ : Sem} {r : Re} {n m : Nat} {u : Str} {c c' : Caps}
    (h : IterR (Runs σ r n) m u c c') : Runs σ (.star r) n u c c' := by
  induction h with
  | zero => exact .starNil
  | succ ha _ ih => exact .starCons ha ih

theorem runsIter_of_iterR {σ : Sem} {r : Re} {n m : Nat} {u : Str} {c c' : Caps}
    (h : IterR (Runs σ r n) m u c c') : RunsIter σ r n m u c c' := by
  induction h with
  | zero => exact .zero
  | succ ha _ ih => exact .succ ha ih

/-! a derivation is a match (forget the slots) -/

mutual
  theorem Runs.matches {σ : Sem} : ∀ {r : Re} {n : Nat} {u : Str} {c c' : Caps},
      Runs σ r n u c c' → Matches σ r u
    | _, _, _, _, _, .lit h => .lit h
    | _, _, _, _, _, .chr h => .chr h
    | _, _, _, _, _, .cat h => .cat h.matches
    | _, _, _, _, _, .alt e h => .alt (by rw [e]; simp) h.matches
    | _, _, _, _, _, .starNil => .starNil
    | _, _, _, _, _, .starCons h1 h2 => .starCons h1.matches h2.matches
    | _, _, _, _, _, .lazyStar h => .lazyStar h.matches
    | _, _, _, _, _, .optNone => .optNone
    | _, _, _, _, _, .optSome h => .optSome h.matches
    | _, _, _, _, _, .rep h1 h2 h => .rep h1 h2 h.matches
    | _, _, _, _, _, .cap h => .cap h.matches
    | _, _, _, _, _, .grp h => .grp h.matches
  theorem RunsAll.matches {σ : Sem} : ∀ {l : List Re} {n : Nat} {u : Str} {c c' : Caps},
      RunsAll σ l n u c c' → MatchesAll σ l u
    | _, _, _, _, _, .nil => .nil
    | _, _, _, _, _, .cons h1 h2 => .cons h1.matches h2.matches
  theorem RunsIter.matches {σ : Sem} : ∀ {r : Re} {n m : Nat} {u : Str} {c c' : Caps},
      RunsIter σ r n m u c c' → Iter σ r m u
    | _, _, _, _, _, _, .zero => .zero
    | _, _, _, _, _, _, .succ h1 h2 => .succ h1.matches h2.matches
end

/-! ### the executor follows a derivation -/

mutual
  theorem run_runs (σ : Sem) : ∀ (r : Re) (id : Sid) (n : Nat),
      StepRel (fun u c c' => Runs σ r n u c c') (r.run σ id n)
    | .lit t ci, id, n => by
      intro w v c k res h
      simp only [Re.run] at h
      split at h
      · rename_i w' hw
        obtain ⟨u, rfl, hu⟩ := litStrip_sound σ ci _ _ _ hw
        exact ⟨u, w', _, c, rfl, .lit hu, h⟩
      · cases h
    | .chr p, id, n => by
      intro w v c k res h
      simp only [Re.run] at h
      split at h
      · rename_i a w'
        split at h
        · rename_i hp
          exact ⟨[a], w', [], c, rfl, .chr hp, h⟩
        · cases h
      · cases h
    | .never, id, n => by
      intro w v c k res h
      simp [Re.run] at h
    | .cat l, id, n => by
      intro w v c k res h
      simp only [Re.run] at h
      obtain ⟨u, w', v', c', e, hu, hk⟩ := runCat_runs σ l id 0 n _ _ _ _ _ h
      exact ⟨u, w', v', c', e, .cat hu, hk⟩
    | .alt l, id, n => by
      intro w v c k res h
      simp only [Re.run] at h
      have key : ∀ v, Re.runAlt σ l id 1 n w v c k = some res →
          ∃ u w' v' c', w = u ++ w' ∧ Runs σ (.alt l) n u c c' ∧ k w' v' c' = some res := by
        intro v h
        obtain ⟨pre, r, post, e, u, w', v', c', e', hu, hk⟩ := runAlt_runs σ l id 1 n _ _ _ _ _ h
        exact ⟨u, w', v', c', e', .alt e hu, hk⟩
      split at h
      · obtain ⟨v', h⟩ := enter_some h
        exact key _ h
      · exact key _ h
    | .star r, id, n => by
      intro w v c k res h
      simp only [Re.run] at h
      obtain ⟨u, w', v', c', e, ⟨m, hm⟩, hk⟩ :=
        starLoop_rel (fun i => run_runs σ r ((2 * i + 1) :: id) n) _ _ _ _ _ _ _ _ h
      exact ⟨u, w', v', c', e, runs_star_of_iterR hm, hk⟩
    | .lazyStar r, id, n => by
      intro w v c k res h
      simp only [Re.run] at h
      obtain ⟨u, w', v', c', e, ⟨m, hm⟩, hk⟩ :=
        starLoop_rel (fun i => run_runs σ r ((2 * i + 1) :: id) n) _ _ _ _ _ _ _ _ h
      exact ⟨u, w', v', c', e, .lazyStar (runs_star_of_iterR hm), hk⟩
    | .opt r, id, n => by
      intro w v c k res h
      simp only [Re.run] at h
      obtain ⟨v', h⟩ := enter_some h
      rcases orElse'_some h with h | h
      · obtain ⟨u, w', v'', c', e, hu, hk⟩ := run_runs σ r (1 :: id) n _ _ _ _ _ h
        exact ⟨u, w', v'', c', e, .optSome hu, hk⟩
      · exact ⟨[], w, v', c, rfl, .optNone, h⟩
    | .rep r lo hi, id, n => by
      intro w v c k res h
      simp only [Re.run] at h
      obtain ⟨u, w', v', c', e, ⟨m, hlo, hhi, hm⟩, hk⟩ :=
        repLoop_rel (fun i => run_runs σ r ((2 * i + 1) :: id) n) _ _ _ _ _ _ _ _ _ h
      exact ⟨u, w', v', c', e, .rep hlo hhi (runsIter_of_iterR hm), hk⟩
    | .cap r, id, n => by
      intro w v c k res h
      simp only [Re.run] at h
      obtain ⟨u, w', v', c', e, hu, hk⟩ := run_runs σ r (0 :: id) (n + 1) _ _ _ _ _ h
      subst e
      rw [take_consumed] at hk
      exact ⟨u, w', v', _, rfl, .cap hu, hk⟩
    | .grp r, id, n => by
      intro w v c k res h
      simp only [Re.run] at h
      obtain ⟨u, w', v', c', e, hu, hk⟩ := run_runs σ r (0 :: id) n _ _ _ _ _ h
      exact ⟨u, w', v', c', e, .grp hu, hk⟩
  theorem runCat_runs (σ : Sem) : ∀ (l : List Re) (id : Sid) (j n : Nat),
      StepRel (fun u c c' => RunsAll σ l n u c c') (Re.runCat σ l id j n)
    | [], id, j, n => by
      intro w v c k res h
      simp only [Re.runCat] at h
      exact ⟨[], w, v, c, rfl, .nil, h⟩
    | r :: rs, id, j, n => by
      intro w v c k res h
      simp only [Re.runCat] at h
      obtain ⟨a, w1, v1, c1, rfl, ha, h1⟩ := run_runs σ r (j :: id) n _ _ _ _ _ h
      obtain ⟨b, w2, v2, c2, rfl, hb, h2⟩ := runCat_runs σ rs id (j + 1) (n + r.ncaps) _ _ _ _ _ h1
      exact ⟨a ++ b, w2, v2, c2, by simp, .cons ha hb, h2⟩
  theorem runAlt_runs (σ : Sem) : ∀ (l : List Re) (id : Sid) (j n : Nat)
      (w : Str) (v : Vis) (c : Caps) (k : Kont) (res : Caps), Re.runAlt σ l id j n w v c k = some res →
      ∃ pre r post, l = pre ++ r :: post ∧ ∃ u w' v' c', w = u ++ w' ∧
        Runs σ r (n + Re.ncapsList pre) u c c' ∧ k w' v' c' = some res
    | [], id, j, n, w, v, c, k, res, h => by simp [Re.runAlt] at h
    | r :: rs, id, j, n, w, v, c, k, res, h => by
      simp only [Re.runAlt] at h
      rcases orElse'_some h with h | h
      · obtain ⟨u, w', v', c', e, hu, hk⟩ := run_runs σ r (j :: id) n _ _ _ _ _ h
        exact ⟨[], r, rs, rfl, u, w', v', c', e, by simpa [Re.ncapsList] using hu, hk⟩
      · obtain ⟨pre, r', post, e, u, w', v', c', e', hu, hk⟩ :=
          runAlt_runs σ rs id (j + 1) (n + r.ncaps) _ _ _ _ _ h
        refine ⟨r :: pre, r', post, by rw [e]; rfl, u, w', v', c', e', ?_, hk⟩
        simpa [Re.ncapsList, Nat.add_assoc] using hu
end

/-- **the reported captures come from a derivation** of the whole haystack that starts with all
    slots empty -/
theorem exec_runs {σ : Sem} {r : Re} {s : Str} {caps : Caps}
    (h : r.exec σ s = some (some s :: caps)) :
    Runs σ r 0 s (List.replicate r.ncaps none) caps := by
  unfold Re.exec at h
  split at h
  · cases h
  · rename_i c hc
    simp only [Option.some.injEq, List.cons.injEq, true_and] at h
    subst h
    obtain ⟨u, w', v', c', e, hu, hk⟩ := run_runs σ r [] 0 _ _ _ _ _ hc
    simp only [atEnd] at hk
    split at hk
    · rename_i hw
      cases hk
      have : w' = [] := by simpa using hw
      subst this
      simp only [List.append_nil] at e
      subst e
      exact hu
    · cases hk

/-- `Re.exec` always reports group 0 as the haystack, so the shape `some (some s :: caps)` is no
    restriction -/
theorem exec_shape {σ : Sem} {r : Re} {s : Str} {res : List (Option Str)}
    (h : r.exec σ s = some res) : ∃ caps, res = some s :: caps := by
  unfold Re.exec at h
  split at h
  · cases h
  · cases h; exact ⟨_, rfl⟩

/-- the derivation of `(a*)(b)?` on `aab` exists (the hypothesis of `exec_runs` is satisfiable) -/
example : (Re.cat [.cap (.star (.lit ['a'] false)), .opt (.cap (.lit ['b'] false))]).exec trivSem ['a', 'a', 'b'] =
    some (some ['a', 'a', 'b'] :: [some ['a', 'a'], some ['b']]) := by decide

end Wax
