import Wax.RuleSpec
import Wax.Proofs.RuleAdj
import Wax.Proofs.ParseShape
/-!
C06, rules R1 (adjacent component boundaries) and R2 (adjacent zero-or-more wildcards), for
alternations nested to ANY depth and for repetitions: if the structural checker `checkS` accepts a
token tree, then no flat expansion of `Wax/RuleSpec.lean` (`expTok`: choose a branch in every
alternation at every depth, write repetition bodies out once -- or twice) has two adjacent
boundaries / two adjacent zero-or-more wildcards.

The proof is generic in the leaf predicate `p : LK → Bool`.  Its three layers:

* `sem`     : what an expansion starts / ends with is visible to `anyStart` / `anyEnd`
              (`headP p l → anyStart (liftK p) t`), for every tree of the parser's shape;
* `S_body`  : the invariant about the inherited neighbours: if the checker accepted `t` next to
              `outer`, and some leftmost path of `t` starts with a `p`-token, then no rightmost
              path of `outer.left` ends with a `p`-token (and symmetrically);
* `M_body`  : the seams of every concatenation at every depth are free of `p p`.
-/
set_option linter.unusedSimpArgs false
namespace Wax
namespace AdjN

/-! ### cap-free expansions -/

mutual
  /-- `expTok` without the size cap -/
  def expU (twice : Bool) : Tok → List (List LK)
    | .lit .. | .cls .. | .one _ => [[.other]]
    | .sep _ => [[.sepK]]
    | .tree _ r => [[.treeK r]]
    | .zom .. => [[.zomK]]
    | .alt _ bs => expAltU twice bs
    | .cat _ ts => expCatU twice ts
    | .rep _ b _ hi =>
      if twice && (match hi with | some h => decide (2 ≤ h) | none => true)
      then expU twice b ++ prodL (expU twice b) (expU twice b) else expU twice b
  def expAltU (twice : Bool) : List Tok → List (List LK)
    | [] => []
    | b :: bs => expU twice b ++ expAltU twice bs
  def expCatU (twice : Bool) : List Tok → List (List LK)
    | [] => [[]]
    | t :: ts => prodL (expU twice t) (expCatU twice ts)
end

theorem mem_prodL {a b : List (List LK)} {l : List LK} :
    l ∈ prodL a b ↔ ∃ x ∈ a, ∃ y ∈ b, l = x ++ y := by
  simp only [prodL, List.mem_flatMap, List.mem_map]
  constructor
  · rintro ⟨x, hx, y, hy, rfl⟩; exact ⟨x, hx, y, hy, rfl⟩
  · rintro ⟨x, hx, y, hy, rfl⟩; exact ⟨x, hx, y, hy, rfl⟩

theorem cap_some {r es : List (List LK)}
    (h : (if r.length > expCap then none else some r) = some es) : es = r := by
  split at h
  · cases h
  · injection h with h; exact h.symm

theorem mem_expU_rep {tw : Bool} {sp : Span} {b : Tok} {lo : Nat} {hi : Option Nat} {l : List LK}
    (h : l ∈ expU tw (.rep sp b lo hi)) :
    l ∈ expU tw b ∨ (tw = true ∧ ∃ x ∈ expU tw b, ∃ y ∈ expU tw b, l = x ++ y) := by
  simp only [expU] at h
  generalize (match hi with | some h => decide (2 ≤ h) | none => true) = c at h
  by_cases hc : (tw && c) = true
  · rw [if_pos hc] at h
    simp only [Bool.and_eq_true] at hc
    rcases List.mem_append.1 h with h | h
    · exact Or.inl h
    · exact Or.inr ⟨hc.1, mem_prodL.1 h⟩
  · rw [if_neg hc] at h; exact Or.inl h

mutual
  theorem expTok_eq (tw : Bool) : ∀ (t : Tok) (es : List (List LK)), expTok tw t = some es →
      es = expU tw t
    | .lit .., es, h => by simp only [expTok, Option.some.injEq] at h; rw [← h]; rfl
    | .cls .., es, h => by simp only [expTok, Option.some.injEq] at h; rw [← h]; rfl
    | .one _, es, h => by simp only [expTok, Option.some.injEq] at h; rw [← h]; rfl
    | .sep _, es, h => by simp only [expTok, Option.some.injEq] at h; rw [← h]; rfl
    | .tree _ _, es, h => by simp only [expTok, Option.some.injEq] at h; rw [← h]; rfl
    | .zom .., es, h => by simp only [expTok, Option.some.injEq] at h; rw [← h]; rfl
    | .alt _ bs, es, h => by
      simp only [expTok] at h; simp only [expU]; exact expAlt_eq tw bs es h
    | .cat _ ts, es, h => by
      simp only [expTok] at h; simp only [expU]; exact expCat_eq tw ts es h
    | .rep _ b _ hi, es, h => by
      simp only [expTok] at h
      split at h
      · cases h
      · rename_i e he
        have := expTok_eq tw b e he
        subst this
        simp only [expU]
        exact cap_some h
  theorem expAlt_eq (tw : Bool) : ∀ (bs : List Tok) (es : List (List LK)), expAlt tw bs = some es →
      es = expAltU tw bs
    | [], es, h => by simp only [expAlt, Option.some.injEq] at h; rw [← h]; rfl
    | b :: bs, es, h => by
      simp only [expAlt] at h
      split at h
      · rename_i x y hx hy
        have h1 := expTok_eq tw b x hx
        have h2 := expAlt_eq tw bs y hy
        subst h1 h2
        split at h
        · cases h
        · injection h with h; rw [← h]; rfl
      · cases h
  theorem expCat_eq (tw : Bool) : ∀ (ts : List Tok) (es : List (List LK)), expCat tw ts = some es →
      es = expCatU tw ts
    | [], es, h => by simp only [expCat, Option.some.injEq] at h; rw [← h]; rfl
    | t :: ts, es, h => by
      simp only [expCat] at h
      split at h
      · rename_i x y hx hy
        have h1 := expTok_eq tw t x hx
        have h2 := expCat_eq tw ts y hy
        subst h1 h2
        split at h
        · cases h
        · injection h with h; rw [← h]; rfl
      · cases h
end


/-! ### heads and lasts of expansions -/

def headP (p : LK → Bool) : List LK → Bool | a :: _ => p a | [] => false
def lastP (p : LK → Bool) : List LK → Bool
  | [] => false
  | [a] => p a
  | _ :: b :: r => lastP p (b :: r)

theorem headP_append (p : LK → Bool) {x : List LK} (y : List LK) (hx : x ≠ []) :
    headP p (x ++ y) = headP p x := by
  cases x with
  | nil => exact absurd rfl hx
  | cons a r => rfl

theorem lastP_append (p : LK → Bool) : ∀ (x : List LK) {y : List LK}, y ≠ [] →
    lastP p (x ++ y) = lastP p y
  | [], _, _ => rfl
  | [a], y, hy => by
    cases y with
    | nil => exact absurd rfl hy
    | cons b r => rfl
  | a :: b :: r, y, hy => by
    have := lastP_append p (b :: r) hy
    simpa [lastP] using this

theorem noAdj_append (p : LK → Bool) : ∀ (c r : List LK), noAdj p c = true → noAdj p r = true →
    (lastP p c = true → headP p r = false) → noAdj p (c ++ r) = true
  | [], r, _, hr, _ => by simpa using hr
  | [a], [], _, _, _ => by simp [noAdj]
  | [a], b :: r, _, hr, h => by
    simp only [List.cons_append, List.nil_append, noAdj, Bool.and_eq_true, Bool.not_eq_true',
      Bool.and_eq_false_iff]
    refine ⟨?_, hr⟩
    by_cases ha : p a = true
    · right; simpa [headP] using h (by simpa [lastP] using ha)
    · left; simpa using ha
  | a :: b :: c, r, hc, hr, h => by
    simp only [noAdj, Bool.and_eq_true] at hc
    simp only [List.cons_append, noAdj, Bool.and_eq_true]
    exact ⟨hc.1, by simpa using noAdj_append p (b :: c) r hc.2 hr (by simpa [lastP] using h)⟩

/-! ### the token predicate that belongs to a leaf-kind predicate -/

def liftK (p : LK → Bool) : Tok → Bool
  | .lit .. | .cls .. | .one _ => p .other
  | .sep _ => p .sepK
  | .tree _ r => p (.treeK r)
  | .zom .. => p .zomK
  | _ => false

theorem liftK_isB : liftK LK.isB = Tok.isBoundaryT := by
  funext t; cases t <;> rfl
theorem liftK_isZ : liftK LK.isZ = Tok.isZomT := by
  funext t; cases t <;> rfl

theorem liftK_cat (p : LK → Bool) {t : Tok} (h : liftK p t = true) : isCatT t = false := by
  cases t <;> simp_all [liftK, isCatT]

def startQ (q : Tok → Bool) (t : Tok) : Bool :=
  match t.concatenation with | a :: _ => q a | [] => false
def endQ (q : Tok → Bool) (t : Tok) : Bool :=
  match t.concatenation with | a :: r => q (lastOf a r) | [] => false

theorem startQ_noCat (q : Tok → Bool) {t : Tok} (h : isCatT t = false) : startQ q t = q t := by
  cases t <;> simp_all [isCatT, startQ, Tok.concatenation]
theorem endQ_noCat (q : Tok → Bool) {t : Tok} (h : isCatT t = false) : endQ q t = q t := by
  cases t <;> simp_all [isCatT, endQ, Tok.concatenation, lastOf]

theorem anyEndL_lastOf (q : Tok → Bool) : ∀ (a : Tok) (r : List Tok),
    anyEndL q (a :: r) = anyEnd q (lastOf a r)
  | _, [] => by simp [anyEndL, lastOf]
  | _, b :: r => by simp [anyEndL, lastOf, anyEndL_lastOf q b r]

theorem anyStart_leaf' (q : Tok → Bool) {t : Tok} (h : isLeafT t = true) : anyStart q t = q t := by
  cases t <;> simp_all [isLeafT, Tok.isBranchT, anyStart]
theorem anyEnd_leaf' (q : Tok → Bool) {t : Tok} (h : isLeafT t = true) : anyEnd q t = q t := by
  cases t <;> simp_all [isLeafT, Tok.isBranchT, anyEnd]

theorem anyStart_alt (p : LK → Bool) (sp : Span) (bs : List Tok) :
    anyStart (liftK p) (.alt sp bs) = anyStartB (liftK p) bs := by simp [anyStart, liftK]
theorem anyEnd_alt (p : LK → Bool) (sp : Span) (bs : List Tok) :
    anyEnd (liftK p) (.alt sp bs) = anyEndB (liftK p) bs := by simp [anyEnd, liftK]
theorem anyStart_cat (p : LK → Bool) (sp : Span) (ts : List Tok) :
    anyStart (liftK p) (.cat sp ts) = anyStartF (liftK p) ts := by simp [anyStart, liftK]
theorem anyEnd_cat (p : LK → Bool) (sp : Span) (ts : List Tok) :
    anyEnd (liftK p) (.cat sp ts) = anyEndL (liftK p) ts := by simp [anyEnd, liftK]
theorem anyStart_rep (p : LK → Bool) (sp : Span) (b : Tok) (lo : Nat) (hi : Option Nat) :
    anyStart (liftK p) (.rep sp b lo hi) = anyStart (liftK p) b := by simp [anyStart, liftK]
theorem anyEnd_rep (p : LK → Bool) (sp : Span) (b : Tok) (lo : Nat) (hi : Option Nat) :
    anyEnd (liftK p) (.rep sp b lo hi) = anyEnd (liftK p) b := by simp [anyEnd, liftK]
theorem endQ_cat (q : Tok → Bool) (sp : Span) (a : Tok) (r : List Tok) :
    endQ q (.cat sp (a :: r)) = q (lastOf a r) := rfl
theorem startQ_cat (q : Tok → Bool) (sp : Span) (a : Tok) (r : List Tok) :
    startQ q (.cat sp (a :: r)) = q a := rfl

/-! ### layer 1: expansions against `anyStart` / `anyEnd` -/

mutual
  theorem sem (p : LK → Bool) (tw : Bool) : ∀ (t : Tok), pshape t = true → ∀ l ∈ expU tw t,
      l ≠ [] ∧ (headP p l = true → anyStart (liftK p) t = true) ∧
        (lastP p l = true → anyEnd (liftK p) t = true)
    | .lit .., _, l, hl => by
      simp only [expU, List.mem_singleton] at hl; subst hl
      simp [headP, lastP, anyStart, anyEnd, liftK]
    | .cls .., _, l, hl => by
      simp only [expU, List.mem_singleton] at hl; subst hl
      simp [headP, lastP, anyStart, anyEnd, liftK]
    | .one _, _, l, hl => by
      simp only [expU, List.mem_singleton] at hl; subst hl
      simp [headP, lastP, anyStart, anyEnd, liftK]
    | .sep _, _, l, hl => by
      simp only [expU, List.mem_singleton] at hl; subst hl
      simp [headP, lastP, anyStart, anyEnd, liftK]
    | .tree _ _, _, l, hl => by
      simp only [expU, List.mem_singleton] at hl; subst hl
      simp [headP, lastP, anyStart, anyEnd, liftK]
    | .zom .., _, l, hl => by
      simp only [expU, List.mem_singleton] at hl; subst hl
      simp [headP, lastP, anyStart, anyEnd, liftK]
    | .alt _ bs, hs, l, hl => by
      simp only [pshape, Bool.and_eq_true] at hs
      simp only [expU] at hl
      have := semAlt p tw bs hs.2 l hl
      simp only [anyStart, anyEnd, liftK, Bool.false_or]
      exact this
    | .cat _ ts, hs, l, hl => by
      simp only [pshape, Bool.and_eq_true, Bool.not_eq_true', List.isEmpty_eq_false_iff] at hs
      simp only [expU] at hl
      have := semCat p tw ts hs.2 hs.1 l hl
      simp only [anyStart, anyEnd, liftK, Bool.false_or]
      exact this
    | .rep _ b _ hi, hs, l, hl => by
      simp only [pshape] at hs
      simp only [anyStart, anyEnd, liftK, Bool.false_or]
      rcases mem_expU_rep hl with hl | ⟨_, x, hx, y, hy, rfl⟩
      · exact sem p tw b hs l hl
      · obtain ⟨x1, x2, _⟩ := sem p tw b hs x hx
        obtain ⟨y1, _, y3⟩ := sem p tw b hs y hy
        refine ⟨by simp [x1], ?_, ?_⟩
        · rw [headP_append p y x1]; exact x2
        · rw [lastP_append p x y1]; exact y3
  theorem semAlt (p : LK → Bool) (tw : Bool) : ∀ (bs : List Tok), pshapeL false bs = true →
      ∀ l ∈ expAltU tw bs,
      l ≠ [] ∧ (headP p l = true → anyStartB (liftK p) bs = true) ∧
        (lastP p l = true → anyEndB (liftK p) bs = true)
    | [], _, l, hl => by simp [expAltU] at hl
    | b :: bs, hs, l, hl => by
      simp only [pshapeL, Bool.false_and, Bool.not_false, Bool.true_and, Bool.and_eq_true] at hs
      simp only [expAltU] at hl
      simp only [anyStartB, anyEndB, Bool.or_eq_true]
      rcases List.mem_append.1 hl with hl | hl
      · obtain ⟨h1, h2, h3⟩ := sem p tw b hs.1 l hl
        exact ⟨h1, fun h => Or.inl (h2 h), fun h => Or.inl (h3 h)⟩
      · obtain ⟨h1, h2, h3⟩ := semAlt p tw bs hs.2 l hl
        exact ⟨h1, fun h => Or.inr (h2 h), fun h => Or.inr (h3 h)⟩
  theorem semCat (p : LK → Bool) (tw : Bool) : ∀ (ts : List Tok), pshapeL true ts = true →
      ts ≠ [] → ∀ l ∈ expCatU tw ts,
      l ≠ [] ∧ (headP p l = true → anyStartF (liftK p) ts = true) ∧
        (lastP p l = true → anyEndL (liftK p) ts = true)
    | [], _, hne, _, _ => absurd rfl hne
    | [a], hs, _, l, hl => by
      simp only [pshapeL, Bool.and_eq_true] at hs
      simp only [expCatU] at hl
      obtain ⟨x, hx, y, hy, rfl⟩ := mem_prodL.1 hl
      simp only [List.mem_singleton] at hy; subst hy
      simp only [List.append_nil, anyStartF, anyEndL]
      exact sem p tw a hs.1.2 x hx
    | a :: c :: rest, hs, _, l, hl => by
      simp only [pshapeL, Bool.and_eq_true] at hs
      rw [expCatU] at hl
      obtain ⟨x, hx, y, hy, rfl⟩ := mem_prodL.1 hl
      obtain ⟨x1, x2, _⟩ := sem p tw a hs.1.2 x hx
      obtain ⟨y1, _, y3⟩ := semCat p tw (c :: rest)
        (by simp only [pshapeL, Bool.and_eq_true]; exact hs.2) (by simp) y hy
      refine ⟨by simp [x1], ?_, ?_⟩
      · rw [headP_append p y x1]; simpa [anyStartF] using x2
      · rw [lastP_append p x y1]; simpa [anyEndL] using y3
end


/-! ### layer 2: the inherited neighbours -/

/-- what `checkBranchOk` has to provide about the leaf predicate `p` -/
def RuleFor (p : LK → Bool) : Prop :=
  ∀ (ts : Terms) (o : Outer), checkBranchOk ts o = true →
    (liftK p ts.start = true → endsWith (liftK p) o.left = false) ∧
    (liftK p ts.end_ = true → startsWith (liftK p) o.right = false)

theorem termsOk_cond {p : LK → Bool} (hp : RuleFor p) {o : Outer} (f : Terms → Bool)
    (hf : ∀ ts, f ts = true → checkBranchOk ts o = true) (b : Tok) (h : termsOk f b = true) :
    (startQ (liftK p) b = true → endsWith (liftK p) o.left = false) ∧
    (endQ (liftK p) b = true → startsWith (liftK p) o.right = false) := by
  unfold termsOk at h
  unfold startQ endQ
  cases hc : b.concatenation with
  | nil => simp
  | cons a r =>
    rw [hc] at h
    cases r with
    | nil => simp only [terminals] at h; exact hp _ o (hf _ h)
    | cons x xs => simp only [terminals] at h; exact hp _ o (hf _ h)

/-- the previous sibling as `okSeq` hands it on (span forgotten) -/
def respan : Tok → Tok
  | .alt _ bs => .alt ⟨0, 0⟩ bs
  | .rep _ b lo hi => .rep ⟨0, 0⟩ b lo hi
  | t => t

theorem anyEnd_respan (p : LK → Bool) (t : Tok) : anyEnd (liftK p) (respan t) = anyEnd (liftK p) t := by
  cases t <;> simp [respan, anyEnd, liftK]

theorem okSeq_cons {a : Tok} (h : isCatT a = false) (inh : Outer) (prev : Option Tok) (rest : List Tok) :
    okSeq inh prev (a :: rest) =
      (okBody (inh.or prev rest.head?) a && okSeq inh (some (respan a)) rest) := by
  cases a <;> simp_all [isCatT, okSeq, okBody, respan]

theorem or_left (inh : Outer) (prev r : Option Tok) : (inh.or prev r).left = (inh.or prev none).left := rfl
theorem or_left_some (inh : Outer) (a : Tok) (r : Option Tok) : (inh.or (some a) r).left = some a := rfl
theorem or_right_none (inh : Outer) (prev : Option Tok) : (inh.or prev none).right = inh.right := rfl
theorem or_right_some (inh : Outer) (prev : Option Tok) (c : Tok) : (inh.or prev (some c)).right = some c := rfl
theorem or_none_left (o : Outer) (r : Option Tok) : (o.or none r).left = o.left := rfl

mutual
  theorem S_body {p : LK → Bool} (hp : RuleFor p) : ∀ (t : Tok) (o : Outer), pshape t = true →
      okBody o t = true →
      ((startQ (liftK p) t = true → endsWith (liftK p) o.left = false) →
        anyStart (liftK p) t = true → endsWith (liftK p) o.left = false) ∧
      ((endQ (liftK p) t = true → startsWith (liftK p) o.right = false) →
        anyEnd (liftK p) t = true → startsWith (liftK p) o.right = false)
    | .lit a b c, o, _, _ => by
      rw [startQ_noCat _ rfl, endQ_noCat _ rfl, anyStart_leaf' _ rfl, anyEnd_leaf' _ rfl]
      exact ⟨id, id⟩
    | .cls a b c, o, _, _ => by
      rw [startQ_noCat _ rfl, endQ_noCat _ rfl, anyStart_leaf' _ rfl, anyEnd_leaf' _ rfl]
      exact ⟨id, id⟩
    | .one a, o, _, _ => by
      rw [startQ_noCat _ rfl, endQ_noCat _ rfl, anyStart_leaf' _ rfl, anyEnd_leaf' _ rfl]
      exact ⟨id, id⟩
    | .sep a, o, _, _ => by
      rw [startQ_noCat _ rfl, endQ_noCat _ rfl, anyStart_leaf' _ rfl, anyEnd_leaf' _ rfl]
      exact ⟨id, id⟩
    | .tree a b, o, _, _ => by
      rw [startQ_noCat _ rfl, endQ_noCat _ rfl, anyStart_leaf' _ rfl, anyEnd_leaf' _ rfl]
      exact ⟨id, id⟩
    | .zom a b, o, _, _ => by
      rw [startQ_noCat _ rfl, endQ_noCat _ rfl, anyStart_leaf' _ rfl, anyEnd_leaf' _ rfl]
      exact ⟨id, id⟩
    | .alt _ bs, o, hs, h => by
      simp only [pshape, Bool.and_eq_true] at hs
      simp only [okBody] at h
      simp only [anyStart, anyEnd, liftK, Bool.false_or]
      obtain ⟨h1, h2⟩ := S_branches hp bs o hs.2 h
      exact ⟨fun _ => h1, fun _ => h2⟩
    | .rep _ b lo hi, o, hs, h => by
      simp only [pshape] at hs
      simp only [okBody, Bool.and_eq_true] at h
      simp only [anyStart, anyEnd, liftK, Bool.false_or]
      obtain ⟨c1, c2⟩ := termsOk_cond hp _ (fun ts hts => by
        simp only [Bool.and_eq_true] at hts; exact hts.1) b h.1.2
      obtain ⟨h1, h2⟩ := S_body hp b o hs h.2
      exact ⟨fun _ => h1 c1, fun _ => h2 c2⟩
    | .cat _ [], o, hs, _ => by simp [pshape] at hs
    | .cat _ (a :: rest), o, hs, h => by
      simp only [pshape, pshapeL, Bool.and_eq_true, Bool.true_and, Bool.not_eq_true'] at hs
      simp only [okBody, Bool.and_eq_true] at h
      have hok := h.2
      constructor
      · rw [okSeq_cons hs.2.1.1] at hok
        simp only [Bool.and_eq_true] at hok
        have := (S_body hp a _ hs.2.1.2 hok.1).1
        rw [startQ_noCat _ hs.2.1.1, or_none_left] at this
        rw [startQ_cat, anyStart_cat]; exact this
      · have := S_seqEnd hp (a :: rest) o none
          (by simp only [pshapeL, Bool.and_eq_true, Bool.true_and, Bool.not_eq_true']; exact hs.2)
          (by simp) hok
        rw [endQ_cat, anyEnd_cat, anyEndL_lastOf]; rw [anyEndL_lastOf] at this
        intro hl
        exact this (fun a' r' e => by
          injection e with e1 e2; subst e1 e2
          exact hl)
  theorem S_seqEnd {p : LK → Bool} (hp : RuleFor p) : ∀ (ts : List Tok) (inh : Outer)
      (prev : Option Tok), pshapeL true ts = true → ts ≠ [] → okSeq inh prev ts = true →
      (∀ a r, ts = a :: r → liftK p (lastOf a r) = true → startsWith (liftK p) inh.right = false) →
      anyEndL (liftK p) ts = true → startsWith (liftK p) inh.right = false
    | [], _, _, _, hne, _ => absurd rfl hne
    | [a], inh, prev, hs, _, h => by
      simp only [pshapeL, Bool.and_eq_true, Bool.true_and, Bool.not_eq_true'] at hs
      rw [okSeq_cons hs.1.1] at h
      simp only [Bool.and_eq_true, List.head?_nil] at h
      have := (S_body hp a _ hs.1.2 h.1).2
      rw [endQ_noCat _ hs.1.1, or_right_none] at this
      intro hl
      simp only [anyEndL]
      exact this (hl a [] rfl)
    | a :: c :: rest, inh, prev, hs, _, h => by
      simp only [pshapeL, Bool.and_eq_true, Bool.true_and, Bool.not_eq_true'] at hs
      rw [okSeq_cons hs.1.1] at h
      simp only [Bool.and_eq_true] at h
      intro hl
      simp only [anyEndL]
      exact S_seqEnd hp (c :: rest) inh _
        (by simp only [pshapeL, Bool.and_eq_true, Bool.true_and, Bool.not_eq_true']; exact hs.2)
        (by simp) h.2 (fun a' r' e => by
          injection e with e1 e2; subst e1 e2
          exact hl a (c :: rest) rfl)
  theorem S_branches {p : LK → Bool} (hp : RuleFor p) : ∀ (bs : List Tok) (o : Outer),
      pshapeL false bs = true → okBranchesR o bs = true →
      (anyStartB (liftK p) bs = true → endsWith (liftK p) o.left = false) ∧
      (anyEndB (liftK p) bs = true → startsWith (liftK p) o.right = false)
    | [], _, _, _ => by simp [anyStartB, anyEndB]
    | b :: bs, o, hs, h => by
      simp only [pshapeL, Bool.false_and, Bool.not_false, Bool.true_and, Bool.and_eq_true] at hs
      simp only [okBranchesR, Bool.and_eq_true] at h
      obtain ⟨c1, c2⟩ := termsOk_cond hp _ (fun ts hts => by
        simp only [Bool.and_eq_true] at hts; exact hts.1) b h.1.1
      obtain ⟨h1, h2⟩ := S_body hp b o hs.1 h.1.2
      obtain ⟨i1, i2⟩ := S_branches hp bs o hs.2 h.2
      simp only [anyStartB, anyEndB, Bool.or_eq_true]
      exact ⟨fun h => h.elim (h1 c1) i1, fun h => h.elim (h2 c2) i2⟩
end


/-! ### layer 3: every seam of every concatenation -/

def noAdjT (q : Tok → Bool) : List Tok → Bool
  | a :: b :: rest => !(q a && q b) && noAdjT q (b :: rest)
  | _ => true

mutual
  /-- no concatenation (at any depth) has two adjacent `q`-tokens among its own elements -/
  def catsNoAdj (q : Tok → Bool) : Tok → Bool
    | .alt _ bs => catsNoAdjL q bs
    | .cat _ ts => noAdjT q ts && catsNoAdjL q ts
    | .rep _ b _ _ => catsNoAdj q b
    | _ => true
  def catsNoAdjL (q : Tok → Bool) : List Tok → Bool
    | [] => true
    | t :: ts => catsNoAdj q t && catsNoAdjL q ts
end

/-- the first and the last token of a repetition body are leaves -/
def leafEnds (b : Tok) : Bool :=
  match b.concatenation with
  | [] => false
  | a :: r => isLeafT a && isLeafT (lastOf a r)

/-- the repetition is never written out twice by `expTok true` -/
def onceOnly : Option Nat → Bool
  | some h => decide (h < 2)
  | none => false

mutual
  /-- THE FRAGMENT: every repetition that can iterate twice has a body whose first and last tokens
  are leaves (`<a{b,c}/:2>`, not `<{/a,b}c/:2>`) -/
  def leafTerminalReps : Tok → Bool
    | .alt _ bs => leafTerminalRepsL bs
    | .cat _ ts => leafTerminalRepsL ts
    | .rep _ b _ hi => (onceOnly hi || leafEnds b) && leafTerminalReps b
    | _ => true
  def leafTerminalRepsL : List Tok → Bool
    | [] => true
    | t :: ts => leafTerminalReps t && leafTerminalRepsL ts
end

mutual
  /-- THE FRAGMENT, weakest form: every repetition that can iterate twice has leaf terminals, or
  cannot both start and end with a `q`-token on any path (then writing it twice is harmless) -/
  def repsSafe (q : Tok → Bool) : Tok → Bool
    | .alt _ bs => repsSafeL q bs
    | .cat _ ts => repsSafeL q ts
    | .rep _ b _ hi =>
      (onceOnly hi || leafEnds b || !(anyStart q b && anyEnd q b)) && repsSafe q b
    | _ => true
  def repsSafeL (q : Tok → Bool) : List Tok → Bool
    | [] => true
    | t :: ts => repsSafe q t && repsSafeL q ts
end

mutual
  theorem leafTerminalReps_safe (q : Tok → Bool) : ∀ (t : Tok), leafTerminalReps t = true →
      repsSafe q t = true
    | .lit .., _ => rfl
    | .cls .., _ => rfl
    | .one _, _ => rfl
    | .sep _, _ => rfl
    | .tree .., _ => rfl
    | .zom .., _ => rfl
    | .alt _ bs, h => by
      simp only [leafTerminalReps] at h; simp only [repsSafe]; exact leafTerminalRepsL_safe q bs h
    | .cat _ ts, h => by
      simp only [leafTerminalReps] at h; simp only [repsSafe]; exact leafTerminalRepsL_safe q ts h
    | .rep _ b _ hi, h => by
      simp only [leafTerminalReps, Bool.and_eq_true, Bool.or_eq_true] at h
      simp only [repsSafe, Bool.and_eq_true, Bool.or_eq_true]
      exact ⟨Or.inl h.1, leafTerminalReps_safe q b h.2⟩
  theorem leafTerminalRepsL_safe (q : Tok → Bool) : ∀ (ts : List Tok),
      leafTerminalRepsL ts = true → repsSafeL q ts = true
    | [], _ => rfl
    | t :: ts, h => by
      simp only [leafTerminalRepsL, Bool.and_eq_true] at h
      simp only [repsSafeL, Bool.and_eq_true]
      exact ⟨leafTerminalReps_safe q t h.1, leafTerminalRepsL_safe q ts h.2⟩
end

/-- what `checkRepetitionOk` has to provide about `p` when bodies are written out twice -/
def RepSelf (p : LK → Bool) : Prop :=
  ∀ (ts : Terms) (o : Outer) (lo : Nat) (hi : Option Nat), checkBranchOk ts o = true →
    checkRepetitionOk ts o lo hi = true → ¬ (liftK p ts.start = true ∧ liftK p ts.end_ = true)

theorem termsOk_rep {p : LK → Bool} (hr : RepSelf p) {o : Outer} {lo : Nat} {hi : Option Nat} (b : Tok)
    (h : termsOk (fun ts => checkBranchOk ts o && checkRepetitionOk ts o lo hi) b = true) :
    ¬ (startQ (liftK p) b = true ∧ endQ (liftK p) b = true) := by
  unfold termsOk at h
  unfold startQ endQ
  cases hc : b.concatenation with
  | nil => simp
  | cons a r =>
    rw [hc] at h
    cases r with
    | nil =>
      simp only [terminals, Bool.and_eq_true] at h; exact hr _ o lo hi h.1 h.2
    | cons x xs =>
      simp only [terminals, Bool.and_eq_true] at h; exact hr _ o lo hi h.1 h.2

theorem anyStart_leafEnds (p : LK → Bool) {b : Tok} (hs : pshape b = true) (h : leafEnds b = true) :
    anyStart (liftK p) b = startQ (liftK p) b ∧ anyEnd (liftK p) b = endQ (liftK p) b := by
  cases b with
  | cat sp ts =>
    cases ts with
    | nil => simp [leafEnds, Tok.concatenation] at h
    | cons a r =>
      simp only [leafEnds, Tok.concatenation, Bool.and_eq_true] at h
      rw [startQ_cat, endQ_cat, anyStart_cat, anyEnd_cat, anyEndL_lastOf]
      exact ⟨anyStart_leaf' _ h.1, anyEnd_leaf' _ h.2⟩
  | alt => simp [leafEnds, Tok.concatenation, isLeafT, Tok.isBranchT] at h
  | rep => simp [leafEnds, Tok.concatenation, isLeafT, Tok.isBranchT] at h
  | lit => exact ⟨by rw [startQ_noCat _ rfl, anyStart_leaf' _ rfl], by rw [endQ_noCat _ rfl, anyEnd_leaf' _ rfl]⟩
  | cls => exact ⟨by rw [startQ_noCat _ rfl, anyStart_leaf' _ rfl], by rw [endQ_noCat _ rfl, anyEnd_leaf' _ rfl]⟩
  | one => exact ⟨by rw [startQ_noCat _ rfl, anyStart_leaf' _ rfl], by rw [endQ_noCat _ rfl, anyEnd_leaf' _ rfl]⟩
  | sep => exact ⟨by rw [startQ_noCat _ rfl, anyStart_leaf' _ rfl], by rw [endQ_noCat _ rfl, anyEnd_leaf' _ rfl]⟩
  | tree => exact ⟨by rw [startQ_noCat _ rfl, anyStart_leaf' _ rfl], by rw [endQ_noCat _ rfl, anyEnd_leaf' _ rfl]⟩
  | zom => exact ⟨by rw [startQ_noCat _ rfl, anyStart_leaf' _ rfl], by rw [endQ_noCat _ rfl, anyEnd_leaf' _ rfl]⟩

/-- a repetition written twice is only possible when `twice` and the bound allows it -/
theorem mem_expU_rep2 {tw : Bool} {sp : Span} {b : Tok} {lo : Nat} {hi : Option Nat} {l : List LK}
    (h : l ∈ expU tw (.rep sp b lo hi)) :
    l ∈ expU tw b ∨ (tw = true ∧ onceOnly hi = false ∧ ∃ x ∈ expU tw b, ∃ y ∈ expU tw b, l = x ++ y) := by
  rcases mem_expU_rep h with h1 | h1
  · exact Or.inl h1
  · by_cases ho : onceOnly hi = true
    · left
      cases hi with
      | none => cases ho
      | some n =>
        simp only [onceOnly, decide_eq_true_eq] at ho
        have : decide (2 ≤ n) = false := by simp only [decide_eq_false_iff_not]; omega
        simpa only [expU, this, Bool.and_false, Bool.false_eq_true, if_false] using h
    · exact Or.inr ⟨h1.1, by simpa using ho, h1.2⟩

mutual
  theorem M_body {p : LK → Bool} (tw : Bool) (hp : RuleFor p) (hr : tw = true → RepSelf p) :
      ∀ (t : Tok) (o : Outer), pshape t = true → catsNoAdj (liftK p) t = true →
      (tw = true → repsSafe (liftK p) t = true) → okBody o t = true →
      ∀ l ∈ expU tw t, noAdj p l = true
    | .lit .., _, _, _, _, _, l, hl => by
      simp only [expU, List.mem_singleton] at hl; subst hl; rfl
    | .cls .., _, _, _, _, _, l, hl => by
      simp only [expU, List.mem_singleton] at hl; subst hl; rfl
    | .one _, _, _, _, _, _, l, hl => by
      simp only [expU, List.mem_singleton] at hl; subst hl; rfl
    | .sep _, _, _, _, _, _, l, hl => by
      simp only [expU, List.mem_singleton] at hl; subst hl; rfl
    | .tree _ _, _, _, _, _, _, l, hl => by
      simp only [expU, List.mem_singleton] at hl; subst hl; rfl
    | .zom .., _, _, _, _, _, l, hl => by
      simp only [expU, List.mem_singleton] at hl; subst hl; rfl
    | .alt _ bs, o, hs, hc, hf, h, l, hl => by
      simp only [pshape, Bool.and_eq_true] at hs
      simp only [catsNoAdj] at hc
      simp only [repsSafe] at hf
      simp only [okBody] at h
      simp only [expU] at hl
      exact M_branches tw hp hr bs o hs.2 hc hf h l hl
    | .cat _ ts, o, hs, hc, hf, h, l, hl => by
      simp only [pshape, Bool.and_eq_true] at hs
      simp only [catsNoAdj, Bool.and_eq_true] at hc
      simp only [repsSafe] at hf
      simp only [okBody, Bool.and_eq_true] at h
      simp only [expU] at hl
      exact M_seq tw hp hr ts o none hs.2 hc.1 hc.2 hf h.2 l hl
    | .rep _ b lo hi, o, hs, hc, hf, h, l, hl => by
      simp only [pshape] at hs
      simp only [catsNoAdj] at hc
      simp only [repsSafe, Bool.and_eq_true, Bool.or_eq_true] at hf
      simp only [okBody, Bool.and_eq_true] at h
      have ih := M_body tw hp hr b o hs hc (fun e => (hf e).2) h.2
      rcases mem_expU_rep2 hl with hl | ⟨htw, honce, x, hx, y, hy, rfl⟩
      · exact ih l hl
      · apply noAdj_append p x y (ih x hx) (ih y hy)
        intro hlast
        cases hh : headP p y with
        | false => rfl
        | true =>
          exfalso
          have hx3 := (sem p tw b hs x hx).2.2 hlast
          have hy2 := (sem p tw b hs y hy).2.1 hh
          rcases (hf htw).1 with (h1 | h1) | h1
          · rw [honce] at h1; cases h1
          · obtain ⟨e1, e2⟩ := anyStart_leafEnds p hs h1
            rw [e2] at hx3; rw [e1] at hy2
            exact termsOk_rep (hr htw) b h.1.2 ⟨hy2, hx3⟩
          · simp [hy2, hx3] at h1
  theorem M_seq {p : LK → Bool} (tw : Bool) (hp : RuleFor p) (hr : tw = true → RepSelf p) :
      ∀ (ts : List Tok) (inh : Outer) (prev : Option Tok), pshapeL true ts = true →
      noAdjT (liftK p) ts = true → catsNoAdjL (liftK p) ts = true →
      (tw = true → repsSafeL (liftK p) ts = true) → okSeq inh prev ts = true →
      ∀ l ∈ expCatU tw ts, noAdj p l = true
    | [], _, _, _, _, _, _, _, l, hl => by
      simp only [expCatU, List.mem_singleton] at hl; subst hl; rfl
    | a :: rest, inh, prev, hs, hn, hc, hf, h, l, hl => by
      simp only [pshapeL, Bool.and_eq_true, Bool.true_and, Bool.not_eq_true'] at hs
      simp only [catsNoAdjL, Bool.and_eq_true] at hc
      simp only [repsSafeL, Bool.and_eq_true] at hf
      rw [okSeq_cons hs.1.1] at h
      simp only [Bool.and_eq_true] at h
      rw [expCatU] at hl
      obtain ⟨x, hx, y, hy, rfl⟩ := mem_prodL.1 hl
      have hnr : noAdjT (liftK p) rest = true := by
        cases rest with
        | nil => rfl
        | cons c r => simp only [noAdjT, Bool.and_eq_true] at hn; exact hn.2
      have ihx := M_body tw hp hr a _ hs.1.2 hc.1 (fun e => (hf e).1) h.1 x hx
      have ihy := M_seq tw hp hr rest inh _ hs.2 hnr hc.2 (fun e => (hf e).2) h.2 y hy
      apply noAdj_append p x y ihx ihy
      intro hlast
      cases rest with
      | nil =>
        simp only [expCatU, List.mem_singleton] at hy; subst hy; rfl
      | cons c rest' =>
        cases hh : headP p y with
        | false => rfl
        | true =>
          exfalso
          simp only [pshapeL, Bool.and_eq_true, Bool.true_and, Bool.not_eq_true'] at hs
          rw [expCatU] at hy
          obtain ⟨yc, hyc, yr, _, rfl⟩ := mem_prodL.1 hy
          obtain ⟨yc1, yc2, _⟩ := sem p tw c hs.2.1.2 yc hyc
          rw [headP_append p yr yc1] at hh
          have hcS := yc2 hh
          have haE := (sem p tw a hs.1.2 x hx).2.2 hlast
          -- the right neighbour of `a` starts with a `p`-token, so `a` itself must be one
          have hqa : liftK p a = true := by
            have := (S_body hp a _ hs.1.2 h.1).2
            rw [endQ_noCat _ hs.1.1] at this
            simp only [List.head?_cons, or_right_some, startsWith] at this
            cases hq : liftK p a with
            | true => rfl
            | false =>
              have := this (fun e => by rw [hq] at e; cases e) haE
              rw [hcS] at this; cases this
          -- the left neighbour of `c` ends with a `p`-token, so `c` itself must be one
          have h2 := h.2
          rw [okSeq_cons hs.2.1.1] at h2
          simp only [Bool.and_eq_true] at h2
          have hqc : liftK p c = true := by
            have := (S_body hp c _ hs.2.1.2 h2.1).1
            rw [startQ_noCat _ hs.2.1.1] at this
            simp only [or_left_some, endsWith, anyEnd_respan] at this
            cases hq : liftK p c with
            | true => rfl
            | false =>
              have := this (fun e => by rw [hq] at e; cases e) hcS
              rw [haE] at this; cases this
          simp only [noAdjT, hqa, hqc, Bool.and_self, Bool.not_true, Bool.false_and] at hn
          cases hn
  theorem M_branches {p : LK → Bool} (tw : Bool) (hp : RuleFor p) (hr : tw = true → RepSelf p) :
      ∀ (bs : List Tok) (o : Outer), pshapeL false bs = true → catsNoAdjL (liftK p) bs = true →
      (tw = true → repsSafeL (liftK p) bs = true) → okBranchesR o bs = true →
      ∀ l ∈ expAltU tw bs, noAdj p l = true
    | [], _, _, _, _, _, l, hl => by simp [expAltU] at hl
    | b :: bs, o, hs, hc, hf, h, l, hl => by
      simp only [pshapeL, Bool.false_and, Bool.not_false, Bool.true_and, Bool.and_eq_true] at hs
      simp only [catsNoAdjL, Bool.and_eq_true] at hc
      simp only [repsSafeL, Bool.and_eq_true] at hf
      simp only [okBranchesR, Bool.and_eq_true] at h
      simp only [expAltU] at hl
      rcases List.mem_append.1 hl with hl | hl
      · exact M_body tw hp hr b o hs.1 hc.1 (fun e => (hf e).1) h.1.2 l hl
      · exact M_branches tw hp hr bs o hs.2 hc.2 (fun e => (hf e).2) h.2 l hl
end


/-! ### the two instances: boundaries (R1) and zero-or-more wildcards (R2) -/

theorem zom_not_boundary {t : Tok} (h : t.isZomT = true) : t.isSepT = false ∧ t.isTreeT = false := by
  cases t <;> simp_all [Tok.isZomT, Tok.isSepT, Tok.isTreeT]

theorem ruleFor_isB : RuleFor LK.isB := by
  intro ts o h
  rw [liftK_isB]
  simp only [checkBranchOk, Bool.and_eq_true, Bool.not_eq_true', Bool.and_eq_false_iff] at h
  obtain ⟨⟨⟨⟨⟨⟨h1, h2⟩, h3⟩, h4⟩, h5⟩, _⟩, _⟩ := h
  cases ts with
  | only t =>
    simp only [Terms.start, Terms.end_] at *
    constructor
    · intro hb
      rcases boundary_cases hb with hb | hb
      · simpa [hb] using h1
      · simp [hb] at h3
    · intro hb
      rcases boundary_cases hb with hb | hb
      · simpa [hb] using h2
      · simp [hb] at h3
  | startEnd s e =>
    simp only [Terms.start, Terms.end_] at *
    constructor
    · intro hb
      rcases boundary_cases hb with hb | hb
      · simpa [hb] using h1
      · simpa [hb] using h4
    · intro hb
      rcases boundary_cases hb with hb | hb
      · simpa [hb] using h2
      · simpa [hb] using h5

theorem ruleFor_isZ : RuleFor LK.isZ := by
  intro ts o h
  rw [liftK_isZ]
  simp only [checkBranchOk, Bool.and_eq_true, Bool.not_eq_true', Bool.and_eq_false_iff] at h
  obtain ⟨⟨_, h6⟩, h7⟩ := h
  exact ⟨fun hb => by simpa [hb] using h6, fun hb => by simpa [hb] using h7⟩

theorem repSelf_isB : RepSelf LK.isB := by
  intro ts o lo hi hb h
  rw [liftK_isB]
  simp only [checkBranchOk, Bool.and_eq_true, Bool.not_eq_true', Bool.and_eq_false_iff] at hb
  obtain ⟨⟨⟨⟨⟨⟨_, _⟩, h3⟩, _⟩, _⟩, _⟩, _⟩ := hb
  simp only [checkRepetitionOk, Bool.and_eq_true, Bool.not_eq_true', Bool.and_eq_false_iff] at h
  obtain ⟨⟨⟨_, r2⟩, r3⟩, _⟩ := h
  cases ts with
  | only t =>
    simp only [Terms.start, Terms.end_] at *
    rintro ⟨hs, _⟩
    rcases boundary_cases hs with hs | hs
    · simp [hs] at r3
    · simp [hs] at h3
  | startEnd s e =>
    simp only [Terms.start, Terms.end_] at *
    rintro ⟨hs, he⟩
    simp [hs, he] at r2

theorem noAdjT_isB : ∀ (ts : List Tok), noAdjT Tok.isBoundaryT ts = noAdjBoundary ts
  | [] => rfl
  | [_] => rfl
  | a :: b :: r => by simp only [noAdjT, noAdjBoundary, noAdjT_isB (b :: r)]

mutual
  /-- the boundary rule inside every concatenation is part of the checker's verdict -/
  theorem okBody_cats : ∀ (t : Tok) (o : Outer), pshape t = true → okBody o t = true →
      catsNoAdj Tok.isBoundaryT t = true
    | .lit .., _, _, _ => rfl
    | .cls .., _, _, _ => rfl
    | .one _, _, _, _ => rfl
    | .sep _, _, _, _ => rfl
    | .tree .., _, _, _ => rfl
    | .zom .., _, _, _ => rfl
    | .alt _ bs, o, hs, h => by
      simp only [pshape, Bool.and_eq_true] at hs
      simp only [okBody] at h
      simp only [catsNoAdj]
      exact okBranches_cats bs o hs.2 h
    | .cat _ ts, o, hs, h => by
      simp only [pshape, Bool.and_eq_true] at hs
      simp only [okBody, Bool.and_eq_true] at h
      simp only [catsNoAdj, Bool.and_eq_true, noAdjT_isB]
      exact ⟨h.1, okSeq_cats ts o none hs.2 h.2⟩
    | .rep _ b _ _, o, hs, h => by
      simp only [pshape] at hs
      simp only [okBody, Bool.and_eq_true] at h
      simp only [catsNoAdj]
      exact okBody_cats b o hs h.2
  theorem okSeq_cats : ∀ (ts : List Tok) (inh : Outer) (prev : Option Tok), pshapeL true ts = true →
      okSeq inh prev ts = true → catsNoAdjL Tok.isBoundaryT ts = true
    | [], _, _, _, _ => rfl
    | a :: rest, inh, prev, hs, h => by
      simp only [pshapeL, Bool.and_eq_true, Bool.true_and, Bool.not_eq_true'] at hs
      rw [okSeq_cons hs.1.1] at h
      simp only [Bool.and_eq_true] at h
      simp only [catsNoAdjL, Bool.and_eq_true]
      exact ⟨okBody_cats a _ hs.1.2 h.1, okSeq_cats rest inh _ hs.2 h.2⟩
  theorem okBranches_cats : ∀ (bs : List Tok) (o : Outer), pshapeL false bs = true →
      okBranchesR o bs = true → catsNoAdjL Tok.isBoundaryT bs = true
    | [], _, _, _ => rfl
    | b :: bs, o, hs, h => by
      simp only [pshapeL, Bool.false_and, Bool.not_false, Bool.true_and, Bool.and_eq_true] at hs
      simp only [okBranchesR, Bool.and_eq_true] at h
      simp only [catsNoAdjL, Bool.and_eq_true]
      exact ⟨okBody_cats b o hs.1 h.1.2, okBranches_cats bs o hs.2 h.2⟩
end

end AdjN

open AdjN

/-- **C06, rule R1, alternations nested to any depth, repetitions in the fragment `repsSafe`**: if
the checker accepts a tree of the parser's shape in which every repetition that can iterate twice
EITHER has a body whose first and last tokens are leaves OR has a body that cannot both start and
end with a boundary (on any path), then NO flat expansion (a branch chosen in every alternation at
every depth, every repetition body written out once and -- where the bound allows -- twice) has two
adjacent component boundaries.

Full statement (FALSE without the fragment, see `rep_nested_counterexample` below):
`pshape t → expTok true t = some es → checkS t = true → es.all (noAdj LK.isB) = true`.
What is missing is not a proof but a rule in the checker: the self-adjacency rule of repetition
bodies (rule.rs `check_repetition`) only looks at leaf terminals. -/
theorem checkS_noAdj_nested_partial (t : Tok) (es : List (List LK)) (hs : pshape t = true)
    (hf : repsSafe Tok.isBoundaryT t = true) (he : expTok true t = some es)
    (h : checkS t = true) : es.all (noAdj LK.isB) = true := by
  rw [expTok_eq true t es he, List.all_eq_true]
  have hc := okBody_cats t _ hs h
  rw [← liftK_isB] at hc hf
  exact M_body true ruleFor_isB (fun _ => repSelf_isB) t _ hs hc (fun _ => hf) h

/-- the same on the syntactic fragment "repetitions whose body's first and last tokens are
leaves" -/
theorem checkS_noAdj_nested_leafReps (t : Tok) (es : List (List LK)) (hs : pshape t = true)
    (hf : leafTerminalReps t = true) (he : expTok true t = some es) (h : checkS t = true) :
    es.all (noAdj LK.isB) = true :=
  checkS_noAdj_nested_partial t es hs (leafTerminalReps_safe _ t hf) he h

/-- the same without the size cap of `expTok` -/
theorem checkS_noAdj_nested_uncapped (t : Tok) (hs : pshape t = true)
    (hf : repsSafe Tok.isBoundaryT t = true) (h : checkS t = true) :
    ∀ l ∈ expU true t, noAdj LK.isB l = true := by
  have hc := okBody_cats t _ hs h
  rw [← liftK_isB] at hc hf
  exact M_body true ruleFor_isB (fun _ => repSelf_isB) t _ hs hc (fun _ => hf) h

/-- **R1 with every repetition body written out once: no fragment at all** (any nesting of
alternations and repetitions) -/
theorem checkS_noAdj_once (t : Tok) (es : List (List LK)) (hs : pshape t = true)
    (he : expTok false t = some es) (h : checkS t = true) : es.all (noAdj LK.isB) = true := by
  rw [expTok_eq false t es he, List.all_eq_true]
  have hc := okBody_cats t _ hs h
  rw [← liftK_isB] at hc
  exact M_body false ruleFor_isB (fun e => by cases e) t _ hs hc (fun e => by cases e) h

/-- **C06, rule R2, any nesting of alternations and repetitions**: if the checker accepts, no flat
expansion has two adjacent zero-or-more wildcards.  `catsNoAdj Tok.isZomT t`: no concatenation
lists two zero-or-more wildcards next to each other -- the parser never produces that (`**` is a
tree wildcard or a parse error), the rule checker does not look for it. -/
theorem checkS_noAdjZom_nested (t : Tok) (es : List (List LK)) (hs : pshape t = true)
    (hz : catsNoAdj Tok.isZomT t = true) (he : expTok false t = some es) (h : checkS t = true) :
    es.all (noAdj LK.isZ) = true := by
  rw [expTok_eq false t es he, List.all_eq_true]
  rw [← liftK_isZ] at hz
  exact M_body false ruleFor_isZ (fun e => by cases e) t _ hs hz (fun e => by cases e) h

/-- completeness direction of R1 as the task states it (the contrapositive): an expansion with
adjacent boundaries forces a rejection -/
theorem adjacent_rejected (t : Tok) (es : List (List LK)) (hs : pshape t = true)
    (hf : repsSafe Tok.isBoundaryT t = true) (he : expTok true t = some es)
    (l : List LK) (hl : l ∈ es) (hadj : noAdj LK.isB l = false) : checkS t = false := by
  cases h : checkS t with
  | false => rfl
  | true =>
    have := List.all_eq_true.1 (checkS_noAdj_nested_partial t es hs hf he h) l hl
    rw [hadj] at this; cases this

/-- for expressions: parse, check, expand -/
theorem build_noAdj_nested (e : Str) (t : Tok) (es : List (List LK)) (hp : parse e = .ok t)
    (hf : repsSafe Tok.isBoundaryT t = true) (he : expTok true t = some es) (h : checkS t = true) :
    es.all (noAdj LK.isB) = true :=
  checkS_noAdj_nested_partial t es (parse_pshape e t hp) hf he h


/-! ### non-vacuity, and the counterexample outside the fragment -/
namespace AdjN
abbrev L (c : Char) : Tok := .lit ⟨0, 0⟩ [c] false
abbrev S : Tok := .sep ⟨0, 0⟩
abbrev Z : Tok := .zom ⟨0, 0⟩ false
abbrev C (ts : List Tok) : Tok := .cat ⟨0, 0⟩ ts
abbrev A (bs : List Tok) : Tok := .alt ⟨0, 0⟩ bs
abbrev R (b : Tok) (lo : Nat) (hi : Option Nat) : Tok := .rep ⟨0, 0⟩ b lo hi

/-- `a/{b{c/,d}e,f}</x{y,z}w:1,2>`: alternations nested two deep, a repetition written twice -/
def ex1 : Tok :=
  C [L 'a', S, A [C [L 'b', A [C [L 'c', S], C [L 'd']], L 'e'], C [L 'f']],
     R (C [S, L 'x', A [C [L 'y'], C [L 'z']], L 'w']) 1 (some 2)]
/-- `a{b{c/,d},e}/f`: the inner branch `c/` meets the `/` that follows the OUTER alternation -/
def ex2 : Tok := C [L 'a', A [C [L 'b', A [C [L 'c', S], C [L 'd']]], C [L 'e']], S, L 'f']
/-- `x<{/a,b}c/:2>` (finding K-RULE-REP-NESTED) -/
def ex3 : Tok := C [L 'x', R (C [A [C [S, L 'a'], C [L 'b']], L 'c', S]) 2 (some 2)]
/-- `x<{a/,b}c:2>`: a branch terminal, but the body cannot END with a boundary -/
def ex3b : Tok := C [L 'x', R (C [A [C [L 'a', S], C [L 'b']], L 'c']) 2 (some 2)]
/-- `a{*b,c{d,*}}e` and `a{b,c{d,*}}*` -/
def ex4 : Tok := C [L 'a', A [C [Z, L 'b'], C [L 'c', A [C [L 'd'], C [Z]]]], L 'e']
def ex5 : Tok := C [L 'a', A [C [L 'b'], C [L 'c', A [C [L 'd'], C [Z]]]], Z]

-- the hypotheses of `checkS_noAdj_nested_partial` are satisfiable on a tree with nesting and a
-- repetition that is written out twice (3 × (2 + 4) = 18 expansions)
example : pshape ex1 = true ∧ leafTerminalReps ex1 = true ∧ repsSafe Tok.isBoundaryT ex1 = true ∧
    checkS ex1 = true ∧
    (expTok true ex1).map List.length = some 18 := by decide
-- ... and the theorem has teeth: two levels down, `c/` next to `/` is found by the checker, as
-- the expansion `a b c / / f` demands
example : pshape ex2 = true ∧ leafTerminalReps ex2 = true ∧ checkS ex2 = false ∧
    (expTok true ex2).map (List.all · (noAdj LK.isB)) = some false := by decide
-- R2: satisfiable, and with teeth
example : pshape ex4 = true ∧ catsNoAdj Tok.isZomT ex4 = true ∧ checkS ex4 = true ∧
    (expTok false ex4).map List.length = some 3 := by decide
example : pshape ex5 = true ∧ catsNoAdj Tok.isZomT ex5 = true ∧ checkS ex5 = false ∧
    (expTok false ex5).map (List.all · (noAdj LK.isZ)) = some false := by decide

-- `checkS_noAdj_once` needs no fragment: it applies to `x<{/a,b}c/:2>` (each body written once)
example : pshape ex3 = true ∧ checkS ex3 = true ∧
    (expTok false ex3).map (List.all · (noAdj LK.isB)) = some true := by decide

/-- **the full-strength statement is FALSE**: without `leafTerminalReps` the checker accepts
`x<{/a,b}c/:2>` although the expansion `x /ac/ /ac/` has two adjacent separators -/
theorem rep_nested_counterexample :
    ¬ (∀ (t : Tok) (es : List (List LK)), pshape t = true → expTok true t = some es →
        checkS t = true → es.all (noAdj LK.isB) = true) := by
  intro h
  have := h ex3 _ (by decide) (by rfl : expTok true ex3 = some
    [[.other, .sepK, .other, .other, .sepK], [.other, .other, .other, .sepK],
     [.other, .sepK, .other, .other, .sepK, .sepK, .other, .other, .sepK],
     [.other, .sepK, .other, .other, .sepK, .other, .other, .sepK],
     [.other, .other, .other, .sepK, .sepK, .other, .other, .sepK],
     [.other, .other, .other, .sepK, .other, .other, .sepK]]) (by decide)
  revert this; decide

example : leafTerminalReps ex3 = false ∧ repsSafe Tok.isBoundaryT ex3 = false := by decide
-- `repsSafe` is strictly weaker than `leafTerminalReps`
example : leafTerminalReps ex3b = false ∧ repsSafe Tok.isBoundaryT ex3b = true ∧
    pshape ex3b = true ∧ checkS ex3b = true := by decide
end AdjN

end Wax
